#!/bin/bash
# tools/both.sh Cxx — regression in both directions for one property: the check
# on the unchanged tree, the behaviour-preserving corpus (must be silent) and
# the seeded changes (must be detected).
cd /verif
id=$1
./check $id quick > /tmp/both_$id.log 2>&1; echo "tree rc=$? $(grep -E '^  (VIOLATED|UNDECIDED)' /tmp/both_$id.log | head -3 | cut -c1-250)"
tools/run_benign.sh /verif/benign $id 2>&1 | cut -c1-${W:-330}
tools/run_seeds.sh $id 2>&1 | grep -v '^DETECTED' | cut -c1-200
echo "seeds detected: $(tools/run_seeds.sh $id 2>&1 | grep -c '^DETECTED')"
