#!/usr/bin/env python3-vt
"""Validate MANIFEST.json and every evidence file against the harness schemas."""
import json, sys, glob, jsonschema
ms = json.load(open('/root/.vp/MANIFEST.schema.json'))
es = json.load(open('/root/.vp/EVIDENCE.schema.json'))
m = json.load(open('/verif/MANIFEST.json'))
jsonschema.validate(m, ms)
ids = [json.loads(l)['id'] for l in open('/verif/properties.jsonl')]
claimed = [c['property_id'] for c in m['checks']]
na = [c['property_id'] for c in m.get('not_applicable', [])]
assert sorted(claimed + na) == sorted(ids), (sorted(claimed+na), ids)
bad = 0
for c in m['checks']:
    try:
        ev = json.load(open(c['evidence_file']))
        jsonschema.validate(ev, es)
        assert ev['level'] == c['level_claimed']['category'], (ev['level'], c['level_claimed'])
        if ev['level'] == 'proof':
            assert ev['coverage']['obligations'] == ev['coverage']['discharged'], 'proof: undischarged'
        print('ok ', c['property_id'], ev['tier'], ev['coverage'].get('obligations'), 'obligations', ev['wall_s'])
    except Exception as e:
        bad += 1
        print('BAD', c['property_id'], str(e)[:200])
print('manifest ok: claimed', len(claimed), 'not_applicable', len(na))
sys.exit(1 if bad else 0)
