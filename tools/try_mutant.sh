#!/bin/bash
# tools/try_mutant.sh <repo-relative file> <line> <Cxx> [filter]  — run the check of
# Cxx on every single-edit mutant of <file> at <line> (development aid).
f=$1; line=$2; prop=$3; filt=${4:-.}
t=$(mktemp -d /tmp/trymut.XXXX)
/verif/bin/mutate /repo/$f $t/m | awk -F'\t' -v l=$line '$2==l' | grep -E -- "$filt" > $t/list
d=$t/wt; git -C /repo worktree add -q --detach $d HEAD
while IFS=$'\t' read idx ln op detail; do
  cp $t/m/$idx.go $d/$f
  out=$(cd /verif && GSA_REPO=$d ./bin/gsa check $prop --tier quick 2>&1); rc=$?
  echo "[$rc] $ln $op $detail :: $(echo "$out" | grep -E '^  (VIOLATED|UNDECIDED)' | head -1 | cut -c1-200)"
  git -C $d checkout -q -- $f
done < $t/list
git -C /repo worktree remove --force $d; rm -rf $t
