#!/bin/bash
# tools/cross_matrix.sh [--with-c01] [seed-dir ...]
# Development aid (not a check): applies every seeded change to a scratch
# worktree and runs the checks of all *other* properties against it.  An alarm
# of check X on a change written to break property Y is either a real
# consequence (shared code) or a false alarm of X; the output is triaged by
# hand.  Prints one line per (seed, check) that fired:
#   CROSS <seed> <check> <first failing ledger line>
cd /verif
GSA=${GSA_BIN:-/verif/bin/gsa}
withc01=0
if [ "$1" = "--with-c01" ]; then withc01=1; shift; fi
seeds="$*"; [ -z "$seeds" ] && seeds=$(ls -d seeded/*)
one() {
  d="$1"; own=$(basename "$d" | cut -d- -f1)
  w=$(mktemp -d /tmp/gsa-cross.XXXXXX)
  git -C /repo worktree add -q --detach "$w" HEAD >/dev/null 2>&1 || { echo "ERR $d worktree"; return; }
  if git -C "$w" apply "/verif/$d/patch.diff" 2>/dev/null; then
    for id in $($GSA list); do
      [ "$id" = "$own" ] && continue
      [ "$id" = C01 ] && [ "$WITHC01" != 1 ] && continue
      out=$(GSA_REPO="$w" $GSA check "$id" --tier quick 2>&1); rc=$?
      if [ $rc -ne 0 ]; then
        echo "CROSS $(basename $d) $id rc=$rc $(echo "$out" | grep -E '^  (VIOLATED|UNDECIDED)|cannot analyse|internal error' | head -2 | tr '\n' ' ' | cut -c1-300)"
      fi
    done
  else
    echo "ERR $d patch does not apply"
  fi
  git -C /repo worktree remove --force "$w" >/dev/null 2>&1; rm -rf "$w"; git -C /repo worktree prune
}
export -f one; export GSA; export WITHC01=$withc01
par=8; [ $withc01 = 1 ] && par=2
echo $seeds | tr ' ' '\n' | xargs -r -P $par -I{} bash -c 'one {}' | sort
