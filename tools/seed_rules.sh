#!/bin/bash
# tools/seed_rules.sh [Cxx ...] — for every seeded change, all rules of its own
# check that report it ("Cxx-x rule rule ..."); a rule that is the only one on a
# line is the sole detector of that change.
cd /verif
one() {
  d="$1"; b=$(basename "$d"); id=${b%%-*}
  out=$(tools/try_patch.sh "$d/patch.diff" "$id" 2>&1)
  echo "$b $(echo "$out" | grep -E '^  (VIOLATED|UNDECIDED)' | awk '{print $2}' | sed 's/:$//' | sort -u | tr '\n' ' ')"
}
export -f one
for d in /verif/seeded/*; do b=$(basename $d); id=${b%%-*}; [ "$id" = C01 ] && continue
  if [ -n "$*" ]; then case " $* " in *" $id "*) ;; *) continue;; esac; fi; echo $d; done | xargs -P 6 -I{} bash -c 'one {}' | sort
