#!/usr/bin/env python3
"""Confirm a seeded change produced by a sub-agent and file it under /verif/seeded.

usage: confirm_seed.py <seed dir, e.g. /tmp/wt/C09/_seed/a> [...]

For each seed: in a fresh scratch worktree of /repo (under /tmp, removed
afterwards) check that (1) the demonstration passes on the unchanged tree,
(2) the patch applies, the module builds, and the full pinned suite still
passes with it, (3) the demonstration fails with it.  Only then is the seed
copied to /verif/seeded/<Cxx>-<x>/ with a meta.json recording what was run.
"""
import json, os, re, shutil, subprocess, sys, tempfile, glob

ENV = dict(os.environ, GOFLAGS="-mod=mod", GOPROXY="off")
ENV.pop("GOTOOLCHAIN", None)
ENV.pop("GOSUMDB", None)


def run(cmd, cwd, timeout=1500):
    p = subprocess.run(cmd, cwd=cwd, env=ENV, shell=True, capture_output=True, text=True, errors="replace", timeout=timeout)
    return p.returncode, (p.stdout + p.stderr)[-3000:]


def confirm(seed):
    m = re.search(r"/(C\d+)/_seed/(\w+)/?$", seed)
    prop, x = m.group(1), m.group(2)
    out = {"property": prop, "seed": x, "source": "independent sub-agent given only the property text and a scratch worktree"}
    where = open(os.path.join(seed, "where.txt")).read() if os.path.exists(os.path.join(seed, "where.txt")) else ""
    cmdline = None
    for line in where.splitlines():
        if "go test" in line:
            cmdline = line.strip().split("#")[0].strip()
            break
    if not cmdline:
        return prop, x, "no go test command in where.txt", None
    pk = re.search(r"(\./[\w/]+)", cmdline)
    pkgdir = pk.group(1).strip("./").rstrip("/")
    demos = [f for f in os.listdir(seed) if f.endswith("_test.go")]
    if not demos or not os.path.exists(os.path.join(seed, "patch.diff")):
        return prop, x, "missing demo or patch", None
    d = tempfile.mkdtemp(prefix="gsa-seed.", dir="/tmp")
    os.rmdir(d)
    subprocess.run(["git", "-C", "/repo", "worktree", "add", "-q", "--detach", d, "HEAD"], check=True, capture_output=True)
    try:
        placed = []
        for i, f in enumerate(demos):
            dst = os.path.join(d, pkgdir, "zz_seed_%s_%s_%d_test.go" % (prop.lower(), x, i))
            shutil.copy(os.path.join(seed, f), dst)
            placed.append(dst)
        steps = []
        rc, log = run(cmdline, d)
        steps.append({"step": "demo on unchanged tree", "cmd": cmdline, "exit": rc})
        if rc != 0:
            return prop, x, "demo FAILS on the unchanged tree:\n" + log, None
        rc, log = run("git apply " + os.path.join(seed, "patch.diff"), d)
        if rc != 0:
            return prop, x, "patch does not apply:\n" + log, None
        rc, log = run(cmdline, d)
        steps.append({"step": "demo with the change", "cmd": cmdline, "exit": rc, "tail": log[-600:]})
        if rc == 0:
            return prop, x, "demo PASSES with the change", None
        for f in placed:
            os.remove(f)
        rc, log = run("go build ./... && go vet ./%s/" % pkgdir, d)
        steps.append({"step": "build + vet with the change", "cmd": "go build ./... && go vet ./%s/" % pkgdir, "exit": rc})
        if rc != 0:
            return prop, x, "build/vet fails with the change:\n" + log, None
        rc, log = run("go test -mod=mod -vet=off -count=1 -timeout 25m ./...", d)
        steps.append({"step": "pinned suite with the change", "cmd": "go test -mod=mod -vet=off -count=1 -timeout 25m ./...", "exit": rc})
        if rc != 0:
            return prop, x, "existing suite FAILS with the change:\n" + log, None
        dst = "/verif/seeded/%s-%s" % (prop, x)
        shutil.rmtree(dst, ignore_errors=True)
        os.makedirs(dst)
        shutil.copy(os.path.join(seed, "patch.diff"), dst)
        for f in demos:
            shutil.copy(os.path.join(seed, f), dst)
        notes = ""
        if os.path.exists(os.path.join(seed, "notes.md")):
            shutil.copy(os.path.join(seed, "notes.md"), dst)
            notes = open(os.path.join(seed, "notes.md")).read()
        out.update({
            "breaks_property": prop,
            "demo_package_dir": pkgdir,
            "demo_files": demos,
            "demo_cmd": cmdline,
            "needs_to_manifest": "see notes.md (written by the author of the change)",
            "confirmed": steps,
            "repo_head": subprocess.run(["git", "-C", "/repo", "rev-parse", "HEAD"], capture_output=True, text=True).stdout.strip(),
        })
        json.dump(out, open(os.path.join(dst, "meta.json"), "w"), indent=1)
        return prop, x, "confirmed", dst
    finally:
        subprocess.run(["git", "-C", "/repo", "worktree", "remove", "--force", d], capture_output=True)
        shutil.rmtree(d, ignore_errors=True)
        subprocess.run(["git", "-C", "/repo", "worktree", "prune"], capture_output=True)


if __name__ == "__main__":
    for s in sys.argv[1:]:
        try:
            prop, x, msg, dst = confirm(s.rstrip("/"))
        except Exception as e:  # noqa
            prop, x, msg, dst = s, "", "error: %r" % e, None
        print("%s-%s: %s" % (prop, x, msg.splitlines()[0] if msg else ""), flush=True)
        if dst is None and msg:
            print(msg[-1500:], flush=True)
