#!/bin/bash
# tools/run_benign.sh [dir] [Cxx ...] — false-alarm test: every behaviour-preserving
# change in <dir>/Cxx-k.diff (default /verif/benign) is applied to a scratch
# worktree and the check of its property must stay silent.
cd /verif
dir=${1:-/verif/benign}; shift
props="$*"
one() {
  f="$1"; b=$(basename "$f" .diff); id=${b%%-*}
  if [ -n "$GSA_DEADLINE" ] && [ "$(date +%s)" -ge "$GSA_DEADLINE" ]; then echo "NOTRUN   $b (self-test time budget used up)"; return; fi
  out=$(tools/try_patch.sh "$f" "$id" 2>&1); rc=$?
  if [ $rc -eq 0 ]; then echo "SILENT   $b"
  elif [ $rc -eq 1 ]; then echo "ALARM    $b: $(echo "$out" | grep -E '^  (VIOLATED|UNDECIDED)' | head -3 | tr '\n' ' ' | cut -c1-400)"
  else echo "ERROR    $b rc=$rc: $(echo "$out" | tail -2 | tr '\n' ' ' | cut -c1-200)"; fi
}
export -f one
ls $dir/*.diff | while read f; do
  b=$(basename "$f" .diff); id=${b%%-*}
  if [ -n "$props" ]; then case " $props " in *" $id "*) ;; *) continue;; esac; fi
  echo "$f"
done | { tee /tmp/benign.list | grep -v '/C01-' | xargs -r -P 4 -I{} bash -c 'one {}'; grep '/C01-' /tmp/benign.list | xargs -r -P 1 -I{} bash -c 'one {}'; } | sort
