#!/bin/bash
# tools/run_seeds.sh [Cxx ...]  — run each seeded change through the check of its
# property (scratch worktree, removed afterwards).  Prints DETECTED / MISSED.
cd /verif
props="$*"
one() {
  d="$1"; id=$(basename "$d" | cut -d- -f1)
  if [ -n "$GSA_DEADLINE" ] && [ "$(date +%s)" -ge "$GSA_DEADLINE" ]; then echo "NOTRUN   $(basename $d) (self-test time budget used up)"; return; fi
  if ! ./bin/gsa list | grep -qx "$id"; then echo "SKIP     $(basename $d) (no check for $id)"; return; fi
  out=$(tools/try_patch.sh "/verif/$d/patch.diff" "$id" 2>&1); rc=$?
  if [ $rc -eq 1 ]; then
    echo "DETECTED $(basename $d): $(echo "$out" | grep -E '^  (VIOLATED|UNDECIDED)' | head -1 | cut -c1-220)"
  elif [ $rc -eq 0 ]; then echo "MISSED   $(basename $d)"
  else echo "ERROR    $(basename $d) rc=$rc: $(echo "$out" | tail -2 | tr '\n' ' ' | cut -c1-200)"; fi
}
export -f one
sel() {
  ls -d seeded/* | awk '{print length($0), $0}' | sort -k1,1nr -k2,2r | cut -d' ' -f2 | while read d; do
    id=$(basename "$d" | cut -d- -f1)
    if [ -n "$props" ]; then case " $props " in *" $id "*) ;; *) continue;; esac; fi
    echo "$d"
  done
}
# C01 runs eight analysis workers of its own (several GB each): two at a time
{ sel | grep -v '/C01-' | xargs -r -P 6 -I{} bash -c 'one {}'
  sel | grep '/C01-' | xargs -r -P 2 -I{} bash -c 'one {}'; } | sort
