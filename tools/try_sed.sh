#!/bin/bash
# tools/try_sed.sh <Cxx> <file relative to repo> <sed expression> — apply a one-line edit to a scratch worktree and run the check (development aid)
id="$1"; f="$2"; e="$3"
d=$(mktemp -d /tmp/gsa-scratch.XXXXXX)
git -C /repo worktree add -q --detach "$d" HEAD >/dev/null 2>&1 || exit 3
trap 'git -C /repo worktree remove --force "$d" >/dev/null 2>&1; rm -rf "$d"; git -C /repo worktree prune' EXIT
sed -i "$e" "$d/$f"
if git -C "$d" diff --quiet; then echo "sed changed nothing"; exit 3; fi
(cd "$d" && GOFLAGS=-mod=mod GOPROXY=off go build ./... 2>&1 | head -3)
cd /verif && GSA_REPO="$d" ./bin/gsa check "$id" --tier quick 2>&1 | grep -E "^  (VIOLATED|UNDECIDED)|^gsa: property" | cut -c1-${W:-300}
