#!/usr/bin/env python3
"""Self-test of the checks by systematic single-edit mutants (development aid,
not part of any check).

usage: mutants.py [-j N] [--props C04,C05] <repo-relative file.go> ...

For every mutant written by bin/mutate: build the package, run the package's
own tests (killed / survived), then run the check of every property anchored
in that file against the mutated tree (GSA_REPO=<scratch worktree>).  One TSV
line per mutant on stdout:

  file  idx  line  operator  detail  tests  Cxx=D|M ...

`killed` mutants that every anchored check misses are candidate holes;
`survived` mutants that a check reports are either untested property
violations or false alarms — both lists are triaged by hand.
"""
import json, os, subprocess, sys, tempfile, shutil, threading, queue

ENV = dict(os.environ, GOFLAGS="-mod=mod", GOPROXY="off")
ENV.pop("GOTOOLCHAIN", None); ENV.pop("GOSUMDB", None)

def sh(cmd, cwd, timeout, env=ENV):
    try:
        p = subprocess.run(cmd, cwd=cwd, env=env, shell=True, capture_output=True, text=True, timeout=timeout)
        return p.returncode, p.stdout + p.stderr
    except subprocess.TimeoutExpired:
        return 124, "TIMEOUT"

skip01 = False

def main():
    args = sys.argv[1:]
    global skip01
    jobs, only = 8, None
    files = []
    while args:
        a = args.pop(0)
        if a == "-j": jobs = int(args.pop(0))
        elif a == "--props": only = set(args.pop(0).split(","))
        elif a == "--no-c01": skip01 = True
        else: files.append(a)
    anchors = {}
    for l in open("/verif/properties.jsonl"):
        p = json.loads(l)
        for f in p["anchors"]["files"]:
            anchors.setdefault(f, []).append(p["id"])
    work = queue.Queue()
    tmp = tempfile.mkdtemp(prefix="mutants.", dir="/tmp")
    for f in files:
        out = os.path.join(tmp, f.replace("/", "_"))
        rc, listing = sh("/verif/bin/mutate /repo/%s %s" % (f, out), "/verif", 120)
        for line in listing.splitlines():
            parts = line.split("\t")
            if len(parts) == 4:
                work.put((f, out, parts))
    lock = threading.Lock()
    def worker(k):
        d = os.path.join(tmp, "wt%d" % k)
        subprocess.run(["git", "-C", "/repo", "worktree", "add", "-q", "--detach", d, "HEAD"], check=True, capture_output=True)
        try:
            while True:
                try:
                    f, out, (idx, line, op, detail) = work.get_nowait()
                except queue.Empty:
                    return
                pkg = os.path.dirname(f)
                dst = os.path.join(d, f)
                orig = open(dst, "rb").read()
                shutil.copy(os.path.join(out, idx + ".go"), dst)
                try:
                    rc, log = sh("go build ./%s/ && go vet ./%s/" % (pkg, pkg), d, 300)
                    if rc != 0:
                        status = "nocompile"
                    else:
                        rc, log = sh("go test -count=1 -timeout 60s ./%s/" % pkg, d, 200)
                        if rc == 0: status = "survived"
                        elif "panic:" in log or "TIMEOUT" in log or "timed out" in log: status = "killed-panic"
                        else: status = "killed"
                    res = []
                    if status != "nocompile":
                        for p in anchors.get(f, []):
                            if only and p not in only: continue
                            if p == "C01" and (skip01 or (not only and status != "killed-panic")):
                                continue
                            rc, log = sh("./bin/gsa check %s --tier quick" % p, "/verif", 900, dict(ENV, GSA_REPO=d))
                            rule = ""
                            if rc == 1:
                                for ln in log.splitlines():
                                    if ln.startswith("  VIOLATED") or ln.startswith("  UNDECIDED"):
                                        rule = ln.split()[1].rstrip(":")
                                        break
                            res.append("%s=%s%s" % (p, {0: "M", 1: "D"}.get(rc, "E%d" % rc), (":" + rule) if rule else ""))
                    with lock:
                        print("\t".join([f, idx, line, op, detail, status] + res), flush=True)
                finally:
                    open(dst, "wb").write(orig)
        finally:
            subprocess.run(["git", "-C", "/repo", "worktree", "remove", "--force", d], capture_output=True)
    ts = [threading.Thread(target=worker, args=(k,)) for k in range(jobs)]
    for t in ts: t.start()
    for t in ts: t.join()
    subprocess.run(["git", "-C", "/repo", "worktree", "prune"], capture_output=True)
    shutil.rmtree(tmp, ignore_errors=True)

main()
