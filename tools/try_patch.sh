#!/bin/sh
# tools/try_patch.sh <patch.diff | -R:commit> <Cxx> [tier]
# Applies a patch (or reverts a commit with -R:<sha>) to a scratch worktree of
# /repo outside /repo and /verif, runs the check against it and removes it.
# Exit code is the check's exit code (1 = the change was detected).
set -u
patch="$1"; id="$2"; tier="${3:-quick}"
d=$(mktemp -d /tmp/gsa-scratch.XXXXXX)
git -C /repo worktree add -q --detach "$d" HEAD >/dev/null 2>&1 || { echo "worktree failed"; exit 3; }
trap 'git -C /repo worktree remove --force "$d" >/dev/null 2>&1; rm -rf "$d"; git -C /repo worktree prune' EXIT
case "$patch" in
  -R:*) git -C "$d" revert --no-commit "${patch#-R:}" >/dev/null 2>&1 || { echo "revert failed"; exit 3; } ;;
  *) git -C "$d" apply "$patch" || { echo "patch does not apply"; exit 3; } ;;
esac
cd /verif
if [ ! -x bin/gsa ] || [ -n "$(find sa -name '*.go' -newer bin/gsa 2>/dev/null | head -1)" ]; then
  (cd sa && env -u GOTOOLCHAIN -u GOSUMDB GOFLAGS=-mod=mod GOPROXY=off GOWORK=off go build -o ../bin/gsa.new.$$ ./cmd/gsa && mv ../bin/gsa.new.$$ ../bin/gsa) || { echo "gsa: build failed"; exit 3; }
fi
GSA_REPO="$d" ./bin/gsa check "$id" --tier "$tier"
