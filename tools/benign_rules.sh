#!/bin/bash
# tools/benign_rules.sh [Cxx ...] — for every behaviour-preserving change, the
# rules that (wrongly) report it: "Cxx-k rule rule ..."
cd /verif
one() {
  f="$1"; b=$(basename "$f" .diff); id=${b%%-*}
  out=$(tools/try_patch.sh "$f" "$id" 2>&1)
  echo "$b $(echo "$out" | grep -E '^  (VIOLATED|UNDECIDED)' | awk '{print $2}' | sed 's/:$//' | sort -u | tr '\n' ' ')"
}
export -f one
for f in /verif/benign/*.diff; do b=$(basename $f .diff); id=${b%%-*}; [ "$id" = C01 ] && continue
  if [ -n "$*" ]; then case " $* " in *" $id "*) ;; *) continue;; esac; fi; echo $f; done | xargs -P 6 -I{} bash -c 'one {}' | sort
