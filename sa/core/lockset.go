package core

import (
	"sort"
	"strings"

	"golang.org/x/tools/go/ssa"
)

// LockInfo is the result of the lockset dataflow of one function: for every
// instruction, the locks held on every path (Must) and on some path (May)
// just before it executes.  Locks are named by the access path of the mutex
// ("c.lock", "h.mu").
type LockInfo struct {
	Must     map[ssa.Instruction]map[string]bool
	May      map[ssa.Instruction]map[string]bool
	Deferred map[string]bool // locks released by a deferred Unlock
	Ops      []LockOp
}

// LockOp is one Lock/Unlock call site.
type LockOp struct {
	Instr ssa.Instruction
	Lock  string
	Op    string // "Lock", "Unlock", "RLock", "RUnlock"
	Defer bool
}

var lockMethods = map[string]string{
	"(*sync.Mutex).Lock": "Lock", "(*sync.Mutex).Unlock": "Unlock",
	"(*sync.RWMutex).Lock": "Lock", "(*sync.RWMutex).Unlock": "Unlock",
	"(*sync.RWMutex).RLock": "RLock", "(*sync.RWMutex).RUnlock": "RUnlock",
}

// lockOpOf classifies a call instruction.
func lockOpOf(in ssa.Instruction) (LockOp, bool) {
	ci, ok := in.(ssa.CallInstruction)
	if !ok {
		return LockOp{}, false
	}
	c := ci.Common()
	op, ok := lockMethods[CalleeName(c)]
	if !ok || len(c.Args) == 0 {
		return LockOp{}, false
	}
	_, isDefer := in.(*ssa.Defer)
	return LockOp{Instr: in, Lock: lockName(c.Args[0]), Op: op, Defer: isDefer}, true
}

func lockName(v ssa.Value) string {
	p := PathOf(v)
	return Describe(p.Base) + "." + strings.Join(p.Fields, ".")
}

func copySet(m map[string]bool) map[string]bool {
	out := make(map[string]bool, len(m))
	for k := range m {
		out[k] = true
	}
	return out
}

func setEq(a, b map[string]bool) bool {
	if len(a) != len(b) {
		return false
	}
	for k := range a {
		if !b[k] {
			return false
		}
	}
	return true
}

// Locksets runs the must/may lockset analysis on fn.
func Locksets(fn *ssa.Function) *LockInfo {
	li := &LockInfo{Must: map[ssa.Instruction]map[string]bool{}, May: map[ssa.Instruction]map[string]bool{}, Deferred: map[string]bool{}}
	if len(fn.Blocks) == 0 {
		return li
	}
	type st struct{ must, may map[string]bool }
	out := map[*ssa.BasicBlock]*st{}
	transfer := func(b *ssa.BasicBlock, in *st, record bool) *st {
		cur := &st{copySet(in.must), copySet(in.may)}
		for _, ins := range b.Instrs {
			if record {
				li.Must[ins] = copySet(cur.must)
				li.May[ins] = copySet(cur.may)
			}
			op, ok := lockOpOf(ins)
			if !ok {
				continue
			}
			if record {
				li.Ops = append(li.Ops, op)
			}
			if op.Defer {
				if op.Op == "Unlock" || op.Op == "RUnlock" {
					li.Deferred[op.Lock] = true
				}
				continue
			}
			switch op.Op {
			case "Lock", "RLock":
				cur.must[op.Lock] = true
				cur.may[op.Lock] = true
			case "Unlock", "RUnlock":
				delete(cur.must, op.Lock)
				delete(cur.may, op.Lock)
			}
		}
		return cur
	}
	inOf := func(b *ssa.BasicBlock) *st {
		if b == fn.Blocks[0] {
			return &st{map[string]bool{}, map[string]bool{}}
		}
		var must map[string]bool
		may := map[string]bool{}
		for _, p := range b.Preds {
			o := out[p]
			if o == nil {
				continue
			}
			if must == nil {
				must = copySet(o.must)
			} else {
				for k := range must {
					if !o.must[k] {
						delete(must, k)
					}
				}
			}
			for k := range o.may {
				may[k] = true
			}
		}
		if must == nil {
			return nil // no predecessor computed yet
		}
		return &st{must, may}
	}
	for iter := 0; iter < 50; iter++ {
		changed := false
		for _, b := range fn.Blocks {
			in := inOf(b)
			if in == nil {
				continue
			}
			o := transfer(b, in, false)
			if old := out[b]; old == nil || !setEq(old.must, o.must) || !setEq(old.may, o.may) {
				out[b] = o
				changed = true
			}
		}
		if !changed {
			break
		}
	}
	for _, b := range fn.Blocks {
		if in := inOf(b); in != nil {
			transfer(b, in, true)
		}
	}
	return li
}

// Held renders a lockset.
func Held(m map[string]bool) string {
	var ks []string
	for k := range m {
		ks = append(ks, k)
	}
	sort.Strings(ks)
	return "{" + strings.Join(ks, ",") + "}"
}

// ReachAvoiding reports whether `to` can execute after `from` along a path
// that does not execute `avoid` in between.
func ReachAvoiding(from, to, avoid ssa.Instruction) bool {
	// positions inside blocks
	fb, tb := from.Block(), to.Block()
	fi, ti := idx(from), idx(to)
	ai := -1
	var ab *ssa.BasicBlock
	if avoid != nil {
		ab, ai = avoid.Block(), idx(avoid)
	}
	// within the start block after `from`
	blockedAfter := func(b *ssa.BasicBlock, start, end int) bool { // avoid in (start,end)
		return ab == b && ai > start && ai < end
	}
	if fb == tb && fi < ti && !blockedAfter(fb, fi, ti) {
		return true
	}
	if blockedAfter(fb, fi, len(fb.Instrs)) {
		return false
	}
	seen := map[*ssa.BasicBlock]bool{}
	stack := append([]*ssa.BasicBlock(nil), fb.Succs...)
	for len(stack) > 0 {
		b := stack[len(stack)-1]
		stack = stack[:len(stack)-1]
		if seen[b] {
			continue
		}
		seen[b] = true
		if b == tb {
			if !(ab == b && ai < ti) {
				return true
			}
			// avoid precedes `to` in this block: this entry is blocked
			continue
		}
		if ab == b {
			continue
		}
		stack = append(stack, b.Succs...)
	}
	return false
}
