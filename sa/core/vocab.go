package core

import (
	_ "embed"
	"strings"
)

// vocab.txt lists the golibs functions that exist in the tree the rules were
// written against (one FuncName per line, every build configuration).  It is
// only used to decide which helpers are *normalised away* by inlining: a
// function that is not listed cannot be named by any rule, so merging it into
// its callers loses nothing.  Regenerate with `gsa vocab > sa/core/vocab.txt`.
//
//go:embed vocab.txt
var vocabText string

var vocab map[string]bool

// KnownFunc reports whether the function name is in the rules' vocabulary.
func KnownFunc(name string) bool {
	if vocab == nil {
		vocab = map[string]bool{}
		for _, l := range strings.Split(vocabText, "\n") {
			if l = strings.TrimSpace(l); l != "" && !strings.HasPrefix(l, "#") {
				vocab[l] = true
			}
		}
	}
	return vocab[name]
}
