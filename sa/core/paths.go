package core

import (
	"golang.org/x/tools/go/ssa"
)

// CountOnPaths returns the minimum and maximum number of event instructions
// executed on the paths from `from` (exclusive; nil = function entry) to `to`
// (exclusive), following forward edges only (back edges are cut, so inside a
// loop body the numbers are per iteration).  ok is false when `to` is not
// reachable that way.
func CountOnPaths(fn *ssa.Function, from, to ssa.Instruction, isEvent func(ssa.Instruction) bool) (minN, maxN int, ok bool) {
	type res struct {
		min, max int
		ok       bool
	}
	memo := map[*ssa.BasicBlock]*res{}
	var startB *ssa.BasicBlock
	startI := 0
	if from == nil {
		startB = fn.Blocks[0]
	} else {
		startB, startI = from.Block(), idx(from)+1
	}
	toB, toI := to.Block(), idx(to)
	countIn := func(b *ssa.BasicBlock, lo, hi int) int {
		n := 0
		for i := lo; i < hi && i < len(b.Instrs); i++ {
			if isEvent(b.Instrs[i]) {
				n++
			}
		}
		return n
	}
	// walk: number of events from the start of block b to `to`
	var walk func(b *ssa.BasicBlock) *res
	onStack := map[*ssa.BasicBlock]bool{}
	walk = func(b *ssa.BasicBlock) *res {
		if r, ok := memo[b]; ok {
			return r
		}
		if b == toB {
			n := countIn(b, 0, toI)
			r := &res{n, n, true}
			memo[b] = r
			return r
		}
		onStack[b] = true
		r := &res{1 << 30, -1, false}
		here := countIn(b, 0, len(b.Instrs))
		for _, s := range b.Succs {
			if s.Dominates(b) || onStack[s] { // back edge
				continue
			}
			sr := walk(s)
			if !sr.ok {
				continue
			}
			r.ok = true
			r.min = min(r.min, here+sr.min)
			r.max = max(r.max, here+sr.max)
		}
		onStack[b] = false
		memo[b] = r
		return r
	}
	if startB == toB && startI <= toI {
		n := countIn(startB, startI, toI)
		return n, n, true
	}
	best := &res{1 << 30, -1, false}
	here := countIn(startB, startI, len(startB.Instrs))
	for _, s := range startB.Succs {
		if s.Dominates(startB) && s != toB {
			continue
		}
		if s.Dominates(startB) && s == toB {
			// to is in the loop head reached by the back edge
			n := countIn(s, 0, toI)
			best.ok = true
			best.min = min(best.min, here+n)
			best.max = max(best.max, here+n)
			continue
		}
		sr := walk(s)
		if !sr.ok {
			continue
		}
		best.ok = true
		best.min = min(best.min, here+sr.min)
		best.max = max(best.max, here+sr.max)
	}
	return best.min, best.max, best.ok
}

// Returns lists the return instructions of fn.
func Returns(fn *ssa.Function) []*ssa.Return {
	var out []*ssa.Return
	EachInstr(fn, func(in ssa.Instruction) {
		if r, ok := in.(*ssa.Return); ok {
			out = append(out, r)
		}
	})
	return out
}

// InLoop reports whether the instruction is inside some natural loop.
func InLoop(in ssa.Instruction) bool {
	b := in.Block()
	for h := range LoopHeads(b.Parent()) {
		if LoopBody(h)[b] {
			return true
		}
	}
	return false
}

// FeasibleFollow reports whether b can execute after a on a path along which
// every branch on an *immutable atom* goes the same way each time it is met
// (atom names the atom a condition tests, e.g. a configuration flag that is
// never written after construction, with the truth value that makes the
// condition true).  The branch outcomes already known at a count too.  Plain
// reachability ignores that `if !flag { return }` at the top of a loop body
// cannot be taken in a later iteration than one in which it was not taken.
func FeasibleFollow(fs *FactSet, a, b ssa.Instruction, atom func(cond ssa.Value) (name string, positive bool, ok bool)) bool {
	type key struct {
		blk *ssa.BasicBlock
		asg string
	}
	render := func(m map[string]bool) string {
		var ks []string
		for k := range m {
			ks = append(ks, k)
		}
		// small maps: insertion sort
		for i := 1; i < len(ks); i++ {
			for j := i; j > 0 && ks[j] < ks[j-1]; j-- {
				ks[j], ks[j-1] = ks[j-1], ks[j]
			}
		}
		s := ""
		for _, k := range ks {
			if m[k] {
				s += k + "=1;"
			} else {
				s += k + "=0;"
			}
		}
		return s
	}
	init := map[string]bool{}
	for _, f := range fs.At(a.Block()) {
		if n, pos, ok := atom(f.Cond); ok {
			init[n] = f.Truth == pos
		}
	}
	if a.Block() == b.Block() && idx(a) < idx(b) {
		return true
	}
	seen := map[key]bool{}
	type item struct {
		blk *ssa.BasicBlock
		asg map[string]bool
	}
	var stack []item
	push := func(blk *ssa.BasicBlock, asg map[string]bool) {
		k := key{blk, render(asg)}
		if !seen[k] {
			seen[k] = true
			stack = append(stack, item{blk, asg})
		}
	}
	succs := func(blk *ssa.BasicBlock, asg map[string]bool) {
		iff, ok := blk.Instrs[len(blk.Instrs)-1].(*ssa.If)
		if !ok || blk.Succs[0] == blk.Succs[1] {
			for _, s := range blk.Succs {
				push(s, asg)
			}
			return
		}
		n, pos, isAtom := atom(iff.Cond)
		if !isAtom {
			push(blk.Succs[0], asg)
			push(blk.Succs[1], asg)
			return
		}
		if v, known := asg[n]; known {
			if v == pos {
				push(blk.Succs[0], asg)
			} else {
				push(blk.Succs[1], asg)
			}
			return
		}
		for i, val := range []bool{pos, !pos} {
			m := make(map[string]bool, len(asg)+1)
			for k, v := range asg {
				m[k] = v
			}
			m[n] = val
			push(blk.Succs[i], m)
		}
	}
	succs(a.Block(), init)
	for len(stack) > 0 {
		it := stack[len(stack)-1]
		stack = stack[:len(stack)-1]
		if it.blk == b.Block() {
			return true
		}
		succs(it.blk, it.asg)
	}
	return false
}
