package core

import (
	"golang.org/x/tools/go/ssa"
)

// CountOnPaths returns the minimum and maximum number of event instructions
// executed on the paths from `from` (exclusive; nil = function entry) to `to`
// (exclusive), following forward edges only (back edges are cut, so inside a
// loop body the numbers are per iteration).  ok is false when `to` is not
// reachable that way.
func CountOnPaths(fn *ssa.Function, from, to ssa.Instruction, isEvent func(ssa.Instruction) bool) (minN, maxN int, ok bool) {
	type res struct {
		min, max int
		ok       bool
	}
	memo := map[*ssa.BasicBlock]*res{}
	var startB *ssa.BasicBlock
	startI := 0
	if from == nil {
		startB = fn.Blocks[0]
	} else {
		startB, startI = from.Block(), idx(from)+1
	}
	toB, toI := to.Block(), idx(to)
	countIn := func(b *ssa.BasicBlock, lo, hi int) int {
		n := 0
		for i := lo; i < hi && i < len(b.Instrs); i++ {
			if isEvent(b.Instrs[i]) {
				n++
			}
		}
		return n
	}
	// walk: number of events from the start of block b to `to`
	var walk func(b *ssa.BasicBlock) *res
	onStack := map[*ssa.BasicBlock]bool{}
	walk = func(b *ssa.BasicBlock) *res {
		if r, ok := memo[b]; ok {
			return r
		}
		if b == toB {
			n := countIn(b, 0, toI)
			r := &res{n, n, true}
			memo[b] = r
			return r
		}
		onStack[b] = true
		r := &res{1 << 30, -1, false}
		here := countIn(b, 0, len(b.Instrs))
		for _, s := range b.Succs {
			if s.Dominates(b) || onStack[s] { // back edge
				continue
			}
			sr := walk(s)
			if !sr.ok {
				continue
			}
			r.ok = true
			r.min = min(r.min, here+sr.min)
			r.max = max(r.max, here+sr.max)
		}
		onStack[b] = false
		memo[b] = r
		return r
	}
	if startB == toB && startI <= toI {
		n := countIn(startB, startI, toI)
		return n, n, true
	}
	best := &res{1 << 30, -1, false}
	here := countIn(startB, startI, len(startB.Instrs))
	for _, s := range startB.Succs {
		if s.Dominates(startB) && s != toB {
			continue
		}
		if s.Dominates(startB) && s == toB {
			// to is in the loop head reached by the back edge
			n := countIn(s, 0, toI)
			best.ok = true
			best.min = min(best.min, here+n)
			best.max = max(best.max, here+n)
			continue
		}
		sr := walk(s)
		if !sr.ok {
			continue
		}
		best.ok = true
		best.min = min(best.min, here+sr.min)
		best.max = max(best.max, here+sr.max)
	}
	return best.min, best.max, best.ok
}

// Returns lists the return instructions of fn.
func Returns(fn *ssa.Function) []*ssa.Return {
	var out []*ssa.Return
	EachInstr(fn, func(in ssa.Instruction) {
		if r, ok := in.(*ssa.Return); ok {
			out = append(out, r)
		}
	})
	return out
}

// InLoop reports whether the instruction is inside some natural loop.
func InLoop(in ssa.Instruction) bool {
	b := in.Block()
	for h := range LoopHeads(b.Parent()) {
		if LoopBody(h)[b] {
			return true
		}
	}
	return false
}
