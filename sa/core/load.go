// Package core holds what every rule shares: the loader for the type-checked
// program and its SSA form, navigation helpers over go/ssa, and the obligation
// ledger from which the evidence files are written.
package core

import (
	"bytes"
	"fmt"
	"go/ast"
	"go/printer"
	"go/token"
	"go/types"
	"os"
	"path/filepath"
	"sort"
	"strings"

	"golang.org/x/tools/go/packages"
	"golang.org/x/tools/go/ssa"
	"golang.org/x/tools/go/ssa/ssautil"
)

// ModPath is the import path prefix of the analysed module.
const ModPath = "github.com/AdguardTeam/golibs"

// Prog is one loaded build configuration of the repository.
type Prog struct {
	Root   string // directory of the analysed tree (normally /repo)
	GOOS   string
	GOARCH string
	Tests  bool

	Fset  *token.FileSet
	Pkgs  []*packages.Package
	ByID  map[string]*packages.Package // import path -> package (non-test variant)
	SSA   *ssa.Program
	SPkgs map[string]*ssa.Package

	funcs    map[string][]*ssa.Function // import path -> all source functions incl. methods, closures
	fileText map[string][]byte

	// Normalisation (inline.go): helpers outside the rules' vocabulary that
	// were merged into their callers.  Absorbed ones have no caller left and
	// are hidden from Funcs.
	CanonLog  []string // private identifiers renamed back to their known names (canon.go)
	Inlined   map[*ssa.Function]int
	Absorbed  map[*ssa.Function]bool
	InlineLog []string
}

// LoadOpts selects a build configuration.
type LoadOpts struct {
	Root   string
	GOOS   string
	GOARCH string
	Tests  bool
	// NoInline switches the normalisation off (debugging, vocabulary listing).
	NoInline bool
}

// RepoRoot returns the tree to analyse: $GSA_REPO or /repo.
func RepoRoot() string {
	if r := os.Getenv("GSA_REPO"); r != "" {
		return r
	}
	return "/repo"
}

// Load type-checks ./... of the tree and builds SSA.  Any load or type error is
// returned: a tree that cannot be analysed is never a silent pass.
func Load(o LoadOpts) (*Prog, error) {
	if o.Root == "" {
		o.Root = RepoRoot()
	}
	env := append(os.Environ(), "GOFLAGS=-mod=mod", "GOPROXY=off", "GOWORK=off", "CGO_ENABLED=0")
	if o.GOOS != "" {
		env = append(env, "GOOS="+o.GOOS)
	}
	if o.GOARCH != "" {
		env = append(env, "GOARCH="+o.GOARCH)
	}
	cfg := &packages.Config{
		Mode:  packages.LoadAllSyntax,
		Dir:   o.Root,
		Env:   env,
		Tests: o.Tests,
	}
	pkgs, err := packages.Load(cfg, "./...")
	if err != nil {
		return nil, fmt.Errorf("load: %w", err)
	}
	modErrors := func(pkgs []*packages.Package) []string {
		var errs []string
		packages.Visit(pkgs, nil, func(p *packages.Package) {
			if !strings.HasPrefix(p.PkgPath, ModPath) {
				return
			}
			for _, e := range p.Errors {
				errs = append(errs, e.Error())
			}
		})
		return errs
	}
	if errs := modErrors(pkgs); len(errs) > 0 {
		return nil, fmt.Errorf("type-check failed: %s", strings.Join(errs, "; "))
	}
	// renamed private identifiers get their known names back (canon.go)
	var canonLog []string
	if !o.NoInline && os.Getenv("GSA_NOCANON") == "" {
		if overlay, log := canonOverlay(pkgs); overlay != nil {
			cfg2 := *cfg
			cfg2.Overlay = overlay
			if pkgs2, err2 := packages.Load(&cfg2, "./..."); err2 == nil && len(modErrors(pkgs2)) == 0 {
				pkgs, canonLog = pkgs2, log
			}
		}
	}
	n := 0
	for _, p := range pkgs {
		if strings.HasPrefix(p.PkgPath, ModPath) && !strings.HasSuffix(p.ID, ".test") && !strings.Contains(p.ID, "[") {
			n++
		}
	}
	if n < 30 {
		return nil, fmt.Errorf("only %d golibs packages loaded from %s (expected >= 30)", n, o.Root)
	}
	prog, _ := ssautil.AllPackages(pkgs, ssa.BuilderMode(0))
	prog.Build()
	p := &Prog{
		CanonLog: canonLog,
		Root:     o.Root, GOOS: o.GOOS, GOARCH: o.GOARCH, Tests: o.Tests,
		Fset: prog.Fset, Pkgs: pkgs, SSA: prog,
		ByID: map[string]*packages.Package{}, SPkgs: map[string]*ssa.Package{},
		funcs: map[string][]*ssa.Function{}, fileText: map[string][]byte{},
	}
	packages.Visit(pkgs, nil, func(pk *packages.Package) {
		if strings.Contains(pk.ID, "[") || strings.HasSuffix(pk.ID, ".test") || strings.HasSuffix(pk.PkgPath, "_test") {
			// test variants: keep the augmented in-package variant when Tests is
			// set (it is a superset of the plain one).
			if o.Tests && strings.Contains(pk.ID, "[") && !strings.HasSuffix(pk.PkgPath, "_test") {
				p.ByID[pk.PkgPath] = pk
			}
			return
		}
		if _, ok := p.ByID[pk.PkgPath]; !ok {
			p.ByID[pk.PkgPath] = pk
		}
	})
	for path, pk := range p.ByID {
		if sp := prog.Package(pk.Types); sp != nil {
			p.SPkgs[path] = sp
		}
	}
	if !o.NoInline && os.Getenv("GSA_NOINLINE") == "" {
		if err := p.normalise(); err != nil {
			return nil, err
		}
	}
	return p, nil
}

// normalise inlines the helpers the rules do not know by name (inline.go).
func (p *Prog) normalise() (err error) {
	defer func() {
		if r := recover(); r != nil {
			err = fmt.Errorf("normalisation failed: %v", r)
		}
	}()
	il := NewInliner(func(fn *ssa.Function) bool { return KnownFunc(FuncName(fn)) })
	var paths []string
	for path := range p.SPkgs {
		if strings.HasPrefix(path, ModPath) {
			paths = append(paths, path)
		}
	}
	sort.Strings(paths)
	var all []*ssa.Function
	for _, path := range paths {
		for _, f := range p.Funcs(path) {
			if strings.HasSuffix(p.Fset.Position(f.Pos()).Filename, "_test.go") {
				continue
			}
			if f.Synthetic != "" && f.Name() == "init" {
				// the package initialiser keeps its calls: the values of
				// package-level tables are read off it (boolfn/globals.go)
				continue
			}
			all = append(all, f)
		}
	}
	for _, f := range all {
		il.Normalise(f)
	}
	p.Inlined, p.InlineLog = il.Inlined, il.Log
	p.Absorbed = map[*ssa.Function]bool{}
	if len(il.Inlined) > 0 {
		used := map[*ssa.Function]bool{}
		var rands []*ssa.Value
		for _, path := range paths {
			for _, f := range p.Funcs(path) {
				if il.Inlined[f] > 0 {
					// references from other absorbed helpers do not count; handled below
				}
				for _, b := range f.Blocks {
					for _, in := range b.Instrs {
						rands = in.Operands(rands[:0])
						for _, r := range rands {
							if g, ok := (*r).(*ssa.Function); ok && il.Inlined[g] > 0 && g != f {
								used[g] = true
							}
						}
					}
				}
			}
		}
		for g := range il.Inlined {
			if !used[g] {
				p.Absorbed[g] = true
			}
		}
		// the cached function lists still contain the absorbed helpers
		p.funcs = map[string][]*ssa.Function{}
	}
	return nil
}

// NumPackages is the number of golibs packages in the program.
func (p *Prog) NumPackages() int {
	n := 0
	for path := range p.ByID {
		if strings.HasPrefix(path, ModPath) {
			n++
		}
	}
	return n
}

// Config names the build configuration.
func (p *Prog) Config() string {
	goos, arch := p.GOOS, p.GOARCH
	if goos == "" {
		goos = "default"
	}
	if arch == "" {
		arch = "default"
	}
	s := goos + "/" + arch
	if p.Tests {
		s += "+tests"
	}
	return s
}

func full(pkg string) string {
	if pkg == "" {
		return ModPath
	}
	if strings.HasPrefix(pkg, ModPath) {
		return pkg
	}
	return ModPath + "/" + pkg
}

// Pkg returns the SSA package for a module-relative path ("netutil").
func (p *Prog) Pkg(pkg string) *ssa.Package { return p.SPkgs[full(pkg)] }

// TPkg returns the packages.Package for a module-relative path.
func (p *Prog) TPkg(pkg string) *packages.Package { return p.ByID[full(pkg)] }

// Funcs returns every function with a body in the package: package-level
// functions, methods of every named type (generic ones included), and all
// closures nested in them, sorted by name.
func (p *Prog) Funcs(pkg string) []*ssa.Function {
	path := full(pkg)
	if fs, ok := p.funcs[path]; ok {
		return fs
	}
	sp := p.SPkgs[path]
	if sp == nil {
		return nil
	}
	seen := map[*ssa.Function]bool{}
	var out []*ssa.Function
	var add func(fn *ssa.Function)
	add = func(fn *ssa.Function) {
		if fn == nil || seen[fn] || len(fn.Blocks) == 0 || p.Absorbed[fn] {
			return
		}
		seen[fn] = true
		out = append(out, fn)
		for _, af := range fn.AnonFuncs {
			add(af)
		}
	}
	for _, m := range sp.Members {
		switch m := m.(type) {
		case *ssa.Function:
			add(m)
		case *ssa.Type:
			if named, ok := m.Type().(*types.Named); ok {
				for i := 0; i < named.NumMethods(); i++ {
					add(p.SSA.FuncValue(named.Method(i)))
				}
			}
		}
	}
	sort.Slice(out, func(i, j int) bool { return out[i].String() < out[j].String() })
	p.funcs[path] = out
	return out
}

// Func finds a package-level function or a method.  name is "F" or "T.M".
func (p *Prog) Func(pkg, name string) *ssa.Function {
	sp := p.Pkg(pkg)
	if sp == nil {
		return nil
	}
	if i := strings.IndexByte(name, '.'); i >= 0 {
		tn, mn := name[:i], name[i+1:]
		m, ok := sp.Members[tn].(*ssa.Type)
		if !ok {
			return nil
		}
		named, ok := m.Type().(*types.Named)
		if !ok {
			return nil
		}
		for i := 0; i < named.NumMethods(); i++ {
			if named.Method(i).Name() == mn {
				return p.SSA.FuncValue(named.Method(i))
			}
		}
		return nil
	}
	f, _ := sp.Members[name].(*ssa.Function)
	return f
}

// FuncName renders a function relative to the module: "netutil.IsSubdomain",
// "cache.(*cache).Set", "syncutil.(*OnceConstructor).Get$1".
func FuncName(fn *ssa.Function) string {
	s := fn.String()
	s = strings.ReplaceAll(s, ModPath+"/", "")
	s = strings.ReplaceAll(s, ModPath+".", "golibs.")
	return s
}

// Pos renders a position relative to the tree root.
func (p *Prog) Pos(pos token.Pos) string {
	if !pos.IsValid() {
		return "-"
	}
	ps := p.Fset.Position(pos)
	rel, err := filepath.Rel(p.Root, ps.Filename)
	if err != nil || strings.HasPrefix(rel, "..") {
		rel = ps.Filename
	}
	return fmt.Sprintf("%s:%d", rel, ps.Line)
}

// InModule reports whether the function belongs to golibs.
func InModule(fn *ssa.Function) bool {
	for fn.Parent() != nil {
		fn = fn.Parent()
	}
	if fn.Pkg == nil {
		if o := fn.Origin(); o != nil && o.Pkg != nil {
			return strings.HasPrefix(o.Pkg.Pkg.Path(), ModPath)
		}
		if fn.Object() != nil && fn.Object().Pkg() != nil {
			return strings.HasPrefix(fn.Object().Pkg().Path(), ModPath)
		}
		return false
	}
	return strings.HasPrefix(fn.Pkg.Pkg.Path(), ModPath)
}

// PkgOf returns the module-relative package path of a function ("netutil").
func PkgOf(fn *ssa.Function) string {
	for fn.Parent() != nil {
		fn = fn.Parent()
	}
	var path string
	switch {
	case fn.Pkg != nil:
		path = fn.Pkg.Pkg.Path()
	case fn.Object() != nil && fn.Object().Pkg() != nil:
		path = fn.Object().Pkg().Path()
	}
	return strings.TrimPrefix(strings.TrimPrefix(path, ModPath), "/")
}

// fileOf finds the syntax file containing pos.
func (p *Prog) fileOf(pos token.Pos) *ast.File {
	tf := p.Fset.File(pos)
	if tf == nil {
		return nil
	}
	for _, pk := range p.ByID {
		for _, f := range pk.Syntax {
			if p.Fset.File(f.Pos()) == tf {
				return f
			}
		}
	}
	return nil
}

// NodeText prints a syntax node in canonical gofmt form on one line.
func (p *Prog) NodeText(n ast.Node) string {
	var buf bytes.Buffer
	_ = printer.Fprint(&buf, p.Fset, n)
	return strings.Join(strings.Fields(buf.String()), " ")
}

// ExprAt returns the canonical source text of the innermost expression of one
// of the wanted kinds that starts at or encloses pos; "" if none.  It is used to
// key obligations by construct rather than by line.
func (p *Prog) ExprAt(pos token.Pos, want func(ast.Node) bool) string {
	f := p.fileOf(pos)
	if f == nil {
		return ""
	}
	var best ast.Node
	ast.Inspect(f, func(n ast.Node) bool {
		if n == nil {
			return false
		}
		if n.Pos() <= pos && pos < n.End() {
			if want(n) {
				best = n
			}
			return true
		}
		return false
	})
	if best == nil {
		return ""
	}
	return p.NodeText(best)
}

// FuncDecl returns the syntax of a source function, if any.
func FuncDecl(fn *ssa.Function) *ast.FuncDecl {
	d, _ := fn.Syntax().(*ast.FuncDecl)
	return d
}

// Doc returns the doc comment text of a function (origin for instantiations).
func Doc(fn *ssa.Function) string {
	if o := fn.Origin(); o != nil {
		fn = o
	}
	if d := FuncDecl(fn); d != nil && d.Doc != nil {
		return d.Doc.Text()
	}
	return ""
}
