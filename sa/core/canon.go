package core

// Identifier canonicalisation: a commit that only renames private identifiers
// (unexported functions, methods, struct fields, types, constants, variables)
// changes no behaviour, but every rule that names such an identifier would
// lose its anchor.  Before the program is analysed, the identifiers of the
// current tree are therefore compared with the identifier table of the tree
// the rules were written against (core/idents.txt, regenerate with
// `gsa idents`): a private name of that table which no longer exists is paired
// with a private name that is new, of the same kind, in the same place (same
// package / receiver type / struct) and of the same shape (signature, field
// type, underlying type, constant value; ties broken by declaration order).
// The tree is then re-loaded with the new names replaced by the old ones in
// an overlay (every identifier whose types.Object is the renamed one, found
// through go/types, never by text), so that the rules see the names they
// know.  Only names change; positions keep their lines.  When no pairing is
// unambiguous nothing is replaced and the rules report the missing anchor as
// before.  On the unchanged tree there is nothing to pair.

import (
	"path/filepath"
	_ "embed"
	"fmt"
	"go/ast"
	"go/constant"
	"go/token"
	"go/types"
	"os"
	"sort"
	"strings"

	"golang.org/x/tools/go/packages"
)

//go:embed idents.txt
var identsText string

// identEntry is one line of the identifier table.
type identEntry struct {
	kind  string // F func, M method, S struct field, T type, C const, V var
	pkg   string // import path
	owner string // receiver type (M) or struct type (S), "" otherwise
	name  string
	shape string
	decl  string // base name of the declaring file (functions only; "" when unknown)
}

func parseIdents(text string) []identEntry {
	var out []identEntry
	for _, l := range strings.Split(text, "\n") {
		f := strings.Split(strings.TrimRight(l, "\r\n"), "\t")
		if len(f) != 5 && len(f) != 6 {
			continue
		}
		e := identEntry{kind: f[0], pkg: f[1], owner: f[2], name: f[3], shape: f[4]}
		if len(f) == 6 {
			e.decl = f[5]
		}
		out = append(out, e)
	}
	return out
}

// shapeOf renders a type without the names of golibs types and without field
// names, so that renamed types and fields do not change it.
func shapeOf(t types.Type, depth int) string {
	if depth > 6 {
		return "…"
	}
	switch x := t.(type) {
	case *types.Alias:
		return shapeOf(types.Unalias(x), depth)
	case *types.Named:
		if x.Obj().Pkg() != nil && strings.HasPrefix(x.Obj().Pkg().Path(), ModPath) {
			if x.Obj().Exported() {
				return x.Obj().Pkg().Name() + "." + x.Obj().Name()
			}
			return "N"
		}
		if x.Obj().Pkg() == nil {
			return x.Obj().Name()
		}
		return x.Obj().Pkg().Path() + "." + x.Obj().Name()
	case *types.Basic:
		return x.Name()
	case *types.Pointer:
		return "*" + shapeOf(x.Elem(), depth+1)
	case *types.Slice:
		return "[]" + shapeOf(x.Elem(), depth+1)
	case *types.Array:
		return fmt.Sprintf("[%d]%s", x.Len(), shapeOf(x.Elem(), depth+1))
	case *types.Map:
		return "map[" + shapeOf(x.Key(), depth+1) + "]" + shapeOf(x.Elem(), depth+1)
	case *types.Chan:
		return "chan " + shapeOf(x.Elem(), depth+1)
	case *types.Struct:
		var fs []string
		for i := 0; i < x.NumFields(); i++ {
			fs = append(fs, shapeOf(x.Field(i).Type(), depth+1))
		}
		return "struct{" + strings.Join(fs, ";") + "}"
	case *types.Signature:
		return "func" + tupleShape(x.Params(), depth) + tupleShape(x.Results(), depth)
	case *types.Interface:
		return fmt.Sprintf("interface/%d", x.NumMethods())
	case *types.TypeParam:
		return "P"
	case *types.Tuple:
		return tupleShape(x, depth)
	}
	return t.String()
}

func tupleShape(t *types.Tuple, depth int) string {
	var ps []string
	for i := 0; i < t.Len(); i++ {
		ps = append(ps, shapeOf(t.At(i).Type(), depth+1))
	}
	return "(" + strings.Join(ps, ",") + ")"
}

// identObj pairs a table entry of the current tree with its object.
type identObj struct {
	identEntry
	obj  types.Object
	pos  token.Pos
	file string // for a declaration order that does not depend on the order in which files were parsed
	off  int
}

// collectIdents lists the private identifiers of the golibs packages in
// declaration order.
func collectIdents(pkgs []*packages.Package) []identObj {
	var out []identObj
	seen := map[string]bool{}
	packages.Visit(pkgs, nil, func(p *packages.Package) {
		if !strings.HasPrefix(p.PkgPath, ModPath) || strings.Contains(p.ID, "[") || strings.HasSuffix(p.ID, ".test") || strings.HasSuffix(p.PkgPath, "_test") || seen[p.PkgPath] || p.Types == nil {
			return
		}
		seen[p.PkgPath] = true
		sc := p.Types.Scope()
		for _, n := range sc.Names() {
			o := sc.Lookup(n)
			if strings.HasSuffix(p.Fset.Position(o.Pos()).Filename, "_test.go") {
				continue
			}
			switch x := o.(type) {
			case *types.Func:
				if !x.Exported() {
					out = append(out, identObj{identEntry: mkIdent("F", p.PkgPath, "", n, shapeOf(x.Type(), 0)), obj: o, pos: o.Pos()})
				}
			case *types.Const:
				if !x.Exported() {
					out = append(out, identObj{identEntry: mkIdent("C", p.PkgPath, "", n, shapeOf(x.Type(), 0) + "=" + constText(x.Val())), obj: o, pos: o.Pos()})
				}
			case *types.Var:
				if !x.Exported() {
					out = append(out, identObj{identEntry: mkIdent("V", p.PkgPath, "", n, shapeOf(x.Type(), 0)), obj: o, pos: o.Pos()})
				}
			case *types.TypeName:
				if x.IsAlias() {
					if !x.Exported() {
						out = append(out, identObj{identEntry: mkIdent("T", p.PkgPath, "", n, "alias " + shapeOf(types.Unalias(x.Type()), 0)), obj: o, pos: o.Pos()})
					}
					continue
				}
				named, ok := x.Type().(*types.Named)
				if !ok {
					continue
				}
				if !x.Exported() {
					out = append(out, identObj{identEntry: mkIdent("T", p.PkgPath, "", n, shapeOf(named.Underlying(), 0)), obj: o, pos: o.Pos()})
				}
				if st, ok := named.Underlying().(*types.Struct); ok {
					for i := 0; i < st.NumFields(); i++ {
						f := st.Field(i)
						if !f.Exported() && !f.Embedded() {
							out = append(out, identObj{identEntry: mkIdent("S", p.PkgPath, n, f.Name(), shapeOf(f.Type(), 0)), obj: f, pos: f.Pos()})
						}
					}
				}
				for i := 0; i < named.NumMethods(); i++ {
					m := named.Method(i)
					if !m.Exported() && !strings.HasSuffix(p.Fset.Position(m.Pos()).Filename, "_test.go") {
						out = append(out, identObj{identEntry: mkIdent("M", p.PkgPath, n, m.Name(), shapeOf(m.Type(), 0)), obj: m, pos: m.Pos()})
					}
				}
			}
		}
	})
	for i := range out {
		for _, p := range pkgs {
			if p.Fset != nil {
				ps := p.Fset.Position(out[i].pos)
				out[i].file, out[i].off = ps.Filename, ps.Offset
				break
			}
		}
	}
	sort.SliceStable(out, func(i, j int) bool {
		if out[i].pkg != out[j].pkg {
			return out[i].pkg < out[j].pkg
		}
		if out[i].file != out[j].file {
			return out[i].file < out[j].file
		}
		return out[i].off < out[j].off
	})
	return out
}

func constText(v constant.Value) string {
	if v == nil {
		return "?"
	}
	s := v.ExactString()
	if len(s) > 60 {
		s = s[:60]
	}
	return strings.ReplaceAll(strings.ReplaceAll(s, "\t", " "), "\n", " ")
}

// IdentTable renders the identifier table of the loaded tree (for idents.txt).
func IdentTable(pkgs []*packages.Package) []string {
	var out []string
	for _, e := range collectIdents(pkgs) {
		decl := ""
		if e.kind == "F" {
			decl = filepath.Base(e.file)
		}
		out = append(out, strings.Join([]string{e.kind, e.pkg, e.owner, e.name, e.shape, decl}, "\t"))
	}
	return out
}

// renamePairs matches vanished table names with new names.  Types first
// (their names are the owners of fields and methods), then the rest.
func renamePairs(table []identEntry, cur []identObj) map[types.Object]string {
	alias := map[types.Object]string{}
	typeAlias := map[string]string{} // pkg|newTypeName -> old type name
	type group struct{ kind, pkg, owner string }
	pair := func(kinds ...string) {
		isKind := map[string]bool{}
		for _, k := range kinds {
			isKind[k] = true
		}
		oldBy := map[group][]identEntry{}
		curBy := map[group][]identObj{}
		curNames := map[group]map[string]bool{}
		tabNames := map[group]map[string]bool{}
		for _, e := range table {
			if isKind[e.kind] {
				g := group{e.kind, e.pkg, e.owner}
				oldBy[g] = append(oldBy[g], e)
				if tabNames[g] == nil {
					tabNames[g] = map[string]bool{}
				}
				tabNames[g][e.name] = true
			}
		}
		for _, e := range cur {
			if !isKind[e.kind] {
				continue
			}
			owner := e.owner
			if o, ok := typeAlias[e.pkg+"|"+owner]; ok {
				owner = o
			}
			g := group{e.kind, e.pkg, owner}
			curBy[g] = append(curBy[g], e)
			if curNames[g] == nil {
				curNames[g] = map[string]bool{}
			}
			curNames[g][e.name] = true
		}
		for g, olds := range oldBy {
			var gone []identEntry
			for _, e := range olds {
				if !curNames[g][e.name] {
					gone = append(gone, e)
				}
			}
			var fresh []identObj
			for _, e := range curBy[g] {
				if !tabNames[g][e.name] {
					fresh = append(fresh, e)
				}
			}
			if len(gone) == 0 || len(fresh) == 0 {
				continue
			}
			// pair by shape, in declaration order within one shape; a shape with
			// different numbers of vanished and new names is left alone
			goneBy, freshBy := map[string][]identEntry{}, map[string][]identObj{}
			// a renamed function stays in its file: a function that vanished
			// from one file is not the one that appeared in another
			for _, e := range gone {
				k := e.shape
				if e.kind == "F" && e.decl != "" {
					k += "|" + e.decl
				}
				goneBy[k] = append(goneBy[k], e)
			}
			anyDecl := false
			for _, e := range gone {
				anyDecl = anyDecl || (e.kind == "F" && e.decl != "")
			}
			for _, e := range fresh {
				k := e.shape
				if e.kind == "F" && anyDecl {
					k += "|" + filepath.Base(e.file)
				}
				freshBy[k] = append(freshBy[k], e)
			}
			for sh, gs := range goneBy {
				fs := freshBy[sh]
				if len(fs) != len(gs) {
					continue
				}
				for i := range gs {
					alias[fs[i].obj] = gs[i].name
					if g.kind == "T" {
						typeAlias[g.pkg+"|"+fs[i].name] = gs[i].name
					}
				}
			}
		}
	}
	pair("T")
	pair("S", "M")
	pair("F", "C", "V")
	return alias
}

// canonOverlay returns the overlay that writes the canonical names back, or
// nil when the tree needs none.
func canonOverlay(pkgs []*packages.Package) (map[string][]byte, []string) {
	table := parseIdents(identsText)
	cur := collectIdents(pkgs)
	alias := renamePairs(table, cur)
	var log []string
	for o, n := range alias {
		log = append(log, fmt.Sprintf("%s %s -> %s", o.Pkg().Path(), o.Name(), n))
	}
	sort.Strings(log)
	type edit = textEdit
	edits := map[string][]edit{}
	seenPkg := map[string]bool{}
	packages.Visit(pkgs, nil, func(p *packages.Package) {
		if !strings.HasPrefix(p.PkgPath, ModPath) || p.TypesInfo == nil || seenPkg[p.ID] {
			return
		}
		seenPkg[p.ID] = true
		for _, f := range p.Syntax {
			tf := p.Fset.File(f.Pos())
			if tf == nil {
				continue
			}
			if strings.HasSuffix(tf.Name(), ".go") && !strings.HasSuffix(tf.Name(), "_test.go") {
				if src, err := os.ReadFile(tf.Name()); err == nil {
					if des := desugarEdits(p, f, src); len(des) > 0 {
						edits[tf.Name()] = append(edits[tf.Name()], des...)
						log = append(log, fmt.Sprintf("%s: %d iterator loop(s) desugared", tf.Name(), (len(des)+1)/2))
					}
				}
			}
			if len(alias) == 0 {
				continue
			}
			ast.Inspect(f, func(n ast.Node) bool {
				id, ok := n.(*ast.Ident)
				if !ok {
					return true
				}
				var o types.Object
				if d := p.TypesInfo.Defs[id]; d != nil {
					o = d
				} else if u := p.TypesInfo.Uses[id]; u != nil {
					o = u
				}
				if o == nil {
					return true
				}
				// methods and fields of instantiated generic types: map back to the origin
				switch x := o.(type) {
				case *types.Func:
					o = x.Origin()
				case *types.Var:
					o = x.Origin()
				}
				if canon, ok := alias[o]; ok && id.Name != canon {
					edits[tf.Name()] = append(edits[tf.Name()], edit{tf.Offset(id.Pos()), tf.Offset(id.End()), canon})
				}
				return true
			})
		}
	})
	overlay := map[string][]byte{}
	for name, es := range edits {
		src, err := os.ReadFile(name)
		if err != nil {
			return nil, nil
		}
		sort.Slice(es, func(i, j int) bool { return es[i].off < es[j].off })
		var out []byte
		last := 0
		for i, e := range es {
			if i > 0 && e.off == es[i-1].off && e.end == es[i-1].end && e.text == es[i-1].text {
				continue // the same edit seen through two package variants
			}
			if e.off < last || e.end > len(src) {
				return nil, nil
			}
			out = append(out, src[last:e.off]...)
			out = append(out, e.text...)
			last = e.end
		}
		out = append(out, src[last:]...)
		overlay[name] = out
	}
	if len(overlay) == 0 {
		return nil, nil
	}
	return overlay, log
}

func mkIdent(kind, pkg, owner, name, shape string) identEntry {
	return identEntry{kind: kind, pkg: pkg, owner: owner, name: name, shape: shape}
}
