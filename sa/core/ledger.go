package core

import (
	"bufio"
	"encoding/json"
	"fmt"
	"os"
	"path/filepath"
	"sort"
	"strings"
	"time"
)

// Status of one obligation.
type Status string

const (
	Discharged Status = "discharged"
	Violated   Status = "violated"
	Undecided  Status = "undecided" // counts as a failure ("cannot establish")
	Audited    Status = "audited"   // undecided by the engine, accepted with a recorded reason
	Known      Status = "known-finding"
)

// Entry is one rule instance.  Key() never contains a line number.
type Entry struct {
	Property  string `json:"property"`
	Rule      string `json:"rule"`
	Func      string `json:"function"`
	Construct string `json:"construct"`
	Pos       string `json:"pos"`
	Status    Status `json:"status"`
	Reason    string `json:"reason,omitempty"`
	Config    string `json:"config,omitempty"`
}

// Key identifies the obligation independently of position.
func (e *Entry) Key() string { return e.Rule + "|" + e.Func + "|" + e.Construct }

// Ledger collects the obligations of one check run.
type Ledger struct {
	Property string
	Entries  []*Entry
	byKey    map[string]*Entry
	Analysed map[string]bool // functions looked at
	Notes    []string
	Assume   []string
	Trusted  []string
	Floors   map[string]int // rule -> minimum number of instances
	Config   string
}

func NewLedger(prop string) *Ledger {
	return &Ledger{Property: prop, byKey: map[string]*Entry{}, Analysed: map[string]bool{}, Floors: map[string]int{}}
}

// add merges by key: across contexts/configurations the worst status wins.
func (l *Ledger) add(e *Entry) *Entry {
	e.Property = l.Property
	if e.Config == "" {
		e.Config = l.Config
	}
	if old, ok := l.byKey[e.Key()]; ok {
		if rank(e.Status) > rank(old.Status) {
			old.Status, old.Reason, old.Pos, old.Config = e.Status, e.Reason, e.Pos, e.Config
		}
		return old
	}
	l.byKey[e.Key()] = e
	l.Entries = append(l.Entries, e)
	return e
}

func rank(s Status) int {
	switch s {
	case Discharged:
		return 0
	case Audited:
		return 1
	case Known:
		return 2
	case Undecided:
		return 3
	case Violated:
		return 4
	}
	return 5
}

// Check records an obligation that is discharged when ok, violated otherwise.
func (l *Ledger) Check(ok bool, rule, fn, construct, pos, reason string) bool {
	st := Discharged
	if !ok {
		st = Violated
	}
	l.add(&Entry{Rule: rule, Func: fn, Construct: construct, Pos: pos, Status: st, Reason: reason})
	return ok
}

// Record adds an obligation with an explicit status.
func (l *Ledger) Record(st Status, rule, fn, construct, pos, reason string) {
	if devDisabled(rule) {
		return
	}
	l.add(&Entry{Rule: rule, Func: fn, Construct: construct, Pos: pos, Status: st, Reason: reason})
}

// Floor demands at least n instances of the rule (a rule that matches nothing
// must not pass vacuously).
func (l *Ledger) Floor(rule string, n int) {
	if devDisabled(rule) {
		return
	}
	l.Floors[rule] = n
}

// devDisabled: development aid for measuring which rule is the only one that
// reports a seeded change (GSA_DISABLE=rule,rule; only honoured together with
// GSA_REPO, i.e. never by the registered checks on /repo).
func devDisabled(rule string) bool {
	d := os.Getenv("GSA_DISABLE")
	if d == "" || os.Getenv("GSA_REPO") == "" {
		return false
	}
	for _, r := range strings.Split(d, ",") {
		if r == rule {
			return true
		}
	}
	return false
}

// Saw notes that a function body was analysed.
func (l *Ledger) Saw(fn string) { l.Analysed[fn] = true }

func (l *Ledger) Assumef(f string, a ...any) {
	s := fmt.Sprintf(f, a...)
	for _, x := range l.Assume {
		if x == s {
			return
		}
	}
	l.Assume = append(l.Assume, s)
}

func (l *Ledger) Trust(s ...string) {
	for _, x := range s {
		dup := false
		for _, y := range l.Trusted {
			dup = dup || x == y
		}
		if !dup {
			l.Trusted = append(l.Trusted, x)
		}
	}
}

func (l *Ledger) Notef(f string, a ...any) { l.Notes = append(l.Notes, fmt.Sprintf(f, a...)) }

// RuleCounts returns rule -> number of instances.
func (l *Ledger) RuleCounts() map[string]int {
	m := map[string]int{}
	for _, e := range l.Entries {
		m[e.Rule]++
	}
	return m
}

// enforceFloors turns a missing rule population into a failing entry.
func (l *Ledger) enforceFloors() {
	counts := l.RuleCounts()
	var rules []string
	for r := range l.Floors {
		rules = append(rules, r)
	}
	sort.Strings(rules)
	for _, r := range rules {
		if counts[r] < l.Floors[r] {
			l.add(&Entry{Rule: r, Func: "-", Construct: "instance-floor", Pos: "-", Status: Undecided,
				Reason: fmt.Sprintf("rule matched %d sites, at least %d were confirmed by hand: the anchored code is gone or no longer recognised", counts[r], l.Floors[r])})
		}
	}
}

// ---- audited table and known findings ----

// AuditedEntry is a site the engines leave undecided, accepted after reading
// the code, with the reason.
type AuditedEntry struct {
	Property string `json:"property"`
	Key      string `json:"key"`
	Reason   string `json:"reason"`
}

func verifDir() string {
	if d := os.Getenv("GSA_VERIF"); d != "" {
		return d
	}
	return "/verif"
}

func loadAudited() []AuditedEntry {
	b, err := os.ReadFile(filepath.Join(verifDir(), "audited.json"))
	if err != nil {
		return nil
	}
	var out []AuditedEntry
	if err := json.Unmarshal(b, &out); err != nil {
		fmt.Fprintf(os.Stderr, "gsa: audited.json: %v\n", err)
		os.Exit(3)
	}
	return out
}

// Finding is an `open:` line of KNOWN_FINDINGS.txt.
type Finding struct {
	Property string
	Key      string
	Text     string
}

func loadFindings() []Finding {
	f, err := os.Open(filepath.Join(verifDir(), "KNOWN_FINDINGS.txt"))
	if err != nil {
		return nil
	}
	defer f.Close()
	var out []Finding
	sc := bufio.NewScanner(f)
	for sc.Scan() {
		line := strings.TrimSpace(sc.Text())
		if !strings.HasPrefix(line, "open:") {
			continue // comments and `fixed:` lines suppress nothing
		}
		rest := strings.TrimSpace(strings.TrimPrefix(line, "open:"))
		var fd Finding
		for _, fld := range []string{"property=", "key="} {
			if !strings.HasPrefix(rest, fld) {
				continue
			}
			rest = rest[len(fld):]
			var val string
			if strings.HasPrefix(rest, "\"") {
				end := strings.Index(rest[1:], "\"")
				if end < 0 {
					break
				}
				val, rest = rest[1:1+end], strings.TrimSpace(rest[end+2:])
			} else {
				i := strings.IndexByte(rest, ' ')
				if i < 0 {
					i = len(rest)
				}
				val, rest = rest[:i], strings.TrimSpace(rest[i:])
			}
			if fld == "property=" {
				fd.Property = val
			} else {
				fd.Key = val
			}
		}
		fd.Text = rest
		if fd.Property != "" && fd.Key != "" {
			out = append(out, fd)
		}
	}
	return out
}

// Finish applies floors, the audited table and the known-findings file, writes
// the evidence and the replay files, prints the result lines and returns the
// process exit code.
func (l *Ledger) Finish(o FinishOpts) int {
	l.enforceFloors()
	aud := loadAudited()
	usedAud := map[string]bool{}
	for _, e := range l.Entries {
		if e.Status != Undecided {
			continue
		}
		for _, a := range aud {
			if a.Property == l.Property && a.Key == e.Key() {
				e.Status = Audited
				e.Reason = "audited: " + a.Reason + " [engine: " + e.Reason + "]"
				usedAud[a.Key] = true
			}
		}
	}
	var knownLines []string
	for _, e := range l.Entries {
		if e.Status != Violated && e.Status != Undecided {
			continue
		}
		for _, f := range loadFindings() {
			if f.Property == l.Property && f.Key == e.Key() {
				e.Status = Known
				knownLines = append(knownLines, fmt.Sprintf("KNOWN-FINDING: property=%s %s (%s at %s)", l.Property, f.Text, e.Key(), e.Pos))
			}
		}
	}
	sort.SliceStable(l.Entries, func(i, j int) bool {
		a, b := l.Entries[i], l.Entries[j]
		if a.Rule != b.Rule {
			return a.Rule < b.Rule
		}
		if a.Func != b.Func {
			return a.Func < b.Func
		}
		return a.Construct < b.Construct
	})
	var bad []*Entry
	counts := map[Status]int{}
	for _, e := range l.Entries {
		counts[e.Status]++
		if e.Status == Violated || e.Status == Undecided {
			bad = append(bad, e)
		}
	}
	wall := time.Since(o.Start).Seconds()

	// evidence
	toDisk := o.WriteEvidence
	total := len(l.Entries)
	discharged := counts[Discharged]
	var samples []any
	step := 1
	if total > 14 {
		step = total / 14
	}
	for i := 0; i < total; i += step {
		samples = append(samples, l.Entries[i])
	}
	var audited []*Entry
	for _, e := range l.Entries {
		if e.Status == Audited || e.Status == Known {
			audited = append(audited, e)
		}
	}
	var fns []string
	for f := range l.Analysed {
		fns = append(fns, f)
	}
	sort.Strings(fns)
	cov := map[string]any{
		"explanation":         o.Explanation,
		"rule":                "one obligation per (rule, function, construct); a rule instance is non-trivial when it names a concrete SSA construct of the current tree",
		"evaluations":         total,
		"distinct_nontrivial": total,
		"obligations":         total,
		"discharged":          discharged,
		"audited":             counts[Audited],
		"known_findings":      counts[Known],
		"undecided":           counts[Undecided],
		"violated":            counts[Violated],
		"checker_cmd":         o.Cmd,
		"trusted_base":        l.Trusted,
		"rule_instances":      l.RuleCounts(),
		"rule_floors":         l.Floors,
		"functions_analysed":  fns,
		"packages_loaded":     o.Packages,
		"build_configs":       o.Configs,
		"samples":             samples,
		"audited_entries":     audited,
		"notes":               l.Notes,
		"exhaustive":          o.Exhaustive,
	}
	for k, v := range o.Extra {
		cov[k] = v
	}
	if l.Assume == nil {
		l.Assume = []string{}
	}
	if l.Trusted == nil {
		l.Trusted = []string{}
	}
	if l.Notes == nil {
		l.Notes = []string{}
	}
	cov["trusted_base"] = l.Trusted
	cov["notes"] = l.Notes
	ev := map[string]any{
		"property_id": l.Property,
		"tier":        o.Tier,
		"seed":        o.Seed,
		"level":       o.Level,
		"coverage":    cov,
		"assumptions": l.Assume,
		"wall_s":      wall,
		"violations":  len(bad),
	}
	if toDisk {
		dir := filepath.Join(verifDir(), "evidence")
		_ = os.MkdirAll(dir, 0o755)
		b, _ := json.MarshalIndent(ev, "", " ")
		if err := os.WriteFile(filepath.Join(dir, l.Property+".json"), append(b, '\n'), 0o644); err != nil {
			fmt.Fprintf(os.Stderr, "gsa: cannot write evidence: %v\n", err)
			return 3
		}
	}

	fmt.Printf("gsa: property=%s tier=%s configs=%v packages=%d functions=%d obligations=%d discharged=%d audited=%d known=%d undecided=%d violated=%d wall=%.1fs\n",
		l.Property, o.Tier, o.Configs, o.Packages, len(fns), total, discharged, counts[Audited], counts[Known], counts[Undecided], counts[Violated], wall)
	rc := l.RuleCounts()
	var rules []string
	for r := range rc {
		rules = append(rules, r)
	}
	sort.Strings(rules)
	for _, r := range rules {
		fmt.Printf("  rule %-34s instances=%d floor=%d\n", r, rc[r], l.Floors[r])
	}
	for _, k := range knownLines {
		fmt.Println(k)
	}
	if len(bad) == 0 {
		return 0
	}
	outDir := filepath.Join(verifDir(), "out", "violations")
	if !toDisk {
		outDir = filepath.Join(os.TempDir(), "gsa-violations")
	}
	_ = os.MkdirAll(outDir, 0o755)
	for i, e := range bad {
		path := filepath.Join(outDir, fmt.Sprintf("%s-%d.json", l.Property, i+1))
		b, _ := json.MarshalIndent(e, "", " ")
		_ = os.WriteFile(path, append(b, '\n'), 0o644)
		fmt.Printf("  %s %s: %s in %s at %s: %s\n", strings.ToUpper(string(e.Status)), e.Rule, e.Construct, e.Func, e.Pos, e.Reason)
		fmt.Printf("VIOLATION property=%s replay=%s\n", l.Property, path)
	}
	return 1
}

// FinishOpts carries run metadata into the evidence.
type FinishOpts struct {
	Start         time.Time
	Tier          string
	Seed          int
	Level         string
	Explanation   string
	Cmd           string
	Packages      int
	Configs       []string
	Exhaustive    bool
	WriteEvidence bool
	Extra         map[string]any
}
