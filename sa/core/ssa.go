package core

import (
	"fmt"
	"go/constant"
	"go/token"
	"go/types"
	"strings"

	"golang.org/x/tools/go/ssa"
)

// CalleeName names the target of a call as resolved by the type checker:
// "strings.HasSuffix", "(*sync.Mutex).Lock", "(net/netip.Addr).Is4",
// "builtin.len", "invoke io.Reader.Read", or "dynamic" for a call through a
// function value.
func CalleeName(c *ssa.CallCommon) string {
	if c.IsInvoke() {
		recv := c.Value.Type().String()
		return "invoke " + recv + "." + c.Method.Name()
	}
	if b, ok := c.Value.(*ssa.Builtin); ok {
		return "builtin." + b.Name()
	}
	if f := c.StaticCallee(); f != nil {
		return FnName(f)
	}
	return "dynamic"
}

// FnName is the fully qualified name of a function: pkgpath.Name or
// (recv).Name; instantiations are named after their generic origin.
func FnName(f *ssa.Function) string {
	if o := f.Origin(); o != nil {
		f = o
	}
	if f.Signature.Recv() != nil || f.Parent() != nil {
		return f.String()
	}
	if f.Pkg != nil {
		return f.Pkg.Pkg.Path() + "." + f.Name()
	}
	if f.Object() != nil && f.Object().Pkg() != nil {
		return f.Object().Pkg().Path() + "." + f.Name()
	}
	return f.String()
}

// EachInstr visits every instruction of fn (not of its closures).
func EachInstr(fn *ssa.Function, f func(ssa.Instruction)) {
	for _, b := range fn.Blocks {
		for _, in := range b.Instrs {
			f(in)
		}
	}
}

// WithClosures returns fn and all functions nested in it.
func WithClosures(fn *ssa.Function) []*ssa.Function {
	out := []*ssa.Function{fn}
	for _, af := range fn.AnonFuncs {
		out = append(out, WithClosures(af)...)
	}
	return out
}

// CallsTo lists the call/defer/go instructions of fn whose resolved callee has
// one of the given names.
func CallsTo(fn *ssa.Function, names ...string) []ssa.CallInstruction {
	var out []ssa.CallInstruction
	EachInstr(fn, func(in ssa.Instruction) {
		ci, ok := in.(ssa.CallInstruction)
		if !ok {
			return
		}
		n := CalleeName(ci.Common())
		for _, w := range names {
			if n == w {
				out = append(out, ci)
			}
		}
	})
	return out
}

// AllCalls lists every call instruction of fn.
func AllCalls(fn *ssa.Function) []ssa.CallInstruction {
	var out []ssa.CallInstruction
	EachInstr(fn, func(in ssa.Instruction) {
		if ci, ok := in.(ssa.CallInstruction); ok {
			out = append(out, ci)
		}
	})
	return out
}

// idx returns the position of in inside its block.
func idx(in ssa.Instruction) int {
	for i, x := range in.Block().Instrs {
		if x == in {
			return i
		}
	}
	return -1
}

// Dominates reports whether a executes before b on every path reaching b.
func Dominates(a, b ssa.Instruction) bool {
	if a.Block() == b.Block() {
		return idx(a) < idx(b)
	}
	return a.Block().Dominates(b.Block())
}

// Guard is a branch outcome that holds whenever a block executes.
type Guard struct {
	Cond  ssa.Value
	Truth bool
	If    *ssa.If
}

// edgeDominates reports whether every path to b goes through edge d->s.
func edgeDominates(d, s, b *ssa.BasicBlock) bool {
	if !s.Dominates(b) {
		return false
	}
	for _, p := range s.Preds {
		if p == d {
			continue
		}
		// other predecessors are fine only when they are inside the region
		// dominated by s (back edges).
		if !s.Dominates(p) {
			return false
		}
	}
	return true
}

// Guards returns the branch outcomes that dominate block b, innermost last.
// && / || chains are flattened: the true edge of `a && b` guards with both.
func Guards(b *ssa.BasicBlock) []Guard {
	var out []Guard
	for d := b.Idom(); d != nil; d = d.Idom() {
		iff, ok := d.Instrs[len(d.Instrs)-1].(*ssa.If)
		if !ok {
			continue
		}
		t, f := d.Succs[0], d.Succs[1]
		if t == f {
			continue
		}
		if edgeDominates(d, t, b) {
			out = append(out, Guard{iff.Cond, true, iff})
		} else if edgeDominates(d, f, b) {
			out = append(out, Guard{iff.Cond, false, iff})
		}
	}
	// reverse: outermost first
	for i, j := 0, len(out)-1; i < j; i, j = i+1, j-1 {
		out[i], out[j] = out[j], out[i]
	}
	return out
}

// GuardsOf is Guards for the block of an instruction.
func GuardsOf(in ssa.Instruction) []Guard { return Guards(in.Block()) }

// StripNot peels `!x` layers, flipping truth.
func StripNot(v ssa.Value, truth bool) (ssa.Value, bool) {
	for {
		u, ok := v.(*ssa.UnOp)
		if !ok || u.Op != token.NOT {
			return v, truth
		}
		v, truth = u.X, !truth
	}
}

// Reaches reports whether block to is reachable from block from (from itself
// counts only through a cycle unless same==true).
func Reaches(from, to *ssa.BasicBlock) bool {
	seen := map[*ssa.BasicBlock]bool{}
	var stack []*ssa.BasicBlock
	stack = append(stack, from.Succs...)
	for len(stack) > 0 {
		b := stack[len(stack)-1]
		stack = stack[:len(stack)-1]
		if b == to {
			return true
		}
		if seen[b] {
			continue
		}
		seen[b] = true
		stack = append(stack, b.Succs...)
	}
	return false
}

// MayFollow reports whether instruction b can execute after a on some path.
func MayFollow(a, b ssa.Instruction) bool {
	if a.Block() == b.Block() && idx(a) < idx(b) {
		return true
	}
	return Reaches(a.Block(), b.Block())
}

// ConstInt returns the integer value of a constant.
func ConstInt(v ssa.Value) (int64, bool) {
	c, ok := v.(*ssa.Const)
	if !ok || c.Value == nil || c.Value.Kind() != constant.Int {
		return 0, false
	}
	return constant.Int64Val(c.Value)
}

// ConstString returns the string value of a constant.
func ConstString(v ssa.Value) (string, bool) {
	c, ok := v.(*ssa.Const)
	if !ok || c.Value == nil || c.Value.Kind() != constant.String {
		return "", false
	}
	return constant.StringVal(c.Value), true
}

// ConstBool returns the value of a boolean constant.
func ConstBool(v ssa.Value) (bool, bool) {
	c, ok := v.(*ssa.Const)
	if !ok || c.Value == nil || c.Value.Kind() != constant.Bool {
		return false, false
	}
	return constant.BoolVal(c.Value), true
}

// IsNilConst reports whether v is the nil constant.
func IsNilConst(v ssa.Value) bool {
	c, ok := v.(*ssa.Const)
	return ok && c.Value == nil
}

// Unwrap peels value-preserving conversions.
func Unwrap(v ssa.Value) ssa.Value {
	for {
		switch x := v.(type) {
		case *ssa.ChangeType:
			v = x.X
		case *ssa.ChangeInterface:
			v = x.X
		case *ssa.MakeInterface:
			v = x.X
		default:
			return v
		}
	}
}

// FieldPath describes an address or value as base.field.field; Base is the
// root SSA value (parameter, alloc, load...).  ok is false when v is not a
// chain of FieldAddr/Field/loads.
type FieldPath struct {
	Base   ssa.Value
	Fields []string
}

func (fp FieldPath) String() string {
	s := fp.Base.Name()
	for _, f := range fp.Fields {
		s += "." + f
	}
	return s
}

// PathOf resolves v (an address or a loaded value) to base + field names,
// looking through loads of field addresses.
func PathOf(v ssa.Value) FieldPath {
	var rev []string
	for {
		switch x := v.(type) {
		case *ssa.FieldAddr:
			st := x.X.Type().Underlying().(*types.Pointer).Elem().Underlying().(*types.Struct)
			rev = append(rev, st.Field(x.Field).Name())
			v = x.X
			continue
		case *ssa.Field:
			st := x.X.Type().Underlying().(*types.Struct)
			rev = append(rev, st.Field(x.Field).Name())
			v = x.X
			continue
		case *ssa.UnOp:
			if x.Op == token.MUL {
				if _, ok := x.X.(*ssa.FieldAddr); ok {
					v = x.X
					continue
				}
			}
		}
		break
	}
	for i, j := 0, len(rev)-1; i < j; i, j = i+1, j-1 {
		rev[i], rev[j] = rev[j], rev[i]
	}
	return FieldPath{Base: v, Fields: rev}
}

// FieldName returns the field selected by a FieldAddr.
func FieldName(fa *ssa.FieldAddr) string {
	st := fa.X.Type().Underlying().(*types.Pointer).Elem().Underlying().(*types.Struct)
	return st.Field(fa.Field).Name()
}

// IsLoadOfField reports whether v is `*(&base.f)` and returns f and base.
func IsLoadOfField(v ssa.Value) (string, ssa.Value, bool) {
	u, ok := v.(*ssa.UnOp)
	if !ok || u.Op != token.MUL {
		return "", nil, false
	}
	fa, ok := u.X.(*ssa.FieldAddr)
	if !ok {
		return "", nil, false
	}
	return FieldName(fa), fa.X, true
}

// Describe renders an SSA value as a short expression for reports.
func Describe(v ssa.Value) string {
	if v == nil {
		return "<nil>"
	}
	switch x := v.(type) {
	case *ssa.Const:
		return x.String()
	case *ssa.Parameter:
		return x.Name()
	case *ssa.Global:
		return x.Name()
	case *ssa.Function:
		return FnName(x)
	case *ssa.FreeVar:
		return x.Name()
	case *ssa.UnOp:
		if x.Op == token.MUL {
			return "*" + Describe(x.X)
		}
		return x.Op.String() + Describe(x.X)
	case *ssa.FieldAddr:
		return "&" + Describe(x.X) + "." + FieldName(x)
	case *ssa.Field:
		p := PathOf(x)
		return Describe(p.Base) + "." + strings.Join(p.Fields, ".")
	case *ssa.BinOp:
		return "(" + Describe(x.X) + " " + x.Op.String() + " " + Describe(x.Y) + ")"
	case *ssa.Call:
		var as []string
		for _, a := range x.Call.Args {
			as = append(as, Describe(a))
		}
		n := CalleeName(&x.Call)
		if x.Call.IsInvoke() {
			return Describe(x.Call.Value) + "." + x.Call.Method.Name() + "(" + strings.Join(as, ", ") + ")"
		}
		return shortName(n) + "(" + strings.Join(as, ", ") + ")"
	case *ssa.Extract:
		return fmt.Sprintf("%s#%d", Describe(x.Tuple), x.Index)
	case *ssa.Slice:
		lo, hi := "", ""
		if x.Low != nil {
			lo = Describe(x.Low)
		}
		if x.High != nil {
			hi = Describe(x.High)
		}
		return Describe(x.X) + "[" + lo + ":" + hi + "]"
	case *ssa.IndexAddr:
		return "&" + Describe(x.X) + "[" + Describe(x.Index) + "]"
	case *ssa.Index:
		return Describe(x.X) + "[" + Describe(x.Index) + "]"
	case *ssa.Lookup:
		return Describe(x.X) + "[" + Describe(x.Index) + "]"
	case *ssa.Convert:
		return types.TypeString(x.Type(), func(*types.Package) string { return "" }) + "(" + Describe(x.X) + ")"
	case *ssa.ChangeType:
		return Describe(x.X)
	case *ssa.MakeInterface:
		return Describe(x.X)
	case *ssa.ChangeInterface:
		return Describe(x.X)
	case *ssa.Alloc:
		if x.Comment != "" {
			return "&" + x.Comment
		}
		return "new(" + x.Type().String() + ")"
	case *ssa.Phi:
		if x.Comment != "" {
			return "phi(" + x.Comment + ")"
		}
		return "phi"
	case *ssa.MakeClosure:
		return "closure " + x.Fn.Name()
	}
	return v.Name()
}

func shortName(n string) string {
	n = strings.ReplaceAll(n, ModPath+"/", "")
	return n
}

// StoresTo lists the Store instructions of fn (closures included) whose
// address is a field named field of a struct of the named type.
func StoresToField(fns []*ssa.Function, typeName, field string) []*ssa.Store {
	var out []*ssa.Store
	for _, fn := range fns {
		EachInstr(fn, func(in ssa.Instruction) {
			st, ok := in.(*ssa.Store)
			if !ok {
				return
			}
			fa, ok := st.Addr.(*ssa.FieldAddr)
			if !ok {
				return
			}
			if FieldName(fa) != field {
				return
			}
			if NamedOf(fa.X.Type()) == typeName {
				out = append(out, st)
			}
		})
	}
	return out
}

// NamedOf returns the name of the (pointed-to) named type, without package or
// type arguments: "cache", "RingBuffer".
func NamedOf(t types.Type) string {
	for {
		switch x := t.(type) {
		case *types.Pointer:
			t = x.Elem()
			continue
		case *types.Alias:
			t = types.Unalias(x)
			continue
		case *types.Named:
			return x.Obj().Name()
		}
		return ""
	}
}

// LoopHeads returns the blocks that are targets of a back edge.
func LoopHeads(fn *ssa.Function) map[*ssa.BasicBlock]bool {
	m := map[*ssa.BasicBlock]bool{}
	for _, b := range fn.Blocks {
		for _, p := range b.Preds {
			if b.Dominates(p) {
				m[b] = true
			}
		}
	}
	return m
}

// LoopBody returns the blocks of the natural loop with the given head.
func LoopBody(head *ssa.BasicBlock) map[*ssa.BasicBlock]bool {
	body := map[*ssa.BasicBlock]bool{head: true}
	var stack []*ssa.BasicBlock
	for _, p := range head.Preds {
		if head.Dominates(p) {
			stack = append(stack, p)
		}
	}
	for len(stack) > 0 {
		b := stack[len(stack)-1]
		stack = stack[:len(stack)-1]
		if body[b] {
			continue
		}
		body[b] = true
		stack = append(stack, b.Preds...)
	}
	return body
}

// Referrers of v as instructions (nil-safe).
func Refs(v ssa.Value) []ssa.Instruction {
	r := v.Referrers()
	if r == nil {
		return nil
	}
	return *r
}

// PkgOf2 returns the module-relative package path of a package member.
func PkgOf2(m ssa.Member) string {
	if m.Package() == nil {
		return ""
	}
	return strings.TrimPrefix(strings.TrimPrefix(m.Package().Pkg.Path(), ModPath), "/")
}
