package core

// Source-level desugaring of iterator helpers.  `for i, v := range
// slices.Backward(x)` (and slices.All / Values, maps.Keys / Values / All,
// strings.SplitSeq / FieldsSeq) turn a loop into a closure that the library
// calls: after go/ssa there is no loop left for a rule to look at.  They are
// rewritten, in the overlay the program is loaded from, into the plain loops
// they are defined to be equivalent to:
//
//	for i, v := range slices.Backward(x) { B }
//	  =>  { gsaS := x; for i := len(gsaS) - 1; i >= 0; i-- { v := gsaS[i]; B } }
//	for v := range slices.Values(x)  =>  for _, v := range x
//	for k := range maps.Keys(m)      =>  for k := range m
//	for p := range strings.SplitSeq(s, sep)  =>  for _, p := range strings.Split(s, sep)
//
// (the slice header is read once, as the iterator does; element reads happen
// per iteration in both forms).  Only `:=` loops whose operand is one of these
// calls are touched; labelled loops are left alone.

import (
	"fmt"
	"go/ast"
	"go/token"
	"go/types"

	"golang.org/x/tools/go/packages"
)

type textEdit struct {
	off, end int
	text     string
}

func desugarEdits(p *packages.Package, f *ast.File, src []byte) (out []textEdit) {
	tf := p.Fset.File(f.Pos())
	if tf == nil {
		return nil
	}
	labelled := map[ast.Stmt]bool{}
	ast.Inspect(f, func(n ast.Node) bool {
		if l, ok := n.(*ast.LabeledStmt); ok {
			labelled[l.Stmt] = true
		}
		return true
	})
	n := 0
	used := map[string]string{} // local package name -> import path of rewritten helpers
	defer func() {
		// keep the imports used: the rewritten loops no longer mention them
		tail := ""
		for local, path := range used {
			switch path {
			case "slices":
				tail += "\nvar _ = " + local + ".Equal[[]int]\n"
			case "maps":
				tail += "\nvar _ = " + local + ".Equal[map[int]int, map[int]int]\n"
			}
		}
		if tail != "" {
			out = append(out, textEdit{len(src), len(src), tail})
		}
	}()
	ast.Inspect(f, func(node ast.Node) bool {
		rs, ok := node.(*ast.RangeStmt)
		if !ok || rs.Tok != token.DEFINE || labelled[rs] {
			return true
		}
		call, ok := rs.X.(*ast.CallExpr)
		if !ok {
			return true
		}
		sel, ok := call.Fun.(*ast.SelectorExpr)
		if !ok {
			// explicit instantiation slices.Backward[[]T](x)
			if ix, isIx := call.Fun.(*ast.IndexExpr); isIx {
				sel, ok = ix.X.(*ast.SelectorExpr)
			}
			if !ok {
				return true
			}
		}
		fn, ok := p.TypesInfo.Uses[sel.Sel].(*types.Func)
		if !ok || fn.Pkg() == nil {
			return true
		}
		name := fn.Pkg().Path() + "." + fn.Name()
		text := func(e ast.Node) string { return string(src[tf.Offset(e.Pos()):tf.Offset(e.End())]) }
		ident := func(e ast.Expr) string {
			if e == nil {
				return ""
			}
			if id, ok := e.(*ast.Ident); ok {
				return id.Name
			}
			return "?"
		}
		k, v := ident(rs.Key), ident(rs.Value)
		if k == "?" || v == "?" {
			return true
		}
		hdrOff, hdrEnd := tf.Offset(rs.For), tf.Offset(rs.Body.Lbrace)+1
		before := len(out)
		defer func() {
			if len(out) > before {
				if id, isID := sel.X.(*ast.Ident); isID {
					used[id.Name] = fn.Pkg().Path()
				}
			}
		}()
		switch name {
		case "slices.Backward":
			if len(call.Args) != 1 {
				return true
			}
			n++
			s := fmt.Sprintf("gsaS%d", n)
			idx := k
			if idx == "" || idx == "_" {
				idx = fmt.Sprintf("gsaI%d", n)
			}
			hdr := fmt.Sprintf("{ %s := %s; for %s := len(%s) - 1; %s >= 0; %s-- {", s, text(call.Args[0]), idx, s, idx, idx)
			if v != "" && v != "_" {
				hdr += fmt.Sprintf(" %s := %s[%s];", v, s, idx)
			}
			out = append(out, textEdit{hdrOff, hdrEnd, hdr}, textEdit{tf.Offset(rs.Body.Rbrace) + 1, tf.Offset(rs.Body.Rbrace) + 1, " }"})
		case "slices.All", "maps.All":
			if len(call.Args) != 1 {
				return true
			}
			out = append(out, textEdit{tf.Offset(rs.X.Pos()), tf.Offset(rs.X.End()), text(call.Args[0])})
		case "slices.Values", "maps.Values":
			if len(call.Args) != 1 || v != "" {
				return true
			}
			// one variable: it is the value
			out = append(out, textEdit{hdrOff, hdrEnd, fmt.Sprintf("for _, %s := range %s {", orBlank(k), text(call.Args[0]))})
		case "maps.Keys":
			if len(call.Args) != 1 || v != "" {
				return true
			}
			out = append(out, textEdit{tf.Offset(rs.X.Pos()), tf.Offset(rs.X.End()), text(call.Args[0])})
		case "strings.SplitSeq", "strings.FieldsSeq", "bytes.SplitSeq", "bytes.FieldsSeq", "strings.SplitAfterSeq", "strings.FieldsFuncSeq":
			if v != "" {
				return true
			}
			plain := map[string]string{"SplitSeq": "Split", "FieldsSeq": "Fields", "SplitAfterSeq": "SplitAfter", "FieldsFuncSeq": "FieldsFunc"}[fn.Name()]
			args := ""
			for i, a := range call.Args {
				if i > 0 {
					args += ", "
				}
				args += text(a)
			}
			out = append(out, textEdit{hdrOff, hdrEnd, fmt.Sprintf("for _, %s := range %s.%s(%s) {", orBlank(k), text(sel.X), plain, args)})
		}
		return true
	})
	return out
}

func orBlank(s string) string {
	if s == "" {
		return "_"
	}
	return s
}
