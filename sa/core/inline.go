package core

// SSA normalisation: helper functions that the rules do not know by name are
// inlined into their callers before any rule runs.
//
// Why: rules are stated over the SSA of the functions the properties name.  A
// maintainer who extracts part of such a function into a new private helper
// leaves behaviour unchanged but moves instructions out of the rules' sight.
// Inlining is a semantics-preserving transformation of the IR, so analysing the
// inlined body is exactly as sound as analysing the original one; it only makes
// the analysis insensitive to where the helper boundary was drawn.
//
// What is inlined: a static call (ssa.Call, not go/defer) whose callee is a
// golibs function with a body that is (a) not in the rules' vocabulary
// (KnownFunc), (b) unexported and not a closure, (c) free of defer/recover and
// (d) not on the current inlining stack (no recursion).  The callee's blocks
// are cloned into the caller; parameters are replaced by the arguments,
// returns become jumps to the continuation, results become phis.
//
// go/ssa offers no API for building or editing functions, so the block,
// parent and dominator fields are written through unsafe offsets that are
// looked up by reflection and validated at start-up (x/tools is pinned to
// v0.29.0 in go.mod); every edited function is re-checked by sanity().

import (
	"fmt"
	"go/token"
	"go/types"
	"os"
	"reflect"
	"strings"
	"unsafe"

	"golang.org/x/tools/go/ssa"
)

var (
	offBlockParent uintptr
	offBlockDom    uintptr
	offRegNum      uintptr
	layoutErr      error
)

type domMirror struct {
	idom      *ssa.BasicBlock
	children  []*ssa.BasicBlock
	pre, post int32
}

func init() {
	bt := reflect.TypeOf(ssa.BasicBlock{})
	pf, ok1 := bt.FieldByName("parent")
	df, ok2 := bt.FieldByName("dom")
	if !ok1 || !ok2 || pf.Type != reflect.TypeOf((*ssa.Function)(nil)) {
		layoutErr = fmt.Errorf("ssa.BasicBlock layout changed")
		return
	}
	offBlockParent, offBlockDom = pf.Offset, df.Offset
	dt := df.Type
	mt := reflect.TypeOf(domMirror{})
	if dt.NumField() != mt.NumField() || dt.Size() != mt.Size() {
		layoutErr = fmt.Errorf("ssa.domInfo layout changed")
		return
	}
	for i := 0; i < dt.NumField(); i++ {
		if dt.Field(i).Name != mt.Field(i).Name || dt.Field(i).Type != mt.Field(i).Type || dt.Field(i).Offset != mt.Field(i).Offset {
			layoutErr = fmt.Errorf("ssa.domInfo field %d changed", i)
			return
		}
	}
	// register{anInstruction{block}; num int; ...} at offset 0 of value instructions
	rt := reflect.TypeOf(ssa.BinOp{})
	rf := rt.Field(0)
	if rf.Name != "register" || rf.Offset != 0 {
		layoutErr = fmt.Errorf("ssa.register not first")
		return
	}
	nf, ok := rf.Type.FieldByName("num")
	if !ok || nf.Type.Kind() != reflect.Int {
		layoutErr = fmt.Errorf("ssa.register.num changed")
		return
	}
	offRegNum = nf.Offset
	af := rf.Type.Field(0)
	if af.Name != "anInstruction" || af.Offset != 0 || af.Type.NumField() != 1 || af.Type.Field(0).Name != "block" {
		layoutErr = fmt.Errorf("ssa.anInstruction changed")
	}
}

func setInstrBlock(in ssa.Instruction, b *ssa.BasicBlock) {
	v := reflect.ValueOf(in)
	t := v.Type().Elem()
	f0 := t.Field(0)
	if f0.Offset != 0 || (f0.Name != "register" && f0.Name != "anInstruction") {
		panic(fmt.Sprintf("inline: %T does not start with anInstruction", in))
	}
	*(**ssa.BasicBlock)(unsafe.Pointer(v.Pointer())) = b
	if in.Block() != b {
		panic("inline: setInstrBlock failed")
	}
}

func setRegNum(in ssa.Instruction, n int) {
	v := reflect.ValueOf(in)
	if v.Type().Elem().Field(0).Name != "register" {
		return
	}
	*(*int)(unsafe.Pointer(v.Pointer() + offRegNum)) = n
}

func regNum(in ssa.Instruction) int {
	v := reflect.ValueOf(in)
	if v.Type().Elem().Field(0).Name != "register" {
		return -1
	}
	return *(*int)(unsafe.Pointer(v.Pointer() + offRegNum))
}

func newBlock(fn *ssa.Function, comment string) *ssa.BasicBlock {
	b := &ssa.BasicBlock{Comment: comment}
	*(**ssa.Function)(unsafe.Pointer(uintptr(unsafe.Pointer(b)) + offBlockParent)) = fn
	if b.Parent() != fn {
		panic("inline: newBlock failed")
	}
	return b
}

func domOf(b *ssa.BasicBlock) *domMirror {
	return (*domMirror)(unsafe.Pointer(uintptr(unsafe.Pointer(b)) + offBlockDom))
}

// Inliner normalises the functions of one program.
type Inliner struct {
	Known    func(fn *ssa.Function) bool // in the rules' vocabulary: never inlined
	state    map[*ssa.Function]int       // 1 in progress, 2 done
	Inlined  map[*ssa.Function]int       // callee -> number of call sites inlined
	Edited   map[*ssa.Function]bool      // callers whose body changed
	Log      []string
	maxInstr int
}

// NewInliner returns an inliner with the given vocabulary test.
func NewInliner(known func(fn *ssa.Function) bool) *Inliner {
	return &Inliner{Known: known, state: map[*ssa.Function]int{}, Inlined: map[*ssa.Function]int{}, Edited: map[*ssa.Function]bool{}, maxInstr: 4000}
}

func (il *Inliner) inlinable(g *ssa.Function) bool {
	if g == nil || len(g.Blocks) == 0 || g.Parent() != nil || g.Synthetic != "" {
		return false
	}
	if g.Recover != nil && !hasDefers(g) {
		return false
	}
	if !InModule(g) || il.Known(g) {
		return false
	}
	if o := g.Object(); o == nil || o.Exported() {
		return false
	}
	if g.Signature.TypeParams() != nil || g.Signature.RecvTypeParams() != nil {
		// bodies of generic helpers are shared between instantiations; they are
		// inlined only into callers that are themselves the generic origin
	}
	if len(g.Blocks[0].Preds) > 0 {
		return false
	}
	rets := 0
	for _, b := range g.Blocks {
		for _, in := range b.Instrs {
			switch x := in.(type) {
			case *ssa.Go:
				return false
			case *ssa.Defer:
				// merged only at a tail call (see tailPosition) and only when the
				// deferred call cannot observe the difference
				if !deferMovable(g, x) {
					return false
				}
			case *ssa.Return:
				rets++
			}
		}
	}
	return rets > 0
}

// Normalise inlines the unknown helpers called (transitively) from fn.
func (il *Inliner) Normalise(fn *ssa.Function) {
	if layoutErr != nil {
		panic(layoutErr)
	}
	if fn == nil || il.state[fn] != 0 || len(fn.Blocks) == 0 {
		return
	}
	il.state[fn] = 1
	for _, af := range fn.AnonFuncs {
		il.Normalise(af)
	}
	skipped := map[ssa.Instruction]bool{}
	for rounds := 0; rounds < 200; rounds++ {
		var site *ssa.Call
		var callee *ssa.Function
		total := 0
	scan:
		for _, b := range fn.Blocks {
			total += len(b.Instrs)
			for _, in := range b.Instrs {
				c, ok := in.(*ssa.Call)
				if !ok || skipped[c] {
					continue
				}
				g := c.Call.StaticCallee()
				if g == nil || c.Call.IsInvoke() {
					continue
				}
				if _, isClosure := c.Call.Value.(*ssa.MakeClosure); isClosure {
					continue
				}
				// a call from a generic body to a helper of the same generic type
				// goes through an instantiation wrapper over the caller's own type
				// parameters: the body to merge is the origin's
				if o := g.Origin(); o != nil && strings.HasPrefix(g.Synthetic, "instantiation wrapper") && allTypeParams(g.TypeArgs()) {
					g = o
				}
				if os.Getenv("GSA_INLDBG") != "" && InModule(g) && !il.Known(g) {
					fmt.Fprintf(os.Stderr, "callee %s: blocks=%d synthetic=%q typeargs=%v origin=%v parent=%v obj=%v\n", g, len(g.Blocks), g.Synthetic, g.TypeArgs(), g.Origin(), g.Parent(), g.Object())
				}
				if g == fn || !il.inlinable(g) {
					continue
				}
				if il.state[g] == 1 {
					skipped[c] = true // recursion
					continue
				}
				if hasDefers(g) && !tailPosition(c) {
					skipped[c] = true
					continue
				}
				// the callee's generic body may only be merged into a caller with
				// the same type parameters in scope
				if !sameTypeParamScope(fn, g, c) {
					skipped[c] = true
					continue
				}
				site, callee = c, g
				break scan
			}
		}
		if site == nil || total > il.maxInstr {
			break
		}
		il.Normalise(callee)
		il.inlineCall(fn, site, callee)
		il.Inlined[callee]++
		il.Edited[fn] = true
		il.Log = append(il.Log, fmt.Sprintf("%s <- %s", FuncName(fn), FuncName(callee)))
	}
	if il.Edited[fn] {
		for fuseBlocks(fn) || threadBoolPhis(fn) {
		}
		finishFunc(fn)
		if err := sanity(fn); err != nil {
			panic(fmt.Sprintf("inline: %s is inconsistent after inlining: %v", fn, err))
		}
	}
	il.state[fn] = 2
}

// sameTypeParamScope: a non-generic callee can go anywhere; a generic callee
// (method of a generic type or generic function) only into a caller whose call
// instantiates it with the caller's own type parameters, i.e. the callee value
// is the generic origin itself or an instance over identical type arguments.
func sameTypeParamScope(fn, g *ssa.Function, c *ssa.Call) bool {
	if g.TypeParams().Len() == 0 {
		return true
	}
	if cg := c.Call.StaticCallee(); cg != nil && cg.Origin() == g && allTypeParams(cg.TypeArgs()) && fn.TypeParams().Len() > 0 {
		// the cloned instructions keep the callee's own type-parameter
		// objects in their types; the rules compare values, not these types
		return true
	}
	if os.Getenv("GSA_INLDBG") != "" {
		fmt.Fprintf(os.Stderr, "generic callee %s: blocks=%d synthetic=%q typeargs=%v origin=%v originBlocks=%d\n", g, len(g.Blocks), g.Synthetic, g.TypeArgs(), g.Origin(), func() int {
			if g.Origin() != nil {
				return len(g.Origin().Blocks)
			}
			return -1
		}())
	}
	return false
}

func allTypeParams(ts []types.Type) bool {
	if len(ts) == 0 {
		return false
	}
	for _, t := range ts {
		if _, ok := types.Unalias(t).(*types.TypeParam); !ok {
			return false
		}
	}
	return true
}

// inlineCall replaces the call instruction by a clone of the callee's body.
func (il *Inliner) inlineCall(fn *ssa.Function, call *ssa.Call, g *ssa.Function) {
	B := call.Block()
	idx := -1
	for i, in := range B.Instrs {
		if in == ssa.Instruction(call) {
			idx = i
		}
	}
	if idx < 0 {
		panic("inline: call not in its block")
	}
	// continuation block
	B2 := newBlock(fn, "inl.cont")
	B2.Instrs = append([]ssa.Instruction(nil), B.Instrs[idx+1:]...)
	for _, in := range B2.Instrs {
		setInstrBlock(in, B2)
	}
	B2.Succs = B.Succs
	for _, s := range B2.Succs {
		for i, p := range s.Preds {
			if p == B {
				s.Preds[i] = B2
			}
		}
	}
	B.Instrs = B.Instrs[:idx:idx]
	B.Succs = nil

	// clone the callee
	vmap := map[ssa.Value]ssa.Value{}
	args := call.Call.Args
	if len(args) != len(g.Params) {
		panic(fmt.Sprintf("inline: %d args for %d params of %s", len(args), len(g.Params), g))
	}
	for i, p := range g.Params {
		vmap[p] = args[i]
	}
	bmap := map[*ssa.BasicBlock]*ssa.BasicBlock{}
	var nblocks []*ssa.BasicBlock
	for _, gb := range g.Blocks {
		if gb == g.Recover {
			continue
		}
		nb := newBlock(fn, "inl."+g.Name()+"."+gb.Comment)
		bmap[gb] = nb
		nblocks = append(nblocks, nb)
	}
	next := maxRegNum(fn) + 1
	type retSite struct {
		blk  *ssa.BasicBlock
		vals []ssa.Value
	}
	var rets []retSite
	var clones []ssa.Instruction
	for _, gb := range g.Blocks {
		if gb == g.Recover {
			continue
		}
		nb := bmap[gb]
		for _, p := range gb.Preds {
			nb.Preds = append(nb.Preds, bmap[p])
		}
		for _, s := range gb.Succs {
			nb.Succs = append(nb.Succs, bmap[s])
		}
		for _, in := range gb.Instrs {
			if r, ok := in.(*ssa.Return); ok {
				rets = append(rets, retSite{nb, append([]ssa.Value(nil), r.Results...)})
				j := &ssa.Jump{}
				setInstrBlock(j, nb)
				nb.Instrs = append(nb.Instrs, j)
				nb.Succs = []*ssa.BasicBlock{B2}
				continue
			}
			if _, ok := in.(*ssa.DebugRef); ok {
				continue
			}
			if _, ok := in.(*ssa.RunDefers); ok {
				continue // the caller's own rundefers (tail position) runs them
			}
			c := cloneInstr(in)
			setInstrBlock(c, nb)
			if v, ok := c.(ssa.Value); ok {
				if r := v.Referrers(); r != nil {
					*r = nil
				}
				vmap[in.(ssa.Value)] = v
				if regNum(c) >= 0 {
					setRegNum(c, next)
					next++
				}
			}
			if a, ok := c.(*ssa.Alloc); ok && !a.Heap {
				fn.Locals = append(fn.Locals, a)
			}
			if mc, ok := c.(*ssa.MakeClosure); ok {
				if af, ok := mc.Fn.(*ssa.Function); ok {
					fn.AnonFuncs = append(fn.AnonFuncs, af)
				}
			}
			nb.Instrs = append(nb.Instrs, c)
			clones = append(clones, c)
		}
	}
	// remap operands of the clones and register them as referrers
	var rands []*ssa.Value
	for _, c := range clones {
		rands = c.Operands(rands[:0])
		for _, p := range rands {
			if *p == nil {
				continue
			}
			if m, ok := vmap[*p]; ok {
				*p = m
			}
			addRef(*p, c)
		}
	}
	for i := range rets {
		for k, v := range rets[i].vals {
			if m, ok := vmap[v]; ok {
				rets[i].vals[k] = m
			}
		}
	}
	// entry
	j := &ssa.Jump{}
	setInstrBlock(j, B)
	B.Instrs = append(B.Instrs, j)
	entry := bmap[g.Blocks[0]]
	B.Succs = []*ssa.BasicBlock{entry}
	entry.Preds = append([]*ssa.BasicBlock{B}, entry.Preds...)
	if len(entry.Preds) > 1 {
		// the callee's entry block is a loop head: its phis (there are none in
		// go/ssa entry blocks) would need an extra edge
		for _, in := range entry.Instrs {
			if _, ok := in.(*ssa.Phi); ok {
				panic("inline: phi in callee entry block")
			}
		}
	}
	// results
	nres := g.Signature.Results().Len()
	results := make([]ssa.Value, nres)
	for _, r := range rets {
		B2.Preds = append(B2.Preds, r.blk)
	}
	var phis []ssa.Instruction
	for k := 0; k < nres; k++ {
		if len(rets) == 1 {
			results[k] = rets[0].vals[k]
			continue
		}
		same := true
		for _, r := range rets[1:] {
			if r.vals[k] != rets[0].vals[k] {
				same = false
			}
		}
		if same {
			results[k] = rets[0].vals[k]
			continue
		}
		phi := &ssa.Phi{Comment: "inl.result"}
		for _, r := range rets {
			phi.Edges = append(phi.Edges, r.vals[k])
		}
		setInstrBlock(phi, B2)
		setPhiType(phi, g.Signature.Results().At(k).Type(), call.Pos())
		setRegNum(phi, next)
		next++
		for _, e := range phi.Edges {
			addRef(e, phi)
		}
		phis = append(phis, phi)
		results[k] = phi
	}
	B2.Instrs = append(phis, B2.Instrs...)
	if hasDefers(g) {
		// tail position: make sure the deferred calls run before the return
		has := false
		for _, in := range B2.Instrs {
			if _, ok := in.(*ssa.RunDefers); ok {
				has = true
			}
		}
		if !has {
			rd := &ssa.RunDefers{}
			setInstrBlock(rd, B2)
			n := len(B2.Instrs)
			B2.Instrs = append(B2.Instrs[:n-1:n-1], rd, B2.Instrs[n-1])
		}
	}
	// uses of the call
	switch {
	case nres == 1:
		replaceAll(call, results[0])
	case nres > 1:
		for _, ref := range append([]ssa.Instruction(nil), *call.Referrers()...) {
			ex, ok := ref.(*ssa.Extract)
			if !ok {
				panic(fmt.Sprintf("inline: tuple used by %T", ref))
			}
			replaceAll(ex, results[ex.Index])
			removeInstr(ex)
		}
	}
	// drop the call's own references
	rands = call.Operands(rands[:0])
	for _, p := range rands {
		if *p != nil {
			removeRef(*p, call)
		}
	}
	// splice the new blocks after B
	var out []*ssa.BasicBlock
	for _, b := range fn.Blocks {
		out = append(out, b)
		if b == B {
			out = append(out, nblocks...)
			out = append(out, B2)
		}
	}
	fn.Blocks = out
	for i, b := range fn.Blocks {
		b.Index = i
	}
}

// setPhiType writes the unexported type and position of a fresh register.
func setPhiType(phi *ssa.Phi, t types.Type, pos token.Pos) {
	rt := reflect.TypeOf(ssa.Phi{}).Field(0).Type
	tf, _ := rt.FieldByName("typ")
	pf, _ := rt.FieldByName("pos")
	base := reflect.ValueOf(phi).Pointer()
	*(*types.Type)(unsafe.Pointer(base + tf.Offset)) = t
	*(*token.Pos)(unsafe.Pointer(base + pf.Offset)) = pos
	if phi.Type() != t {
		panic("inline: setPhiType failed")
	}
}

func maxRegNum(fn *ssa.Function) int {
	m := 0
	for _, b := range fn.Blocks {
		for _, in := range b.Instrs {
			if n := regNum(in); n > m {
				m = n
			}
		}
	}
	return m
}

func addRef(v ssa.Value, in ssa.Instruction) {
	if r := v.Referrers(); r != nil {
		*r = append(*r, in)
	}
}

func removeRef(v ssa.Value, in ssa.Instruction) {
	r := v.Referrers()
	if r == nil {
		return
	}
	out := (*r)[:0]
	for _, x := range *r {
		if x != in {
			out = append(out, x)
		}
	}
	*r = out
}

// replaceAll makes every user of old use nw instead.
func replaceAll(old, nw ssa.Value) {
	refs := old.Referrers()
	if refs == nil {
		return
	}
	var rands []*ssa.Value
	for _, u := range append([]ssa.Instruction(nil), *refs...) {
		rands = u.Operands(rands[:0])
		for _, p := range rands {
			if *p == old {
				*p = nw
				addRef(nw, u)
			}
		}
	}
	*refs = nil
}

func removeInstr(in ssa.Instruction) {
	b := in.Block()
	out := b.Instrs[:0]
	for _, x := range b.Instrs {
		if x != in {
			out = append(out, x)
		}
	}
	b.Instrs = out
	var rands []*ssa.Value
	rands = in.Operands(rands)
	for _, p := range rands {
		if *p != nil {
			removeRef(*p, in)
		}
	}
}

// cloneInstr makes a shallow copy of the instruction with its own operand
// slices.
func cloneInstr(in ssa.Instruction) ssa.Instruction {
	ov := reflect.ValueOf(in)
	nv := reflect.New(ov.Type().Elem())
	nv.Elem().Set(ov.Elem())
	c := nv.Interface().(ssa.Instruction)
	switch x := c.(type) {
	case *ssa.Phi:
		x.Edges = append([]ssa.Value(nil), x.Edges...)
	case *ssa.Call:
		x.Call.Args = append([]ssa.Value(nil), x.Call.Args...)
	case *ssa.Go:
		x.Call.Args = append([]ssa.Value(nil), x.Call.Args...)
	case *ssa.Defer:
		x.Call.Args = append([]ssa.Value(nil), x.Call.Args...)
	case *ssa.MakeClosure:
		x.Bindings = append([]ssa.Value(nil), x.Bindings...)
	case *ssa.Return:
		x.Results = append([]ssa.Value(nil), x.Results...)
	case *ssa.Select:
		st := make([]*ssa.SelectState, len(x.States))
		for i, s := range x.States {
			cp := *s
			st[i] = &cp
		}
		x.States = st
	}
	return c
}

// finishFunc renumbers the blocks and recomputes the dominator tree.
func finishFunc(fn *ssa.Function) {
	for i, b := range fn.Blocks {
		b.Index = i
		*domOf(b) = domMirror{}
	}
	n := len(fn.Blocks)
	// reverse postorder from the entry (and the recover block)
	order := make([]*ssa.BasicBlock, 0, n)
	seen := make([]bool, n)
	var dfs func(b *ssa.BasicBlock)
	dfs = func(b *ssa.BasicBlock) {
		seen[b.Index] = true
		for _, s := range b.Succs {
			if !seen[s.Index] {
				dfs(s)
			}
		}
		order = append(order, b)
	}
	roots := []*ssa.BasicBlock{fn.Blocks[0]}
	if fn.Recover != nil {
		roots = append(roots, fn.Recover)
	}
	for _, r := range roots {
		if !seen[r.Index] {
			dfs(r)
		}
	}
	rpo := make([]int, n)
	for i := range rpo {
		rpo[i] = -1
	}
	for i, b := range order {
		rpo[b.Index] = len(order) - 1 - i
	}
	idom := make([]*ssa.BasicBlock, n)
	isRoot := map[*ssa.BasicBlock]bool{}
	for _, r := range roots {
		idom[r.Index] = r
		isRoot[r] = true
	}
	intersect := func(a, b *ssa.BasicBlock) *ssa.BasicBlock {
		for a != b {
			for rpo[a.Index] > rpo[b.Index] {
				if idom[a.Index] == a {
					return nil
				}
				a = idom[a.Index]
			}
			for rpo[b.Index] > rpo[a.Index] {
				if idom[b.Index] == b {
					return nil
				}
				b = idom[b.Index]
			}
		}
		return a
	}
	for changed := true; changed; {
		changed = false
		for i := len(order) - 1; i >= 0; i-- {
			b := order[i]
			if isRoot[b] {
				continue
			}
			var nw *ssa.BasicBlock
			for _, p := range b.Preds {
				if rpo[p.Index] < 0 || idom[p.Index] == nil {
					continue
				}
				if nw == nil {
					nw = p
				} else if x := intersect(p, nw); x != nil {
					nw = x
				}
			}
			if nw != nil && idom[b.Index] != nw {
				idom[b.Index] = nw
				changed = true
			}
		}
	}
	for i := len(order) - 1; i >= 0; i-- {
		b := order[i]
		if isRoot[b] || idom[b.Index] == nil {
			continue
		}
		domOf(b).idom = idom[b.Index]
		d := domOf(idom[b.Index])
		d.children = append(d.children, b)
	}
	var number func(b *ssa.BasicBlock, pre, post int32) (int32, int32)
	number = func(b *ssa.BasicBlock, pre, post int32) (int32, int32) {
		domOf(b).pre = pre
		pre++
		for _, c := range domOf(b).children {
			pre, post = number(c, pre, post)
		}
		domOf(b).post = post
		post++
		return pre, post
	}
	var pre, post int32
	for _, r := range roots {
		pre, post = number(r, pre, post)
	}
}

// sanity re-checks the invariants of go/ssa functions that the rules rely on.
func sanity(fn *ssa.Function) error {
	in := map[*ssa.BasicBlock]bool{}
	for i, b := range fn.Blocks {
		if b.Index != i || b.Parent() != fn {
			return fmt.Errorf("block %d: index/parent", i)
		}
		in[b] = true
	}
	defd := map[ssa.Value]bool{}
	for _, b := range fn.Blocks {
		for _, x := range b.Instrs {
			if v, ok := x.(ssa.Value); ok {
				defd[v] = true
			}
		}
	}
	for _, b := range fn.Blocks {
		if len(b.Instrs) == 0 {
			return fmt.Errorf("block %d is empty", b.Index)
		}
		for _, s := range b.Succs {
			if !in[s] {
				return fmt.Errorf("block %d: successor outside the function", b.Index)
			}
			found := false
			for _, p := range s.Preds {
				if p == b {
					found = true
				}
			}
			if !found {
				return fmt.Errorf("block %d -> %d: not a predecessor", b.Index, s.Index)
			}
		}
		for _, p := range b.Preds {
			if !in[p] {
				return fmt.Errorf("block %d: predecessor outside the function", b.Index)
			}
		}
		last := b.Instrs[len(b.Instrs)-1]
		switch last.(type) {
		case *ssa.If:
			if len(b.Succs) != 2 {
				return fmt.Errorf("block %d: if with %d successors", b.Index, len(b.Succs))
			}
		case *ssa.Jump:
			if len(b.Succs) != 1 {
				return fmt.Errorf("block %d: jump with %d successors", b.Index, len(b.Succs))
			}
		case *ssa.Return, *ssa.Panic:
			if len(b.Succs) != 0 {
				return fmt.Errorf("block %d: exit with successors", b.Index)
			}
		default:
			return fmt.Errorf("block %d: no terminator (%T)", b.Index, last)
		}
		var rands []*ssa.Value
		for k, x := range b.Instrs {
			if x.Block() != b {
				return fmt.Errorf("block %d instr %d: wrong block", b.Index, k)
			}
			if phi, ok := x.(*ssa.Phi); ok && len(phi.Edges) != len(b.Preds) {
				return fmt.Errorf("block %d: phi with %d edges for %d predecessors", b.Index, len(phi.Edges), len(b.Preds))
			}
			rands = x.Operands(rands[:0])
			for _, p := range rands {
				v := *p
				if v == nil {
					continue
				}
				if vi, ok := v.(ssa.Instruction); ok {
					if !defd[v] {
						return fmt.Errorf("block %d: %s uses %s, which is not defined in the function", b.Index, x, v.Name())
					}
					_ = vi
				}
				if r := v.Referrers(); r != nil {
					found := false
					for _, u := range *r {
						if u == x {
							found = true
						}
					}
					if !found {
						return fmt.Errorf("block %d: %s missing from the referrers of %s", b.Index, x, v.Name())
					}
				}
			}
		}
	}
	return nil
}

// threadBoolPhis removes the blocks that inlining a Boolean helper leaves
// behind: a block that consists of `x = phi(...)` and `if x` only.  Every
// predecessor is routed straight to the branch its value selects (a constant
// edge) or to a copy of the test on its own value, which is the control flow
// the compiler front end produces for the same condition written in place.
func threadBoolPhis(fn *ssa.Function) (any bool) {
	for changed := true; changed; {
		changed = false
		for _, J := range fn.Blocks {
			if len(J.Instrs) != 2 || len(J.Succs) != 2 || J.Succs[0] == J.Succs[1] {
				continue
			}
			phi, ok1 := J.Instrs[0].(*ssa.Phi)
			iff, ok2 := J.Instrs[1].(*ssa.If)
			if !ok1 || !ok2 || iff.Cond != ssa.Value(phi) || len(*phi.Referrers()) != 1 {
				continue
			}
			T, F := J.Succs[0], J.Succs[1]
			if T == J || F == J || len(J.Preds) == 0 {
				continue
			}
			// a successor phi may use J's phi on the edge from J only
			usable := true
			for _, p := range J.Preds {
				if p == J {
					usable = false
				}
				n := 0
				for _, sc := range p.Succs {
					if sc == J {
						n++
					}
				}
				if n != 1 {
					usable = false
				}
			}
			if !usable {
				continue
			}
			jIdx := func(b *ssa.BasicBlock) int {
				for i, p := range b.Preds {
					if p == J {
						return i
					}
				}
				return -1
			}
			tIdx, fIdx := jIdx(T), jIdx(F)
			if tIdx < 0 || fIdx < 0 {
				continue
			}
			addPred := func(target *ssa.BasicBlock, from *ssa.BasicBlock, ji int, v ssa.Value) {
				target.Preds = append(target.Preds, from)
				for _, in := range target.Instrs {
					tp, ok := in.(*ssa.Phi)
					if !ok {
						break
					}
					e := tp.Edges[ji]
					if e == ssa.Value(phi) {
						e = v
					}
					tp.Edges = append(tp.Edges, e)
					addRef(e, tp)
				}
			}
			var extra []*ssa.BasicBlock
			for i, P := range J.Preds {
				v := phi.Edges[i]
				var to *ssa.BasicBlock
				if c, isC := v.(*ssa.Const); isC && c.Value != nil {
					target, ji := F, fIdx
					if c.Value.String() == "true" {
						target, ji = T, tIdx
					}
					addPred(target, P, ji, v)
					to = target
				} else {
					N := newBlock(fn, "thread")
					ni := &ssa.If{Cond: v}
					setInstrBlock(ni, N)
					addRef(v, ni)
					N.Instrs = []ssa.Instruction{ni}
					N.Preds = []*ssa.BasicBlock{P}
					N.Succs = []*ssa.BasicBlock{T, F}
					addPred(T, N, tIdx, v)
					addPred(F, N, fIdx, v)
					extra = append(extra, N)
					to = N
				}
				for k, sc := range P.Succs {
					if sc == J {
						P.Succs[k] = to
					}
				}
			}
			// detach J
			for _, e := range phi.Edges {
				removeRef(e, phi)
			}
			dropPred := func(target *ssa.BasicBlock, ji int) {
				target.Preds = append(target.Preds[:ji:ji], target.Preds[ji+1:]...)
				for _, in := range target.Instrs {
					tp, ok := in.(*ssa.Phi)
					if !ok {
						break
					}
					removeRefOnce(tp.Edges[ji], tp)
					tp.Edges = append(tp.Edges[:ji:ji], tp.Edges[ji+1:]...)
				}
			}
			dropPred(T, tIdx)
			dropPred(F, fIdx)
			var out []*ssa.BasicBlock
			for _, b := range fn.Blocks {
				if b == J {
					out = append(out, extra...)
					continue
				}
				out = append(out, b)
			}
			fn.Blocks = out
			for i, b := range fn.Blocks {
				b.Index = i
			}
			changed, any = true, true
			break
		}
	}
	return any
}

// fuseBlocks merges a block that ends in a jump with its successor when that
// successor has no other predecessor (the seams left by inlining).
func fuseBlocks(fn *ssa.Function) (any bool) {
	for changed := true; changed; {
		changed = false
		for _, B := range fn.Blocks {
			if len(B.Succs) != 1 {
				continue
			}
			if _, ok := B.Instrs[len(B.Instrs)-1].(*ssa.Jump); !ok {
				continue
			}
			S := B.Succs[0]
			if S == B || len(S.Preds) != 1 || S == fn.Blocks[0] || S == fn.Recover {
				continue
			}
			// single-edge phis are copies
			for len(S.Instrs) > 0 {
				phi, ok := S.Instrs[0].(*ssa.Phi)
				if !ok {
					break
				}
				e := phi.Edges[0]
				removeRef(e, phi)
				replaceAll(phi, e)
				S.Instrs = S.Instrs[1:]
			}
			B.Instrs = append(B.Instrs[:len(B.Instrs)-1:len(B.Instrs)-1], S.Instrs...)
			for _, in := range S.Instrs {
				setInstrBlock(in, B)
			}
			B.Succs = S.Succs
			for _, sc := range S.Succs {
				for i, p := range sc.Preds {
					if p == S {
						sc.Preds[i] = B
					}
				}
			}
			var out []*ssa.BasicBlock
			for _, b := range fn.Blocks {
				if b != S {
					out = append(out, b)
				}
			}
			fn.Blocks = out
			for i, b := range fn.Blocks {
				b.Index = i
			}
			changed, any = true, true
			break
		}
	}
	return any
}

// removeRefOnce removes one occurrence of in from v's referrers.
func removeRefOnce(v ssa.Value, in ssa.Instruction) {
	r := v.Referrers()
	if r == nil {
		return
	}
	for i, x := range *r {
		if x == in {
			*r = append((*r)[:i:i], (*r)[i+1:]...)
			return
		}
	}
}

func hasDefers(g *ssa.Function) bool {
	for _, b := range g.Blocks {
		for _, in := range b.Instrs {
			if _, ok := in.(*ssa.Defer); ok {
				return true
			}
		}
	}
	return false
}

// deferMovable: the deferred call may run at the caller's return instead of
// the helper's (the call site is in tail position, so nothing executes in
// between): it is not a closure over the helper's variables, receives no
// pointer into the helper's frame, and cannot recover.
func deferMovable(g *ssa.Function, d *ssa.Defer) bool {
	if _, isClosure := d.Call.Value.(*ssa.MakeClosure); isClosure {
		return false
	}
	if b, isB := d.Call.Value.(*ssa.Builtin); isB && b.Name() == "recover" {
		return false
	}
	if callee := d.Call.StaticCallee(); callee != nil && InModule(callee) {
		for _, b := range callee.Blocks {
			for _, in := range b.Instrs {
				if c, ok := in.(*ssa.Call); ok {
					if bi, isB := c.Call.Value.(*ssa.Builtin); isB && bi.Name() == "recover" {
						return false
					}
				}
			}
		}
	}
	for _, a := range d.Call.Args {
		root := a
		for {
			switch x := root.(type) {
			case *ssa.FieldAddr:
				root = x.X
				continue
			case *ssa.IndexAddr:
				root = x.X
				continue
			case *ssa.ChangeType:
				root = x.X
				continue
			}
			break
		}
		if al, ok := root.(*ssa.Alloc); ok && al.Parent() == g {
			return false
		}
	}
	return true
}

// tailPosition: after the call the caller only moves the results into its
// result cells, runs its deferred calls and returns.
func tailPosition(call *ssa.Call) bool {
	b := call.Block()
	after := false
	for _, in := range b.Instrs {
		if in == ssa.Instruction(call) {
			after = true
			continue
		}
		if !after {
			continue
		}
		switch x := in.(type) {
		case *ssa.Extract:
			if x.Tuple != ssa.Value(call) {
				return false
			}
		case *ssa.Store:
			if _, ok := x.Addr.(*ssa.Alloc); !ok {
				return false
			}
		case *ssa.UnOp:
			if _, ok := x.X.(*ssa.Alloc); !ok || x.Op != token.MUL {
				return false
			}
		case *ssa.RunDefers, *ssa.Return:
		default:
			return false
		}
	}
	_, isRet := b.Instrs[len(b.Instrs)-1].(*ssa.Return)
	return isRet
}
