package core

import (
	"go/token"
	"go/types"
	"golang.org/x/tools/go/ssa"
)

// Fact is a branch outcome known to hold: Cond evaluated to Truth.
type Fact struct {
	Cond  ssa.Value
	Truth bool
}

// FactSet holds, per block, the branch outcomes that hold on *every* path to
// the block's entry (a forward must-analysis; strictly more than the
// dominance-based Guards: outcomes established on all merging paths survive
// the merge).  A fact about a condition is dropped when the block defining the
// condition is entered again (the next loop iteration computes a new value).
type FactSet struct {
	fn *ssa.Function
	in map[*ssa.BasicBlock]map[Fact]bool
}

// Facts computes the fact sets of a function.
func Facts(fn *ssa.Function) *FactSet {
	fs := &FactSet{fn: fn, in: map[*ssa.BasicBlock]map[Fact]bool{}}
	if len(fn.Blocks) == 0 {
		return fs
	}
	out := map[*ssa.BasicBlock]map[Fact]bool{}
	defBlock := func(v ssa.Value) *ssa.BasicBlock {
		if in, ok := v.(ssa.Instruction); ok {
			return in.Block()
		}
		return nil
	}
	edge := func(p, b *ssa.BasicBlock) map[Fact]bool {
		base := out[p]
		if base == nil {
			return nil // not computed yet: top
		}
		m := make(map[Fact]bool, len(base)+1)
		for f := range base {
			m[f] = true
		}
		if iff, ok := p.Instrs[len(p.Instrs)-1].(*ssa.If); ok && p.Succs[0] != p.Succs[1] {
			if p.Succs[0] == b {
				m[Fact{iff.Cond, true}] = true
			} else if p.Succs[1] == b {
				m[Fact{iff.Cond, false}] = true
			}
		}
		return m
	}
	fs.in[fn.Blocks[0]] = map[Fact]bool{}
	for changed := true; changed; {
		changed = false
		for _, b := range fn.Blocks {
			var in map[Fact]bool
			if b == fn.Blocks[0] || b == fn.Recover {
				in = map[Fact]bool{}
			} else {
				first := true
				for _, p := range b.Preds {
					e := edge(p, b)
					if e == nil {
						continue
					}
					if first {
						in, first = e, false
						continue
					}
					for f := range in {
						if !e[f] {
							delete(in, f)
						}
					}
				}
				if first {
					continue // no predecessor computed yet
				}
			}
			// kill facts about conditions (re)computed in this block
			for f := range in {
				if defBlock(f.Cond) == b {
					delete(in, f)
				}
			}
			old, had := fs.in[b]
			if !had || len(old) != len(in) || !sameFacts(old, in) {
				fs.in[b] = in
				o := make(map[Fact]bool, len(in))
				for f := range in {
					o[f] = true
				}
				out[b] = o
				changed = true
			} else if out[b] == nil {
				out[b] = old
			}
		}
	}
	return fs
}

func sameFacts(a, b map[Fact]bool) bool {
	if len(a) != len(b) {
		return false
	}
	for f := range a {
		if !b[f] {
			return false
		}
	}
	return true
}

// At returns the facts that hold when the block is entered.
func (fs *FactSet) At(b *ssa.BasicBlock) []Fact {
	var out []Fact
	for f := range fs.in[b] {
		out = append(out, f)
	}
	return out
}

// OnEdge returns the facts that hold when control passes from p to b.
func (fs *FactSet) OnEdge(p, b *ssa.BasicBlock) []Fact {
	out := fs.At(p)
	if iff, ok := p.Instrs[len(p.Instrs)-1].(*ssa.If); ok && p.Succs[0] != p.Succs[1] {
		if p.Succs[0] == b {
			out = append(out, Fact{iff.Cond, true})
		} else if p.Succs[1] == b {
			out = append(out, Fact{iff.Cond, false})
		}
	}
	return out
}

// Leaf is a non-phi value reaching a use, with the facts that hold on the
// path through which it arrives.
type Leaf struct {
	V     ssa.Value
	Facts []Fact
	From  *ssa.BasicBlock // block whose end state applies (phi predecessor) or nil for "at the use"
}

// Leaves resolves v at instruction `at` through phis to the values that may
// arrive, each with the facts of its incoming edge.
func (fs *FactSet) Leaves(v ssa.Value, at ssa.Instruction) []Leaf {
	var out []Leaf
	seen := map[*ssa.Phi]bool{}
	var walk func(v ssa.Value, facts []Fact, from *ssa.BasicBlock)
	walk = func(v ssa.Value, facts []Fact, from *ssa.BasicBlock) {
		phi, ok := v.(*ssa.Phi)
		if !ok {
			out = append(out, Leaf{v, facts, from})
			return
		}
		if seen[phi] {
			return
		}
		seen[phi] = true
		for i, e := range phi.Edges {
			p := phi.Block().Preds[i]
			walk(e, fs.OnEdge(p, phi.Block()), p)
		}
	}
	walk(v, fs.At(at.Block()), nil)
	return out
}

// LoadSource looks through a load of a local cell to the value stored to it
// earlier in the same block with no call or other store to the cell in
// between (the `err = f(); if err != nil` idiom on a named result).  It
// returns v itself when that does not apply.
func LoadSource(v ssa.Value) ssa.Value {
	ld, ok := v.(*ssa.UnOp)
	if !ok || ld.Op != token.MUL {
		return v
	}
	cell, ok := ld.X.(*ssa.Alloc)
	if !ok {
		return v
	}
	b := ld.Block()
	at := -1
	for i, in := range b.Instrs {
		if in == ssa.Instruction(ld) {
			at = i
		}
	}
	for i := at - 1; i >= 0; i-- {
		switch x := b.Instrs[i].(type) {
		case *ssa.Store:
			if x.Addr == ssa.Value(cell) {
				return x.Val
			}
		case *ssa.Call, *ssa.RunDefers, *ssa.Defer, *ssa.Go:
			// the cell may be written through an escaped pointer
			return v
		}
	}
	return v
}

// ZeroTest brings a comparison of a non-negative quantity (an unsigned value
// or a len/cap) with 0 or 1 to the form "v == 0 is <isZero>": `v == 0`,
// `v < 1`, `v <= 0` and their negations `v != 0`, `v >= 1`, `v > 0`, with the
// constant on either side.  ok is false for anything else.
func ZeroTest(cond ssa.Value, truth bool) (v ssa.Value, isZero bool, ok bool) {
	cond, truth = StripNot(cond, truth)
	bo, isB := cond.(*ssa.BinOp)
	if !isB {
		return nil, false, false
	}
	x, y, op := bo.X, bo.Y, bo.Op
	if _, isK := ConstInt(x); isK {
		x, y = y, x
		switch op {
		case token.LSS:
			op = token.GTR
		case token.GTR:
			op = token.LSS
		case token.LEQ:
			op = token.GEQ
		case token.GEQ:
			op = token.LEQ
		}
	}
	k, isK := ConstInt(y)
	if !isK {
		return nil, false, false
	}
	nonneg := false
	if b, isBasic := x.Type().Underlying().(*types.Basic); isBasic && b.Info()&types.IsUnsigned != 0 {
		nonneg = true
	}
	inner := x
	if cv, isCv := inner.(*ssa.Convert); isCv {
		inner = cv.X
	}
	if call, isC := inner.(*ssa.Call); isC {
		if bi, isBi := call.Call.Value.(*ssa.Builtin); isBi && (bi.Name() == "len" || bi.Name() == "cap") {
			nonneg = true
		}
	}
	if !nonneg {
		// only == 0 / != 0 are zero tests of a signed value
		switch {
		case op == token.EQL && k == 0:
			return x, truth, true
		case op == token.NEQ && k == 0:
			return x, !truth, true
		}
		return nil, false, false
	}
	switch {
	case op == token.EQL && k == 0, op == token.LSS && k == 1, op == token.LEQ && k == 0:
		return x, truth, true
	case op == token.NEQ && k == 0, op == token.GEQ && k == 1, op == token.GTR && k == 0:
		return x, !truth, true
	}
	return nil, false, false
}
