// Package errshape is engine E5: an abstract interpreter whose values are sets
// of *shapes* of error values — nil, a dynamic type, or a wrapper type around
// a set of inner shapes.  Branches on `err != nil`, type assertions and type
// switches refine the sets, deferred wrapper calls (defer makeAddrError(&err,
// ...)) are applied at RunDefers, and callees are evaluated per argument
// shape.  It decides which dynamic types an error can have at a program point
// and whether a block (a panic, say) is reachable for the shapes that actually
// flow there.  Nothing is executed.
package errshape

import (
	"go/token"
	"go/types"
	"sort"
	"strings"

	"golang.org/x/tools/go/ssa"
)

// Shape of an error value.  T is "nil", a type string, or "?why" for unknown.
type Shape struct {
	T     string
	Inner Set // non-nil for wrappers (types with an Err field and Unwrap)
	Wrap  bool
}

// Set of shapes, keyed by canonical rendering.
type Set map[string]Shape

func (s Shape) Key() string {
	if !s.Wrap {
		return s.T
	}
	return s.T + "{" + s.Inner.String() + "}"
}

func (s Set) String() string {
	ks := make([]string, 0, len(s))
	for k := range s {
		ks = append(ks, k)
	}
	sort.Strings(ks)
	return strings.Join(ks, " | ")
}

func Of(shapes ...Shape) Set {
	out := Set{}
	for _, s := range shapes {
		out[s.Key()] = s
	}
	return out
}

var Nil = Shape{T: "nil"}

func Unknown(why string) Shape { return Shape{T: "?" + why} }

func (s Set) Clone() Set {
	out := make(Set, len(s))
	for k, v := range s {
		out[k] = v
	}
	return out
}

func (s Set) Union(o Set) Set {
	out := s.Clone()
	for k, v := range o {
		out[k] = v
	}
	return out
}

func (s Set) HasNil() bool { _, ok := s["nil"]; return ok }

func (s Set) WithoutNil() Set {
	out := s.Clone()
	delete(out, "nil")
	return out
}

func (s Set) HasUnknown() bool {
	for _, v := range s {
		if strings.HasPrefix(v.T, "?") {
			return true
		}
	}
	return false
}

// Types lists the top-level dynamic types (nil included).
func (s Set) Types() []string {
	m := map[string]bool{}
	for _, v := range s {
		m[v.T] = true
	}
	out := make([]string, 0, len(m))
	for k := range m {
		out = append(out, k)
	}
	sort.Strings(out)
	return out
}

func (s Set) Equal(o Set) bool {
	if len(s) != len(o) {
		return false
	}
	for k := range s {
		if _, ok := o[k]; !ok {
			return false
		}
	}
	return true
}

// Engine evaluates functions.
type Engine struct {
	InScope func(fn *ssa.Function) bool
	memo    map[string]*Result
	active  map[string]bool
	// PanicsReached collects, per panic instruction, the call chains (entry
	// function names) under which it was found reachable.
	PanicsReached map[*ssa.Panic][]string
	// PanicsSeen records every panic instruction whose function was analysed.
	PanicsSeen map[*ssa.Panic]bool
	// BadAsserts: unchecked type assertions that may fail.
	BadAsserts  map[*ssa.TypeAssert]string
	SeenAsserts map[*ssa.TypeAssert]bool
	Analysed    map[*ssa.Function]bool
	// CallShapes accumulates, per call instruction, the union of the shapes of
	// its error result over every context in which it was evaluated.
	CallShapes map[*ssa.Call]Set
	chain      []string
}

// Result of evaluating a function for given argument shapes.
type Result struct {
	Results []Set       // per result index (only error-typed ones are meaningful)
	OutPtr  map[int]Set // final pointee sets of *error parameters
	Panics  bool
}

func New(inScope func(fn *ssa.Function) bool) *Engine {
	return &Engine{InScope: inScope, memo: map[string]*Result{}, active: map[string]bool{},
		PanicsReached: map[*ssa.Panic][]string{}, PanicsSeen: map[*ssa.Panic]bool{},
		BadAsserts: map[*ssa.TypeAssert]string{}, SeenAsserts: map[*ssa.TypeAssert]bool{}, Analysed: map[*ssa.Function]bool{}, CallShapes: map[*ssa.Call]Set{}}
}

func isErrorLike(t types.Type) bool {
	_, ok := t.Underlying().(*types.Interface)
	return ok
}

func isPtrToIface(t types.Type) bool {
	p, ok := t.Underlying().(*types.Pointer)
	return ok && isErrorLike(p.Elem())
}

// Arg is an argument: a shape set for interface values, Pointee for *error.
type Arg struct {
	Val     Set
	Pointee Set
}

func argsKey(fn *ssa.Function, args []Arg) string {
	var sb strings.Builder
	sb.WriteString(fn.String())
	for _, a := range args {
		sb.WriteString("#")
		if a.Val != nil {
			sb.WriteString(a.Val.String())
		}
		sb.WriteString("^")
		if a.Pointee != nil {
			sb.WriteString(a.Pointee.String())
		}
	}
	return sb.String()
}

// Eval evaluates fn with the given arguments (nil sets = unknown).
func (e *Engine) Eval(fn *ssa.Function, args []Arg) *Result {
	key := argsKey(fn, args)
	if r, ok := e.memo[key]; ok {
		return r
	}
	if e.active[key] || len(e.chain) > 12 {
		// recursion: unknown
		r := &Result{}
		for i := 0; i < fn.Signature.Results().Len(); i++ {
			r.Results = append(r.Results, Of(Nil, Unknown("recursion")))
		}
		return r
	}
	e.active[key] = true
	e.chain = append(e.chain, fn.Name())
	r := e.eval(fn, args)
	e.chain = e.chain[:len(e.chain)-1]
	delete(e.active, key)
	e.memo[key] = r
	return r
}

type state struct {
	cells map[ssa.Value]Set // Alloc / pointer parameter / field cell key
	alias map[ssa.Value]ssa.Value
	ref   map[ssa.Value]Set
	fcell map[fkey]Set
}

type fkey struct {
	base  ssa.Value
	field string
}

func (s *state) clone() *state {
	n := &state{cells: map[ssa.Value]Set{}, alias: map[ssa.Value]ssa.Value{}, ref: map[ssa.Value]Set{}, fcell: map[fkey]Set{}}
	for k, v := range s.cells {
		n.cells[k] = v
	}
	for k, v := range s.alias {
		n.alias[k] = v
	}
	for k, v := range s.ref {
		n.ref[k] = v
	}
	for k, v := range s.fcell {
		n.fcell[k] = v
	}
	return n
}

func joinStates(a, b *state) *state {
	if a == nil {
		return b.clone()
	}
	if b == nil {
		return a.clone()
	}
	n := &state{cells: map[ssa.Value]Set{}, alias: map[ssa.Value]ssa.Value{}, ref: map[ssa.Value]Set{}, fcell: map[fkey]Set{}}
	for k, v := range a.cells {
		if w, ok := b.cells[k]; ok {
			n.cells[k] = v.Union(w)
		} else {
			n.cells[k] = v.Union(Of(Nil))
		}
	}
	for k, w := range b.cells {
		if _, ok := a.cells[k]; !ok {
			n.cells[k] = w.Union(Of(Nil))
		}
	}
	for k, v := range a.alias {
		if b.alias[k] == v {
			n.alias[k] = v
		}
	}
	for k, v := range a.ref {
		if w, ok := b.ref[k]; ok {
			n.ref[k] = v.Union(w)
		}
	}
	for k, v := range a.fcell {
		if w, ok := b.fcell[k]; ok {
			n.fcell[k] = v.Union(w)
		}
	}
	return n
}

func stateEq(a, b *state) bool {
	if (a == nil) != (b == nil) {
		return false
	}
	if a == nil {
		return true
	}
	if len(a.cells) != len(b.cells) || len(a.ref) != len(b.ref) || len(a.fcell) != len(b.fcell) || len(a.alias) != len(b.alias) {
		return false
	}
	for k, v := range a.cells {
		if w, ok := b.cells[k]; !ok || !v.Equal(w) {
			return false
		}
	}
	for k, v := range a.ref {
		if w, ok := b.ref[k]; !ok || !v.Equal(w) {
			return false
		}
	}
	for k, v := range a.fcell {
		if w, ok := b.fcell[k]; !ok || !v.Equal(w) {
			return false
		}
	}
	for k, v := range a.alias {
		if b.alias[k] != v {
			return false
		}
	}
	return true
}

func hasUnwrap(t types.Type) bool {
	ms := types.NewMethodSet(t)
	for i := 0; i < ms.Len(); i++ {
		if ms.At(i).Obj().Name() == "Unwrap" {
			return true
		}
	}
	return false
}

func (e *Engine) eval(fn *ssa.Function, args []Arg) *Result {
	e.Analysed[fn] = true
	nres := fn.Signature.Results().Len()
	res := &Result{OutPtr: map[int]Set{}}
	for i := 0; i < nres; i++ {
		res.Results = append(res.Results, Set{})
	}
	if len(fn.Blocks) == 0 {
		for i := range res.Results {
			res.Results[i] = Of(Nil, Unknown("nobody:"+fn.Name()))
		}
		return res
	}
	env := map[ssa.Value]Set{}
	init := &state{cells: map[ssa.Value]Set{}, alias: map[ssa.Value]ssa.Value{}, ref: map[ssa.Value]Set{}, fcell: map[fkey]Set{}}
	for i, p := range fn.Params {
		var a Arg
		if i < len(args) {
			a = args[i]
		}
		switch {
		case isPtrToIface(p.Type()):
			if a.Pointee != nil {
				init.cells[p] = a.Pointee
			} else {
				init.cells[p] = Of(Nil, Unknown("param"))
			}
		case isErrorLike(p.Type()):
			if a.Val != nil {
				env[p] = a.Val
			} else {
				env[p] = Of(Nil, Unknown("param"))
			}
		}
	}
	for _, fv := range fn.FreeVars {
		if isPtrToIface(fv.Type()) {
			init.cells[fv] = Of(Nil, Unknown("freevar"))
		}
	}
	// lookup of a value's current set
	var get func(st *state, v ssa.Value) Set
	get = func(st *state, v ssa.Value) Set {
		if r, ok := st.ref[v]; ok {
			return r
		}
		if c, ok := v.(*ssa.Const); ok {
			if c.Value == nil {
				return Of(Nil)
			}
			return Of(Unknown("const"))
		}
		if s, ok := env[v]; ok {
			return s
		}
		return Of(Nil, Unknown("value:"+v.Name()))
	}
	refine := func(st *state, v ssa.Value, s Set) {
		st.ref[v] = s
		for c, a := range st.alias {
			if a == v {
				st.cells[c] = s
			}
		}
	}
	in := map[*ssa.BasicBlock]*state{fn.Blocks[0]: init}
	edgeOut := map[[2]*ssa.BasicBlock]*state{}
	var defers []*ssa.Defer
	for _, b := range fn.Blocks {
		for _, ins := range b.Instrs {
			if d, ok := ins.(*ssa.Defer); ok {
				defers = append(defers, d)
			}
			if p, ok := ins.(*ssa.Panic); ok {
				e.PanicsSeen[p] = true
			}
			if ta, ok := ins.(*ssa.TypeAssert); ok && !ta.CommaOk {
				e.SeenAsserts[ta] = true
			}
		}
	}
	order := rpo(fn)
	var retStates []struct {
		st  *state
		ret *ssa.Return
	}
	for iter := 0; iter < 30; iter++ {
		changed := false
		retStates = retStates[:0]
		for _, b := range order {
			var st *state
			if b == fn.Blocks[0] {
				st = init.clone()
			} else {
				for _, p := range b.Preds {
					if o := edgeOut[[2]*ssa.BasicBlock{p, b}]; o != nil {
						st = joinStates(st, o)
					}
				}
			}
			if st == nil {
				continue // unreachable so far
			}
			if old := in[b]; old == nil || !stateEq(old, st) {
				in[b] = st.clone()
				changed = true
			}
			cur := st
			for _, ins := range b.Instrs {
				switch v := ins.(type) {
				case *ssa.Phi:
					s := Set{}
					for i, ed := range v.Edges {
						if edgeOut[[2]*ssa.BasicBlock{b.Preds[i], b}] == nil {
							continue
						}
						if isErrorLike(v.Type()) {
							s = s.Union(get(edgeOut[[2]*ssa.BasicBlock{b.Preds[i], b}], ed))
						}
					}
					if isErrorLike(v.Type()) {
						env[v] = s
						delete(cur.ref, v)
					}
				case *ssa.Alloc:
					if isErrorLike(v.Type().Underlying().(*types.Pointer).Elem()) {
						if _, ok := cur.cells[v]; !ok {
							cur.cells[v] = Of(Nil)
						}
					}
				case *ssa.Store:
					if _, ok := cur.cells[v.Addr]; ok || isPtrToIface(v.Addr.Type()) {
						if fa, isFA := v.Addr.(*ssa.FieldAddr); isFA {
							cur.fcell[fkey{fa.X, fieldName(fa)}] = get(cur, v.Val)
						} else {
							cur.cells[v.Addr] = get(cur, v.Val)
							cur.alias[v.Addr] = v.Val
						}
					}
				case *ssa.UnOp:
					if v.Op == token.MUL && isErrorLike(v.Type()) {
						if fa, isFA := v.X.(*ssa.FieldAddr); isFA {
							if s, ok := cur.fcell[fkey{fa.X, fieldName(fa)}]; ok {
								env[v] = s
							} else {
								env[v] = Of(Nil, Unknown("field:"+fieldName(fa)))
							}
						} else if s, ok := cur.cells[v.X]; ok {
							env[v] = s
							cur.alias[v.X] = v
						} else {
							env[v] = Of(Nil, Unknown("load"))
						}
						delete(cur.ref, v)
					}
				case *ssa.MakeInterface:
					env[v] = Of(e.shapeOfConcrete(cur, v.X))
				case *ssa.ChangeInterface:
					env[v] = get(cur, v.X)
				case *ssa.ChangeType:
					if isErrorLike(v.Type()) {
						env[v] = get(cur, v.X)
					}
				case *ssa.TypeAssert:
					s := get(cur, v.X)
					if !v.CommaOk {
						// may fail unless every shape has the asserted type
						bad := ""
						for _, sh := range s {
							if !typeMatches(sh.T, v.AssertedType) {
								bad = sh.T
							}
						}
						if bad != "" {
							e.BadAsserts[v] = "operand may be " + bad + " (shapes: " + s.String() + ") via " + strings.Join(e.chain, " > ")
						}
					}
				case *ssa.Extract:
					if isErrorLike(v.Type()) {
						if call, ok := v.Tuple.(*ssa.Call); ok {
							if rs, ok := env[call]; ok {
								_ = rs
							}
							if r := e.callResult(cur, get, call); r != nil && v.Index < len(r) && r[v.Index] != nil {
								env[v] = r[v.Index]
							} else {
								env[v] = Of(Nil, Unknown("call:"+calleeName(&call.Call)))
							}
						} else {
							env[v] = Of(Nil, Unknown("extract"))
						}
					}
				case *ssa.Call:
					r := e.callResult(cur, get, v)
					e.applyCallEffects(cur, get, v)
					if isErrorLike(v.Type()) {
						if r != nil && len(r) == 1 && r[0] != nil {
							env[v] = r[0]
						} else {
							env[v] = Of(Nil, Unknown("call:"+calleeName(&v.Call)))
						}
						if old, ok := e.CallShapes[v]; ok {
							e.CallShapes[v] = old.Union(env[v])
						} else {
							e.CallShapes[v] = env[v].Clone()
						}
					}
				case *ssa.RunDefers:
					for i := len(defers) - 1; i >= 0; i-- {
						d := defers[i]
						if in[d.Block()] == nil {
							continue // never reached
						}
						e.applyDeferred(cur, get, d)
					}
				case *ssa.If:
					ts, fs := cur.clone(), cur.clone()
					tOK, fOK := e.branch(ts, fs, get, refine, v.Cond)
					if tOK {
						edgeOut[[2]*ssa.BasicBlock{b, b.Succs[0]}] = ts
					} else {
						delete(edgeOut, [2]*ssa.BasicBlock{b, b.Succs[0]})
					}
					if fOK {
						edgeOut[[2]*ssa.BasicBlock{b, b.Succs[1]}] = fs
					} else {
						delete(edgeOut, [2]*ssa.BasicBlock{b, b.Succs[1]})
					}
				case *ssa.Jump:
					edgeOut[[2]*ssa.BasicBlock{b, b.Succs[0]}] = cur
				case *ssa.Return:
					retStates = append(retStates, struct {
						st  *state
						ret *ssa.Return
					}{cur, v})
				case *ssa.Panic:
					res.Panics = true
					e.PanicsReached[v] = append(e.PanicsReached[v], strings.Join(e.chain, " > "))
				}
			}
		}
		if !changed {
			break
		}
	}
	for _, rs := range retStates {
		for i, r := range rs.ret.Results {
			if isErrorLike(r.Type()) {
				res.Results[i] = res.Results[i].Union(get(rs.st, r))
			}
		}
		for i, p := range fn.Params {
			if isPtrToIface(p.Type()) {
				if cur, ok := res.OutPtr[i]; ok {
					res.OutPtr[i] = cur.Union(rs.st.cells[p])
				} else {
					res.OutPtr[i] = rs.st.cells[p].Clone()
				}
			}
		}
	}
	if fn.Recover != nil {
		// recovered panics return the named results' current values: unknown here
		for i := range res.Results {
			if isErrorLike(fn.Signature.Results().At(i).Type()) {
				res.Results[i] = res.Results[i].Union(Of(Nil))
			}
		}
	}
	return res
}

func fieldName(fa *ssa.FieldAddr) string {
	st := fa.X.Type().Underlying().(*types.Pointer).Elem().Underlying().(*types.Struct)
	return st.Field(fa.Field).Name()
}

// shapeOfConcrete: the shape of an interface made from concrete value x.
func (e *Engine) shapeOfConcrete(st *state, x ssa.Value) Shape {
	t := x.Type()
	name := types.TypeString(t, nil)
	if al, ok := x.(*ssa.Alloc); ok && hasUnwrap(t) {
		if inner, ok := st.fcell[fkey{al, "Err"}]; ok {
			return Shape{T: name, Inner: inner, Wrap: true}
		}
		// Err never stored: zero value nil
		return Shape{T: name, Inner: Of(Nil), Wrap: true}
	}
	if hasUnwrap(t) {
		return Shape{T: name, Inner: Of(Nil, Unknown("inner")), Wrap: true}
	}
	return Shape{T: name}
}

func typeMatches(shapeT string, t types.Type) bool {
	if _, isIface := t.Underlying().(*types.Interface); isIface {
		return false // interface assertions: not decided here
	}
	return shapeT == types.TypeString(t, nil)
}

// branch refines both successor states by the condition; returns feasibility.
func (e *Engine) branch(ts, fs *state, get func(*state, ssa.Value) Set, refine func(*state, ssa.Value, Set), cond ssa.Value) (bool, bool) {
	truth := true
	for {
		u, ok := cond.(*ssa.UnOp)
		if !ok || u.Op != token.NOT {
			break
		}
		cond, truth = u.X, !truth
	}
	tst, fst := ts, fs
	if !truth {
		tst, fst = fs, ts
	}
	tOK, fOK := true, true
	switch c := cond.(type) {
	case *ssa.BinOp:
		var v ssa.Value
		if k, ok := c.Y.(*ssa.Const); ok && k.Value == nil && isErrorLike(c.X.Type()) {
			v = c.X
		} else if k, ok := c.X.(*ssa.Const); ok && k.Value == nil && isErrorLike(c.Y.Type()) {
			v = c.Y
		}
		if v == nil || (c.Op != token.EQL && c.Op != token.NEQ) {
			break
		}
		s := get(tst, v)
		nilSet, non := Set{}, s.WithoutNil()
		if s.HasNil() {
			nilSet = Of(Nil)
		}
		eqSt, neSt := tst, fst
		if c.Op == token.NEQ {
			eqSt, neSt = fst, tst
		}
		refine(eqSt, v, nilSet)
		refine(neSt, v, non)
		eqOK, neOK := len(nilSet) > 0, len(non) > 0
		if c.Op == token.EQL {
			tOK, fOK = eqOK, neOK
		} else {
			tOK, fOK = neOK, eqOK
		}
	case *ssa.Extract:
		ta, ok := c.Tuple.(*ssa.TypeAssert)
		if !ok || c.Index != 1 {
			break
		}
		s := get(tst, ta.X)
		yes, no := Set{}, Set{}
		for k, sh := range s {
			switch {
			case strings.HasPrefix(sh.T, "?"):
				yes[k], no[k] = sh, sh
			case typeMatches(sh.T, ta.AssertedType):
				yes[k] = sh
			default:
				if _, isIface := ta.AssertedType.Underlying().(*types.Interface); isIface && sh.T != "nil" {
					yes[k], no[k] = sh, sh // cannot decide interface satisfaction here
				} else {
					no[k] = sh
				}
			}
		}
		refine(tst, ta.X, yes)
		refine(fst, ta.X, no)
		tOK, fOK = len(yes) > 0, len(no) > 0
	}
	if !truth {
		tOK, fOK = fOK, tOK
	}
	return tOK, fOK
}

func calleeName(c *ssa.CallCommon) string {
	if c.IsInvoke() {
		return "invoke." + c.Method.Name()
	}
	if f := c.StaticCallee(); f != nil {
		if f.Pkg != nil && f.Signature.Recv() == nil {
			return f.Pkg.Pkg.Path() + "." + f.Name()
		}
		return f.String()
	}
	if b, ok := c.Value.(*ssa.Builtin); ok {
		return "builtin." + b.Name()
	}
	return "dynamic"
}

func (e *Engine) argsOf(st *state, get func(*state, ssa.Value) Set, c *ssa.CallCommon) []Arg {
	var out []Arg
	for _, a := range c.Args {
		switch {
		case isPtrToIface(a.Type()):
			if s, ok := st.cells[a]; ok {
				out = append(out, Arg{Pointee: s})
			} else {
				out = append(out, Arg{Pointee: Of(Nil, Unknown("ptr"))})
			}
		case isErrorLike(a.Type()):
			out = append(out, Arg{Val: get(st, a)})
		default:
			out = append(out, Arg{})
		}
	}
	return out
}

// callResult returns the result shape sets of a call (nil when unknown).
func (e *Engine) callResult(st *state, get func(*state, ssa.Value) Set, call *ssa.Call) []Set {
	c := &call.Call
	name := calleeName(c)
	switch name {
	case "errors.Unwrap":
		return []Set{unwrapSet(get(st, c.Args[0]))}
	case "errors.New", "fmt.Errorf":
		return []Set{Of(Shape{T: "lib:" + name})}
	}
	callee := c.StaticCallee()
	if callee != nil && len(callee.Blocks) > 0 && e.InScope != nil && e.InScope(callee) {
		r := e.Eval(callee, e.argsOf(st, get, c))
		return r.Results
	}
	n := 1
	if tup, ok := call.Type().(*types.Tuple); ok {
		n = tup.Len()
	}
	out := make([]Set, n)
	for i := range out {
		out[i] = Of(Nil, Shape{T: "lib:" + name})
	}
	return out
}

func unwrapSet(s Set) Set {
	out := Set{}
	for _, sh := range s {
		switch {
		case sh.T == "nil":
			out[Nil.Key()] = Nil
		case sh.Wrap:
			out = out.Union(sh.Inner)
		case strings.HasPrefix(sh.T, "?") || strings.HasPrefix(sh.T, "lib:"):
			out = out.Union(Of(Nil, Unknown("unwrap("+sh.T+")")))
		default:
			out[Nil.Key()] = Nil // concrete type without Unwrap
		}
	}
	return out
}

// applyCallEffects updates cells passed by pointer to an in-scope callee.
func (e *Engine) applyCallEffects(st *state, get func(*state, ssa.Value) Set, call ssa.CallInstruction) {
	c := call.Common()
	callee := c.StaticCallee()
	hasPtr := false
	for _, a := range c.Args {
		if isPtrToIface(a.Type()) {
			hasPtr = true
		}
	}
	if !hasPtr {
		return
	}
	if callee != nil && len(callee.Blocks) > 0 && e.InScope != nil && e.InScope(callee) {
		r := e.Eval(callee, e.argsOf(st, get, c))
		for i, a := range c.Args {
			if isPtrToIface(a.Type()) {
				if out, ok := r.OutPtr[i]; ok {
					st.cells[a] = out
					delete(st.alias, a)
				}
			}
		}
		return
	}
	for _, a := range c.Args {
		if isPtrToIface(a.Type()) {
			st.cells[a] = Of(Nil, Unknown("escaped to "+calleeName(c)))
			delete(st.alias, a)
		}
	}
}

// applyDeferred applies a deferred call at RunDefers.
func (e *Engine) applyDeferred(st *state, get func(*state, ssa.Value) Set, d *ssa.Defer) {
	c := d.Common()
	if mc, ok := c.Value.(*ssa.MakeClosure); ok {
		// closure: every captured error cell becomes unknown unless the body can be evaluated
		fn := mc.Fn.(*ssa.Function)
		for i, b := range mc.Bindings {
			if isPtrToIface(b.Type()) {
				_ = fn.FreeVars[i]
				st.cells[b] = st.cells[b].Union(Of(Nil, Unknown("deferred closure "+fn.Name())))
				delete(st.alias, b)
			}
		}
		return
	}
	e.applyCallEffects(st, get, d)
}

func rpo(fn *ssa.Function) []*ssa.BasicBlock {
	seen := map[*ssa.BasicBlock]bool{}
	var post []*ssa.BasicBlock
	var dfs func(b *ssa.BasicBlock)
	dfs = func(b *ssa.BasicBlock) {
		seen[b] = true
		for _, s := range b.Succs {
			if !seen[s] {
				dfs(s)
			}
		}
		post = append(post, b)
	}
	dfs(fn.Blocks[0])
	for i, j := 0, len(post)-1; i < j; i, j = i+1, j-1 {
		post[i], post[j] = post[j], post[i]
	}
	return post
}
