// Package skel is engine E4: it turns a validator (a function returning bool
// or error) into an ordered decision skeleton — a tree whose inner nodes are
// canonical branch atoms over the parameters and whose leaves are ACC / REJ —
// by a path-sensitive walk of the SSA control-flow graph.  Twin validators are
// compared structurally; nothing is executed.
package skel

import (
	"fmt"
	"go/constant"
	"go/token"
	"go/types"
	"strings"

	"golang.org/x/tools/go/ssa"
)

// Tree is a decision skeleton.
type Tree struct {
	Leaf    string // "ACC" / "REJ" / "" for inner nodes
	Atom    string
	Yes, No *Tree
	Loop    string  // canonical loop header description
	Exits   []*Tree // loop exits in canonical order
}

func (t *Tree) String() string {
	if t == nil {
		return "<nil>"
	}
	if t.Leaf != "" {
		return t.Leaf
	}
	if t.Loop != "" {
		var es []string
		for _, e := range t.Exits {
			es = append(es, e.String())
		}
		return "LOOP{" + t.Loop + " => " + strings.Join(es, " | ") + "}"
	}
	return "(" + t.Atom + " ? " + t.Yes.String() + " : " + t.No.String() + ")"
}

// Builder builds skeletons for the functions of one package.
type Builder struct {
	Pkg *ssa.Package
	// Family maps validator names to a family: members of one family are kept
	// as atoms accepts(Family, args) so that twins using each other's siblings
	// compare equal.
	Family map[string]string
	depth  int
	loopNo map[*ssa.BasicBlock]int
}

// Skeleton returns the decision tree of fn over parameters p0, p1, ...
func (b *Builder) Skeleton(fn *ssa.Function) *Tree {
	b.loopNo = map[*ssa.BasicBlock]int{}
	args := make([]string, len(fn.Params))
	for i := range args {
		args[i] = fmt.Sprintf("p%d", i)
	}
	return b.build(fn, args, nil, nil)
}

func (b *Builder) loopID(h *ssa.BasicBlock) int {
	if n, ok := b.loopNo[h]; ok {
		return n
	}
	n := len(b.loopNo) + 1
	b.loopNo[h] = n
	return n
}

type env struct {
	fn     *ssa.Function
	args   []string             // canonical argument expressions for params
	cells  map[ssa.Value]string // named result cell -> description of content
	prev   *ssa.BasicBlock
	loops  map[*ssa.BasicBlock]bool // loop heads being expanded
	canon  map[ssa.Value]string
	onAcc  func() *Tree // continuation when this (inlined) function accepts
	onRej  func() *Tree
	path   map[*ssa.BasicBlock]int
	nonnil map[string]bool
}

func (b *Builder) canon(e *env, v ssa.Value) string {
	if s, ok := e.canon[v]; ok {
		return s
	}
	var s string
	switch x := v.(type) {
	case *ssa.Const:
		if x.Value == nil {
			s = "nil"
		} else if x.Value.Kind() == constant.String {
			s = fmt.Sprintf("%q", constant.StringVal(x.Value))
		} else {
			s = x.Value.ExactString()
		}
	case *ssa.Parameter:
		for i, p := range e.fn.Params {
			if p == x {
				s = e.args[i]
			}
		}
	case *ssa.BinOp:
		s = "(" + b.canon(e, x.X) + " " + x.Op.String() + " " + b.canon(e, x.Y) + ")"
	case *ssa.UnOp:
		if x.Op == token.MUL {
			if c, ok := e.cells[x.X]; ok {
				s = c
			} else {
				s = "*" + b.canon(e, x.X)
			}
		} else {
			s = x.Op.String() + b.canon(e, x.X)
		}
	case *ssa.Call:
		name := "?"
		if f := x.Call.StaticCallee(); f != nil {
			name = f.Name()
			if f.Pkg != nil && f.Pkg != b.Pkg {
				name = f.Pkg.Pkg.Name() + "." + name
			}
		} else if bi, ok := x.Call.Value.(*ssa.Builtin); ok {
			name = bi.Name()
		}
		var as []string
		for _, a := range x.Call.Args {
			as = append(as, b.canon(e, a))
		}
		s = name + "(" + strings.Join(as, ",") + ")"
	case *ssa.Lookup:
		s = b.canon(e, x.X) + "[" + b.canon(e, x.Index) + "]"
	case *ssa.Index:
		s = b.canon(e, x.X) + "[" + b.canon(e, x.Index) + "]"
	case *ssa.Slice:
		lo, hi := "", ""
		if x.Low != nil {
			lo = b.canon(e, x.Low)
		}
		if x.High != nil {
			hi = b.canon(e, x.High)
		}
		s = b.canon(e, x.X) + "[" + lo + ":" + hi + "]"
	case *ssa.Convert:
		s = b.canon(e, x.X) // rune(byte) etc: value preserving here
	case *ssa.Extract:
		s = fmt.Sprintf("%s#%d", b.canon(e, x.Tuple), x.Index)
	case *ssa.Next:
		s = "next(" + b.canon(e, x.Iter) + ")"
	case *ssa.Range:
		s = "range(" + b.canon(e, x.X) + ")"
	case *ssa.Phi:
		// resolved path-sensitively by walk; inside loops named by position
		s = fmt.Sprintf("phi%d@L%d", phiIndex(x), b.loopID(x.Block()))
	case *ssa.MakeInterface:
		s = "nonnil"
	case *ssa.Alloc:
		s = "cell"
	default:
		s = fmt.Sprintf("<%T>", v)
	}
	e.canon[v] = s
	return s
}

func phiIndex(p *ssa.Phi) int {
	for i, ins := range p.Block().Instrs {
		if ins == p {
			return i
		}
	}
	return -1
}

func (b *Builder) build(fn *ssa.Function, args []string, onAcc, onRej func() *Tree) *Tree {
	e := &env{fn: fn, args: args, cells: map[ssa.Value]string{}, canon: map[ssa.Value]string{}, onAcc: onAcc, onRej: onRej, loops: map[*ssa.BasicBlock]bool{}, path: map[*ssa.BasicBlock]int{}, nonnil: map[string]bool{}}
	return b.walk(e, fn.Blocks[0], nil)
}

func isLoopHead(b *ssa.BasicBlock) bool {
	for _, p := range b.Preds {
		if b.Dominates(p) {
			return true
		}
	}
	return false
}

// inLoop reports whether block x belongs to the natural loop of head h.
func inLoop(h, x *ssa.BasicBlock) bool {
	if !h.Dominates(x) {
		return false
	}
	// x reaches a back edge source of h without leaving h's dominance
	seen := map[*ssa.BasicBlock]bool{}
	var dfs func(y *ssa.BasicBlock) bool
	dfs = func(y *ssa.BasicBlock) bool {
		if y == h {
			return true
		}
		if seen[y] || !h.Dominates(y) {
			return false
		}
		seen[y] = true
		for _, s := range y.Succs {
			if dfs(s) {
				return true
			}
		}
		return false
	}
	for _, s := range x.Succs {
		if dfs(s) {
			return true
		}
	}
	return false
}

func (b *Builder) walk(e *env, blk, prev *ssa.BasicBlock) *Tree {
	if isLoopHead(blk) && !e.loops[blk] {
		return b.loop(e, blk, prev)
	}
	if e.path[blk] > 0 {
		return &Tree{Leaf: "BACK"} // back edge inside a loop being summarised
	}
	e.path[blk]++
	defer func() { e.path[blk]-- }()
	// copy cells (path sensitive)
	saved := map[ssa.Value]string{}
	for k, v := range e.cells {
		saved[k] = v
	}
	defer func() { e.cells = saved }()
	for _, ins := range blk.Instrs {
		switch v := ins.(type) {
		case *ssa.Phi:
			if !e.loops[blk] {
				for i, p := range blk.Preds {
					if p == prev {
						e.canon[v] = b.canon(e, v.Edges[i])
					}
				}
			}
		case *ssa.Store:
			e.cells[v.Addr] = b.canon(e, v.Val)
			delete(e.canon, v.Addr)
		case *ssa.UnOp:
			if v.Op == token.MUL {
				delete(e.canon, v) // loads are re-read
			}
		case *ssa.If:
			atom := b.canon(e, v.Cond)
			return b.node(e, v.Cond, atom, func() *Tree { return b.walk(e, blk.Succs[0], blk) }, func() *Tree { return b.walk(e, blk.Succs[1], blk) })
		case *ssa.Jump:
			return b.walk(e, blk.Succs[0], blk)
		case *ssa.Return:
			return b.ret(e, v)
		case *ssa.Panic:
			return &Tree{Leaf: "PANIC"}
		}
	}
	return &Tree{Leaf: "?"}
}

// node builds a decision node, expanding validator calls and nil tests.
func (b *Builder) node(e *env, cond ssa.Value, atom string, yes, no func() *Tree) *Tree {
	// !x
	if u, ok := cond.(*ssa.UnOp); ok && u.Op == token.NOT {
		return b.node(e, u.X, b.canon(e, u.X), no, yes)
	}
	// comparisons with a constant are brought to one of the forms
	// `x == k` and `x > k`: `<=`, `<`, `>=`, `!=` are the same atoms with the
	// branches exchanged or the constant shifted by one; `s == ""` is
	// `len(s) == 0`; `len(s) > 0` is the negation of `len(s) == 0`
	if bo, ok := cond.(*ssa.BinOp); ok {
		if a, swap, ok := b.canonCompare(e, bo); ok {
			if swap {
				yes, no = no, yes
			}
			return &Tree{Atom: a, Yes: yes(), No: no()}
		}
	}
	// err != nil / err == nil on a call result
	if bo, ok := cond.(*ssa.BinOp); ok && (bo.Op == token.NEQ || bo.Op == token.EQL) {
		if c, ok := bo.Y.(*ssa.Const); ok && c.Value == nil {
			inner := b.canon(e, bo.X)
			if call := b.findCall(e, bo.X); call != nil {
				if bo.Op == token.NEQ {
					return b.callNode(e, call, no, yes)
				}
				return b.callNode(e, call, yes, no)
			}
			atom = "isnil(" + inner + ")"
			if bo.Op == token.NEQ {
				yes, no = no, yes
			}
			origNo := no
			no = func() *Tree {
				e.nonnil[inner] = true
				defer delete(e.nonnil, inner)
				return origNo()
			}
		}
	}
	if call, ok := cond.(*ssa.Call); ok {
		if f := call.Call.StaticCallee(); f != nil && f.Pkg == b.Pkg && isBool(f) {
			return b.callNode(e, call, yes, no)
		}
	}
	return &Tree{Atom: atom, Yes: yes(), No: no()}
}

// canonCompare canonicalises a comparison of an integer or string term with a
// constant.  swap says that the returned atom is the negation of the
// condition.
func (b *Builder) canonCompare(e *env, bo *ssa.BinOp) (atom string, swap, ok bool) {
	x, y, op := bo.X, bo.Y, bo.Op
	if _, isC := x.(*ssa.Const); isC {
		if _, isC2 := y.(*ssa.Const); !isC2 {
			x, y = y, x
			switch op {
			case token.LSS:
				op = token.GTR
			case token.GTR:
				op = token.LSS
			case token.LEQ:
				op = token.GEQ
			case token.GEQ:
				op = token.LEQ
			}
		}
	}
	c, isC := y.(*ssa.Const)
	if !isC || c.Value == nil {
		return "", false, false
	}
	term := b.canon(e, x)
	if c.Value.Kind() == constant.String {
		if constant.StringVal(c.Value) != "" {
			return "", false, false
		}
		switch op {
		case token.EQL:
			return "(len(" + term + ") == 0)", false, true
		case token.NEQ:
			return "(len(" + term + ") == 0)", true, true
		}
		return "", false, false
	}
	if c.Value.Kind() != constant.Int {
		return "", false, false
	}
	k, exact := constant.Int64Val(c.Value)
	if !exact {
		return "", false, false
	}
	isLen := strings.HasPrefix(term, "len(")
	gt := func(k int64, neg bool) (string, bool, bool) {
		// x > k, for a length: x > -1 is true (not produced by source code);
		// x > 0 is !(x == 0)
		if isLen && k == 0 {
			return "(" + term + " == 0)", !neg, true
		}
		return fmt.Sprintf("(%s > %d)", term, k), neg, true
	}
	switch op {
	case token.EQL:
		return fmt.Sprintf("(%s == %d)", term, k), false, true
	case token.NEQ:
		return fmt.Sprintf("(%s == %d)", term, k), true, true
	case token.GTR:
		return gt(k, false)
	case token.LEQ:
		return gt(k, true)
	case token.GEQ:
		return gt(k-1, false)
	case token.LSS:
		return gt(k-1, true)
	}
	return "", false, false
}

func isBool(f *ssa.Function) bool {
	r := f.Signature.Results()
	if r.Len() != 1 {
		return false
	}
	bt, ok := r.At(0).Type().Underlying().(*types.Basic)
	return ok && bt.Kind() == types.Bool
}

// findCall finds the validator call whose result v holds (through the named result cell).
func (b *Builder) findCall(e *env, v ssa.Value) *ssa.Call {
	switch x := v.(type) {
	case *ssa.Call:
		if f := x.Call.StaticCallee(); f != nil && f.Pkg == b.Pkg {
			return x
		}
	case *ssa.UnOp:
		if x.Op == token.MUL {
			// load of cell: find the last store on this path
			for k, c := range e.cells {
				if k == x.X {
					_ = c
					return b.lastStoredCall(e, x)
				}
			}
		}
	}
	return nil
}

func (b *Builder) lastStoredCall(e *env, load *ssa.UnOp) *ssa.Call {
	// scan backwards in the block of the load for a store to the same cell
	blk := load.Block()
	for i := len(blk.Instrs) - 1; i >= 0; i-- {
		if blk.Instrs[i] == ssa.Instruction(load) {
			for j := i - 1; j >= 0; j-- {
				if st, ok := blk.Instrs[j].(*ssa.Store); ok && st.Addr == load.X {
					if c, ok := st.Val.(*ssa.Call); ok {
						if f := c.Call.StaticCallee(); f != nil && f.Pkg == b.Pkg {
							return c
						}
					}
					return nil
				}
			}
		}
	}
	return nil
}

// callNode: decision on "callee accepts args"; family members stay atoms, other
// in-package validators are inlined.
func (b *Builder) callNode(e *env, call *ssa.Call, acc, rej func() *Tree) *Tree {
	f := call.Call.StaticCallee()
	var args []string
	for _, a := range call.Call.Args {
		args = append(args, b.canon(e, a))
	}
	self := b.canon(e, call)
	origRej := rej
	rej = func() *Tree {
		e.nonnil[self] = true
		defer delete(e.nonnil, self)
		return origRej()
	}
	if fam, ok := b.Family[f.Name()]; ok {
		return &Tree{Atom: "accepts(" + fam + "," + strings.Join(args, ",") + ")", Yes: acc(), No: rej()}
	}
	if len(f.Blocks) > 0 && b.depth < 4 && !isBool(f) && returnsErrOrBool(f) {
		b.depth++
		defer func() { b.depth-- }()
		return b.build(f, args, acc, rej)
	}
	return &Tree{Atom: f.Name() + "(" + strings.Join(args, ",") + ")", Yes: acc(), No: rej()}
}

func returnsErrOrBool(f *ssa.Function) bool {
	r := f.Signature.Results()
	if r.Len() != 1 {
		return false
	}
	return isBool(f) || r.At(0).Type().String() == "error"
}

func (b *Builder) ret(e *env, r *ssa.Return) *Tree {
	acc := func() *Tree {
		if e.onAcc != nil {
			return e.onAcc()
		}
		return &Tree{Leaf: "ACC"}
	}
	rej := func() *Tree {
		if e.onRej != nil {
			return e.onRej()
		}
		return &Tree{Leaf: "REJ"}
	}
	v := r.Results[0]
	if isBool(e.fn) {
		if c, ok := v.(*ssa.Const); ok {
			if constant.BoolVal(c.Value) {
				return acc()
			}
			return rej()
		}
		if s, ok := e.canon[v]; ok && (s == "true" || s == "false") {
			if s == "true" {
				return acc()
			}
			return rej()
		}
		// resolved phi of a short-circuit: find underlying value
		if p, ok := v.(*ssa.Phi); ok {
			for i, pr := range p.Block().Preds {
				if pr == e.prevOf(p.Block()) {
					v = p.Edges[i]
				}
			}
			if c, ok := v.(*ssa.Const); ok {
				if constant.BoolVal(c.Value) {
					return acc()
				}
				return rej()
			}
		}
		return b.node(e, v, b.canon(e, v), acc, rej)
	}
	// error result: loaded from the named-result cell
	if ld, ok := v.(*ssa.UnOp); ok && ld.Op == token.MUL {
		content := e.cells[ld.X]
		switch {
		case content == "nil":
			return acc()
		case content == "nonnil" || e.nonnil[content] || strings.HasPrefix(content, "Unwrap(") || strings.HasPrefix(content, "errors.Unwrap("):
			return rej()
		}
		if call := b.lastStoredCallInCell(e, ld); call != nil {
			return b.callNode(e, call, acc, rej)
		}
		return &Tree{Leaf: "RET[" + content + "]"}
	}
	return &Tree{Leaf: "RET?"}
}

func (e *env) prevOf(b *ssa.BasicBlock) *ssa.BasicBlock { return e.prev }

func (b *Builder) lastStoredCallInCell(e *env, load *ssa.UnOp) *ssa.Call {
	blk := load.Block()
	for j := len(blk.Instrs) - 1; j >= 0; j-- {
		if st, ok := blk.Instrs[j].(*ssa.Store); ok && st.Addr == load.X {
			if c, ok := st.Val.(*ssa.Call); ok {
				if f := c.Call.StaticCallee(); f != nil && f.Pkg == b.Pkg {
					return c
				}
			}
			// err re-stored from itself (t9 = *t0; *t0 = t9)
			return nil
		}
	}
	return nil
}

// loop summarises a natural loop: canonical header + ordered exit subtrees.
func (b *Builder) loop(e *env, head, prev *ssa.BasicBlock) *Tree {
	e.loops[head] = true
	defer delete(e.loops, head)
	// describe phis
	var desc []string
	for _, ins := range head.Instrs {
		p, ok := ins.(*ssa.Phi)
		if !ok {
			break
		}
		var in []string
		for i, pr := range head.Preds {
			tag := "entry"
			if head.Dominates(pr) {
				tag = "back"
			}
			in = append(in, tag+":"+b.canon(e, p.Edges[i]))
		}
		desc = append(desc, fmt.Sprintf("phi%d[%s]", phiIndex(p), strings.Join(in, ",")))
	}
	body := b.walk(e, head, prev)
	return &Tree{Loop: "loop[" + strings.Join(desc, ";") + "]", Exits: []*Tree{body}}
}
