package rules

import (
	"go/token"
	"go/types"
	"regexp"
	"strings"

	"golang.org/x/tools/go/ssa"

	"verif/sa/core"
)

func init() {
	register(&Property{
		ID:    "C11",
		Level: "other",
		Explanation: "Structural invariants of package container decided on the generic SSA bodies: (R1) reset completeness: everything a RingBuffer mutator writes (cur, full, element " +
			"contents) is reset by Clear; (R2) every method whose doc comment promises nil-receiver behaviour dereferences the receiver only under a nil test or through another such method " +
			"(the list is recomputed from the doc comments); (R3) the sorted-unique invariant of SortedSliceSet: every store to elems is Compact(Sort(x)), Insert at the (i,false) of " +
			"BinarySearch of the same value, Delete [i,i+1) at (i,true), or a [:0] reslice; (R4) Clone's storage comes from slices.Clone / maps.Clone; (R5) the ring model, decided by the relational abstract interpreter " +
			"under the invariant cur < len(buf) == cap(buf) with the fields found by role: Push writes buf[cur], leaves cur+1 or 0 exactly at the wrap and sets full exactly on the wrapping path; " +
			"splitCur returns (buf[:cur], -) when not full and (buf[cur:], buf[:cur]) when full; buf is assigned only by the constructor from make([]T,n), every buf[cur] is under len(buf) != 0; (R6) after a range callback returns " +
			"false no further callback call is reachable; (R7) Range/ReverseRange visit splitCur's halves in chronological / reverse order. " +
			"Not decided: conformance with the abstract set/ring model over all operation histories.",
		Technique: "linear-constraint abstract interpretation against the ring model + SSA rules: reset completeness, nil-guard dominance, recognised-update typestate for the sorted slice, provenance of clone storage, reachability after callback stop, index sequences of the range loops",
		Note:      "Trusted: go/ssa, the contracts of slices.Sort/Compact/BinarySearch/Insert/Delete/Clone and maps.Clone.",
		DesignRef: "DESIGN.md section 4, C11",
		Run:       runC11,
	})
}

// nilDocRE recognises a doc comment that promises behaviour for a nil receiver.
var nilDocRE = regexp.MustCompile(`(?i)(on a nil|\b(set|rb) (is|may be) nil|set and other may be nil|nil \*?(set|MapSet|SortedSliceSet|RingBuffer))`)

func runC11(c *Ctx) {
	c.L.Trust("go/types + go/ssa (generic bodies)", "slices.Sort, Compact, BinarySearch, Insert, Delete, Clone; maps.Clone", "rule code /verif/sa/rules/c11.go")
	c.L.Floor("C11.nil-receiver", 15)
	c.L.Floor("C11.sorted-unique", 4)
	c.L.Floor("C11.clone-fresh", 2)
	c.L.Floor("C11.ring.reset-complete", 3)
	c.L.Floor("C11.ring.cursor", 2)
	c.L.Floor("C11.range-stop", 4)
	c.L.Floor("C11.ring.order", 2)

	fns := c.P.Funcs("container")
	byType := map[string][]*ssa.Function{}
	for _, f := range fns {
		if f.Signature.Recv() != nil && f.Parent() == nil {
			byType[core.NamedOf(f.Signature.Recv().Type())] = append(byType[core.NamedOf(f.Signature.Recv().Type())], f)
		}
	}
	for _, tn := range []string{"MapSet", "SortedSliceSet", "RingBuffer"} {
		if len(byType[tn]) == 0 {
			c.L.Record(core.Undecided, "anchor", "container."+tn, "methods", "-", "type has no methods in the current tree")
		}
	}

	// ---- Equal is two-sided ----
	c.L.Floor("C11.equal", 2)
	c.L.Floor("C11.nil-result", 6)
	for _, tn := range []string{"MapSet", "SortedSliceSet"} {
		for _, f := range byType[tn] {
			if f.Name() != "Equal" || len(f.Params) != 2 {
				continue
			}
			set, other := ssa.Value(f.Params[0]), ssa.Value(f.Params[1])
			storageOf := func(v ssa.Value, base ssa.Value) bool {
				ld, ok := v.(*ssa.UnOp)
				if !ok || ld.Op != token.MUL {
					return false
				}
				fa, ok := ld.X.(*ssa.FieldAddr)
				return ok && fa.X == base
			}
			for _, ret := range core.Returns(f) {
				v := ret.Results[0]
				what := "Equal result " + core.Describe(v)
				if b, isK := core.ConstBool(v); isK {
					if !b {
						continue
					}
					// a literal true needs both storages to have the same length
					okLen := false
					for _, g := range core.GuardsOf(ret) {
						cond, truth := core.StripNot(g.Cond, g.Truth)
						if bo, isB := cond.(*ssa.BinOp); isB && ((bo.Op == token.EQL && truth) || (bo.Op == token.NEQ && !truth)) {
							lx, okx := bo.X.(*ssa.Call)
							ly, oky := bo.Y.(*ssa.Call)
							if okx && oky && core.CalleeName(&lx.Call) == "builtin.len" && core.CalleeName(&ly.Call) == "builtin.len" {
								a, bb := lx.Call.Args[0], ly.Call.Args[0]
								if (storageOf(a, set) && storageOf(bb, other)) || (storageOf(a, other) && storageOf(bb, set)) {
									okLen = true
								}
							}
						}
					}
					c.check(okLen, "C11.equal", f, "`return true` only when both sets have the same number of elements", ret,
						"containment in one direction alone makes every superset 'equal' to its subsets")
					continue
				}
				switch x := v.(type) {
				case *ssa.BinOp:
					// set == other on the nil path
					ok := x.Op == token.EQL && ((x.X == set && x.Y == other) || (x.X == other && x.Y == set))
					// `other == nil` where set is known to be nil (or the reverse) is the same test
					if !ok && x.Op == token.EQL {
						p := x.X
						if core.IsNilConst(x.X) {
							p = x.Y
						} else if !core.IsNilConst(x.Y) {
							p = nil
						}
						var q ssa.Value
						switch p {
						case set:
							q = other
						case other:
							q = set
						}
						if q != nil {
							for _, g := range core.Facts(f).At(ret.Block()) {
								cond, truth := core.StripNot(g.Cond, g.Truth)
								if bo, isB := cond.(*ssa.BinOp); isB && (bo.Op == token.EQL) == truth && (bo.Op == token.EQL || bo.Op == token.NEQ) {
									if (bo.X == q && core.IsNilConst(bo.Y)) || (bo.Y == q && core.IsNilConst(bo.X)) {
										ok = true
									}
								}
							}
						}
					}
					c.check(ok, "C11.equal", f, what, ret, "pointer identity when one side is nil")
				case *ssa.Call:
					n := core.CalleeName(&x.Call)
					ok := (strings.HasPrefix(n, "maps.Equal") || strings.HasPrefix(n, "slices.Equal")) && len(x.Call.Args) == 2 &&
						((storageOf(x.Call.Args[0], set) && storageOf(x.Call.Args[1], other)) || (storageOf(x.Call.Args[0], other) && storageOf(x.Call.Args[1], set)))
					c.check(ok, "C11.equal", f, what, ret, "maps.Equal / slices.Equal over the two storages compares sizes and elements")
				default:
					c.undecided("C11.equal", f, what, ret, "the result is neither a library equality of the two storages nor a length-guarded constant")
				}
			}
		}
	}
	// ---- R2 nil receivers ----
	nilSafe := map[*ssa.Function]bool{}
	for _, tn := range []string{"MapSet", "SortedSliceSet", "RingBuffer"} {
		for _, f := range byType[tn] {
			if nilDocRE.MatchString(core.Doc(f)) {
				nilSafe[f] = true
			}
		}
	}
	for f := range nilSafe {
		c.L.Saw(core.FuncName(f))
		recv := f.Params[0]
		derefs := 0
		for _, r := range core.Refs(recv) {
			switch x := r.(type) {
			case *ssa.FieldAddr, *ssa.UnOp:
				if u, isU := x.(*ssa.UnOp); isU && u.Op != token.MUL {
					continue
				}
				derefs++
				c.check(guardedNonNil(r, recv), "C11.nil-receiver", f, "receiver dereference under a nil test", r,
					"the doc comment promises behaviour for a nil receiver, so the receiver may only be dereferenced where it is known non-nil")
			case *ssa.Call:
				if cal := x.Call.StaticCallee(); cal != nil {
					target := cal
					if o := cal.Origin(); o != nil {
						target = o
					}
					isMethodOnRecv := len(x.Call.Args) > 0 && x.Call.Args[0] == recv && target.Signature.Recv() != nil
					if isMethodOnRecv {
						derefs++
						c.check(nilSafe[target] || guardedNonNil(r, recv), "C11.nil-receiver", f, "call of "+target.Name()+" on the possibly nil receiver", r,
							"the callee must itself be documented (and checked) as nil-safe")
					}
				}
			}
		}
		if derefs == 0 {
			c.check(true, "C11.nil-receiver", f, "no receiver dereference", nil, "nothing to guard")
		}
		// what a nil receiver answers: the empty set / buffer (zero count, false, nil) —
		// every result returned under `recv == nil` is the zero value, except for
		// Equal (pointer identity, checked by C11.equal)
		if f.Name() == "Equal" {
			continue
		}
		for _, ret := range core.Returns(f) {
			underNil := false
			for _, g := range core.GuardsOf(ret) {
				cond, truth := core.StripNot(g.Cond, g.Truth)
				if b, ok := cond.(*ssa.BinOp); ok && b.X == ssa.Value(recv) && core.IsNilConst(b.Y) && ((b.Op == token.EQL && truth) || (b.Op == token.NEQ && !truth)) {
					underNil = true
				}
			}
			if !underNil {
				continue
			}
			for _, r := range ret.Results {
				zero := core.IsNilConst(r)
				if k, isK := core.ConstInt(r); isK && k == 0 {
					zero = true
				}
				if b, isK := core.ConstBool(r); isK && !b {
					zero = true
				}
				if cst, isC := r.(*ssa.Const); isC && cst.Value == nil {
					zero = true // zero value of a type parameter / struct
				}
				c.check(zero, "C11.nil-result", f, "a nil receiver answers with the zero value", ret, "a nil set / buffer behaves as an empty one: found "+core.Describe(r))
			}
		}
	}

	// ---- R3 sorted-unique invariant ----
	for _, f := range append(byType["SortedSliceSet"], c.P.Func("container", "NewSortedSliceSet")) {
		if f == nil {
			continue
		}
		c.L.Saw(core.FuncName(f))
		core.EachInstr(f, func(in ssa.Instruction) {
			st, ok := in.(*ssa.Store)
			if !ok {
				return
			}
			fa, ok := st.Addr.(*ssa.FieldAddr)
			if !ok || core.FieldName(fa) != "elems" || core.NamedOf(fa.X.Type()) != "SortedSliceSet" {
				return
			}
			why, good := sortedUpdate(f, st, fa.X)
			c.check(good, "C11.sorted-unique", f, "elems = "+core.Describe(st.Val), st, "every update must keep elems strictly ascending: "+why)
		})
	}

	// ---- R4 clone freshness ----
	for _, tn := range []string{"MapSet", "SortedSliceSet"} {
		for _, f := range byType[tn] {
			if f.Name() != "Clone" {
				continue
			}
			c.L.Saw(core.FuncName(f))
			n := 0
			for _, ret := range core.Returns(f) {
				if core.IsNilConst(ret.Results[0]) {
					continue
				}
				n++
				why, good := freshStorage(c, f, ret.Results[0])
				c.check(good, "C11.clone-fresh", f, "storage of the clone", ret, "a clone and its origin must not share storage: "+why)
			}
			if n == 0 {
				c.undecided("C11.clone-fresh", f, "non-nil return", nil, "no non-nil result found")
			}
		}
	}

	// ---- R1/R5/R7 ring buffer ----
	ring := byType["RingBuffer"]
	var clear *ssa.Function
	for _, f := range ring {
		if f.Name() == "Clear" {
			clear = f
		}
	}
	written := map[string]ssa.Instruction{}
	for _, f := range ring {
		c.L.Saw(core.FuncName(f))
		if f.Name() == "Clear" {
			continue
		}
		core.EachInstr(f, func(in ssa.Instruction) {
			st, ok := in.(*ssa.Store)
			if !ok {
				return
			}
			switch a := st.Addr.(type) {
			case *ssa.FieldAddr:
				if core.NamedOf(a.X.Type()) == "RingBuffer" {
					written[core.FieldName(a)] = st
				}
			case *ssa.IndexAddr:
				if name, base, ok := core.IsLoadOfField(a.X); ok && core.NamedOf(base.Type()) == "RingBuffer" {
					written[name+"[...]"] = st
				}
			}
		})
	}
	if clear == nil {
		c.L.Record(core.Undecided, "C11.ring.reset-complete", "container.RingBuffer", "Clear", "-", "method not found")
	} else {
		reset := map[string]bool{}
		core.EachInstr(clear, func(in ssa.Instruction) {
			switch x := in.(type) {
			case *ssa.Store:
				if a, ok := x.Addr.(*ssa.FieldAddr); ok && core.NamedOf(a.X.Type()) == "RingBuffer" {
					name := core.FieldName(a)
					switch v := x.Val.(type) {
					case *ssa.Const:
						reset[name] = true // zero / false
						_ = v
					case *ssa.MakeSlice:
						reset[name], reset[name+"[...]"] = true, true
					}
				}
			case *ssa.Call:
				if b, ok := x.Call.Value.(*ssa.Builtin); ok && b.Name() == "clear" {
					if name, base, ok := core.IsLoadOfField(x.Call.Args[0]); ok && core.NamedOf(base.Type()) == "RingBuffer" {
						reset[name+"[...]"] = true
					}
				}
			}
		})
		// accepted alternative for contents: every content read is guarded by full
		contentsGuarded := true
		for _, f := range ring {
			core.EachInstr(f, func(in ssa.Instruction) {
				ia, ok := in.(*ssa.IndexAddr)
				if !ok {
					return
				}
				if name, base, ok := core.IsLoadOfField(ia.X); !ok || name != "buf" || core.NamedOf(base.Type()) != "RingBuffer" {
					return
				}
				for _, r := range core.Refs(ia) {
					if u, isU := r.(*ssa.UnOp); isU && u.Op == token.MUL {
						if !guardedByField(u, "full", true) {
							contentsGuarded = false
						}
					}
				}
			})
		}
		for name, at := range written {
			ok := reset[name]
			if name == "buf[...]" && contentsGuarded {
				ok = true
			}
			c.check(ok, "C11.ring.reset-complete", clear, "Clear resets "+name, nil,
				"written by a mutator at "+c.ipos(at)+"; a cleared buffer must be indistinguishable from a new one (Current reads buf[cur] even when the buffer is not full)")
		}
	}
	// R5 cursor invariant
	ctor := c.P.Func("container", "NewRingBuffer")
	for _, f := range append(ring, ctor) {
		if f == nil {
			continue
		}
		core.EachInstr(f, func(in ssa.Instruction) {
			switch x := in.(type) {
			case *ssa.Store:
				a, ok := x.Addr.(*ssa.FieldAddr)
				if !ok || core.NamedOf(a.X.Type()) != "RingBuffer" {
					return
				}
				switch core.FieldName(a) {
				case "cur":
					if f.Name() == "Push" {
						// decided for every state by C11.ring.push (E1)
						return
					}
					good, why := false, "unrecognised cursor update"
					if k, isK := core.ConstInt(x.Val); isK && k == 0 {
						good, why = true, "reset to 0"
					} else if b, isB := x.Val.(*ssa.BinOp); isB && b.Op == token.REM && isCapOrLenOfBuf(b.Y, a.X) {
						good = guardedBufNonEmpty(x, a.X)
						why = "x % cap(buf) keeps cur < cap(buf); must run only when len(buf) != 0 (else division by zero)"
					}
					c.check(good, "C11.ring.cursor", f, "cur = "+core.Describe(x.Val), x, why)
				case "buf":
					_, isAlloc := a.X.(*ssa.Alloc)
					mk, isMk := x.Val.(*ssa.MakeSlice)
					c.check(isAlloc && isMk && mk.Len == mk.Cap, "C11.ring.cursor", f, "buf = "+core.Describe(x.Val), x,
						"buf is assigned only by the constructor from make([]T, n), so len(buf) == cap(buf) forever")
				}
			case *ssa.IndexAddr:
				name, base, ok := core.IsLoadOfField(x.X)
				if !ok || name != "buf" || core.NamedOf(base.Type()) != "RingBuffer" {
					return
				}
				idxName, ibase, iok := core.IsLoadOfField(x.Index)
				if cv, isCv := x.Index.(*ssa.Convert); isCv {
					idxName, ibase, iok = core.IsLoadOfField(cv.X)
				}
				if iok && idxName == "cur" && ibase == base {
					c.check(guardedBufNonEmpty(x, base), "C11.ring.cursor", f, "buf[cur] under len(buf) != 0", x,
						"cur < len(buf) holds only for a non-empty buffer (capacity 0 is allowed)")
				}
			}
		})
	}

	// ---- R6 range-stop ----
	for _, tn := range []string{"MapSet", "SortedSliceSet", "RingBuffer"} {
		for _, f := range byType[tn] {
			var cb *ssa.Parameter
			for _, p := range f.Params[1:] {
				if sig, ok := p.Type().Underlying().(*types.Signature); ok && sig.Results().Len() == 1 {
					if b, ok := sig.Results().At(0).Type().Underlying().(*types.Basic); ok && b.Kind() == types.Bool {
						cb = p
					}
				}
			}
			if cb == nil {
				continue
			}
			c.L.Saw(core.FuncName(f))
			var calls []*ssa.Call
			core.EachInstr(f, func(in ssa.Instruction) {
				if call, ok := in.(*ssa.Call); ok && call.Call.Value == cb {
					calls = append(calls, call)
				}
			})
			for _, call := range calls {
				stopReaches := false
				tested := false
				for _, r := range core.Refs(call) {
					cond := ssa.Value(call)
					truth := true
					if u, isU := r.(*ssa.UnOp); isU && u.Op == token.NOT {
						for _, rr := range core.Refs(u) {
							if iff, isIf := rr.(*ssa.If); isIf {
								tested = true
								stop := iff.Block().Succs[0] // !f(x) true => stop
								stopReaches = stopReaches || reachesCallOf(stop, cb)
							}
						}
						continue
					}
					if iff, isIf := r.(*ssa.If); isIf {
						tested = true
						_ = cond
						_ = truth
						stop := iff.Block().Succs[1] // f(x) false => stop
						stopReaches = stopReaches || reachesCallOf(stop, cb)
					}
				}
				c.check(tested && !stopReaches, "C11.range-stop", f, "no callback call after the callback returned false", call,
					"Range must stop as soon as cont is false (early-terminating callbacks are part of the property)")
			}
		}
	}

	// ---- R7 ring order ----
	for _, f := range ring {
		if f.Name() != "Range" && f.Name() != "ReverseRange" {
			continue
		}
		// the two loops iterate over extract #0 and #1 of splitCur(); Range: #0 then #1, ReverseRange: #1 then #0
		var first, second *ssa.Extract
		core.EachInstr(f, func(in ssa.Instruction) {
			ex, ok := in.(*ssa.Extract)
			if !ok {
				return
			}
			if call, ok := ex.Tuple.(*ssa.Call); ok && strings.HasSuffix(core.CalleeName(&call.Call), ".splitCur") {
				if ex.Index == 0 {
					first = ex
				} else {
					second = ex
				}
			}
		})
		if first == nil || second == nil {
			c.undecided("C11.ring.order", f, "splitCur halves", nil, "the chronological halves are not obtained from splitCur")
			continue
		}
		loopOf := func(ex *ssa.Extract) *ssa.BasicBlock {
			// block of the first callback call whose argument is an element of ex
			var out *ssa.BasicBlock
			core.EachInstr(f, func(in ssa.Instruction) {
				call, ok := in.(*ssa.Call)
				if !ok || call.Call.StaticCallee() != nil || len(call.Call.Args) != 1 || out != nil {
					return
				}
				if elemOf(call.Call.Args[0], ex) {
					out = call.Block()
				}
			})
			return out
		}
		b0, b1 := loopOf(first), loopOf(second)
		if b0 == nil || b1 == nil {
			c.undecided("C11.ring.order", f, "loops over the halves", nil, "callback arguments are not elements of the two halves")
			continue
		}
		if f.Name() == "Range" {
			c.check(core.Reaches(b0, b1) && !core.Reaches(b1, b0), "C11.ring.order", f, "older half (before) visited before the newer half (after)", nil, "Range yields oldest first")
			c.check(ascendingOver(f, first) && ascendingOver(f, second), "C11.ring.order", f, "each half visited in ascending index order", nil, "range loops")
		} else {
			c.check(core.Reaches(b1, b0) && !core.Reaches(b0, b1), "C11.ring.order", f, "newer half (after) visited before the older half (before)", nil, "ReverseRange yields newest first")
			c.check(descendingOver(f, first) && descendingOver(f, second), "C11.ring.order", f, "each half visited in descending index order", nil, "index loops from len-1 down to 0")
		}
	}
	// the halves themselves: C11.ring.split (E1, c11ring.go)
	c11RingSemantic(c)
}

// guardedNonNil: the instruction runs only where recv != nil.
func guardedNonNil(in ssa.Instruction, recv ssa.Value) bool {
	for _, g := range core.GuardsOf(in) {
		if condImpliesNonNil(g.Cond, g.Truth, recv) {
			return true
		}
	}
	return false
}

// condImpliesNonNil: (cond == truth) implies v != nil.  Handles v != nil,
// !(v == nil), and the false edge of `v == nil || ...` which SSA lowers to
// nested ifs already.
func condImpliesNonNil(cond ssa.Value, truth bool, v ssa.Value) bool {
	cond, truth = core.StripNot(cond, truth)
	b, ok := cond.(*ssa.BinOp)
	if !ok {
		return false
	}
	var other ssa.Value
	switch {
	case b.X == v:
		other = b.Y
	case b.Y == v:
		other = b.X
	default:
		return false
	}
	if !core.IsNilConst(other) {
		return false
	}
	return (b.Op == token.NEQ && truth) || (b.Op == token.EQL && !truth)
}

// guardedByField: in runs only where recv.<field> has the wanted truth value.
func guardedByField(in ssa.Instruction, field string, want bool) bool {
	for _, g := range core.GuardsOf(in) {
		cond, truth := core.StripNot(g.Cond, g.Truth)
		if name, _, ok := core.IsLoadOfField(cond); ok && name == field && truth == want {
			return true
		}
	}
	return false
}

func isCapOrLenOfBuf(v ssa.Value, recv ssa.Value) bool {
	if cv, ok := v.(*ssa.Convert); ok {
		v = cv.X
	}
	call, ok := v.(*ssa.Call)
	if !ok {
		return false
	}
	b, ok := call.Call.Value.(*ssa.Builtin)
	if !ok || (b.Name() != "cap" && b.Name() != "len") {
		return false
	}
	name, base, ok := core.IsLoadOfField(call.Call.Args[0])
	return ok && name == "buf" && base == recv
}

// guardedBufNonEmpty: in runs only where len(recv.buf) != 0.
func guardedBufNonEmpty(in ssa.Instruction, recv ssa.Value) bool {
	f := in.Parent()
	for _, g := range core.Facts(f).At(in.Block()) {
		v, isZero, ok := core.ZeroTest(g.Cond, g.Truth)
		if !ok || isZero {
			continue
		}
		if cv, isCv := v.(*ssa.Convert); isCv {
			v = cv.X
		}
		if isCapOrLenOfBuf(v, recv) {
			return true
		}
	}
	return false
}

// sortedUpdate recognises the stores that preserve strict ascending order.
func sortedUpdate(f *ssa.Function, st *ssa.Store, recv ssa.Value) (string, bool) {
	isElems := func(v ssa.Value) bool {
		name, base, ok := core.IsLoadOfField(v)
		return ok && name == "elems" && base == recv
	}
	switch v := st.Val.(type) {
	case *ssa.Slice:
		if isElems(v.X) && v.Low == nil && v.High != nil {
			if k, ok := core.ConstInt(v.High); ok && k == 0 {
				return "reslice to empty", true
			}
		}
		return "unrecognised reslice", false
	case *ssa.Call:
		n := core.CalleeName(&v.Call)
		args := v.Call.Args
		switch n {
		case "slices.Clone":
			if name, base, ok := core.IsLoadOfField(args[0]); ok && name == "elems" && core.NamedOf(base.Type()) == "SortedSliceSet" {
				return "copy of another set's (already sorted) elems", true
			}
			return "Clone of an arbitrary slice", false
		case "slices.Compact":
			// argument was sorted by a dominating slices.Sort of the same slice
			for _, ci := range core.CallsTo(f, "slices.Sort") {
				if ci.Common().Args[0] == args[0] && core.Dominates(ci, v) {
					return "Compact(Sort(x))", true
				}
			}
			return "Compact of a slice that is not sorted first", false
		case "slices.Insert":
			if !isElems(args[0]) {
				return "Insert into a different slice", false
			}
			bs, okI := binarySearchOf(args[1], recv)
			if bs == nil || !okI {
				return "insert position is not the BinarySearch index", false
			}
			// inserted values: the variadic slice holds exactly the searched value
			if !variadicIs(args[2], bs.Call.Args[1]) {
				return "inserted value differs from the searched value", false
			}
			if !guardedByExtract(st, bs, 1, false) {
				return "Insert must run only when BinarySearch reported not found (else duplicates)", false
			}
			return "Insert(elems, i, v) at the not-found index of BinarySearch(elems, v)", true
		case "slices.Delete":
			if !isElems(args[0]) {
				return "Delete from a different slice", false
			}
			bs, okI := binarySearchOf(args[1], recv)
			if bs == nil || !okI {
				return "delete position is not the BinarySearch index", false
			}
			plus1 := false
			if b, ok := args[2].(*ssa.BinOp); ok && b.Op == token.ADD {
				if k, isK := core.ConstInt(b.Y); isK && k == 1 && b.X == args[1] {
					plus1 = true
				}
				if k, isK := core.ConstInt(b.X); isK && k == 1 && b.Y == args[1] {
					plus1 = true
				}
			}
			if !plus1 {
				return "Delete range is not [i, i+1)", false
			}
			if !guardedByExtract(st, bs, 1, true) {
				return "Delete must run only when BinarySearch found the value", false
			}
			return "Delete(elems, i, i+1) at the found index", true
		}
		return "call of " + n, false
	case *ssa.Parameter, *ssa.Phi:
		return "stored without normalisation", false
	}
	return "unrecognised update", false
}

// binarySearchOf: v is extract #0 of slices.BinarySearch(recv.elems, x).
func binarySearchOf(v ssa.Value, recv ssa.Value) (*ssa.Call, bool) {
	ex, ok := v.(*ssa.Extract)
	if !ok || ex.Index != 0 {
		return nil, false
	}
	call, ok := ex.Tuple.(*ssa.Call)
	if !ok || core.CalleeName(&call.Call) != "slices.BinarySearch" {
		return nil, false
	}
	name, base, ok := core.IsLoadOfField(call.Call.Args[0])
	if !ok || name != "elems" || base != recv {
		return nil, false
	}
	return call, true
}

// variadicIs: the variadic argument slice holds exactly the one value want.
func variadicIs(v ssa.Value, want ssa.Value) bool {
	sl, ok := v.(*ssa.Slice)
	if !ok {
		return false
	}
	al, ok := sl.X.(*ssa.Alloc)
	if !ok {
		return false
	}
	arr, ok := al.Type().Underlying().(*types.Pointer).Elem().Underlying().(*types.Array)
	if !ok || arr.Len() != 1 {
		return false
	}
	found := false
	for _, r := range core.Refs(al) {
		if ia, ok := r.(*ssa.IndexAddr); ok {
			for _, rr := range core.Refs(ia) {
				if st, ok := rr.(*ssa.Store); ok && st.Val == want {
					found = true
				}
			}
		}
	}
	return found
}

// guardedByExtract: in runs only where extract #idx of tuple has the truth value.
func guardedByExtract(in ssa.Instruction, tuple ssa.Value, idx int, want bool) bool {
	for _, g := range core.GuardsOf(in) {
		cond, truth := core.StripNot(g.Cond, g.Truth)
		if ex, ok := cond.(*ssa.Extract); ok && ex.Tuple == tuple && ex.Index == idx && truth == want {
			return true
		}
	}
	return false
}

// freshStorage: the storage field of the returned set object comes from
// slices.Clone / maps.Clone (directly or through the constructor).
func freshStorage(c *Ctx, f *ssa.Function, v ssa.Value) (string, bool) {
	isClone := func(x ssa.Value) bool {
		call, ok := x.(*ssa.Call)
		if !ok {
			return false
		}
		n := core.CalleeName(&call.Call)
		if n == "slices.Clone" || n == "maps.Clone" {
			return true
		}
		// append onto nil or a zero-capacity slice
		if b, isB := call.Call.Value.(*ssa.Builtin); isB && b.Name() == "append" {
			if core.IsNilConst(call.Call.Args[0]) {
				return true
			}
			if sl, isSl := call.Call.Args[0].(*ssa.Slice); isSl && sl.Max != nil {
				if k, isK := core.ConstInt(sl.Max); isK && k == 0 {
					return true
				}
			}
		}
		return false
	}
	switch x := v.(type) {
	case *ssa.Alloc:
		// &T{field: clone}
		okAll, n := true, 0
		uninit := false
		for _, r := range core.Refs(x) {
			if fa, ok := r.(*ssa.FieldAddr); ok {
				for _, rr := range core.Refs(fa) {
					if st, ok := rr.(*ssa.Store); ok {
						n++
						if !isClone(st.Val) {
							okAll = false
						}
						// on every way to a return of this object: a clone whose
						// storage is only sometimes initialised is a set that
						// cannot be added to
						for _, ret := range core.Returns(f) {
							if len(ret.Results) > 0 && ret.Results[0] == ssa.Value(x) && !core.Dominates(st, ret) {
								uninit = true
							}
						}
					}
				}
			}
		}
		if n == 0 {
			return "no storage initialised", false
		}
		if uninit {
			return "the storage of the clone is not initialised on every path (a clone of an empty set must be usable: Add on a nil map panics)", false
		}
		if !okAll {
			return "a storage field is not a fresh copy (slices.Clone / maps.Clone / append onto an empty zero-capacity slice)", false
		}
		return "fields initialised from Clone", true
	case *ssa.Call:
		cal := x.Call.StaticCallee()
		if cal != nil && strings.HasPrefix(cal.Name(), "New") {
			// constructor taking the storage as its (variadic) argument
			for _, a := range x.Call.Args {
				if isClone(a) {
					return "constructor called on a cloned slice", true
				}
			}
			return "constructor argument is not a fresh copy", false
		}
	}
	return "unrecognised construction of the clone", false
}

// reachesCallOf: some call of the function value cb is reachable from block b.
func reachesCallOf(b *ssa.BasicBlock, cb ssa.Value) bool {
	seen := map[*ssa.BasicBlock]bool{}
	stack := []*ssa.BasicBlock{b}
	for len(stack) > 0 {
		x := stack[len(stack)-1]
		stack = stack[:len(stack)-1]
		if seen[x] {
			continue
		}
		seen[x] = true
		for _, in := range x.Instrs {
			if call, ok := in.(*ssa.Call); ok && call.Call.Value == cb {
				return true
			}
		}
		stack = append(stack, x.Succs...)
	}
	return false
}

// elemOf: v is an element read from slice s (s[i] or a range over s).
func elemOf(v ssa.Value, s ssa.Value) bool {
	u, ok := v.(*ssa.UnOp)
	if !ok || u.Op != token.MUL {
		return false
	}
	ia, ok := u.X.(*ssa.IndexAddr)
	return ok && ia.X == s
}

// ascendingOver / descendingOver: the index used to read s is a loop phi that
// starts at 0 (-1 for rotated range loops) and steps +1, resp. starts at
// len(s)-1 and steps -1.
func indexPhi(f *ssa.Function, s ssa.Value) (*ssa.Phi, bool) {
	var phi *ssa.Phi
	core.EachInstr(f, func(in ssa.Instruction) {
		ia, ok := in.(*ssa.IndexAddr)
		if !ok || ia.X != s {
			return
		}
		v := ia.Index
		if b, isB := v.(*ssa.BinOp); isB { // range loops index with phi+1
			if p, isP := b.X.(*ssa.Phi); isP {
				v = p
			}
		}
		if p, isP := v.(*ssa.Phi); isP {
			phi = p
		}
	})
	return phi, phi != nil
}

func stepOf(phi *ssa.Phi) (int64, bool) {
	// every back edge must carry phi +/- the same constant: a path around the
	// loop that leaves the counter unchanged (a `continue` in front of the
	// increment) or changes it differently is not a counted loop
	h := phi.Block()
	step, n := int64(0), 0
	for i, e := range phi.Edges {
		if !h.Dominates(h.Preds[i]) {
			continue
		}
		b, ok := e.(*ssa.BinOp)
		if !ok || b.X != ssa.Value(phi) {
			return 0, false
		}
		k, isK := core.ConstInt(b.Y)
		if !isK {
			return 0, false
		}
		switch b.Op {
		case token.ADD:
		case token.SUB:
			k = -k
		default:
			return 0, false
		}
		if n > 0 && k != step {
			return 0, false
		}
		step = k
		n++
	}
	return step, n > 0
}

func ascendingOver(f *ssa.Function, s ssa.Value) bool {
	return indexSequenceIs(f, s, func(n, k int64) int64 { return k })
}

func descendingOver(f *ssa.Function, s ssa.Value) bool {
	return indexSequenceIs(f, s, func(n, k int64) int64 { return n - 1 - k })
}

// indexSequenceIs evaluates the loop that indexes slice s for slices of 0..5
// elements: the k-th iteration must read s[want(n, k)], and there must be
// exactly n iterations unless the body leaves early.  The counter, its bound
// and the index are affine in the counter and len(s), so six lengths decide
// all; a `continue` around the increment makes the back-edge value depend on
// a branch and is rejected.
func indexSequenceIs(f *ssa.Function, s ssa.Value, want func(n, k int64) int64) bool {
	// some loop that reads the elements of s does so in the wanted order (a
	// second loop over the same slice, e.g. one that clears a tail, is not
	// the one the caller asks about)
	var ias []*ssa.IndexAddr
	core.EachInstr(f, func(in ssa.Instruction) {
		if x, ok := in.(*ssa.IndexAddr); ok && core.InLoop(x) {
			if x.X != s {
				n1, b1, ok1 := core.IsLoadOfField(x.X)
				n2, b2, ok2 := core.IsLoadOfField(s)
				if !(ok1 && ok2 && n1 == n2 && b1 == b2) {
					return
				}
			}
			for _, r := range core.Refs(x) {
				if u, isU := r.(*ssa.UnOp); isU && u.Op == token.MUL {
					ias = append(ias, x)
					break
				}
			}
		}
	})
	for _, ia := range ias {
		if indexSequenceAt(f, s, ia, want) {
			return true
		}
	}
	return false
}

func indexSequenceAt(f *ssa.Function, s ssa.Value, ia *ssa.IndexAddr, want func(n, k int64) int64) bool {
	var head *ssa.BasicBlock
	for h := range core.LoopHeads(f) {
		if core.LoopBody(h)[ia.Block()] {
			if head == nil || core.LoopBody(head)[h] {
				head = h // innermost
			}
		}
	}
	if head == nil {
		return false
	}
	body := core.LoopBody(head)
	hif, _ := head.Instrs[len(head.Instrs)-1].(*ssa.If)
	if hif == nil {
		return false
	}
	var phis []*ssa.Phi
	for _, in := range head.Instrs {
		if p, ok := in.(*ssa.Phi); ok && isIntegerType(p.Type()) {
			phis = append(phis, p)
		}
	}
	if len(phis) == 0 {
		return false
	}
	var lens []ssa.Value
	core.EachInstr(f, func(in ssa.Instruction) {
		if call, ok := in.(*ssa.Call); ok {
			if b, isB := call.Call.Value.(*ssa.Builtin); isB && (b.Name() == "len" || b.Name() == "cap") && len(call.Call.Args) == 1 {
				same := call.Call.Args[0] == s
				// another read of the same field (rec.Names re-read in every iteration)
				n1, b1, ok1 := core.IsLoadOfField(call.Call.Args[0])
				n2, b2, ok2 := core.IsLoadOfField(s)
				if ok1 && ok2 && n1 == n2 && b1 == b2 {
					same = true
				}
				if same {
					lens = append(lens, call)
				}
			}
		}
	})
	for n := int64(0); n <= 5; n++ {
		env := map[ssa.Value]int64{}
		for _, l := range lens {
			env[l] = n
		}
		cur := map[*ssa.Phi]int64{}
		for _, p := range phis {
			ok := false
			for i, e := range p.Edges {
				if !body[head.Preds[i]] {
					cur[p], ok = evalSmall(e, env, 0)
				}
			}
			if !ok {
				return false
			}
		}
		var k int64
		for ; k <= n+1; k++ {
			for p, v := range cur {
				env[p] = v
			}
			cv, ok := evalSmall(hif.Cond, env, 0)
			if !ok {
				return false
			}
			cont := cv != 0
			if !body[hif.Block().Succs[0]] {
				cont = !cont
			}
			if !cont {
				break
			}
			iv, ok := evalSmall(ia.Index, env, 0)
			if !ok || k >= n || iv != want(n, k) {
				return false
			}
			next := map[*ssa.Phi]int64{}
			for _, p := range phis {
				var nv int64
				have := false
				for i, e := range p.Edges {
					if body[head.Preds[i]] {
						v, ok := evalSmall(e, env, 0)
						if !ok || (have && v != nv) {
							return false
						}
						nv, have = v, true
					}
				}
				if !have {
					return false
				}
				next[p] = nv
			}
			cur = next
		}
		if k != n {
			return false
		}
	}
	return true
}
