package rules

import (
	"go/token"
	"strings"

	"golang.org/x/tools/go/ssa"

	"verif/sa/core"
	"verif/sa/skel"
)

func init() {
	register(&Property{
		ID:    "C02",
		Level: "other",
		Explanation: "Decided clauses: (R1) the three in-repo twin pairs IsValidHostnameLabel/ValidateHostnameLabel, isValidTLDLabel/ValidateTLDLabel and IsValidHostname/ValidateHostname have " +
			"identical decision skeletons (ordered trees of canonical branch atoms over the parameters, error-returning helpers inlined, `err != nil` mapped to `!ok`, loops summarised), both " +
			"sides taken from the current tree, so a check changed in one twin only (a dropped length test, > vs >=, a different rune class, the length test moved before ToASCII) is reported " +
			"with the differing atom; (R2) the group-count arithmetic of the IPv6 scanner — an address has exactly 8 sixteen-bit groups, an embedded IPv4 tail counts as two, '::' stands for " +
			"at least one — is evaluated exactly for every (groups so far, ellipsis seen) at each accepting exit and compared with that specification. Not decided: full language equivalence of " +
			"IsValidIPString / IsValidIPPortString with netip.ParseAddr / ParseAddrPort (two independently structured scanners; their panic-freedom and termination are C01).",
		Technique: "decision-skeleton extraction and structural twin comparison on SSA; exhaustive evaluation of the group-count predicates over their finite domain",
		Note:      "Trusted: go/ssa, /verif/sa/skel. A behaviour-preserving but asymmetric rewrite of one twin's control flow is reported as 'cannot establish agreement'.",
		DesignRef: "DESIGN.md section 4, C02",
		Run:       runC02,
	})
}

var c02Family = map[string]string{
	"ValidateHostnameLabel": "HostLabel", "IsValidHostnameLabel": "HostLabel",
	"ValidateTLDLabel": "TLD", "isValidTLDLabel": "TLD",
	"ValidateHostname": "Hostname", "IsValidHostname": "Hostname",
}

func runC02(c *Ctx) {
	c.L.Trust("go/types + go/ssa", "decision-skeleton builder /verif/sa/skel")
	c.L.Floor("C02.twin-skeleton", 3)
	c.L.Floor("C02.ipv6.group-count", 3)

	sp := c.P.Pkg("netutil")
	if sp == nil {
		c.L.Record(core.Undecided, "C02.twin-skeleton", "netutil", "package", "-", "not found")
		return
	}
	pairs := [][2]string{{"ValidateHostnameLabel", "IsValidHostnameLabel"}, {"ValidateTLDLabel", "isValidTLDLabel"}, {"ValidateHostname", "IsValidHostname"}}
	var samples []any
	for _, pr := range pairs {
		fa, fb := c.fn("netutil", pr[0]), c.fn("netutil", pr[1])
		if fa == nil || fb == nil {
			continue
		}
		b := &skel.Builder{Pkg: sp, Family: c02Family}
		ta := safeSkeleton(b, fa)
		tb := safeSkeleton(b, fb)
		atoms := strings.Count(ta, "?")
		samples = append(samples, map[string]any{"pair": pr[0] + " / " + pr[1], "skeleton": ta, "atoms": atoms})
		switch {
		case strings.Contains(ta, "RET") || strings.Contains(tb, "RET") || strings.Contains(ta, "<*ssa.") || strings.Contains(tb, "<*ssa.") || ta == "" || tb == "":
			c.undecided("C02.twin-skeleton", fb, pr[1]+" ≍ "+pr[0], nil, "a skeleton contains a construct the builder cannot canonicalise: "+firstOdd(ta, tb))
		case ta == tb:
			c.check(atoms >= 2, "C02.twin-skeleton", fb, pr[1]+" ≍ "+pr[0], nil, sprintf("identical decision skeletons with %d branch atoms: %s", atoms, clip(ta, 400)))
		default:
			i := 0
			for i < len(ta) && i < len(tb) && ta[i] == tb[i] {
				i++
			}
			lo := i - 60
			if lo < 0 {
				lo = 0
			}
			c.check(false, "C02.twin-skeleton", fb, pr[1]+" ≍ "+pr[0], nil,
				sprintf("the twins decide differently; skeletons diverge after %q: %s has %q where %s has %q", ta[lo:i], pr[0], clip(ta[i:], 120), pr[1], clip(tb[i:], 120)))
		}
	}
	if p := Get("C02"); p != nil {
		p.Extra = map[string]any{"skeletons": samples}
	}
	c02GroupCount(c)
}

func safeSkeleton(b *skel.Builder, f *ssa.Function) (s string) {
	defer func() {
		if r := recover(); r != nil {
			s = ""
		}
	}()
	return b.Skeleton(f).String()
}

func firstOdd(a, b string) string {
	for _, s := range []string{a, b} {
		for _, m := range []string{"RET", "<*ssa."} {
			if i := strings.Index(s, m); i >= 0 {
				return clip(s[i:], 80)
			}
		}
	}
	return "empty skeleton"
}

func clip(s string, n int) string {
	if len(s) > n {
		return s[:n] + "..."
	}
	return s
}

// ---- IPv6 group-count arithmetic ----

// evalSmall evaluates an SSA expression over small integers and booleans given
// values for some parameters; ok is false when it depends on anything else.
func evalSmall(v ssa.Value, env map[ssa.Value]int64, depth int) (int64, bool) {
	if x, ok := env[v]; ok {
		return x, true
	}
	if k, ok := core.ConstInt(v); ok {
		return k, true
	}
	if b, ok := core.ConstBool(v); ok {
		if b {
			return 1, true
		}
		return 0, true
	}
	if depth > 8 {
		return 0, false
	}
	switch x := v.(type) {
	case *ssa.UnOp:
		if x.Op == token.NOT {
			a, ok := evalSmall(x.X, env, depth+1)
			return 1 - a, ok
		}
	case *ssa.Convert:
		return evalSmall(x.X, env, depth+1)
	case *ssa.BinOp:
		a, ok1 := evalSmall(x.X, env, depth+1)
		b, ok2 := evalSmall(x.Y, env, depth+1)
		if !ok1 || !ok2 {
			return 0, false
		}
		bi := func(c bool) int64 {
			if c {
				return 1
			}
			return 0
		}
		switch x.Op {
		case token.ADD:
			return a + b, true
		case token.SUB:
			return a - b, true
		case token.MUL:
			return a * b, true
		case token.EQL:
			return bi(a == b), true
		case token.NEQ:
			return bi(a != b), true
		case token.LSS:
			return bi(a < b), true
		case token.LEQ:
			return bi(a <= b), true
		case token.GTR:
			return bi(a > b), true
		case token.GEQ:
			return bi(a >= b), true
		}
	}
	return 0, false
}

func c02GroupCount(c *Ctx) {
	f := c.fn("netutil", "trimValidIPv6Field")
	if f == nil {
		return
	}
	if len(f.Params) != 3 {
		c.undecided("C02.ipv6.group-count", f, "signature (s, gotFields, hasEllipsis)", nil, "unexpected parameters")
		return
	}
	got, ell := f.Params[1], f.Params[2]
	maxFields, okM := intConst(c, "netutil", "maxIPv6FieldsNum")
	if !okM {
		maxFields = 8
	}
	// spec: with `add` more groups the address is complete iff
	//   ellipsis:  got+add <  8   (the "::" still stands for >= 1 group)
	//   none:      got+add == 8
	spec := func(g, e, add int64) bool {
		if e == 1 {
			return g+add < maxFields
		}
		return g+add == maxFields
	}
	check := func(what string, add int64, at ssa.Instruction, accept func(env map[ssa.Value]int64) (bool, bool)) {
		bad := ""
		for g := int64(0); g < maxFields; g++ {
			for e := int64(0); e <= 1; e++ {
				env := map[ssa.Value]int64{got: g, ell: e}
				acc, ok := accept(env)
				if !ok {
					c.undecided("C02.ipv6.group-count", f, what, at, "the accepting condition does not depend on (gotFields, hasEllipsis) alone")
					return
				}
				if acc != spec(g, e, add) && bad == "" {
					bad = sprintf("with %d group(s) already read and ellipsis=%v the tail is %s, but the address would have %d groups%s", g, e == 1,
						map[bool]string{true: "accepted", false: "rejected"}[acc], g+add, map[bool]string{true: " plus the '::'", false: ""}[e == 1])
				}
			}
		}
		c.check(bad == "", "C02.ipv6.group-count", f, what, at, "evaluated for all 16 (groups so far, ellipsis) combinations against: complete iff groups == 8 without '::', groups < 8 with '::'. "+bad)
	}
	n := 0
	for _, ret := range core.Returns(f) {
		if s, ok := core.ConstString(ret.Results[0]); !ok || s != "" {
			continue
		}
		res := ret.Results[1]
		if b, isK := core.ConstBool(res); isK && !b {
			continue
		}
		// short-circuit value: find the IPv4-tail call among the phi edges
		var v4call *ssa.Call
		for _, e := range flattenPhi(res) {
			if call, ok := e.(*ssa.Call); ok && call.Call.StaticCallee() != nil && call.Call.StaticCallee().Name() == "isValidIPv4String" {
				v4call = call
			}
		}
		if v4call != nil {
			n++
			check("IPv4 tail accepted only when it completes the 8 groups (counts as 2)", 2, v4call, func(env map[ssa.Value]int64) (bool, bool) {
				acc := true
				used := 0
				for _, g := range core.GuardsOf(v4call) {
					val, ok := evalSmall(g.Cond, env, 0)
					if !ok {
						continue // guard on the text, not on the counters
					}
					used++
					if (val == 1) != g.Truth {
						acc = false
					}
				}
				return acc, used > 0
			})
			continue
		}
		n++
		check("last plain group accepted only when it completes the 8 groups", 1, ret, func(env map[ssa.Value]int64) (bool, bool) {
			// gotFields++ happened before: the expression uses gotFields+1 itself
			val, ok := evalSmall(res, env, 0)
			return val == 1, ok
		})
	}
	if n < 2 {
		c.undecided("C02.ipv6.group-count", f, "accepting exits of trimValidIPv6Field", nil, sprintf("found %d, expected the plain-group and the IPv4-tail exit", n))
	}
	// the caller reads at most maxIPv6FieldsNum groups and ends with the same rule
	if g := c.fn("netutil", "isValidIPv6String"); g != nil {
		okBound := false
		for _, ci := range core.AllCalls(g) {
			if ci.Common().StaticCallee() == f {
				for _, gd := range core.GuardsOf(ci) {
					if b, ok := gd.Cond.(*ssa.BinOp); ok && b.Op == token.LSS && gd.Truth && ci.Common().Args[1] == b.X {
						if k, isK := core.ConstInt(b.Y); isK && k == maxFields {
							okBound = true
						}
					}
				}
			}
		}
		c.check(okBound, "C02.ipv6.group-count", g, "groups are read only while fewer than 8 have been seen", nil, "so the counter passed to trimValidIPv6Field is in [0, 7]")
	}
}
