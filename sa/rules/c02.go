package rules

import (
	"go/token"
	"go/types"
	"strings"

	"golang.org/x/tools/go/ssa"

	"verif/sa/core"
	"verif/sa/skel"
)

func init() {
	register(&Property{
		ID:    "C02",
		Level: "other",
		Explanation: "Decided exactly by abstract evaluation into BDDs (no execution), on all inputs of bounded length: the label-level twins (IsValidHostnameLabel / ValidateHostnameLabel, isValidTLDLabel / ValidateTLDLabel) equal the same grammar; isValidIPv4String == the dotted-quad grammar of netip.ParseAddr; isIPv4Label, isUint16 and splitAddrPort equal their definitions. Further decided clauses (and the fall-back of the above): (R1) the three in-repo twin pairs IsValidHostnameLabel/ValidateHostnameLabel, isValidTLDLabel/ValidateTLDLabel and IsValidHostname/ValidateHostname have " +
			"identical decision skeletons (ordered trees of canonical branch atoms over the parameters, error-returning helpers inlined, `err != nil` mapped to `!ok`, loops summarised), both " +
			"sides taken from the current tree, so a check changed in one twin only (a dropped length test, > vs >=, a different rune class, the length test moved before ToASCII) is reported " +
			"with the differing atom; (R2) the group-count arithmetic of the IPv6 scanner — an address has exactly 8 sixteen-bit groups, an embedded IPv4 tail counts as two, '::' stands for " +
			"at least one — is evaluated exactly for every (groups so far, ellipsis seen) at each accepting exit and compared with that specification; (R3) the addr:port layer — splitAddrPort's decision table over its six branch atoms equals " +
			"netip's splitter plus its bracket rule (brackets are removed exactly when the host contains ':'), IsValidIPPortString is the conjunction split-ok && isUint16(port) && " +
			"IsValidIPString(host) on the split parts, and one iteration of isUint16's digit loop evaluated at the thresholds of its comparisons equals strconv.ParseUint(_, 10, 16). " +
			"Not decided: full language equivalence of the IPv4/IPv6 character scanners behind IsValidIPString with netip.ParseAddr (two independently structured scanners; their " +
			"panic-freedom and termination are C01).",
		Technique: "exact abstract evaluation of go/ssa into ROBDDs (label-level twins, IPv4 scanner, octet and port predicates, address:port splitter, compared with the reference grammar on all inputs of bounded length) + decision-skeleton twin comparison for the name-level twin; exhaustive evaluation of the IPv6 group-count predicates and of the length tests over their finite domains",
		Note:      "Trusted: go/ssa, /verif/sa/skel. A behaviour-preserving but asymmetric rewrite of one twin's control flow is reported as 'cannot establish agreement'.",
		DesignRef: "DESIGN.md section 4, C02",
		Run:       runC02,
	})
}

var c02Family = map[string]string{
	"ValidateHostnameLabel": "HostLabel", "IsValidHostnameLabel": "HostLabel",
	"ValidateTLDLabel": "TLD", "isValidTLDLabel": "TLD",
	"ValidateHostname": "Hostname", "IsValidHostname": "Hostname",
}

func runC02(c *Ctx) {
	c.L.Trust("go/types + go/ssa", "decision-skeleton builder /verif/sa/skel")
	c.L.Floor("C02.twin-skeleton", 3)
	c.L.Floor("C02.ipv6.group-count", 3)

	sp := c.P.Pkg("netutil")
	if sp == nil {
		c.L.Record(core.Undecided, "C02.twin-skeleton", "netutil", "package", "-", "not found")
		return
	}
	ipExact := c02IPExact(c)
	ipPortExact := c02IPPortExact(c)
	// the IPv6 scanner classifies bytes with fromHexByte: exactly the 22 hex
	// digits, for all 256 bytes (shared with the ARPA codec, C04/C05)
	c.L.Floor("C02.hex-table", 1)
	c04HexTable(c, "C02")
	pairs := [][2]string{{"ValidateHostnameLabel", "IsValidHostnameLabel"}, {"ValidateTLDLabel", "isValidTLDLabel"}, {"ValidateHostname", "IsValidHostname"}}
	var samples []any
	// the label-level twins are compared exactly: both are evaluated as Boolean
	// functions of the label bytes and must equal the same grammar (c03exact.go)
	exact := c03LabelsExact(c, "C02")
	// the name-level twins are compared exactly as well (C02.name-exact: short
	// ASCII names, and names around the 253-byte limit); where idna.ToASCII sits
	// and which text is measured is C02.idna-discipline.  With both, the
	// skeleton comparison of the pair is the fall-back.
	nameExact := c03NamesExact(c, "C02")
	if nameExact["ValidateHostname"] && nameExact["IsValidHostname"] {
		c.L.Floor("C02.idna-discipline", 3)
		if c02IdnaDiscipline(c, c.fn("netutil", "ValidateHostname"), c.fn("netutil", "IsValidHostname")) {
			exact["ValidateHostname"], exact["IsValidHostname"] = true, true
		}
	}
	for _, pr := range pairs {
		fa, fb := c.fn("netutil", pr[0]), c.fn("netutil", pr[1])
		if fa == nil || fb == nil {
			continue
		}
		if exact[pr[0]] && exact[pr[1]] {
			c.check(true, "C02.twin-skeleton", fb, pr[1]+" ≍ "+pr[0], nil, "both decided exactly against the same grammar (C02.label-exact / C02.name-exact): equal as Boolean functions of the bytes for the lengths evaluated")
			continue
		}
		b := &skel.Builder{Pkg: sp, Family: c02Family}
		ta := safeSkeleton(b, fa)
		tb := safeSkeleton(b, fb)
		atoms := strings.Count(ta, "?")
		samples = append(samples, map[string]any{"pair": pr[0] + " / " + pr[1], "skeleton": ta, "atoms": atoms})
		switch {
		case strings.Contains(ta, "RET") || strings.Contains(tb, "RET") || strings.Contains(ta, "<*ssa.") || strings.Contains(tb, "<*ssa.") || ta == "" || tb == "":
			c.undecided("C02.twin-skeleton", fb, pr[1]+" ≍ "+pr[0], nil, "a skeleton contains a construct the builder cannot canonicalise: "+firstOdd(ta, tb))
		case ta == tb:
			c.check(atoms >= 2, "C02.twin-skeleton", fb, pr[1]+" ≍ "+pr[0], nil, sprintf("identical decision skeletons with %d branch atoms: %s", atoms, clip(ta, 400)))
		default:
			i := 0
			for i < len(ta) && i < len(tb) && ta[i] == tb[i] {
				i++
			}
			lo := i - 60
			if lo < 0 {
				lo = 0
			}
			c.check(false, "C02.twin-skeleton", fb, pr[1]+" ≍ "+pr[0], nil,
				sprintf("the twins decide differently; skeletons diverge after %q: %s has %q where %s has %q", ta[lo:i], pr[0], clip(ta[i:], 120), pr[1], clip(tb[i:], 120)))
		}
	}
	if p := Get("C02"); p != nil {
		p.Extra = map[string]any{"skeletons": samples}
	}
	// the structural rules about the IP scanners are the fall-back of the
	// comparison with netip itself (c02ipexact.go)
	if ipExact {
		c.L.Floor("C02.ipv6.group-count", 0)
	} else {
		c02GroupCount(c)
	}
	c02PortSplit(c, ipPortExact)
	if !ipExact {
		c02IPDispatch(c)
	}
	// exact decisions of the IPv4 scanner and its octet predicate (c05exact.go);
	// the structural rules are the fall-back
	okLabel := v4LabelExact(c, "C02")
	okScan := v4ScannerExact(c)
	if !okLabel {
		c02V4Label(c)
	}
	if !okScan {
		c02V4Scanner(c)
	}
	c02LengthTests(c)
}

func safeSkeleton(b *skel.Builder, f *ssa.Function) (s string) {
	defer func() {
		if r := recover(); r != nil {
			s = ""
		}
	}()
	return b.Skeleton(f).String()
}

func firstOdd(a, b string) string {
	for _, s := range []string{a, b} {
		for _, m := range []string{"RET", "<*ssa."} {
			if i := strings.Index(s, m); i >= 0 {
				return clip(s[i:], 80)
			}
		}
	}
	return "empty skeleton"
}

func clip(s string, n int) string {
	if len(s) > n {
		return s[:n] + "..."
	}
	return s
}

// ---- IPv6 group-count arithmetic ----

// evalSmall evaluates an SSA expression over small integers and booleans given
// values for some parameters; ok is false when it depends on anything else.
func evalSmall(v ssa.Value, env map[ssa.Value]int64, depth int) (int64, bool) {
	if x, ok := env[v]; ok {
		return x, true
	}
	if k, ok := core.ConstInt(v); ok {
		return k, true
	}
	if b, ok := core.ConstBool(v); ok {
		if b {
			return 1, true
		}
		return 0, true
	}
	if depth > 8 {
		return 0, false
	}
	switch x := v.(type) {
	case *ssa.UnOp:
		if x.Op == token.NOT {
			a, ok := evalSmall(x.X, env, depth+1)
			return 1 - a, ok
		}
	case *ssa.Convert:
		return evalSmall(x.X, env, depth+1)
	case *ssa.BinOp:
		a, ok1 := evalSmall(x.X, env, depth+1)
		b, ok2 := evalSmall(x.Y, env, depth+1)
		if !ok1 || !ok2 {
			return 0, false
		}
		bi := func(c bool) int64 {
			if c {
				return 1
			}
			return 0
		}
		switch x.Op {
		case token.ADD:
			return a + b, true
		case token.SUB:
			return a - b, true
		case token.MUL:
			return a * b, true
		case token.EQL:
			return bi(a == b), true
		case token.NEQ:
			return bi(a != b), true
		case token.LSS:
			return bi(a < b), true
		case token.LEQ:
			return bi(a <= b), true
		case token.GTR:
			return bi(a > b), true
		case token.GEQ:
			return bi(a >= b), true
		}
	}
	return 0, false
}

func c02GroupCount(c *Ctx) {
	f := c.fn("netutil", "trimValidIPv6Field")
	if f == nil {
		return
	}
	if len(f.Params) != 3 {
		c.undecided("C02.ipv6.group-count", f, "signature (s, gotFields, hasEllipsis)", nil, "unexpected parameters")
		return
	}
	got, ell := f.Params[1], f.Params[2]
	maxFields, okM := intConst(c, "netutil", "maxIPv6FieldsNum")
	if !okM {
		maxFields = 8
	}
	// spec: with `add` more groups the address is complete iff
	//   ellipsis:  got+add <  8   (the "::" still stands for >= 1 group)
	//   none:      got+add == 8
	spec := func(g, e, add int64) bool {
		if e == 1 {
			return g+add < maxFields
		}
		return g+add == maxFields
	}
	check := func(what string, add int64, at ssa.Instruction, accept func(env map[ssa.Value]int64) (bool, bool)) {
		bad := ""
		for g := int64(0); g < maxFields; g++ {
			for e := int64(0); e <= 1; e++ {
				env := map[ssa.Value]int64{got: g, ell: e}
				acc, ok := accept(env)
				if !ok {
					c.undecided("C02.ipv6.group-count", f, what, at, "the accepting condition does not depend on (gotFields, hasEllipsis) alone")
					return
				}
				if acc != spec(g, e, add) && bad == "" {
					bad = sprintf("with %d group(s) already read and ellipsis=%v the tail is %s, but the address would have %d groups%s", g, e == 1,
						map[bool]string{true: "accepted", false: "rejected"}[acc], g+add, map[bool]string{true: " plus the '::'", false: ""}[e == 1])
				}
			}
		}
		c.check(bad == "", "C02.ipv6.group-count", f, what, at, "evaluated for all 16 (groups so far, ellipsis) combinations against: complete iff groups == 8 without '::', groups < 8 with '::'. "+bad)
	}
	n := 0
	for _, ret := range core.Returns(f) {
		if s, ok := core.ConstString(ret.Results[0]); !ok || s != "" {
			continue
		}
		res := ret.Results[1]
		if b, isK := core.ConstBool(res); isK && !b {
			continue
		}
		// short-circuit value: find the IPv4-tail call among the phi edges
		var v4call *ssa.Call
		for _, e := range flattenPhi(res) {
			if call, ok := e.(*ssa.Call); ok && call.Call.StaticCallee() != nil && call.Call.StaticCallee().Name() == "isValidIPv4String" {
				v4call = call
			}
		}
		if v4call != nil {
			n++
			check("IPv4 tail accepted only when it completes the 8 groups (counts as 2)", 2, v4call, func(env map[ssa.Value]int64) (bool, bool) {
				acc := true
				used := 0
				for _, g := range core.GuardsOf(v4call) {
					val, ok := evalSmall(g.Cond, env, 0)
					if !ok {
						continue // guard on the text, not on the counters
					}
					used++
					if (val == 1) != g.Truth {
						acc = false
					}
				}
				return acc, used > 0
			})
			continue
		}
		n++
		check("last plain group accepted only when it completes the 8 groups", 1, ret, func(env map[ssa.Value]int64) (bool, bool) {
			// gotFields++ happened before: the expression uses gotFields+1 itself
			val, ok := evalSmall(res, env, 0)
			return val == 1, ok
		})
	}
	if n < 2 {
		c.undecided("C02.ipv6.group-count", f, "accepting exits of trimValidIPv6Field", nil, sprintf("found %d, expected the plain-group and the IPv4-tail exit", n))
	}
	// the caller reads at most maxIPv6FieldsNum groups and ends with the same rule
	if g := c.fn("netutil", "isValidIPv6String"); g != nil {
		okBound := false
		for _, ci := range core.AllCalls(g) {
			if ci.Common().StaticCallee() == f {
				for _, gd := range core.GuardsOf(ci) {
					if b, ok := gd.Cond.(*ssa.BinOp); ok && b.Op == token.LSS && gd.Truth && ci.Common().Args[1] == b.X {
						if k, isK := core.ConstInt(b.Y); isK && k == maxFields {
							okBound = true
						}
					}
				}
			}
		}
		c.check(okBound, "C02.ipv6.group-count", g, "groups are read only while fewer than 8 have been seen", nil, "so the counter passed to trimValidIPv6Field is in [0, 7]")
	}
}

// ---- addr:port splitter ----

// atomWalk follows the one path a loop-free function takes when every branch
// condition is decided by classify under the assignment asg.  It returns the
// return reached and the phi edges selected on the way.
func atomWalk(f *ssa.Function, classify func(ssa.Value) (string, bool), asg map[string]bool) (*ssa.Return, map[*ssa.Phi]ssa.Value, string) {
	sel := map[*ssa.Phi]ssa.Value{}
	var prev *ssa.BasicBlock
	b := f.Blocks[0]
	for steps := 0; steps <= len(f.Blocks); steps++ {
		for _, in := range b.Instrs {
			phi, ok := in.(*ssa.Phi)
			if !ok {
				break
			}
			for i, p := range b.Preds {
				if p == prev {
					sel[phi] = phi.Edges[i]
				}
			}
		}
		switch t := b.Instrs[len(b.Instrs)-1].(type) {
		case *ssa.Return:
			return t, sel, ""
		case *ssa.Jump:
			prev, b = b, b.Succs[0]
		case *ssa.If:
			cond, truth := core.StripNot(t.Cond, true)
			if phi, ok := cond.(*ssa.Phi); ok {
				cond, truth = core.StripNot(sel[phi], truth)
			}
			var val bool
			if k, isK := core.ConstBool(cond); isK {
				val = k
			} else {
				name, ok := classify(cond)
				if !ok {
					return nil, nil, "a branch condition outside the recognised atoms: " + core.Describe(cond)
				}
				neg := strings.HasPrefix(name, "!")
				val = asg[strings.TrimPrefix(name, "!")] != neg
			}
			if val == truth {
				prev, b = b, b.Succs[0]
			} else {
				prev, b = b, b.Succs[1]
			}
		default:
			return nil, nil, "a path ends without a return"
		}
	}
	return nil, nil, "the function is not loop-free"
}

func c02PortSplit(c *Ctx, wholeExact bool) {
	c.L.Floor("C02.port.split", 2)
	c.L.Floor("C02.port.number", 1)
	sp := c.fn("netutil", "splitAddrPort")
	top := c.fn("netutil", "IsValidIPPortString")
	// decided exactly where possible (c05exact.go); the walk over the six
	// recognised branch atoms is the fall-back
	splitExact := c02SplitExact(c)
	if splitExact {
		c.L.Floor("C02.port.split", 1)
	}
	if sp != nil && len(sp.Params) == 1 && !splitExact {
		s := ssa.Value(sp.Params[0])
		var idx ssa.Value
		for _, ci := range core.CallsTo(sp, "strings.LastIndexByte") {
			if k, ok := core.ConstInt(ci.Common().Args[1]); ok && k == ':' && ci.Common().Args[0] == s {
				idx = ci.Value()
			}
		}
		isIP := func(v ssa.Value) bool {
			sl, ok := v.(*ssa.Slice)
			return ok && idx != nil && sl.X == s && sl.Low == nil && sl.High == idx
		}
		isPort := func(v ssa.Value) bool {
			sl, ok := v.(*ssa.Slice)
			if !ok || idx == nil || sl.X != s || sl.High != nil || sl.Low == nil {
				return false
			}
			b, ok := sl.Low.(*ssa.BinOp)
			if !ok || b.Op != token.ADD || b.X != idx {
				return false
			}
			k, isK := core.ConstInt(b.Y)
			return isK && k == 1
		}
		isEmptyCmp := func(b *ssa.BinOp, is func(ssa.Value) bool) bool {
			if str, ok := core.ConstString(b.Y); ok && str == "" && is(b.X) {
				return true
			}
			if lc, ok := b.X.(*ssa.Call); ok && core.CalleeName(&lc.Call) == "builtin.len" && is(lc.Call.Args[0]) {
				k, isK := core.ConstInt(b.Y)
				return isK && k == 0
			}
			return false
		}
		classify := func(v ssa.Value) (string, bool) {
			switch x := v.(type) {
			case *ssa.BinOp:
				pol := ""
				switch x.Op {
				case token.EQL:
				case token.NEQ:
					pol = "!"
				case token.LSS:
					if k, ok := core.ConstInt(x.Y); ok && k == 0 && x.X == idx && idx != nil {
						return "NOCOLON", true
					}
					return "", false
				default:
					return "", false
				}
				if k, ok := core.ConstInt(x.Y); ok && k == -1 && x.X == idx && idx != nil {
					return pol + "NOCOLON", true
				}
				if isEmptyCmp(x, isIP) {
					return pol + "EMPTYIP", true
				}
				if isEmptyCmp(x, isPort) {
					return pol + "EMPTYPORT", true
				}
			case *ssa.Call:
				name := core.CalleeName(&x.Call)
				if len(x.Call.Args) != 2 || !isIP(x.Call.Args[0]) {
					return "", false
				}
				arg, _ := core.ConstString(x.Call.Args[1])
				switch {
				case name == "strings.Contains" && arg == ":":
					return "HASCOLON", true
				case name == "strings.ContainsRune":
					if k, ok := core.ConstInt(x.Call.Args[1]); ok && k == ':' {
						return "HASCOLON", true
					}
				case name == "strings.HasPrefix" && arg == "[":
					return "LBR", true
				case name == "strings.HasSuffix" && arg == "]":
					return "RBR", true
				}
			}
			return "", false
		}
		isStripped := func(v ssa.Value) bool {
			sl, ok := v.(*ssa.Slice)
			if !ok || !isIP(sl.X) || sl.Low == nil || sl.High == nil {
				return false
			}
			lo, isK := core.ConstInt(sl.Low)
			if !isK || lo != 1 {
				return false
			}
			b, ok := sl.High.(*ssa.BinOp)
			if !ok || b.Op != token.SUB {
				return false
			}
			lc, ok := b.X.(*ssa.Call)
			k, isK := core.ConstInt(b.Y)
			return ok && core.CalleeName(&lc.Call) == "builtin.len" && isIP(lc.Call.Args[0]) && isK && k == 1
		}
		atoms := []string{"NOCOLON", "EMPTYIP", "EMPTYPORT", "HASCOLON", "LBR", "RBR"}
		what := "ok and the returned host as a function of (no ':', empty host, empty port, host contains ':', '[' prefix, ']' suffix)"
		bad, undec := "", ""
		n := 0
		for m := 0; m < 1<<len(atoms) && undec == ""; m++ {
			asg := map[string]bool{}
			desc := ""
			for i, a := range atoms {
				asg[a] = m&(1<<i) != 0
				if asg[a] {
					desc += " " + a
				}
			}
			ret, sel, why := atomWalk(sp, classify, asg)
			if ret == nil {
				undec = why
				break
			}
			n++
			res := func(i int) ssa.Value {
				v := ret.Results[i]
				for {
					phi, ok := v.(*ssa.Phi)
					if !ok {
						return v
					}
					v = sel[phi]
				}
			}
			gotOK, isK := core.ConstBool(res(2))
			if !isK {
				undec = "the ok result is not a constant on some path"
				break
			}
			wantOK := !asg["NOCOLON"] && !asg["EMPTYIP"] && !asg["EMPTYPORT"] && (!asg["HASCOLON"] || (asg["LBR"] && asg["RBR"]))
			if gotOK != wantOK {
				if bad == "" {
					bad = sprintf("for {%s } ok is %v, netip.ParseAddrPort's splitter gives %v", desc, gotOK, wantOK)
				}
				continue
			}
			if !gotOK {
				continue
			}
			host := res(0)
			gotStripped, gotPlain := isStripped(host), isIP(host)
			if !gotStripped && !gotPlain {
				undec = "the returned host is neither s[:i] nor that without its first and last byte: " + core.Describe(host)
				break
			}
			if gotStripped != asg["HASCOLON"] && bad == "" {
				bad = sprintf("for {%s } the brackets are stripped: %v; they belong to IPv6 literals only (netip rejects \"[1.2.3.4]:80\" and needs \"[::1]:80\"), so they may be removed exactly when the host contains ':'", desc, gotStripped)
			}
			if !isPort(res(1)) && bad == "" {
				bad = sprintf("for {%s } the returned port is not s[i+1:]", desc)
			}
		}
		switch {
		case undec != "":
			c.undecided("C02.port.split", sp, what, nil, undec)
		default:
			c.check(bad == "", "C02.port.split", sp, what, nil, sprintf("decision table evaluated for all %d atom assignments against netip's splitAddrPort + bracket rule. %s", n, bad))
		}
	}
	if wholeExact {
		// IsValidIPPortString as a whole is compared with netip.ParseAddrPort
		c.L.Floor("C02.port.split", 0)
	}
	if top != nil && sp != nil && !wholeExact {
		p0 := ssa.Value(top.Params[0])
		var split *ssa.Call
		for _, ci := range core.AllCalls(top) {
			if ci.Common().StaticCallee() == sp && ci.Common().Args[0] == p0 {
				split, _ = ci.(*ssa.Call)
			}
		}
		part := func(v ssa.Value, i int) bool {
			ex, ok := v.(*ssa.Extract)
			return ok && split != nil && ex.Tuple == ssa.Value(split) && ex.Index == i
		}
		classify := func(v ssa.Value) (string, bool) {
			if part(v, 2) {
				return "SPLITOK", true
			}
			if call, ok := v.(*ssa.Call); ok && call.Call.StaticCallee() != nil && len(call.Call.Args) == 1 {
				switch call.Call.StaticCallee().Name() {
				case "isUint16":
					if part(call.Call.Args[0], 1) {
						return "PORTOK", true
					}
				case "IsValidIPString":
					if part(call.Call.Args[0], 0) {
						return "IPOK", true
					}
				}
			}
			return "", false
		}
		bad, undec := "", ""
		for m := 0; m < 8 && undec == ""; m++ {
			asg := map[string]bool{"SPLITOK": m&1 != 0, "PORTOK": m&2 != 0, "IPOK": m&4 != 0}
			ret, sel, why := atomWalk(top, classify, asg)
			if ret == nil {
				undec = why
				break
			}
			v := ret.Results[0]
			if phi, ok := v.(*ssa.Phi); ok {
				v = sel[phi]
			}
			got, isK := core.ConstBool(v)
			if !isK {
				name, ok := classify(v)
				if !ok {
					undec = "the result is neither a constant nor one of the three tests: " + core.Describe(v)
					break
				}
				got = asg[name]
			}
			if got != (asg["SPLITOK"] && asg["PORTOK"] && asg["IPOK"]) && bad == "" {
				bad = sprintf("result %v for %v", got, asg)
			}
		}
		if undec != "" {
			c.undecided("C02.port.split", top, "IsValidIPPortString == split ok && isUint16(port) && IsValidIPString(host)", nil, undec)
		} else {
			c.check(bad == "", "C02.port.split", top, "IsValidIPPortString == split ok && isUint16(port) && IsValidIPString(host)", nil, "evaluated for all 8 outcomes of the three tests. "+bad)
		}
	}
	if f := c.fn("netutil", "isUint16"); f != nil {
		c02PortNumberExact(c)
		c02Uint16(c, f)
	}
}

// c02Uint16: one iteration of the digit loop, evaluated exactly at the
// thresholds of its comparisons: a non-digit rejects; otherwise the running
// value becomes n*10+digit and anything above 65535 rejects at once (so the
// accumulator cannot overflow, however long the text is).
func c02Uint16(c *Ctx, f *ssa.Function) {
	c02DigitLoop(c, f, "C02.port.number", "digit loop: reject non-digits, n' = 10n + d, reject as soon as n' > 65535 (strconv.ParseUint(s, 10, 16))", 65535, true,
		[]int64{0, 1, 9, 10, 99, 655, 6552, 6553, 6554, 6555, 9999, 65535})
}

// c02DigitLoop evaluates one iteration of a `for _, r := range <param>` digit
// accumulation at threshold values.  inLoop: the bound is enforced inside the
// loop (reject as soon as n' > bound) and the exhausted-text exit accepts;
// otherwise the loop only accumulates and the exit returns n <= bound.
func c02DigitLoop(c *Ctx, f *ssa.Function, rule, what string, bound int64, inLoop bool, ns []int64) {
	var head *ssa.BasicBlock
	for h := range core.LoopHeads(f) {
		if head != nil {
			c.undecided(rule, f, what, nil, "more than one loop")
			return
		}
		head = h
	}
	if head == nil {
		c.undecided(rule, f, what, nil, "no loop")
		return
	}
	var acc *ssa.Phi
	var next *ssa.Next
	var phis []*ssa.Phi
	for _, in := range head.Instrs {
		switch x := in.(type) {
		case *ssa.Phi:
			phis = append(phis, x)
		case *ssa.Next:
			next = x
		}
	}
	hif, _ := head.Instrs[len(head.Instrs)-1].(*ssa.If)
	var rn ssa.Value
	byteLoop := false
	if next == nil && len(phis) == 2 && hif != nil {
		// the index form: for i := 0; i < len(s); i++ { c := s[i] ... } — a
		// counter from 0 in steps of 1, compared with len of the parameter, used
		// for nothing but s[i]
		for k, ph := range phis {
			start, step := int64(-1), int64(0)
			for i, e := range ph.Edges {
				if !head.Dominates(head.Preds[i]) {
					start, _ = core.ConstInt(e)
				} else if bo, ok := e.(*ssa.BinOp); ok && bo.Op == token.ADD && bo.X == ssa.Value(ph) {
					step, _ = core.ConstInt(bo.Y)
				}
			}
			cmp, isCmp := hif.Cond.(*ssa.BinOp)
			if start != 0 || step != 1 || !isCmp || cmp.Op != token.LSS || cmp.X != ssa.Value(ph) {
				continue
			}
			ln, isLen := cmp.Y.(*ssa.Call)
			if !isLen || core.CalleeName(&ln.Call) != "builtin.len" || ln.Call.Args[0] != ssa.Value(f.Params[0]) {
				continue
			}
			okUses := true
			for _, r := range core.Refs(ph) {
				switch x := r.(type) {
				case *ssa.Lookup:
					if x.X == ssa.Value(f.Params[0]) && x.Index == ssa.Value(ph) {
						rn = x
						continue
					}
					okUses = false
				case *ssa.Index:
					if x.X == ssa.Value(f.Params[0]) && x.Index == ssa.Value(ph) {
						rn = x
						continue
					}
					okUses = false
				case *ssa.BinOp:
					if x != cmp && !(x.Op == token.ADD && x.X == ssa.Value(ph)) {
						okUses = false
					}
				case *ssa.DebugRef:
				default:
					okUses = false
				}
			}
			if okUses && rn != nil {
				acc, byteLoop = phis[1-k], true
			}
		}
	} else if len(phis) == 1 {
		acc = phis[0]
	}
	if len(phis) > 1 && !byteLoop {
		c.undecided(rule, f, what, nil, "more than one loop-carried value")
		return
	}
	if !byteLoop {
		if acc == nil || next == nil || !next.IsString || hif == nil {
			c.undecided(rule, f, what, nil, "not a `for _, r := range s` loop with one accumulator")
			return
		}
		if rg, ok := next.Iter.(*ssa.Range); !ok || rg.X != ssa.Value(f.Params[0]) {
			c.check(false, rule, f, what, next, "the loop does not range over the whole parameter: the bytes outside the ranged window are not checked to be digits")
			return
		}
		for _, r := range core.Refs(next) {
			if ex, ok := r.(*ssa.Extract); ok && ex.Index == 2 {
				rn = ex
			}
		}
	}
	start := int64(-1)
	for i, e := range acc.Edges {
		if !head.Dominates(head.Preds[i]) {
			start, _ = core.ConstInt(e)
		}
	}
	// the exit taken when the text is exhausted
	done := head.Succs[1]
	okDone := false
	exitWhy := ""
	if ret, ok := done.Instrs[len(done.Instrs)-1].(*ssa.Return); ok {
		if inLoop {
			b, isK := core.ConstBool(ret.Results[0])
			okDone = isK && b && len(done.Instrs) == 1
			exitWhy = "the exhausted-text exit must be a plain `return true`"
		} else {
			okDone = true
			for _, v := range []int64{0, 1, bound - 1, bound, bound + 1, bound + 2, 999} {
				got, ok := evalSmall(ret.Results[0], map[ssa.Value]int64{acc: v}, 0)
				want := int64(0)
				if v <= bound {
					want = 1
				}
				if !ok || got != want {
					okDone = false
					exitWhy = sprintf("the exhausted-text exit must return n <= %d; for n = %d it returns %d", bound, v, got)
				}
			}
		}
	}
	if rn == nil || start != 0 || !okDone {
		c.check(false, rule, f, what, nil, sprintf("accumulator starts at %d (want 0); %s", start, exitWhy))
		return
	}
	rs := []int64{0, 47, 48, 49, 52, 53, 54, 55, 56, 57, 58, 65, 0x660, 0xFFFD, 0x10FFFF}
	if byteLoop {
		rs = []int64{0, 47, 48, 49, 52, 53, 54, 55, 56, 57, 58, 65, 0x80, 0xB0, 0xFF}
	}
	bad, undec := "", ""
	cases := 0
	for _, n0 := range ns {
		for _, r := range rs {
			env := map[ssa.Value]int64{acc: n0, rn: r}
			b, prev := head.Succs[0], head
			outcome := "" // "reject", "accept", "continue"
			var nextN int64
			for steps := 0; steps < 32 && outcome == "" && undec == ""; steps++ {
				if b == head {
					outcome = "continue"
					for i, p := range head.Preds {
						if p == prev {
							v, ok := evalSmall(acc.Edges[i], env, 0)
							if !ok {
								undec = "the new accumulator value is not arithmetic over (n, r)"
							}
							nextN = v
						}
					}
					break
				}
				switch t := b.Instrs[len(b.Instrs)-1].(type) {
				case *ssa.Return:
					k, isK := core.ConstBool(t.Results[0])
					if !isK {
						undec = "a non-constant result inside the loop"
					} else if k {
						outcome = "accept"
					} else {
						outcome = "reject"
					}
				case *ssa.Jump:
					prev, b = b, b.Succs[0]
				case *ssa.If:
					v, ok := evalSmall(t.Cond, env, 0)
					if !ok {
						undec = "a loop condition is not arithmetic over (n, r): " + core.Describe(t.Cond)
					} else if v != 0 {
						prev, b = b, b.Succs[0]
					} else {
						prev, b = b, b.Succs[1]
					}
				default:
					undec = "unexpected block end"
				}
			}
			if undec != "" {
				break
			}
			cases++
			want, wantN := "reject", int64(0)
			if r >= '0' && r <= '9' {
				if v := n0*10 + (r - '0'); v <= bound || !inLoop {
					want, wantN = "continue", v
				}
			}
			if (outcome != want || (want == "continue" && nextN != wantN)) && bad == "" {
				bad = sprintf("with n=%d and rune %d the iteration does %q (n'=%d), the reference does %q (n'=%d)", n0, r, outcome, nextN, want, wantN)
			}
		}
	}
	if undec != "" {
		c.undecided(rule, f, what, nil, undec)
		return
	}
	c.check(bad == "", rule, f, what, nil, sprintf("%d (n, rune) threshold cases evaluated exactly. %s", cases, bad))
}

// c02V4Label: isIPv4Label accepts exactly the decimal numbers 0..255 without
// leading zeros.  The dispatch in front of the digit loop is evaluated for
// every (length class, first byte class); the loop itself by c02DigitLoop.
func c02V4Label(c *Ctx) {
	c.L.Floor("C02.v4.label", 2)
	f := c.fn("netutil", "isIPv4Label")
	if f == nil {
		return
	}
	what := "dispatch: length 1..3, a single byte must be a digit, no leading zero, otherwise every byte goes through the digit loop"
	p := ssa.Value(f.Params[0])
	var lens, firsts []ssa.Value
	core.EachInstr(f, func(in ssa.Instruction) {
		if call, ok := in.(*ssa.Call); ok && core.CalleeName(&call.Call) == "builtin.len" && call.Call.Args[0] == p {
			lens = append(lens, call)
		}
		if v, x, i, ok := strIndex(in); ok && x == p {
			if k, isK := core.ConstInt(i); isK && k == 0 {
				firsts = append(firsts, v)
			}
		}
	})
	var head *ssa.BasicBlock
	for h := range core.LoopHeads(f) {
		head = h
	}
	bad, undec := "", ""
	n := 0
	for _, l := range []int64{0, 1, 2, 3, 4, 5} {
		for _, b0 := range []int64{0, '/', '0', '1', '5', '9', ':', 'A', 'a', 0x80, 0xff} {
			env := map[ssa.Value]int64{}
			for _, v := range lens {
				env[v] = l
			}
			for _, v := range firsts {
				env[v] = b0
			}
			b := f.Blocks[0]
			var prev *ssa.BasicBlock
			outcome := ""
			for steps := 0; steps < 32 && outcome == "" && undec == ""; steps++ {
				if b == head || (head != nil && head.Dominates(b) && b != f.Blocks[0]) {
					outcome = "loop"
					break
				}
				switch t := b.Instrs[len(b.Instrs)-1].(type) {
				case *ssa.Return:
					res := t.Results[0]
					if phi, isPhi := res.(*ssa.Phi); isPhi && phi.Block() == b {
						for i, pr := range b.Preds {
							if pr == prev {
								res = phi.Edges[i]
							}
						}
					}
					v, ok := evalSmall(res, env, 0)
					if !ok {
						undec = "a result outside (len(label), label[0]) arithmetic: " + core.Describe(t.Results[0])
					} else if v != 0 {
						outcome = "accept"
					} else {
						outcome = "reject"
					}
				case *ssa.Jump:
					prev, b = b, b.Succs[0]
				case *ssa.If:
					if l == 0 && refsAny(t.Cond, firsts) {
						// label[0] of an empty label: must not be evaluated (C01)
						outcome = "reads label[0] of an empty label"
						break
					}
					v, ok := evalSmall(t.Cond, env, 0)
					if !ok {
						undec = "a branch outside (len(label), label[0]) arithmetic: " + core.Describe(t.Cond)
					} else if v != 0 {
						prev, b = b, b.Succs[0]
					} else {
						prev, b = b, b.Succs[1]
					}
				default:
					undec = "unexpected block end"
				}
			}
			if undec != "" {
				break
			}
			n++
			digit := b0 >= '0' && b0 <= '9'
			want := "reject"
			switch {
			case l < 1 || l > 3:
			case l == 1:
				if digit {
					want = "accept"
				}
			case b0 == '0':
			default:
				want = "loop"
			}
			// a non-digit first byte of a 2..3 byte label may be rejected early or by the loop
			if outcome != want && !(want == "loop" && outcome == "reject" && !digit) && bad == "" {
				bad = sprintf("for len %d and first byte %d the dispatch does %q, the reference %q", l, b0, outcome, want)
			}
		}
	}
	if undec != "" {
		c.undecided("C02.v4.label", f, what, nil, undec)
	} else {
		c.check(bad == "", "C02.v4.label", f, what, nil, sprintf("%d (length, first byte) classes evaluated. %s", n, bad))
	}
	c02DigitLoop(c, f, "C02.v4.label", "digit loop over the whole label: reject non-digits, n' = 10n + d; accept iff n <= 255", 255, false, []int64{0, 1, 2, 9, 10, 25, 26, 99})
}

// refsAny: v is, or is computed from, one of vs (through unary/binary operators).
func refsAny(v ssa.Value, vs []ssa.Value) bool {
	if isOneOf(v, vs) {
		return true
	}
	switch x := v.(type) {
	case *ssa.BinOp:
		return refsAny(x.X, vs) || refsAny(x.Y, vs)
	case *ssa.UnOp:
		return refsAny(x.X, vs)
	case *ssa.Convert:
		return refsAny(x.X, vs)
	}
	return false
}

// c02IPDispatch mirrors netip.ParseAddr's dispatcher: the first '.' or ':'
// decides the family; the IPv4 scanner gets the whole text (a zone after an
// IPv4 address is an error), the IPv6 scanner gets the text in front of '%'
// and an empty zone is rejected.
func c02IPDispatch(c *Ctx) {
	c.L.Floor("C02.ip.dispatch", 2)
	f := c.fn("netutil", "IsValidIPString")
	if f == nil {
		return
	}
	p0 := ssa.Value(f.Params[0])
	n4, n6 := 0, 0
	for _, ci := range core.AllCalls(f) {
		cal := ci.Common().StaticCallee()
		if cal == nil {
			continue
		}
		switch cal.Name() {
		case "isValidIPv4String":
			n4++
			c.check(ci.Common().Args[0] == p0, "C02.ip.dispatch", f, "the IPv4 scanner is given the whole input", ci,
				"netip.ParseAddr hands the complete text to parseIPv4, so \"1.2.3.4%eth0\" is rejected; anything cut off before the call is accepted silently")
		case "isValidIPv6String":
			n6++
			ok := false
			var cut *ssa.Call
			if ex, isEx := ci.Common().Args[0].(*ssa.Extract); isEx && ex.Index == 0 {
				if call, isC := ex.Tuple.(*ssa.Call); isC && core.CalleeName(&call.Call) == "strings.Cut" && call.Call.Args[0] == p0 {
					if sep, isK := core.ConstString(call.Call.Args[1]); isK && sep == "%" {
						ok, cut = true, call
					}
				}
			}
			c.check(ok, "C02.ip.dispatch", f, "the IPv6 scanner is given the input up to the first '%'", ci, "netip.ParseAddr splits the zone off at the first '%'")
			if cut != nil {
				// an empty zone is rejected: the call is not reachable when hasZone && zone == ""
				zone, has := extractOf(cut, 1), extractOf(cut, 2)
				okZone := false
				for _, ret := range core.Returns(f) {
					if b, isK := core.ConstBool(ret.Results[0]); !isK || b {
						continue
					}
					gotHas, gotEmpty := false, false
					for _, g := range core.GuardsOf(ret) {
						cond, truth := core.StripNot(g.Cond, g.Truth)
						if has != nil && cond == has && truth {
							gotHas = true
						}
						if b, isB := cond.(*ssa.BinOp); isB && zone != nil && b.X == zone {
							if str, isK := core.ConstString(b.Y); isK && str == "" && ((b.Op == token.EQL && truth) || (b.Op == token.NEQ && !truth)) {
								gotEmpty = true
							}
						}
						// the same test on the length: len(zone) == 0, len(zone) < 1, ...
						if v, isZero, okZ := core.ZeroTest(g.Cond, g.Truth); okZ && isZero && zone != nil {
							if lc, isC := v.(*ssa.Call); isC && core.CalleeName(&lc.Call) == "builtin.len" && lc.Call.Args[0] == ssa.Value(zone) {
								gotEmpty = true
							}
						}
					}
					if gotHas && gotEmpty && core.MayFollow(ret.Block().Instrs[0], ci) == false && core.Reaches(cut.Block(), ret.Block()) || (gotHas && gotEmpty && cut.Block() == ret.Block()) {
						okZone = true
					}
				}
				c.check(okZone, "C02.ip.dispatch", f, "an empty zone (\"fe80::1%\") is rejected before the IPv6 scanner runs", ci, "netip: \"zone must be a non-empty string\"")
			}
		}
	}
	if n4 == 0 || n6 == 0 {
		c.undecided("C02.ip.dispatch", f, "calls of the two family scanners", nil, sprintf("found %d IPv4 and %d IPv6 scanner calls", n4, n6))
	}
}

// c02V4Scanner: isValidIPv4String touches its input only through
// strings.Cut(_, ".") and isIPv4Label (checked), so its result is a function
// of the number of '.'-separated fields and of which fields are valid labels.
// The SSA is evaluated over that abstraction — every field count 1..7 and
// every validity vector — and must accept exactly "four fields, all valid".
// (Loops are bounded by the field count: each iteration consumes one Cut.)
func c02V4Scanner(c *Ctx) {
	c.L.Floor("C02.v4.scanner", 1)
	f := c.fn("netutil", "isValidIPv4String")
	if f == nil {
		return
	}
	what := "accepts exactly the texts with four '.'-separated fields that are all isIPv4Label"
	// abstract values
	type av struct {
		kind string // "rest", "label", "int", "bool", "tuple"
		k    int    // rest: first remaining field; label: field index (-1: empty text)
		i    int64
		tup  []av
	}
	// structural precondition: strings are used only by Cut / isIPv4Label / phi / extract
	okUse := true
	core.EachInstr(f, func(in ssa.Instruction) {
		call, ok := in.(*ssa.Call)
		if !ok {
			return
		}
		switch n := core.CalleeName(&call.Call); {
		case n == "strings.Cut":
			if sep, isK := core.ConstString(call.Call.Args[1]); !isK || sep != "." {
				okUse = false
			}
		case call.Call.StaticCallee() != nil && call.Call.StaticCallee().Name() == "isIPv4Label":
		default:
			okUse = false
		}
	})
	if !okUse {
		c.undecided("C02.v4.scanner", f, what, nil, "the scanner uses its input through something other than strings.Cut(_, \".\") and isIPv4Label")
		return
	}
	run := func(n int, valid []bool) (bool, string) {
		env := map[ssa.Value]av{f.Params[0]: {kind: "rest", k: 0}}
		var get func(v ssa.Value) (av, bool)
		get = func(v ssa.Value) (av, bool) {
			if x, ok := env[v]; ok {
				return x, true
			}
			if k, ok := core.ConstInt(v); ok {
				return av{kind: "int", i: k}, true
			}
			if b, ok := core.ConstBool(v); ok {
				if b {
					return av{kind: "bool", i: 1}, true
				}
				return av{kind: "bool", i: 0}, true
			}
			return av{}, false
		}
		b := f.Blocks[0]
		var prev *ssa.BasicBlock
		for steps := 0; steps < 400; steps++ {
			// phis first, simultaneously
			upd := map[ssa.Value]av{}
			for _, in := range b.Instrs {
				phi, ok := in.(*ssa.Phi)
				if !ok {
					break
				}
				for i, p := range b.Preds {
					if p == prev {
						x, ok := get(phi.Edges[i])
						if !ok {
							return false, "phi of an unsupported value"
						}
						upd[phi] = x
					}
				}
			}
			for k, v := range upd {
				env[k] = v
			}
			for _, in := range b.Instrs {
				switch x := in.(type) {
				case *ssa.Phi, *ssa.DebugRef:
				case *ssa.Call:
					if core.CalleeName(&x.Call) == "strings.Cut" {
						s, ok := get(x.Call.Args[0])
						if !ok || s.kind != "rest" {
							return false, "Cut of something that is not the input or a rest"
						}
						switch {
						case s.k >= n: // nothing left: Cut("") = ("", "", false)
							env[x] = av{kind: "tuple", tup: []av{{kind: "label", k: -1}, {kind: "rest", k: n}, {kind: "bool", i: 0}}}
						case s.k == n-1: // last field: no dot found
							env[x] = av{kind: "tuple", tup: []av{{kind: "label", k: s.k}, {kind: "rest", k: n}, {kind: "bool", i: 0}}}
						default:
							env[x] = av{kind: "tuple", tup: []av{{kind: "label", k: s.k}, {kind: "rest", k: s.k + 1}, {kind: "bool", i: 1}}}
						}
					} else {
						l, ok := get(x.Call.Args[0])
						if !ok || l.kind != "label" {
							return false, "isIPv4Label of something that is not a field"
						}
						r := int64(0)
						if l.k >= 0 && valid[l.k] {
							r = 1
						}
						env[x] = av{kind: "bool", i: r}
					}
				case *ssa.Extract:
					t, ok := get(x.Tuple)
					if !ok || t.kind != "tuple" {
						return false, "extract of an unsupported value"
					}
					env[x] = t.tup[x.Index]
				case *ssa.BinOp:
					a, ok1 := get(x.X)
					bb, ok2 := get(x.Y)
					if !ok1 || !ok2 || (a.kind != "int" && a.kind != "bool") || (bb.kind != "int" && bb.kind != "bool") {
						return false, "arithmetic on an unsupported value: " + core.Describe(x)
					}
					r, ok := evalSmall(x, map[ssa.Value]int64{x.X: a.i, x.Y: bb.i}, 0)
					if !ok {
						return false, "unsupported operator in " + core.Describe(x)
					}
					kind := "int"
					if _, isB := x.Type().Underlying().(*types.Basic); isB && x.Type().Underlying().(*types.Basic).Kind() == types.Bool {
						kind = "bool"
					}
					env[x] = av{kind: kind, i: r}
				case *ssa.UnOp:
					a, ok := get(x.X)
					if !ok || x.Op != token.NOT {
						return false, "unsupported " + core.Describe(x)
					}
					env[x] = av{kind: "bool", i: 1 - a.i}
				case *ssa.If:
					cnd, ok := get(x.Cond)
					if !ok {
						return false, "branch on an unsupported value"
					}
					if cnd.i != 0 {
						prev, b = b, b.Succs[0]
					} else {
						prev, b = b, b.Succs[1]
					}
				case *ssa.Jump:
					prev, b = b, b.Succs[0]
				case *ssa.Return:
					r, ok := get(x.Results[0])
					if !ok {
						return false, "unsupported result"
					}
					return r.i != 0, ""
				default:
					return false, "unsupported instruction " + in.String()
				}
			}
		}
		return false, "the evaluation did not terminate within 400 blocks (fields " + sprintf("%d", n) + ")"
	}
	bad, undec := "", ""
	cases := 0
	for n := 1; n <= 7 && undec == ""; n++ {
		for m := 0; m < 1<<uint(n); m++ {
			valid := make([]bool, n)
			all := true
			for i := range valid {
				valid[i] = m&(1<<uint(i)) != 0
				all = all && valid[i]
			}
			got, why := run(n, valid)
			if why != "" {
				undec = why
				break
			}
			cases++
			if want := n == 4 && all; got != want && bad == "" {
				bad = sprintf("with %d fields, validity %v: result %v, netip.ParseAddr's IPv4 parser gives %v", n, valid, got, want)
			}
		}
	}
	if undec != "" {
		c.undecided("C02.v4.scanner", f, what, nil, undec)
		return
	}
	c.check(bad == "", "C02.v4.scanner", f, what, nil, sprintf("%d (field count, validity vector) classes evaluated. %s", cases, bad))
}

// c02LengthTests: a test of the length of the whole input that leads straight
// to the rejecting exit may only turn away lengths that no valid text has.
// The reference parsers accept: IPv6 without zone 2..45 bytes ("::" ..
// "0000:0000:0000:0000:0000:ffff:255.255.255.255"), dotted quads 7..15, and
// with a zone or a port no upper bound at all.  (A length cap added "to skip
// hopeless inputs" is the typical change here; the cap of the pure-hex form,
// 39, forgets the embedded IPv4 form.)
func c02LengthTests(c *Ctx) {
	const rule = "C02.length-tests"
	c.L.Floor(rule, 4)
	specs := []struct {
		name   string
		lo, hi int64 // hi < 0: unbounded
		what   string
	}{
		{"isValidIPv6String", 2, 45, "an IPv6 literal without zone has 2..45 bytes"},
		{"isValidIPv4String", 7, 15, "a dotted quad has 7..15 bytes"},
		{"IsValidIPString", 2, -1, "an address with a zone has no maximal length"},
		{"IsValidIPPortString", 6, -1, "an address with zone and port has no maximal length"},
	}
	for _, sp := range specs {
		f := c.fn("netutil", sp.name)
		if f == nil || len(f.Params) == 0 {
			continue
		}
		rejects := func(b *ssa.BasicBlock) bool {
			for hops := 0; hops < 4; hops++ {
				if len(b.Instrs) == 0 {
					return false
				}
				switch t := b.Instrs[len(b.Instrs)-1].(type) {
				case *ssa.Return:
					if len(b.Instrs) != 1 || len(t.Results) == 0 {
						return false
					}
					k, ok := core.ConstBool(t.Results[0])
					return ok && !k
				case *ssa.Jump:
					if len(b.Instrs) != 1 {
						return false
					}
					b = b.Succs[0]
				default:
					return false
				}
			}
			return false
		}
		n := 0
		ok, why := true, ""
		var at ssa.Instruction
		core.EachInstr(f, func(in ssa.Instruction) {
			iff, isIf := in.(*ssa.If)
			if !isIf {
				return
			}
			cond, truth := core.StripNot(iff.Cond, true)
			bo, isB := cond.(*ssa.BinOp)
			if !isB {
				return
			}
			op := bo.Op
			var k int64
			isLen := func(v ssa.Value) bool {
				lc, ok := v.(*ssa.Call)
				return ok && core.CalleeName(&lc.Call) == "builtin.len" && lc.Call.Args[0] == ssa.Value(f.Params[0])
			}
			if kk, isK := core.ConstInt(bo.Y); isK && isLen(bo.X) {
				k = kk
			} else if kk, isK := core.ConstInt(bo.X); isK && isLen(bo.Y) {
				k, op = kk, flipOp(op)
			} else {
				return
			}
			n++
			hi := sp.hi
			if hi < 0 {
				hi = 1 << 20
			}
			test := func(l int64) {
				t := cmpInt(op, l, k) == truth
				succ := iff.Block().Succs[1]
				if t {
					succ = iff.Block().Succs[0]
				}
				if rejects(succ) && ok {
					ok, at = false, iff
					why = sprintf("%s: the test %s sends length %d straight to the rejecting exit", sp.what, core.Describe(cond), l)
				}
			}
			for l := sp.lo; l <= hi && l <= sp.lo+4096; l++ {
				test(l)
			}
			test(hi)
		})
		if ok {
			why = sprintf("%s; %d test(s) of len(%s) against a constant examined", sp.what, n, f.Params[0].Name())
		}
		c.check(ok, rule, f, "no length test of the whole input turns a valid length away", at, why)
	}
}
