package rules

import (
	"bufio"
	"encoding/json"
	"fmt"
	"os"
	"os/exec"
	"runtime"
	"sort"
	"strings"
	"sync"

	"golang.org/x/tools/go/ssa"

	"verif/sa/core"
	"verif/sa/lincon"
)

// LinOb is an obligation reported by a worker, already in ledger form.
type LinOb struct {
	Rule, Func, Construct, Pos, Status, Reason, Kind string
}

type linMsg struct {
	Ob      *LinOb   `json:"ob,omitempty"`
	Reached []string `json:"reached,omitempty"`
	Done    bool     `json:"done,omitempty"`
}

// linEntries maps a property to its entry points and optional setup.
var linEntries = map[string]func(c *Ctx) []*ssa.Function{
	"C01": c01Entries,
}

// runLinWorkers runs the E1 analysis of the property's entries in parallel
// worker processes and merges their obligations.
func runLinWorkers(c *Ctx, prop string, nEntries int) ([]LinOb, []string, error) {
	n := runtime.NumCPU() / 2
	if n > 8 {
		n = 8
	}
	if n > nEntries {
		n = nEntries
	}
	if n < 1 {
		n = 1
	}
	exe, err := os.Executable()
	if err != nil {
		return nil, nil, err
	}
	var mu sync.Mutex
	var obs []LinOb
	reached := map[string]bool{}
	var firstErr error
	var wg sync.WaitGroup
	for i := 0; i < n; i++ {
		wg.Add(1)
		go func(i int) {
			defer wg.Done()
			cmd := exec.Command(exe, "linworker", prop, fmt.Sprint(i), fmt.Sprint(n))
			cmd.Env = append(os.Environ(), "GSA_REPO="+c.P.Root, "GSA_W_GOOS="+c.P.GOOS, "GSA_W_GOARCH="+c.P.GOARCH, fmt.Sprintf("GSA_W_TESTS=%v", c.P.Tests))
			cmd.Stderr = os.Stderr
			out, err := cmd.StdoutPipe()
			if err == nil {
				err = cmd.Start()
			}
			if err != nil {
				mu.Lock()
				firstErr = err
				mu.Unlock()
				return
			}
			sc := bufio.NewScanner(out)
			sc.Buffer(make([]byte, 1<<20), 64<<20)
			done := false
			for sc.Scan() {
				var m linMsg
				if json.Unmarshal(sc.Bytes(), &m) != nil {
					continue
				}
				mu.Lock()
				if m.Ob != nil {
					obs = append(obs, *m.Ob)
				}
				for _, r := range m.Reached {
					reached[r] = true
				}
				if m.Done {
					done = true
				}
				mu.Unlock()
			}
			if err := cmd.Wait(); err != nil || !done {
				mu.Lock()
				if firstErr == nil {
					firstErr = fmt.Errorf("worker %d of %d failed: %v (completed=%v)", i, n, err, done)
				}
				mu.Unlock()
			}
		}(i)
	}
	wg.Wait()
	if firstErr != nil {
		return nil, nil, firstErr
	}
	sort.Slice(obs, func(i, j int) bool {
		a, b := obs[i], obs[j]
		if a.Func != b.Func {
			return a.Func < b.Func
		}
		if a.Pos != b.Pos {
			return a.Pos < b.Pos
		}
		return a.Construct < b.Construct
	})
	var rs []string
	for r := range reached {
		rs = append(rs, r)
	}
	sort.Strings(rs)
	return obs, rs, nil
}

// LinWorker is the body of `gsa linworker <prop> <i> <n>`.
func LinWorker(prop string, i, n int) int {
	p, err := core.Load(core.LoadOpts{GOOS: os.Getenv("GSA_W_GOOS"), GOARCH: os.Getenv("GSA_W_GOARCH"), Tests: os.Getenv("GSA_W_TESTS") == "true"})
	if err != nil {
		fmt.Fprintln(os.Stderr, "linworker:", err)
		return 3
	}
	c := &Ctx{P: p, L: core.NewLedger(prop)}
	ef := linEntries[prop]
	if ef == nil {
		return 3
	}
	entries := ef(c)
	// heavy entries first within a share: order by name is fine, shares are interleaved
	lincon.Reset()
	a := lincon.New(p.SSA, core.InModule)
	for k, f := range entries {
		if k%n != i {
			continue
		}
		a.Entry(f, nil)
	}
	w := bufio.NewWriter(os.Stdout)
	enc := json.NewEncoder(w)
	for _, o := range a.Obligations() {
		ob := obligationToLin(c, prop, o)
		_ = enc.Encode(linMsg{Ob: &ob})
	}
	var rs []string
	for f := range a.Reached {
		rs = append(rs, core.FuncName(f))
	}
	_ = enc.Encode(linMsg{Reached: rs})
	_ = enc.Encode(linMsg{Done: true})
	w.Flush()
	return 0
}

func obligationToLin(c *Ctx, prop string, o *lincon.Oblig) LinOb {
	rule := prop + ".bounds"
	switch {
	case o.Kind == "panic":
		rule = prop + ".panic"
	case o.Kind == "fixpoint":
		rule = prop + ".fixpoint"
	case strings.HasPrefix(o.Kind, "assert:"):
		rule = prop + "." + strings.TrimPrefix(o.Kind, "assert:")
	}
	var ents []string
	for e := range o.Entries {
		ents = append(ents, strings.ReplaceAll(e, core.ModPath+"/", ""))
	}
	sort.Strings(ents)
	if len(ents) > 3 {
		ents = append(ents[:3], "...")
	}
	ob := LinOb{Rule: rule, Func: core.FuncName(o.Fn), Construct: siteText(c, o), Pos: c.ipos(o.Instr), Kind: o.Kind}
	if o.Failed == 0 {
		ob.Status = string(core.Discharged)
		ob.Reason = fmt.Sprintf("discharged in %d abstract state(s); entries: %s", o.Checked, strings.Join(ents, ", "))
	} else {
		ob.Status = string(core.Undecided)
		ob.Reason = fmt.Sprintf("not discharged in %d of %d abstract states (a counter-state exists in the abstract domain); %s", o.Failed, o.Checked, o.Example)
	}
	return ob
}
