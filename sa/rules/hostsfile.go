package rules

import (
	"go/constant"
	"go/token"
	"go/types"
	"sort"
	"strings"

	"golang.org/x/tools/go/ssa"

	"verif/sa/core"
)

func init() {
	register(&Property{
		ID:    "C07",
		Level: "other",
		Explanation: "Decided exactly by abstract evaluation into BDDs (no execution): the lines Record.UnmarshalText accepts are those of the record grammar (comment cut, space/tab separated fields, an address then names), for every line of up to 9 arbitrary bytes, with the two delegate parsers as uninterpreted predicates. Structural necessary conditions for the classification of rejected lines, the stored names and MarshalText (SSA + dominance; also the fall-back of the above): (R1) classification order: '#' cut, Trim(spaces), first field; " +
			"ErrEmptyLine under len(field)==0, ErrNoHosts under len(tail)==0, both dominating the address parse whose error is returned as is; the name error wraps the validator's error; " +
			"len(rec.Names) is the number of successful validations; (R2) the validating pass and the storing pass cut the same initial string with the same cutter, and that string is a " +
			"copying conversion of the line tail; (R3) separator tables agree: every cutset is the constant `spaces`, only the recognised trimming/cutting calls occur, MarshalText's separator " +
			"byte is in `spaces`; (R4) callee identity: names by netutil.ValidateDomainName, address by netip.Addr.UnmarshalText, MarshalText writes Addr.MarshalText then sep+name in slice order. " +
			"ValidateDomainName, uninterpreted above, measures and cuts only the Punycode form of its argument (validator-discipline). Not decided: conformance for all byte lines, which needs the string semantics of netip.ParseAddr and ValidateDomainName.",
		Technique: "exact abstract evaluation of Record.UnmarshalText into ROBDDs with the delegate parsers as uninterpreted predicates per window (accepted lines == the record grammar for every line of bounded length) + SSA dominance / callee-identity / path-counting rules for the classification of rejected lines, the stored names and MarshalText",
		Note:      "Trusted: go/ssa; bytes/strings Trim, TrimLeft, IndexAny, IndexByte; netip.Addr text codec.",
		DesignRef: "DESIGN.md section 4, C07",
		Run:       runC07,
	})
	register(&Property{
		ID:    "C08",
		Level: "other",
		Explanation: "Structural necessary conditions on hostsfile.Parse and DefaultStorage: (R1) in the Scan loop every iteration dispatches exactly once to dst.Add (no error) or the invalid-line handler " +
			"(error), the reported line number is the loop counter that starts at 1 and is incremented once per iteration, records and reports carry the reader's name, the default handler appends in " +
			"call order and the result is errors.Join of them, Scanner.Err is checked; (R2) the source is read only by one bufio.Scanner with the default split function, so fragmentation " +
			"independence is delegated to bufio; names kept in records are copies of the scanner buffer; (R3) DefaultStorage.Add writes nothing for a record without names; (R4) per name exactly one " +
			"insertion into each index, keyed by the same normaliser that ByName applies; (R5) orderedSet.add tests, inserts and appends consistently (key tested = key added, value appended) only " +
			"when the key is new. Not decided: relations over whole input histories beyond these per-step invariants.",
		Technique: "CFG path event counting (exactly-one dispatch), SSA provenance and callee-identity rules, guard dominance",
		Note:      "Trusted: go/ssa, bufio.Scanner's line splitting and its independence from read fragmentation, container.MapSet (property C11).",
		DesignRef: "DESIGN.md section 4, C08",
		Run:       runC08,
	})
}

// pkgConst returns the string value of a package-level constant.
func pkgConst(c *Ctx, pkg, name string) (string, bool) {
	tp := c.P.TPkg(pkg)
	if tp == nil {
		return "", false
	}
	k, ok := tp.Types.Scope().Lookup(name).(*types.Const)
	if !ok || k.Val().Kind() != constant.String {
		return "", false
	}
	return constant.StringVal(k.Val()), true
}

// cutting / trimming functions of strings and bytes: name -> index of the cutset
// argument (-1: takes no cutset, i.e. its own notion of space).
var cutFuncs = map[string]int{
	"Trim": 1, "TrimLeft": 1, "TrimRight": 1, "IndexAny": 1, "LastIndexAny": 1, "ContainsAny": 1,
	"TrimSpace": -1, "Fields": -1, "FieldsFunc": -1, "Split": -1, "SplitN": -1, "SplitAfter": -1, "Cut": -1, "TrimFunc": -1,
	"TrimLeftFunc": -1, "TrimRightFunc": -1, "IndexFunc": -1, "FieldsSeq": -1, "SplitSeq": -1,
}

func runC07(c *Ctx) {
	// the accepted lines, decided exactly (c07exact.go); the rules about the
	// form of the cutters and about the separator tables of the parsing
	// functions are its fall-back (the classification of rejected lines, the
	// stored names, the delegates and MarshalText keep their own rules)
	recExact := c07RecordExact(c)
	validatorDiscipline(c, "C07")
	c.L.Trust("go/types + go/ssa", "bytes/strings: Trim, TrimLeft, IndexAny, IndexByte", "netip.Addr.UnmarshalText / MarshalText", "rule code /verif/sa/rules/hostsfile.go")
	c.L.Floor("C07.separators", 5)
	c.L.Floor("C07.classify", 4)
	c.L.Floor("C07.two-pass", 4)
	c.L.Floor("C07.callee", 2)
	c.L.Floor("C07.marshal", 3)

	spaces, okSp := pkgConst(c, "hostsfile", "spaces")
	if !okSp {
		c.L.Record(core.Undecided, "C07.separators", "hostsfile", "const spaces", "-", "the separator table constant is gone")
		return
	}
	// the two field cutters: field = data[:IndexAny(data, spaces)], tail =
	// TrimLeft(data[that index:], spaces) — the whole run of separators is
	// skipped, so fields may be separated by any number of spaces and tabs
	c.L.Floor("C07.cut-shape", 2)
	if recExact {
		c.L.Floor("C07.cut-shape", 0)
		c.L.Floor("C07.separators", 0)
	}
	for _, name := range []string{"cutField", "cutStringField"} {
		f := c.fn("hostsfile", name)
		if f == nil || recExact {
			continue
		}
		data := ssa.Value(f.Params[0])
		var idx ssa.Value
		for _, ci := range core.CallsTo(f, "strings.IndexAny", "bytes.IndexAny") {
			if ci.Common().Args[0] == data {
				idx = ci.Value()
			}
		}
		nret, okAll := 0, idx != nil
		why := ""
		for _, ret := range core.Returns(f) {
			if len(ret.Results) != 2 {
				okAll = false
				continue
			}
			if ret.Results[0] == data {
				// no separator: the whole input is the field, the tail is empty
				nz := false
				if sc, isK := core.ConstString(ret.Results[1]); isK && sc == "" {
					nz = true
				}
				if core.IsNilConst(ret.Results[1]) {
					nz = true
				}
				if !nz {
					okAll, why = false, "the no-separator exit returns a non-empty tail"
				}
				continue
			}
			nret++
			fs, isF := ret.Results[0].(*ssa.Slice)
			if !isF || fs.X != data || fs.Low != nil || fs.High != idx {
				okAll, why = false, "the field is not data[:index of the first separator]"
				continue
			}
			tl, isC := ret.Results[1].(*ssa.Call)
			okTail := false
			if isC && (core.CalleeName(&tl.Call) == "strings.TrimLeft" || core.CalleeName(&tl.Call) == "bytes.TrimLeft") {
				if ts, isS := tl.Call.Args[0].(*ssa.Slice); isS && ts.X == data && ts.High == nil && ts.Low != nil {
					// from the separator (or just after it) on
					if ts.Low == idx {
						okTail = true
					} else if b, isB := ts.Low.(*ssa.BinOp); isB && b.Op == token.ADD && b.X == idx {
						if k, isK := core.ConstInt(b.Y); isK && k == 1 {
							okTail = true
						}
					}
				}
				if cs, isK := core.ConstString(tl.Call.Args[1]); !isK || cs != spaces {
					okTail = false
				}
			}
			if !okTail {
				okAll, why = false, "the tail is not TrimLeft(data[index:], spaces): a run of several separators leaves a field that starts with a separator (the following names are dropped)"
			}
		}
		c.check(okAll && nret >= 1, "C07.cut-shape", f, "field = data[:i], tail = TrimLeft(data[i:], spaces) with i = IndexAny(data, spaces)", nil, why)
	}
	um := c.fn("hostsfile", "Record.UnmarshalText")
	mt := c.fn("hostsfile", "Record.MarshalText")
	cutF := c.P.Func("hostsfile", "cutField")
	cutS := c.P.Func("hostsfile", "cutStringField")

	// ---- R3 separator tables over the parsing functions ----
	var parseFns []*ssa.Function
	for _, f := range []*ssa.Function{um, cutF, cutS} {
		if f != nil {
			parseFns = append(parseFns, f)
			c.L.Saw(core.FuncName(f))
		}
	}
	for _, f := range parseFns {
		if recExact {
			break
		}
		for _, ci := range core.AllCalls(f) {
			n := core.CalleeName(ci.Common())
			var short string
			switch {
			case strings.HasPrefix(n, "strings."):
				short = strings.TrimPrefix(n, "strings.")
			case strings.HasPrefix(n, "bytes."):
				short = strings.TrimPrefix(n, "bytes.")
			default:
				continue
			}
			idx, isCut := cutFuncs[short]
			switch {
			case !isCut:
				if short == "IndexByte" {
					k, _ := core.ConstInt(ci.Common().Args[1])
					c.check(k == '#', "C07.separators", f, n+"(data, '#')", ci, "the only single-byte search is for the comment character")
				}
			case idx < 0:
				c.check(false, "C07.separators", f, "call of "+n, ci,
					"fields are separated by exactly the bytes of `spaces` ("+sprintf("%q", spaces)+"); "+short+" uses a different notion of separator (e.g. CR, VT, FF, NBSP), so trimming and field cutting would disagree")
			default:
				s, isK := core.ConstString(ci.Common().Args[idx])
				c.check(isK && s == spaces, "C07.separators", f, n+"(_, spaces)", ci, "every cutset must be the constant `spaces` = "+sprintf("%q", spaces))
			}
		}
	}

	// ---- R1 classification ----
	if um != nil {
		data := um.Params[1]
		// '#' cut feeds Trim which feeds cutField
		var trim, cf *ssa.Call
		for _, ci := range core.AllCalls(um) {
			call, ok := ci.(*ssa.Call)
			if !ok {
				continue
			}
			switch core.CalleeName(&call.Call) {
			case "bytes.Trim":
				trim = call
			case core.ModPath + "/hostsfile.cutField":
				cf = call
			}
		}
		okChain := trim != nil && cf != nil && cf.Call.Args[0] == ssa.Value(trim)
		if okChain {
			// Trim's argument is data or data[:IndexByte(data,'#')]
			for _, v := range flattenPhi(trim.Call.Args[0]) {
				switch x := v.(type) {
				case *ssa.Parameter:
					okChain = okChain && x == data
				case *ssa.Slice:
					idx, isCall := x.High.(*ssa.Call)
					okChain = okChain && x.X == data && x.Low == nil && isCall && core.CalleeName(&idx.Call) == "bytes.IndexByte" && idx.Call.Args[0] == data
				default:
					okChain = false
				}
			}
		}
		if !recExact {
			c.check(okChain, "C07.classify", um, "cutField(Trim(data up to '#', spaces))", nil, "comment removal, then trimming, then the first field")
		}
		// the comment is cut exactly when a '#' exists (index >= 0, also at column 0)
		if okChain && !recExact {
			okCut, why := false, "the text handed to Trim is never the part in front of '#'"
			if phi, isPhi := trim.Call.Args[0].(*ssa.Phi); isPhi {
				for i, e := range phi.Edges {
					sl, isSl := e.(*ssa.Slice)
					if !isSl {
						continue
					}
					idx := sl.High
					cond, truth, found := edgeCondition(phi.Block().Preds[i], phi.Block())
					if !found {
						// the slice is computed in a block of its own: use that block's guard
						for _, g := range core.Guards(phi.Block().Preds[i]) {
							cond, truth, found = g.Cond, g.Truth, true
						}
					}
					if !found {
						why = "cannot find the condition under which the comment is cut"
						continue
					}
					okCut = true
					for _, iv := range []int64{-1, 0, 1, 5} {
						v, ok := evalSmall(cond, map[ssa.Value]int64{idx: iv}, 0)
						if !ok || (v != 0) == truth != (iv >= 0) {
							okCut = false
							why = sprintf("for a '#' at index %d the comment is cut: %v", iv, ok && (v != 0) == truth)
						}
					}
				}
			}
			c.check(okCut, "C07.classify", um, "the comment is removed iff bytes.IndexByte(data, '#') >= 0", trim, why)
		}
		if cf != nil {
			var field, tail *ssa.Extract
			for _, r := range core.Refs(cf) {
				if ex, ok := r.(*ssa.Extract); ok {
					if ex.Index == 0 {
						field = ex
					} else {
						tail = ex
					}
				}
			}
			addrCalls := core.CallsTo(um, "(*net/netip.Addr).UnmarshalText")
			// the same parse spelled rec.Addr, err = netip.ParseAddr(string(field)):
			// for a non-empty field the two are the same function
			var parseCalls []*ssa.Call
			for _, ci := range core.CallsTo(um, "net/netip.ParseAddr") {
				call := ci.(*ssa.Call)
				cv, isCv := call.Call.Args[0].(*ssa.Convert)
				if !isCv || field == nil || cv.X != ssa.Value(field) {
					continue
				}
				stored := false
				for _, r := range core.Refs(call) {
					if ex, isEx := r.(*ssa.Extract); isEx && ex.Index == 0 {
						for _, rr := range core.Refs(ex) {
							if st, isSt := rr.(*ssa.Store); isSt {
								if fa, isFA := st.Addr.(*ssa.FieldAddr); isFA && core.FieldName(fa) == "Addr" && fa.X == ssa.Value(um.Params[0]) {
									stored = true
								}
							}
						}
					}
				}
				if stored {
					parseCalls = append(parseCalls, call)
				}
			}
			for _, ret := range core.Returns(um) {
				v := ret.Results[0]
				switch name := errConstName(c, v); name {
				case "ErrEmptyLine":
					c.check(field != nil && guardedByLenZero(ret, field, true), "C07.classify", um, "return ErrEmptyLine iff the first field is empty", ret, "no field at all")
				case "ErrNoHosts":
					c.check(field != nil && tail != nil && guardedByLenZero(ret, field, false) && guardedByLenZero(ret, tail, true), "C07.classify", um,
						"return ErrNoHosts iff one field and nothing after it", ret, "a single field")
				default:
					if call, isCall := v.(*ssa.Call); isCall && core.CalleeName(&call.Call) == "(*net/netip.Addr).UnmarshalText" {
						c.check(guardedNonNilErr(ret, call), "C07.classify", um, "address parse error returned as is", ret, "not wrapped, under err != nil")
					}
					if ex, isEx := v.(*ssa.Extract); isEx && ex.Index == 1 {
						for _, pc := range parseCalls {
							if ex.Tuple == ssa.Value(pc) {
								c.check(guardedNonNilErr(ret, ex), "C07.classify", um, "address parse error returned as is", ret, "not wrapped, under err != nil")
							}
						}
					}
				}
			}
			for _, ci := range addrCalls {
				call := ci.(*ssa.Call)
				okArg := field != nil && call.Call.Args[1] == ssa.Value(field)
				if fa, isFA := call.Call.Args[0].(*ssa.FieldAddr); !isFA || core.FieldName(fa) != "Addr" || fa.X != um.Params[0] {
					okArg = false
				}
				c.check(okArg && field != nil && tail != nil && guardedByLenZero(call, field, false) && guardedByLenZero(call, tail, false), "C07.classify", um,
					"rec.Addr.UnmarshalText(field) after the empty-line and no-hosts checks", call, "classification order: ErrEmptyLine, ErrNoHosts, then the address error")
			}
			for _, call := range parseCalls {
				c.check(field != nil && tail != nil && guardedByLenZero(call, field, false) && guardedByLenZero(call, tail, false), "C07.classify", um,
					"rec.Addr, err = netip.ParseAddr(string(field)) after the empty-line and no-hosts checks", call, "classification order: ErrEmptyLine, ErrNoHosts, then the address error")
			}
			if len(addrCalls) == 0 && len(parseCalls) > 0 {
				c.check(true, "C07.callee", um, "address parsed by netip.ParseAddr into rec.Addr", parseCalls[0], "callee identity")
			} else if len(addrCalls) == 0 {
				c.check(false, "C07.callee", um, "address parsed by netip.Addr.UnmarshalText", nil, "the address field must be accepted exactly when netip.ParseAddr accepts it")
			} else {
				c.check(true, "C07.callee", um, "address parsed by netip.Addr.UnmarshalText", addrCalls[0], "callee identity")
			}

			// ---- R2 two-pass agreement ----
			var hosts *ssa.Convert
			core.EachInstr(um, func(in ssa.Instruction) {
				if cv, ok := in.(*ssa.Convert); ok && tail != nil && cv.X == ssa.Value(tail) {
					hosts = cv
				}
			})
			c.check(hosts != nil && isStringType(hosts.Type()), "C07.two-pass", um, "hosts = string(tail) (copying conversion)", nil,
				"the names are cut from a private copy of the line tail: they must not alias the caller's (scanner's) buffer")
			var validate []*ssa.Call
			for _, ci := range core.CallsTo(um, core.ModPath+"/netutil.ValidateDomainName") {
				validate = append(validate, ci.(*ssa.Call))
			}
			c.check(len(validate) == 1, "C07.callee", um, "names validated by netutil.ValidateDomainName", nil, sprintf("%d call(s)", len(validate)))
			// the cutter calls
			var cutters []*ssa.Call
			for _, ci := range core.AllCalls(um) {
				if call, ok := ci.(*ssa.Call); ok && call.Call.StaticCallee() != nil && call.Call.StaticCallee() == cutS {
					cutters = append(cutters, call)
				}
			}
			if hosts != nil && len(validate) == 1 {
				v := validate[0]
				// validated value: field of a cutter chain rooted at hosts
				c.check(cutChainRoot(v.Call.Args[0], cutS, 0) == ssa.Value(hosts), "C07.two-pass", um, "validated names are the fields cut from hosts by cutStringField", v,
					"pass 1 walks hosts field by field")
				// stored names: store into rec.Names[i] of a cutter field rooted at hosts
				stores := 0
				core.EachInstr(um, func(in ssa.Instruction) {
					st, ok := in.(*ssa.Store)
					if !ok {
						return
					}
					ia, ok := st.Addr.(*ssa.IndexAddr)
					if !ok {
						return
					}
					isNames := false
					if name, base, ok := core.IsLoadOfField(ia.X); ok && name == "Names" && base == um.Params[0] {
						isNames = true
					}
					// or a local slice that becomes rec.Names
					if mk, isMk := ia.X.(*ssa.MakeSlice); isMk {
						for _, r := range core.Refs(mk) {
							if st2, ok := r.(*ssa.Store); ok && st2.Val == ssa.Value(mk) {
								if fa, ok := st2.Addr.(*ssa.FieldAddr); ok && core.FieldName(fa) == "Names" && fa.X == ssa.Value(um.Params[0]) {
									isNames = true
								}
							}
						}
					}
					if !isNames {
						return
					}
					stores++
					c.check(cutChainRoot(st.Val, cutS, 0) == ssa.Value(hosts), "C07.two-pass", um, "stored names are the fields cut from the same hosts by the same cutter", st,
						"pass 2 must cut exactly like pass 1, else the stored names are not the validated ones")
				})
				if stores == 0 {
					c.check(false, "C07.two-pass", um, "names stored element-wise from the cutter", nil, "rec.Names is not filled from cutStringField(hosts): a different splitter may disagree with the validated fields")
				}
				// n counts successful validations; Names has length n
				core.EachInstr(um, func(in ssa.Instruction) {
					st, ok := in.(*ssa.Store)
					if !ok {
						return
					}
					if fa, ok := st.Addr.(*ssa.FieldAddr); !ok || core.FieldName(fa) != "Names" || fa.X != um.Params[0] {
						return
					}
					mk, isMk := st.Val.(*ssa.MakeSlice)
					good := false
					if isMk {
						if phi, isPhi := mk.Len.(*ssa.Phi); isPhi {
							if k, ok := stepOf(phi); ok && k == 1 {
								// the increment is on the validation-success edge
								for _, e := range phi.Edges {
									if b, isB := e.(*ssa.BinOp); isB && b.X == ssa.Value(phi) {
										good = guardedNilErr(b, v)
									}
								}
								// the count starts at zero
								for i, e := range phi.Edges {
									if !phi.Block().Dominates(phi.Block().Preds[i]) {
										if k0, isK := core.ConstInt(e); !isK || k0 != 0 {
											good = false
										}
									}
								}
								// and the loop goes on exactly while the field just cut is non-empty
								if hif, isIf := phi.Block().Instrs[len(phi.Block().Instrs)-1].(*ssa.If); isIf {
									cond, truth := core.StripNot(hif.Cond, true)
									b, isB := cond.(*ssa.BinOp)
									okLoop := false
									if isB && (b.Op == token.NEQ || b.Op == token.EQL) {
										if str, isK := core.ConstString(b.Y); isK && str == "" && cutChainRoot(b.X, cutS, 0) == ssa.Value(hosts) {
											inBody := core.LoopBody(phi.Block())[hif.Block().Succs[0]]
											okLoop = (b.Op == token.NEQ) == (truth == inBody)
										}
									}
									// the same test on the length of the field
									if v, isZero, okZ := core.ZeroTest(hif.Cond, true); okZ {
										if lc, isC := v.(*ssa.Call); isC && core.CalleeName(&lc.Call) == "builtin.len" && cutChainRoot(lc.Call.Args[0], cutS, 0) == ssa.Value(hosts) {
											inBody := core.LoopBody(phi.Block())[hif.Block().Succs[0]]
											okLoop = !isZero == inBody
										}
									}
									if !okLoop {
										good = false
									}
								} else {
									good = false
								}
							}
						}
					}
					c.check(good, "C07.two-pass", um, "rec.Names = make([]string, n), n = number of names validated successfully", st, "only the names before the first bad one are retained")
					// ... on every path that goes on to the second pass: a record that is
					// reused must not keep names of the line it held before
					if st2 := st; hosts != nil {
						for _, ret := range core.Returns(um) {
							if !core.MayFollow(st2, ret) {
								continue
							}
							// counted from the conversion of the tail: the paths that
							// leave before it (empty line, no hosts, bad address) do not count
							mn, _, okC := core.CountOnPaths(um, hosts, ret, func(in ssa.Instruction) bool { return in == ssa.Instruction(st2) })
							if okC && mn == 0 {
								c.check(false, "C07.two-pass", um, "rec.Names is set afresh on every path through the names", st2,
									"a path reaches the return without the store: a reused Record keeps (part of) the names it held before")
							}
						}
					}
				})
			}
			// the name error wraps the validator's error
			for _, ret := range core.Returns(um) {
				for _, v := range flattenPhi(ret.Results[0]) {
					if call, ok := v.(*ssa.Call); ok && core.CalleeName(&call.Call) == "fmt.Errorf" {
						f, _ := core.ConstString(call.Call.Args[0])
						c.check(strings.Contains(f, "%w") && len(validate) == 1 && variadicHas(call.Call.Args[1], validate[0]), "C07.classify", um,
							"name error wraps the validator's *AddrError (%w)", ret, "errors.As must find the *AddrError of the first bad name")
					}
				}
			}
		}
	}

	// ---- MarshalText ----
	if mt != nil {
		var sepOK, addrFirst, order bool
		var sepAt ssa.Instruction
		core.EachInstr(mt, func(in ssa.Instruction) {
			st, ok := in.(*ssa.Store)
			if !ok {
				return
			}
			if k, isK := core.ConstInt(st.Val); isK {
				if b, isB := st.Val.Type().Underlying().(*types.Basic); isB && b.Kind() == types.Uint8 {
					sepAt = st
					sepOK = strings.IndexByte(spaces, byte(k)) >= 0
				}
			}
		})
		c.check(sepAt != nil && sepOK, "C07.marshal", mt, "separator byte written between fields is in `spaces`", sepAt,
			"the text must re-parse into the same fields, so the writer's separator must be one the reader cuts at")
		for _, ci := range core.CallsTo(mt, "(net/netip.Addr).MarshalText") {
			call := ci.(*ssa.Call)
			if name, _, ok := core.IsLoadOfField(call.Call.Args[0]); ok && name == "Addr" {
				addrFirst = true
			}
		}
		c.check(addrFirst, "C07.marshal", mt, "output starts with rec.Addr.MarshalText()", nil, "address first")
		// names appended in slice order: append(data, name...) inside an ascending loop over rec.Names
		core.EachInstr(mt, func(in ssa.Instruction) {
			call, ok := in.(*ssa.Call)
			if !ok {
				return
			}
			if b, isB := call.Call.Value.(*ssa.Builtin); !isB || b.Name() != "append" || len(call.Call.Args) != 2 {
				return
			}
			if u, isU := call.Call.Args[1].(*ssa.UnOp); isU && u.Op == token.MUL {
				if ia, isIA := u.X.(*ssa.IndexAddr); isIA {
					if name, _, ok := core.IsLoadOfField(ia.X); ok && name == "Names" && ascendingOver(mt, ia.X) {
						// the separator append feeds this append
						if prev, isCall := call.Call.Args[0].(*ssa.Call); isCall {
							if pb, isPB := prev.Call.Value.(*ssa.Builtin); isPB && pb.Name() == "append" {
								order = true
							}
						}
					}
				}
			}
		})
		c.check(order, "C07.marshal", mt, "for each name in slice order: separator, then the name", nil, "names keep their order")
		// nothing else is written: every append of MarshalText adds either
		// separator bytes or the bytes of a name of rec.Names as it is stored
		core.EachInstr(mt, func(in ssa.Instruction) {
			call, ok := in.(*ssa.Call)
			if !ok {
				return
			}
			if b, isB := call.Call.Value.(*ssa.Builtin); !isB || b.Name() != "append" || len(call.Call.Args) != 2 {
				return
			}
			src := call.Call.Args[1]
			okSrc := false
			switch x := src.(type) {
			case *ssa.UnOp:
				if ia, isIA := x.X.(*ssa.IndexAddr); isIA && x.Op == token.MUL {
					if name, _, ok := core.IsLoadOfField(ia.X); ok && name == "Names" {
						okSrc = true
					}
				}
			case *ssa.Slice:
				// the variadic bytes: all stored values are separator constants
				if al, isAl := x.X.(*ssa.Alloc); isAl {
					okSrc = true
					n := 0
					for _, r := range core.Refs(al) {
						ia, isIA := r.(*ssa.IndexAddr)
						if !isIA {
							continue
						}
						for _, rr := range core.Refs(ia) {
							if st, isSt := rr.(*ssa.Store); isSt {
								n++
								if k, isK := core.ConstInt(st.Val); !isK || strings.IndexByte(spaces, byte(k)) < 0 {
									okSrc = false
								}
							}
						}
					}
					okSrc = okSrc && n > 0
				}
			case *ssa.Const:
				if sv, isS := core.ConstString(x); isS {
					okSrc = sv != "" && strings.Trim(sv, spaces) == ""
				}
			}
			if !okSrc {
				c.check(false, "C07.marshal", mt, "what is appended to the text: "+core.Describe(src), call,
					"MarshalText may write only separators and the stored names themselves; a name written in another form re-parses to a different record")
			}
		})
	}
}

func isStringType(t types.Type) bool {
	b, ok := t.Underlying().(*types.Basic)
	return ok && b.Info()&types.IsString != 0
}

// errConstName: v is `make error <- errors.Error(const)`; returns the name of
// the package constant with that value (ErrEmptyLine, ErrNoHosts).
func errConstName(c *Ctx, v ssa.Value) string {
	mi, ok := v.(*ssa.MakeInterface)
	if !ok {
		return ""
	}
	s, ok := core.ConstString(mi.X)
	if !ok {
		return ""
	}
	tp := c.P.TPkg("hostsfile")
	for _, n := range []string{"ErrEmptyLine", "ErrNoHosts"} {
		if k, ok := tp.Types.Scope().Lookup(n).(*types.Const); ok && k.Val().Kind() == constant.String && constant.StringVal(k.Val()) == s {
			return n
		}
	}
	return ""
}

// guardedByLenZero: in runs only where (len(v) == 0) == want.
func guardedByLenZero(in ssa.Instruction, v ssa.Value, want bool) bool {
	for _, g := range core.GuardsOf(in) {
		cond, truth := core.StripNot(g.Cond, g.Truth)
		b, ok := cond.(*ssa.BinOp)
		if !ok {
			continue
		}
		call, ok := b.X.(*ssa.Call)
		if !ok {
			continue
		}
		if bi, ok := call.Call.Value.(*ssa.Builtin); !ok || bi.Name() != "len" || call.Call.Args[0] != v {
			continue
		}
		k, isK := core.ConstInt(b.Y)
		if !isK || k != 0 {
			continue
		}
		switch b.Op {
		case token.EQL:
			if truth == want {
				return true
			}
		case token.NEQ, token.GTR:
			if truth != want {
				return true
			}
		}
	}
	return false
}

// guardedNonNilErr / guardedNilErr: in runs only where the error value e is
// non-nil / nil.
func guardedNonNilErr(in ssa.Instruction, e ssa.Value) bool { return guardedErr(in, e, false) }
func guardedNilErr(in ssa.Instruction, e ssa.Value) bool    { return guardedErr(in, e, true) }

func guardedErr(in ssa.Instruction, e ssa.Value, wantNil bool) bool {
	for _, g := range core.GuardsOf(in) {
		cond, truth := core.StripNot(g.Cond, g.Truth)
		b, ok := cond.(*ssa.BinOp)
		if !ok || (b.Op != token.EQL && b.Op != token.NEQ) {
			continue
		}
		if !((b.X == e && core.IsNilConst(b.Y)) || (b.Y == e && core.IsNilConst(b.X))) {
			continue
		}
		isNil := (b.Op == token.EQL) == truth
		if isNil == wantNil {
			return true
		}
	}
	return false
}

// cutChainRoot follows v = extract #idx of cutter(x) back through loop phis
// and tail extracts to the string the cutting started from; nil if v is not
// such a chain.
func cutChainRoot(v ssa.Value, cutter *ssa.Function, idx int) ssa.Value {
	if cutter == nil {
		return nil
	}
	seen := map[ssa.Value]bool{}
	var roots []ssa.Value
	bad := false
	var walkArg func(x ssa.Value)
	walkArg = func(x ssa.Value) {
		if seen[x] {
			return
		}
		seen[x] = true
		switch y := x.(type) {
		case *ssa.Phi:
			for _, e := range y.Edges {
				walkArg(e)
			}
		case *ssa.Extract:
			call, ok := y.Tuple.(*ssa.Call)
			if !ok || call.Call.StaticCallee() != cutter {
				bad = true
				return
			}
			// field (#0) or tail (#1) of a further cut: continue with its argument
			walkArg(call.Call.Args[0])
		default:
			roots = append(roots, x)
		}
	}
	// v itself must be (a phi of) extract #idx of the cutter
	for _, x := range flattenPhi(v) {
		ex, ok := x.(*ssa.Extract)
		if !ok || ex.Index != idx {
			return nil
		}
		call, ok := ex.Tuple.(*ssa.Call)
		if !ok || call.Call.StaticCallee() != cutter {
			return nil
		}
		walkArg(call.Call.Args[0])
	}
	if bad || len(roots) != 1 {
		return nil
	}
	return roots[0]
}

// variadicHas: the variadic slice contains want (possibly converted to any).
func variadicHas(v ssa.Value, want ssa.Value) bool {
	sl, ok := v.(*ssa.Slice)
	if !ok {
		return false
	}
	al, ok := sl.X.(*ssa.Alloc)
	if !ok {
		return false
	}
	found := false
	for _, r := range core.Refs(al) {
		if ia, ok := r.(*ssa.IndexAddr); ok {
			for _, rr := range core.Refs(ia) {
				if st, ok := rr.(*ssa.Store); ok && core.Unwrap(st.Val) == want {
					found = true
				}
			}
		}
	}
	return found
}

// ---------------------------------------------------------------------------

func runC08(c *Ctx) {
	c.L.Trust("go/types + go/ssa", "bufio.Scanner: ScanLines framing is independent of how the reader fragments the stream", "container.MapSet (C11)", "rule code /verif/sa/rules/hostsfile.go")
	c.L.Floor("C08.parse.dispatch", 3)
	c.L.Floor("C08.parse.line-number", 1)
	c.L.Floor("C08.parse.source-name", 2)
	c.L.Floor("C08.parse.errors", 3)
	c.L.Floor("C08.parse.reader", 2)
	c.L.Floor("C08.storage.nameless", 1)
	c.L.Floor("C08.storage.index", 5)
	c.L.Floor("C08.orderedset", 3)

	if f := c.fn("hostsfile", "Parse"); f != nil {
		c08Parse(c, f)
	}
	// Parse delivers what Record.UnmarshalText accepts: the record grammar
	// obligations (C07.*) are part of this property's check as well.
	runC07(c)
	// NewDefaultStorage: one Parse per reader, on that reader itself — a
	// concatenated stream glues the last line of a source without a final
	// newline to the first line of the next one
	if f := c.fn("hostsfile", "DefaultStorage.ByAddr"); f != nil {
		c08Lookup(c, f, "names")
	}
	if f := c.fn("hostsfile", "DefaultStorage.ByName"); f != nil {
		c08Lookup(c, f, "addrs")
	}
	if f := c.fn("hostsfile", "NewDefaultStorage"); f != nil {
		c.L.Floor("C08.storage.per-reader", 1)
		n := 0
		for _, ci := range core.CallsTo(f, core.ModPath+"/hostsfile.Parse") {
			n++
			src := ci.Common().Args[1]
			okElem := false
			// readers[i]: load of IndexAddr(readers param, i)
			if ld, ok := src.(*ssa.UnOp); ok && ld.Op == token.MUL {
				if ia, ok := ld.X.(*ssa.IndexAddr); ok && len(f.Params) == 1 && ia.X == ssa.Value(f.Params[0]) {
					okElem = true
				}
			}
			okDst := false
			for _, r := range core.Returns(f) {
				if len(r.Results) > 0 && core.Unwrap(r.Results[0]) == core.Unwrap(ci.Common().Args[0]) {
					okDst = true
				}
			}
			_ = okDst
			c.check(okElem && core.InLoop(ci), "C08.storage.per-reader", f, "Parse(s, readers[i], nil) once per reader", ci,
				"each source is scanned on its own, so a missing final newline ends a line instead of joining two sources")
		}
		if n == 0 {
			c.undecided("C08.storage.per-reader", f, "Parse call", nil, "NewDefaultStorage no longer calls Parse")
		}
	}
	// names must be private copies of the scanner buffer (see C07.two-pass)
	if um := c.fn("hostsfile", "Record.UnmarshalText"); um != nil {
		ok := true
		n := 0
		core.EachInstr(um, func(in ssa.Instruction) {
			st, isSt := in.(*ssa.Store)
			if !isSt {
				return
			}
			ia, isIA := st.Addr.(*ssa.IndexAddr)
			if !isIA {
				if fa, isFA := st.Addr.(*ssa.FieldAddr); isFA && core.FieldName(fa) == "Names" {
					if _, isMk := st.Val.(*ssa.MakeSlice); !isMk && !core.IsNilConst(st.Val) {
						// Names assigned wholesale: its elements must still come from a copying conversion
						n++
						if !derivesFromCopy(st.Val, um.Params[1]) {
							ok = false
						}
					}
				}
				return
			}
			if name, _, isF := core.IsLoadOfField(ia.X); !isF || name != "Names" {
				return
			}
			n++
			if !derivesFromCopy(st.Val, um.Params[1]) {
				ok = false
			}
		})
		c.check(ok && n > 0, "C08.parse.reader", um, "record names are copies of the line buffer (string(data) conversion)", nil,
			"Parse hands UnmarshalText the scanner's internal buffer, which is overwritten by the next Scan: names that alias it change after delivery, depending on buffer size and read fragmentation")
	}
	if f := c.fn("hostsfile", "orderedSet.add"); f != nil {
		c08OrderedSet(c, f)
	}
	if f := c.fn("hostsfile", "DefaultStorage.Add"); f != nil {
		c08StorageAdd(c, f)
	}
}

// derivesFromCopy: v is computed from the []byte parameter only through a
// string([]byte) conversion (a copy) followed by slicing / cutting / phis.
func derivesFromCopy(v ssa.Value, data ssa.Value) bool {
	seen := map[ssa.Value]bool{}
	ok := true
	var walk func(v ssa.Value)
	walk = func(v ssa.Value) {
		if seen[v] || !ok {
			return
		}
		seen[v] = true
		switch x := v.(type) {
		case *ssa.Convert:
			if isStringType(x.Type()) && !isStringType(x.X.Type()) {
				return // copying conversion: stop
			}
			walk(x.X)
		case *ssa.Phi:
			for _, e := range x.Edges {
				walk(e)
			}
		case *ssa.Extract:
			walk(x.Tuple)
		case *ssa.Slice:
			walk(x.X)
		case *ssa.Const:
		case *ssa.UnOp:
			if x.Op == token.MUL {
				if ia, isIA := x.X.(*ssa.IndexAddr); isIA {
					walk(ia.X)
					return
				}
			}
			ok = false
		case *ssa.Call:
			n := core.CalleeName(&x.Call)
			if strings.HasPrefix(n, "unsafe.") || strings.HasPrefix(n, "builtin.String") || strings.HasPrefix(n, "builtin.Slice") {
				ok = false
				return
			}
			if b, isB := x.Call.Value.(*ssa.Builtin); isB && b.Name() != "append" && b.Name() != "len" {
				ok = false // unsafe.String and friends are builtins in SSA
				return
			}
			for _, a := range x.Call.Args {
				if isStringType(a.Type()) || isByteSlice(a.Type()) || isStringSlice(a.Type()) {
					walk(a)
				}
			}
		case *ssa.Parameter:
			if x == data {
				ok = false // reached the raw buffer without a copy
			}
		default:
			ok = false
		}
	}
	walk(v)
	return ok
}

func isByteSlice(t types.Type) bool {
	s, ok := t.Underlying().(*types.Slice)
	if !ok {
		return false
	}
	b, ok := s.Elem().Underlying().(*types.Basic)
	return ok && b.Kind() == types.Uint8
}

func isStringSlice(t types.Type) bool {
	s, ok := t.Underlying().(*types.Slice)
	return ok && isStringType(s.Elem())
}

func c08Parse(c *Ctx, f *ssa.Function) {
	dst, src := f.Params[0], f.Params[1]
	// the scan loop
	var scan *ssa.Call
	for _, ci := range core.CallsTo(f, "(*bufio.Scanner).Scan") {
		scan = ci.(*ssa.Call)
	}
	if scan == nil || !core.LoopHeads(f)[scan.Block()] {
		c.undecided("C08.parse.dispatch", f, "for s.Scan() loop", nil, "no loop conditioned on bufio.Scanner.Scan found")
		return
	}
	head := scan.Block()
	body := core.LoopBody(head)
	scanner := scan.Call.Args[0]
	// R2: reader uses
	okReader := true
	for _, r := range core.Refs(src) {
		switch x := r.(type) {
		case *ssa.TypeAssert, *ssa.DebugRef:
		case *ssa.Call:
			if core.CalleeName(&x.Call) != "bufio.NewScanner" {
				okReader = false
			}
		default:
			okReader = false
		}
	}
	c.check(okReader, "C08.parse.reader", f, "src is read only through bufio.NewScanner(src)", nil, "fragmentation independence is bufio.Scanner's")
	okSplit := true
	for _, r := range core.Refs(scanner) {
		if call, ok := r.(*ssa.Call); ok {
			switch core.CalleeName(&call.Call) {
			case "(*bufio.Scanner).Buffer", "(*bufio.Scanner).Scan", "(*bufio.Scanner).Bytes", "(*bufio.Scanner).Text", "(*bufio.Scanner).Err":
			default:
				okSplit = false
			}
		}
	}
	c.check(okSplit, "C08.parse.reader", f, "default split function (ScanLines), scanner not shared", nil, "only Buffer/Scan/Bytes/Err are called on the scanner")
	// the line limit: Buffer(buf, max) with max at least bufio.MaxScanTokenSize —
	// a smaller limit turns the longest lines the reference accepts into a
	// scanner error that drops them and everything behind them
	for _, r := range core.Refs(scanner) {
		if call, ok := r.(*ssa.Call); ok && core.CalleeName(&call.Call) == "(*bufio.Scanner).Buffer" && len(call.Call.Args) == 3 {
			k, isK := core.ConstInt(call.Call.Args[2])
			if !isK {
				c.undecided("C08.parse.reader", f, "scanner line limit", call, "the limit handed to Scanner.Buffer is not a constant")
				continue
			}
			c.check(k >= 64*1024, "C08.parse.reader", f, "scanner line limit >= bufio.MaxScanTokenSize", call, sprintf("limit %d: a well-formed line of up to MaxScanTokenSize-1 bytes must be delivered", k))
		}
	}

	// events
	isAdd := func(in ssa.Instruction) bool {
		call, ok := in.(*ssa.Call)
		return ok && call.Call.IsInvoke() && call.Call.Method.Name() == "Add" && call.Call.Value == dst
	}
	isHandler := func(in ssa.Instruction) bool {
		call, ok := in.(*ssa.Call)
		if !ok || call.Call.IsInvoke() || call.Call.StaticCallee() != nil {
			return false
		}
		_, isB := call.Call.Value.(*ssa.Builtin)
		return !isB && len(call.Call.Args) == 3
	}
	isDispatch := func(in ssa.Instruction) bool { return isAdd(in) || isHandler(in) }
	// latches
	n := 0
	for _, p := range head.Preds {
		if !body[p] || !head.Dominates(p) {
			continue
		}
		n++
		term := p.Instrs[len(p.Instrs)-1]
		mn, mx, ok := core.CountOnPaths(f, scan, term, isDispatch)
		c.check(ok && mn == 1 && mx == 1, "C08.parse.dispatch", f, "exactly one of dst.Add / handleInvalid per scanned line", term,
			sprintf("dispatch calls on the paths through one iteration: min %d, max %d", mn, mx))
	}
	if n == 0 {
		c.undecided("C08.parse.dispatch", f, "loop back edge", nil, "no latch found")
	}
	// the unmarshal call and the branch on its error
	var um *ssa.Call
	for b := range body {
		for _, in := range b.Instrs {
			if call, ok := in.(*ssa.Call); ok && core.CalleeName(&call.Call) == "(*"+core.ModPath+"/hostsfile.Record).UnmarshalText" {
				um = call
			}
		}
	}
	if um == nil {
		c.undecided("C08.parse.dispatch", f, "rec.UnmarshalText(data) in the loop", nil, "not found")
		return
	}
	rec := um.Call.Args[0]
	line := um.Call.Args[1]
	lineOK := false
	if bc, ok := line.(*ssa.Call); ok && core.CalleeName(&bc.Call) == "(*bufio.Scanner).Bytes" && bc.Call.Args[0] == scanner && body[bc.Block()] {
		lineOK = true
	}
	c.check(lineOK, "C08.parse.dispatch", f, "each line is s.Bytes() of this iteration", um, "the line parsed is the line scanned")
	// a fresh record per line: the set may keep the pointer it is given
	recAlloc, isAlloc := rec.(*ssa.Alloc)
	c.check(isAlloc && recAlloc.Heap && body[recAlloc.Block()], "C08.parse.dispatch", f, "the record passed to UnmarshalText / dst.Add is allocated inside the loop", um,
		"a record reused across lines is overwritten after it was delivered: every retained *Record ends up describing the last line")
	var srcName ssa.Value
	for b := range body {
		for _, in := range b.Instrs {
			switch {
			case isAdd(in):
				call := in.(*ssa.Call)
				c.check(call.Call.Args[0] == rec && guardedNilErr(in, um), "C08.parse.dispatch", f, "dst.Add(rec) iff UnmarshalText returned nil", in, "well-formed lines go to the set, with the record just parsed")
			case isHandler(in):
				call := in.(*ssa.Call)
				okH := guardedNonNilErr(in, um) && call.Call.Args[1] == line
				c.check(okH, "C08.parse.dispatch", f, "handleInvalid(srcName, data, &LineError{...}) iff UnmarshalText failed", in, "every other line is reported, with its bytes")
				srcName = call.Call.Args[0]
				// third argument: *LineError with Line = counter, err = the unmarshal error
				le, _ := core.Unwrap(call.Call.Args[2]).(*ssa.Alloc)
				okLine, okErr := false, false
				if le != nil && core.NamedOf(le.Type()) == "LineError" {
					for _, r := range core.Refs(le) {
						fa, ok := r.(*ssa.FieldAddr)
						if !ok {
							continue
						}
						for _, rr := range core.Refs(fa) {
							st, ok := rr.(*ssa.Store)
							if !ok {
								continue
							}
							switch core.FieldName(fa) {
							case "Line":
								// the value is the counter phi plus a constant d (0 when used
								// before the increment, 1 after it): the number of the k-th
								// line is start + d + (k-1)*step, which must be k
								val, d := st.Val, int64(0)
								for depth := 0; depth < 3; depth++ {
									bo, isB := val.(*ssa.BinOp)
									if !isB || bo.Op != token.ADD {
										break
									}
									if k, isK := core.ConstInt(bo.Y); isK {
										val, d = bo.X, d+k
									} else if k, isK := core.ConstInt(bo.X); isK {
										val, d = bo.Y, d+k
									} else {
										break
									}
								}
								if phi, isPhi := val.(*ssa.Phi); isPhi && phi.Block() == head {
									start, step := int64(-1), int64(0)
									for i, e := range phi.Edges {
										if k, isK := core.ConstInt(e); isK && !body[head.Preds[i]] {
											start = k
										}
									}
									step, _ = stepOf(phi)
									okLine = start+d == 1 && step == 1 && start >= 0
								}
							case "err":
								okErr = st.Val == ssa.Value(um)
							}
						}
					}
				}
				c.check(okLine, "C08.parse.line-number", f, "LineError.Line is the loop counter: starts at 1, +1 per scanned line", in, "1-based line numbers")
				c.check(okErr, "C08.parse.errors", f, "LineError wraps the record's own unmarshal error", in, "the reported error is the one of this line")
			}
		}
	}
	// source name
	okName := false
	if srcName != nil {
		for _, v := range flattenPhi(srcName) {
			if call, ok := v.(*ssa.Call); ok && call.Call.IsInvoke() && call.Call.Method.Name() == "Name" {
				if ex, isEx := call.Call.Value.(*ssa.Extract); isEx {
					if ta, isTA := ex.Tuple.(*ssa.TypeAssert); isTA && ta.X == src {
						okName = true
					}
				}
			}
		}
	}
	c.check(okName, "C08.parse.source-name", f, "handler receives src.(NamedReader).Name()", nil, "reports are tagged with the source name")
	okRecName := false
	if al, ok := rec.(*ssa.Alloc); ok {
		for _, r := range core.Refs(al) {
			if fa, ok := r.(*ssa.FieldAddr); ok && core.FieldName(fa) == "Source" {
				for _, rr := range core.Refs(fa) {
					if st, ok := rr.(*ssa.Store); ok && srcName != nil && st.Val == srcName {
						okRecName = true
					}
				}
			}
		}
	}
	c.check(okRecName, "C08.parse.source-name", f, "rec.Source = the same source name", nil, "records are tagged with the source name")
	// default handler appends; result is Join(errs...)
	for _, af := range f.AnonFuncs {
		okApp := false
		core.EachInstr(af, func(in ssa.Instruction) {
			if call, ok := in.(*ssa.Call); ok {
				if b, isB := call.Call.Value.(*ssa.Builtin); isB && b.Name() == "append" && variadicHas(call.Call.Args[1], af.Params[2]) {
					okApp = true
				}
			}
		})
		c.check(okApp, "C08.parse.errors", f, "default handler appends the error to errs", nil, "errors are collected in call (= line) order")
		// ... on every path: a collector that stops at some count, or skips
		// some kinds of error, leaves ill-formed lines unreported
		if okApp {
			isApp := func(in ssa.Instruction) bool {
				call, ok := in.(*ssa.Call)
				if !ok {
					return false
				}
				b, isB := call.Call.Value.(*ssa.Builtin)
				return isB && b.Name() == "append" && variadicHas(call.Call.Args[1], af.Params[2])
			}
			okEvery := true
			for _, ret := range core.Returns(af) {
				mn, mx, reach := core.CountOnPaths(af, nil, ret, isApp)
				if reach && (mn != 1 || mx != 1) {
					okEvery = false
				}
			}
			c.check(okEvery, "C08.parse.errors", f, "default handler appends exactly once on every path", nil, "every ill-formed line is reported exactly once, however many there are")
		}
	}
	okJoin, okScanErr := false, false
	for _, ret := range core.Returns(f) {
		for _, v := range flattenPhi(ret.Results[0]) {
			call, ok := v.(*ssa.Call)
			if !ok {
				continue
			}
			switch core.CalleeName(&call.Call) {
			case core.ModPath + "/errors.Annotate":
				if j, isJ := call.Call.Args[0].(*ssa.Call); isJ && strings.HasSuffix(core.CalleeName(&j.Call), "errors.Join") {
					okJoin = true
				}
			case "fmt.Errorf":
				for _, ci := range core.CallsTo(f, "(*bufio.Scanner).Err") {
					if variadicHas(call.Call.Args[1], ci.(*ssa.Call)) && guardedNonNilErr(ret, ci.(*ssa.Call)) {
						okScanErr = true
					}
				}
			}
		}
	}
	c.check(okJoin, "C08.parse.errors", f, "result is errors.Join(errs...) (annotated)", nil, "all collected line errors are returned")
	c.check(okScanErr, "C08.parse.errors", f, "s.Err() is checked and returned", nil, "read errors are not dropped")
}

func c08OrderedSet(c *Ctx, f *ssa.Function) {
	key, val := f.Params[1], f.Params[2]
	var has *ssa.Call
	for _, ci := range core.AllCalls(f) {
		if call, ok := ci.(*ssa.Call); ok && strings.HasSuffix(core.CalleeName(&call.Call), ".Has") {
			has = call
		}
	}
	if has == nil {
		c.undecided("C08.orderedset", f, "membership test", nil, "no set.Has call")
		return
	}
	c.check(has.Call.Args[1] == ssa.Value(key), "C08.orderedset", f, "membership tested on key", has, "duplicates are detected by the (normalised) key, not by the stored value")
	for _, ci := range core.AllCalls(f) {
		call, ok := ci.(*ssa.Call)
		if !ok {
			continue
		}
		if strings.HasSuffix(core.CalleeName(&call.Call), ".Add") {
			c.check(call.Call.Args[1] == ssa.Value(key) && guardedByCall(call, has, false), "C08.orderedset", f, "set.Add(key) only when !set.Has(key)", call, "the key tested is the key recorded")
		}
		if b, isB := call.Call.Value.(*ssa.Builtin); isB && b.Name() == "append" {
			okv := variadicHas(call.Call.Args[1], val)
			name, _, isF := core.IsLoadOfField(call.Call.Args[0])
			c.check(okv && isF && name == "vals" && guardedByCall(call, has, false), "C08.orderedset", f, "vals = append(vals, val) only when the key is new", call, "first-seen order without duplicates")
		}
	}
	core.EachInstr(f, func(in ssa.Instruction) {
		if st, ok := in.(*ssa.Store); ok {
			if fa, ok := st.Addr.(*ssa.FieldAddr); ok && core.FieldName(fa) == "vals" {
				c.check(guardedByCall(st, has, false), "C08.orderedset", f, "vals written only under !Has(key)", st, "no other writer of the ordered values")
			}
		}
	})
	// outside add, the ordered values start empty and are the set's own: a
	// literal that seeds them from a record's slice shares the caller's backing
	// array (and whatever it holds) with the index
	nOther := 0
	for _, g := range c.P.Funcs("hostsfile") {
		if g == f {
			continue
		}
		core.EachInstr(g, func(in ssa.Instruction) {
			st, ok := in.(*ssa.Store)
			if !ok {
				return
			}
			fa, ok := st.Addr.(*ssa.FieldAddr)
			if !ok || core.FieldName(fa) != "vals" {
				return
			}
			nOther++
			fresh := core.IsNilConst(st.Val)
			if _, isMake := st.Val.(*ssa.MakeSlice); isMake {
				fresh = true
			}
			if sl, isSl := st.Val.(*ssa.Slice); isSl {
				// a slice literal: a window of an array allocated right here
				if _, isAl := sl.X.(*ssa.Alloc); isAl {
					fresh = true
				}
			}
			c.check(fresh, "C08.orderedset", g, "the ordered values of a new set start nil or freshly made", st,
				"stored: "+core.Describe(st.Val)+"; first-seen order without duplicates is kept by add alone, on storage nobody else can reach")
		})
	}
	// both halves happen together: a new key is recorded exactly when its value is appended
	nAdd, nApp := 0, 0
	for _, ci := range core.AllCalls(f) {
		call, ok := ci.(*ssa.Call)
		if !ok {
			continue
		}
		if strings.HasSuffix(core.CalleeName(&call.Call), ".Add") {
			nAdd++
		}
		if b, isB := call.Call.Value.(*ssa.Builtin); isB && b.Name() == "append" {
			nApp++
		}
	}
	c.check(nAdd == 1 && nApp == 1, "C08.orderedset", f, "one set.Add(key) and one append per new key", nil,
		sprintf("found %d Add and %d append: a key that is not recorded lets the same value in again (duplicates), a value that is not appended is lost", nAdd, nApp))
}

// c08Lookup: ByAddr / ByName return the ordered values of the entry found in
// the index (and nil when there is none).
func c08Lookup(c *Ctx, f *ssa.Function, field string) {
	what := f.Name() + " returns s." + field + "[key].vals when the key is present"
	// per value that may be returned (over all returns): the vals of the entry
	// found by a comma-ok lookup in the right index, on a path where that
	// lookup succeeded; nil on a path where it failed
	fs := core.Facts(f)
	gotNil, gotVals, bad := false, false, ""
	for _, ret := range core.Returns(f) {
		for _, lf := range fs.Leaves(ret.Results[0], ret) {
			okFact := func(lk ssa.Value) (found, known bool) {
				for _, g := range lf.Facts {
					cond, truth := core.StripNot(g.Cond, g.Truth)
					if ce, isCE := cond.(*ssa.Extract); isCE && ce.Tuple == lk && ce.Index == 1 {
						return truth, true
					}
				}
				return false, false
			}
			if core.IsNilConst(lf.V) {
				// some lookup in the index failed on this path
				for _, g := range lf.Facts {
					cond, truth := core.StripNot(g.Cond, g.Truth)
					if ce, isCE := cond.(*ssa.Extract); isCE && ce.Index == 1 && !truth {
						if lk, isLk := ce.Tuple.(*ssa.Lookup); isLk {
							if n2, b2, isF2 := core.IsLoadOfField(lk.X); isF2 && n2 == field && b2 == ssa.Value(f.Params[0]) {
								gotNil = true
							}
						}
					}
				}
				if !gotNil {
					bad = "nil is returned on a path where the lookup did not fail"
				}
				continue
			}
			name, base, isF := core.IsLoadOfField(lf.V)
			if !isF || name != "vals" {
				bad = "returns " + core.Describe(lf.V)
				continue
			}
			ex, isEx := base.(*ssa.Extract)
			if !isEx || ex.Index != 0 {
				bad = "vals of something that is not a comma-ok lookup result"
				continue
			}
			lk, isLk := ex.Tuple.(*ssa.Lookup)
			if !isLk {
				bad = "vals of something that is not a map lookup"
				continue
			}
			if n2, b2, isF2 := core.IsLoadOfField(lk.X); !isF2 || n2 != field || b2 != ssa.Value(f.Params[0]) {
				bad = "lookup in another map"
				continue
			}
			if found, known := okFact(lk); known && found {
				gotVals = true
			} else {
				bad = "the entry's values are used on a path where the lookup is not known to have succeeded"
			}
		}
	}
	c.check(gotNil && gotVals && bad == "", "C08.storage.index", f, what, nil, "the answer is the first-seen ordered list stored for that key, nil otherwise. "+bad)
}

// guardedByCall: in runs only where the boolean call result has the truth value.
func guardedByCall(in ssa.Instruction, call *ssa.Call, want bool) bool {
	for _, g := range core.GuardsOf(in) {
		cond, truth := core.StripNot(g.Cond, g.Truth)
		if cond == ssa.Value(call) && truth == want {
			return true
		}
	}
	return false
}

func c08StorageAdd(c *Ctx, f *ssa.Function) {
	rec := f.Params[1]
	namesLoad := func(v ssa.Value) bool {
		name, base, ok := core.IsLoadOfField(v)
		return ok && name == "Names" && base == rec
	}
	// the loop over rec.Names
	var loopBody map[*ssa.BasicBlock]bool
	var elem ssa.Value
	core.EachInstr(f, func(in ssa.Instruction) {
		if ia, ok := in.(*ssa.IndexAddr); ok && namesLoad(ia.X) && core.InLoop(ia) {
			for h := range core.LoopHeads(f) {
				if b := core.LoopBody(h); b[ia.Block()] {
					loopBody = b
				}
			}
			for _, r := range core.Refs(ia) {
				if u, ok := r.(*ssa.UnOp); ok {
					elem = u
				}
			}
		}
	})
	if loopBody == nil || elem == nil {
		c.undecided("C08.storage.index", f, "loop over rec.Names", nil, "not found")
		return
	}
	// R3: every write outside the loop is guarded by len(rec.Names) != 0
	nw := 0
	core.EachInstr(f, func(in ssa.Instruction) {
		var what string
		switch x := in.(type) {
		case *ssa.MapUpdate:
			what = "map store " + core.Describe(x.Map)
		case *ssa.Store:
			if fa, ok := x.Addr.(*ssa.FieldAddr); ok {
				if _, isAlloc := fa.X.(*ssa.Alloc); isAlloc {
					return // initialising a fresh local
				}
				what = "store to " + core.Describe(x.Addr)
			} else if _, ok := x.Addr.(*ssa.IndexAddr); ok {
				return
			} else {
				return
			}
		default:
			return
		}
		if loopBody[in.Block()] {
			return
		}
		nw++
		okG := false
		for _, g := range core.Facts(f).At(in.Block()) {
			if v, isZero, ok := core.ZeroTest(g.Cond, g.Truth); ok && !isZero {
				if call, ok := v.(*ssa.Call); ok {
					if bi, ok := call.Call.Value.(*ssa.Builtin); ok && bi.Name() == "len" && namesLoad(call.Call.Args[0]) {
						okG = true
					}
				}
			}
		}
		c.check(okG, "C08.storage.nameless", f, what+" only for records with names", in, "a record without names must change nothing (it would otherwise appear in RangeNames and Equal)")
	})
	if nw == 0 {
		c.check(true, "C08.storage.nameless", f, "no storage write outside the loop over rec.Names", nil, "a record without names runs zero iterations")
	}
	// every record with names is indexed: a return that can be reached without
	// entering the loop over rec.Names happens only for a record without names
	// (a "seen before" shortcut keyed on one of the names drops the others)
	{
		var head *ssa.BasicBlock
		for h := range core.LoopHeads(f) {
			if b := core.LoopBody(h); loopBody[h] && len(b) == len(loopBody) {
				head = h
			}
		}
		bad := ""
		var at ssa.Instruction
		if head != nil {
			seen := map[*ssa.BasicBlock]bool{head: true}
			var dfs func(b *ssa.BasicBlock)
			dfs = func(b *ssa.BasicBlock) {
				if seen[b] {
					return
				}
				seen[b] = true
				if ret, isRet := b.Instrs[len(b.Instrs)-1].(*ssa.Return); isRet {
					okG := false
					for _, g := range core.Facts(f).At(b) {
						if v, isZero, ok := core.ZeroTest(g.Cond, g.Truth); ok && isZero {
							if call, ok := v.(*ssa.Call); ok {
								if bi, ok := call.Call.Value.(*ssa.Builtin); ok && bi.Name() == "len" && namesLoad(call.Call.Args[0]) {
									okG = true
								}
							}
						}
					}
					if !okG && bad == "" {
						bad, at = "a return is reachable without the loop over rec.Names for a record that has names", ret
					}
				}
				for _, sb := range b.Succs {
					dfs(sb)
				}
			}
			dfs(f.Blocks[0])
		} else {
			bad = "loop head not found"
		}
		c.L.Floor("C08.storage.every-record", 1)
		c.check(bad == "", "C08.storage.every-record", f, "every record with names reaches the loop that indexes them", at, "all names of every record are indexed, whatever was added before: "+bad)
	}
	// R4: per iteration one names.add(k, name), one addrs.add(addr, addr)
	var adds []*ssa.Call
	for b := range loopBody {
		for _, in := range b.Instrs {
			if call, ok := in.(*ssa.Call); ok && strings.HasSuffix(core.CalleeName(&call.Call), ".add") && strings.Contains(core.CalleeName(&call.Call), "orderedSet") {
				adds = append(adds, call)
			}
		}
	}
	var norm *ssa.Call
	sort.SliceStable(adds, func(i, j int) bool { return adds[i].Call.Args[2] == elem && adds[j].Call.Args[2] != elem })
	for _, a := range adds {
		if a.Call.Args[2] == elem {
			// names index: key = normaliser(name)
			k, ok := a.Call.Args[1].(*ssa.Call)
			okN := ok && len(k.Call.Args) == 1 && k.Call.Args[0] == elem
			if okN {
				norm = k
			}
			// receiver: s.names[rec.Addr] (existing or freshly stored under the same key)
			okRecv := true
			for _, v := range flattenPhi(a.Call.Args[0]) {
				if ex, isEx := v.(*ssa.Extract); isEx && ex.Index == 0 {
					if lk, isLk := ex.Tuple.(*ssa.Lookup); isLk && lk.CommaOk {
						v = lk
					}
				}
				switch x := v.(type) {
				case *ssa.Lookup:
					name, _, isF := core.IsLoadOfField(x.X)
					kn, kb, isK := core.IsLoadOfField(x.Index)
					okRecv = okRecv && isF && name == "names" && isK && kn == "Addr" && kb == rec
				default:
					// a fresh set (allocated here or by a module constructor) stored
					// under the same key
					_, isAlloc := v.(*ssa.Alloc)
					if call, isCall := v.(*ssa.Call); isCall && call.Call.StaticCallee() != nil && core.InModule(call.Call.StaticCallee()) {
						isAlloc = true
					}
					stored := false
					for _, r := range core.Refs(v) {
						if mu, ok := r.(*ssa.MapUpdate); ok && mu.Value == v {
							kn, kb, isK := core.IsLoadOfField(mu.Key)
							name, _, isF := core.IsLoadOfField(mu.Map)
							stored = isK && kn == "Addr" && kb == rec && isF && name == "names"
						}
					}
					okRecv = okRecv && isAlloc && stored
				}
			}
			c.check(okN && okRecv, "C08.storage.index", f, "s.names[rec.Addr].add(normalise(name), name)", a, "ByAddr keeps the original spelling, deduplicated case-insensitively")
		} else {
			kn, kb, isK := core.IsLoadOfField(a.Call.Args[1])
			vn, vb, isV := core.IsLoadOfField(a.Call.Args[2])
			okA := isK && isV && kn == "Addr" && vn == "Addr" && kb == rec && vb == rec
			okRecv := norm != nil
			for _, v := range flattenPhi(a.Call.Args[0]) {
				if ex, isEx := v.(*ssa.Extract); isEx && ex.Index == 0 {
					if lk, isLk := ex.Tuple.(*ssa.Lookup); isLk && lk.CommaOk {
						v = lk
					}
				}
				switch x := v.(type) {
				case *ssa.Lookup:
					name, _, isF := core.IsLoadOfField(x.X)
					okRecv = okRecv && isF && name == "addrs" && x.Index == ssa.Value(norm)
				default:
					_, isAlloc := v.(*ssa.Alloc)
					if call, isCall := v.(*ssa.Call); isCall && call.Call.StaticCallee() != nil && core.InModule(call.Call.StaticCallee()) {
						isAlloc = true
					}
					stored := false
					for _, r := range core.Refs(v) {
						if mu, ok := r.(*ssa.MapUpdate); ok && mu.Value == v {
							name, _, isF := core.IsLoadOfField(mu.Map)
							stored = isF && name == "addrs" && mu.Key == ssa.Value(norm)
						}
					}
					okRecv = okRecv && isAlloc && stored
				}
			}
			c.check(okA && okRecv, "C08.storage.index", f, "s.addrs[normalise(name)].add(rec.Addr, rec.Addr)", a, "the name index is keyed by the same normalised name as the dedup key of the address index")
		}
	}
	c.check(len(adds) == 2, "C08.storage.index", f, "two index insertions per name", nil, sprintf("found %d orderedSet.add calls in the loop", len(adds)))
	for _, a := range adds {
		mn, mx, ok := 0, 0, false
		for h := range core.LoopHeads(f) {
			if core.LoopBody(h)[a.Block()] {
				// count from loop head's first instruction to the latch
				for _, p := range h.Preds {
					if h.Dominates(p) {
						mn, mx, ok = core.CountOnPaths(f, h.Instrs[len(h.Instrs)-1], p.Instrs[len(p.Instrs)-1], func(in ssa.Instruction) bool { return in == ssa.Instruction(a) })
					}
				}
			}
		}
		c.check(ok && mn == 1 && mx == 1, "C08.storage.index", f, "insertion executed exactly once per name", a, sprintf("min %d max %d per iteration", mn, mx))
	}
	// ByName applies the same normaliser
	if bn := c.fn("hostsfile", "DefaultStorage.ByName"); bn != nil && norm != nil {
		okBN := false
		core.EachInstr(bn, func(in ssa.Instruction) {
			if lk, ok := in.(*ssa.Lookup); ok {
				if name, _, isF := core.IsLoadOfField(lk.X); isF && name == "addrs" {
					if k, isC := lk.Index.(*ssa.Call); isC && core.CalleeName(&k.Call) == core.CalleeName(&norm.Call) && k.Call.Args[0] == bn.Params[1] {
						okBN = true
					}
				}
			}
		})
		c.check(okBN, "C08.storage.index", bn, "ByName looks up s.addrs[normalise(host)] with Add's normaliser ("+core.CalleeName(&norm.Call)+")", nil, "insert and lookup must normalise identically")
	}
	if ba := c.fn("hostsfile", "DefaultStorage.ByAddr"); ba != nil {
		okBA := false
		core.EachInstr(ba, func(in ssa.Instruction) {
			if lk, ok := in.(*ssa.Lookup); ok {
				if name, _, isF := core.IsLoadOfField(lk.X); isF && name == "names" && lk.Index == ssa.Value(ba.Params[1]) {
					okBA = true
				}
			}
		})
		c.check(okBA, "C08.storage.index", ba, "ByAddr looks up s.names[addr]", nil, "the address index is keyed by the address itself")
	}
}

