package rules

import (
	"fmt"
	"os"
	"strings"

	"golang.org/x/tools/go/ssa"

	"verif/sa/boolfn"
	"verif/sa/core"
)

// c07RecordExact decides which lines Record.UnmarshalText accepts, exactly,
// for every line of 0..9 arbitrary bytes.  The two parsers it delegates to are
// uninterpreted: "netip accepts the bytes [i,j) as an address" and
// "ValidateDomainName accepts the bytes [i,j)" are one free Boolean each per
// window, so the verdict is a Boolean function of the line's bytes and of those
// unknowns, whatever the cutters, trims and loops look like.  It must equal the
// grammar of the property: cut at the first '#'; the fields are the maximal
// runs of bytes other than space and tab; there are at least two of them; the
// first is an address; every other one is a name.
func c07RecordExact(c *Ctx) (okExact bool) {
	defer recoverUnsupported(c, &okExact, "c07RecordExact")
	const rule = "C07.record-exact"
	f := c.fn("hostsfile", "Record.UnmarshalText")
	if f == nil || len(f.Params) != 2 {
		return false
	}
	if th := lengthThresholds(f, 16, "ValidateDomainName", "ValidateHostname"); len(th) > 0 {
		c.L.Notef("UnmarshalText treats long lines differently (%s): the lengths evaluated do not cover that; structural rules used instead", th[0])
		return false
	}
	lengths := []int{0, 1, 2, 3, 4, 5, 6, 7, 8, 9}
	bads := make([]string, len(lengths))
	errs := make([]error, len(lengths))
	parallelDo(len(lengths), func(k int) {
		L := lengths[k]
		m := boolfn.New()
		ev := &boolfn.Eval{M: m, Entered: map[string]bool{}, ErrorsAsBits: true, ForcePath: true, Steps: 3000000}
		ev.InScope = core.InModule
		in := ev.StringInput(0, L)
		// unknowns per window
		base := 1 << 16
		winVar := func(kind, lo, hi int) int { return m.Var(base + kind*4096 + lo*64 + hi) }
		window := func(v boolfn.Val) (int, int, bool) {
			if v.Kind == boolfn.KSlice && len(v.Elems) == L {
				return v.Lo, v.Hi, true
			}
			return 0, 0, false
		}
		ev.Override = func(name string, call *ssa.CallCommon, args []boolfn.Val) (boolfn.Val, bool) {
			switch {
			case name == "(*net/netip.Addr).UnmarshalText" && len(args) == 2:
				if lo, hi, ok := window(args[1]); ok {
					return boolfn.BoolVal(m.Not(winVar(0, lo, hi))), true
				}
			case name == "net/netip.ParseAddr" && len(args) == 1:
				if lo, hi, ok := window(args[0]); ok {
					return boolfn.Val{Kind: boolfn.KTuple, Tuple: []boolfn.Val{boolfn.Opaque("addr"), boolfn.BoolVal(m.Not(winVar(0, lo, hi)))}}, true
				}
			case strings.HasSuffix(name, "/netutil.ValidateDomainName") && len(args) == 1:
				if lo, hi, ok := window(args[0]); ok {
					return boolfn.BoolVal(m.Not(winVar(1, lo, hi))), true
				}
			}
			return boolfn.Val{}, false
		}
		ev.OnCall = func(name string, call *ssa.CallCommon, args []boolfn.Val) (boolfn.Val, bool) {
			if res := call.Signature().Results(); res.Len() == 1 && res.At(0).Type().String() == "error" {
				return boolfn.BoolVal(1), true
			}
			return boolfn.Val{}, false
		}
		rs, err := ev.Call(f, []boolfn.Val{boolfn.Opaque("rec"), in})
		if err != nil || len(rs) != 1 || rs[0].Kind != boolfn.KBits || len(rs[0].Bits) != 1 {
			if err == nil {
				err = fmt.Errorf("unexpected result shape")
			}
			errs[k] = err
			return
		}
		got := m.Not(rs[0].Bits[0])
		var want int
		if gerr := boolfn.Guard(func() {
			is := func(i int, v byte) int {
				eq := 1
				for b := 0; b < 8; b++ {
					bit := in.Elems[i][b]
					if (v>>uint(b))&1 == 0 {
						bit = m.Not(bit)
					}
					eq = m.And(eq, bit)
				}
				return eq
			}
			sp := make([]int, L)
			live := make([]int, L+1) // live[i]: no '#' in [0,i)
			live[0] = 1
			for i := 0; i < L; i++ {
				sp[i] = m.Or(is(i, ' '), is(i, '\t'))
				live[i+1] = m.And(live[i], m.Not(is(i, '#')))
			}
			// isField(i,j): [i,j) is a maximal run of field bytes before the comment
			isField := func(i, j int) int {
				r := live[j]
				for k := i; k < j && r != 0; k++ {
					r = m.And(r, m.Not(sp[k]))
				}
				if i > 0 {
					r = m.And(r, sp[i-1])
				}
				if j < L {
					r = m.And(r, m.Or(sp[j], is(j, '#')))
				}
				return r
			}
			want = 0
			for i := 0; i < L; i++ {
				lead := 1
				for k := 0; k < i; k++ {
					lead = m.And(lead, sp[k])
				}
				if lead == 0 {
					break
				}
				for j := i + 1; j <= L; j++ {
					first := m.And(lead, isField(i, j))
					if first == 0 {
						continue
					}
					names, some := 1, 0
					for i2 := j; i2 < L; i2++ {
						for j2 := i2 + 1; j2 <= L; j2++ {
							fl := isField(i2, j2)
							if fl == 0 {
								continue
							}
							some = m.Or(some, fl)
							names = m.And(names, m.Or(m.Not(fl), winVar(1, i2, j2)))
						}
					}
					want = m.Or(want, m.And(m.And(first, winVar(0, i, j)), m.And(some, names)))
				}
			}
		}); gerr != nil {
			errs[k] = gerr
			return
		}
		if got != want {
			d := m.Xor(got, want)
			kind := "rejected though it is an address followed by names"
			if x := m.And(got, m.Not(want)); x != 0 {
				d, kind = x, "accepted though it is not an address field followed by at least one name field, all valid"
			}
			w := m.Witness(d)
			var ws []string
			for kind2, nm := range []string{"address", "name"} {
				for lo := 0; lo < L; lo++ {
					for hi := lo + 1; hi <= L; hi++ {
						if w[base+kind2*4096+lo*64+hi] {
							ws = append(ws, sprintf("%s[%d:%d]", nm, lo, hi))
						}
					}
				}
			}
			bads[k] = sprintf("the %d-byte line %s (with the delegate parsers accepting %v) is %s", L, witnessName(w, L, L), ws, kind)
		}
	})
	for k, e := range errs {
		if e != nil {
			if os.Getenv("GSA_DBG") != "" {
				fmt.Fprintln(os.Stderr, "exact record grammar: L =", lengths[k], e)
			}
			c.L.Notef("Record.UnmarshalText is outside the exact evaluator's grammar at length %d (%v)", lengths[k], e)
			return false
		}
	}
	c.L.Floor(rule, 1)
	what := "UnmarshalText accepts exactly: comment cut, space/tab separated fields, an address then one or more names"
	for _, b := range bads {
		if b != "" {
			c.check(false, rule, f, what, nil, b)
			return true
		}
	}
	c.check(true, rule, f, what, nil, sprintf("equal as Boolean functions of the bytes and of the delegate parsers' verdicts per window, for every line of %v bytes", lengths))
	return true
}
