package rules

import (
	"fmt"
	"os"

	"golang.org/x/tools/go/ssa"

	"verif/sa/boolfn"
	"verif/sa/core"
)

// c12ConvExact decides IPToAddr and IPToAddrNoMapped exactly.  The functions
// are evaluated by the BDD engine on a net.IP of symbolic bytes in each of the
// scenarios that To4 / To16 distinguish (4 bytes; 16 bytes with and without the
// IPv4-mapped prefix — the prefix is assumed resp. excluded as a condition on
// the bytes; 5 bytes; nil), for both families, with net.IP.To4/To16,
// netip.AddrFromSlice / AddrFrom4 / AddrFrom16 / Unmap given their meaning by
// the model of netipmodel.go.  The result must be, bit for bit:
//
//	IPToAddr(ip, v4):     the IPv4 address of the 4 bytes (of the last 4 of a mapped ip); else an error
//	IPToAddr(ip, v6):     the IPv6 address of the 16 bytes (a 4-byte ip in its mapped form); else an error
//	IPToAddrNoMapped(ip): IPv4 for a 4-byte or mapped ip, IPv6 for any other 16 bytes; else an error
func c12ConvExact(c *Ctx) (okExact bool) {
	defer recoverUnsupported(c, &okExact, "c12ConvExact")
	const rule = "C12.conv-exact"
	to := c.fn("netutil", "IPToAddr")
	nm := c.fn("netutil", "IPToAddrNoMapped")
	if to == nil || nm == nil || len(to.Params) != 2 || len(nm.Params) != 1 {
		return false
	}
	type scenario struct {
		name string
		n    int
		kind string // "4", "mapped", "6", "bad", "nil"
	}
	scs := []scenario{
		{"a 4-byte ip", 4, "4"},
		{"a 16-byte IPv4-mapped ip", 16, "mapped"},
		{"a 16-byte ip without the mapped prefix", 16, "6"},
		{"a 5-byte slice", 5, "bad"},
		{"a 17-byte slice", 17, "bad"},
		{"a 32-byte slice", 32, "bad"},
		{"a nil ip", 0, "nil"},
	}
	type target struct {
		f    *ssa.Function
		fam  int // 0: NoMapped
		name string
	}
	tgs := []target{{to, 1, "IPToAddr(ip, IPv4)"}, {to, 2, "IPToAddr(ip, IPv6)"}, {nm, 0, "IPToAddrNoMapped(ip)"}}
	type verdict struct {
		ok        bool
		what, why string
	}
	var out []verdict
	for _, tg := range tgs {
		for _, sc := range scs {
			m := boolfn.New()
			ev := &boolfn.Eval{M: m, Entered: map[string]bool{}, ErrorsAsBits: true, ForcePath: true, Steps: 200000}
			ev.InScope = core.InModule
			model := &netipModel{ev: ev, fresh: 1 << 20}
			in := ev.StringInput(0, sc.n)
			var ipArg boolfn.Val = in
			if sc.kind == "nil" {
				ipArg = boolfn.Nil()
			}
			// the mapped prefix as a condition on the bytes
			mappedCond := 0
			if sc.n == 16 {
				mappedCond = 1
				for i := 0; i < 12; i++ {
					want := 0
					if i >= 10 {
						want = 0xff
					}
					for b := 0; b < 8; b++ {
						bit := in.Elems[i][b]
						if (want>>uint(b))&1 == 0 {
							bit = m.Not(bit)
						}
						mappedCond = m.And(mappedCond, bit)
					}
				}
			}
			switch sc.kind {
			case "mapped":
				ev.Assume = mappedCond
			case "6":
				ev.Assume = m.Not(mappedCond)
			}
			mapped16 := func(v4 [][]int) boolfn.Val {
				el := zeroBytes(10)
				el = append(el, ev.Const(0xff, 8, false).Bits, ev.Const(0xff, 8, false).Bits)
				el = append(el, v4...)
				return boolfn.Bytes(el)
			}
			lenOf := func(v boolfn.Val) int {
				if v.Kind == boolfn.KSlice {
					return v.Hi - v.Lo
				}
				return -1
			}
			ev.OnCall = func(name string, call *ssa.CallCommon, args []boolfn.Val) (boolfn.Val, bool) {
				switch name {
				case "(net.IP).To4":
					switch lenOf(args[0]) {
					case 4:
						return args[0], true
					case 16:
						if sc.kind == "mapped" {
							return boolfn.Window(args[0], 12, 16), true
						}
						return boolfn.Nil(), true
					}
					return boolfn.Nil(), true
				case "(net.IP).To16":
					switch lenOf(args[0]) {
					case 4:
						return mapped16(args[0].Elems[args[0].Lo:args[0].Hi]), true
					case 16:
						return args[0], true
					}
					return boolfn.Nil(), true
				case "net/netip.AddrFromSlice":
					switch lenOf(args[0]) {
					case 4:
						a, _ := model.OnCall("net/netip.AddrFrom4", call, []boolfn.Val{{Kind: boolfn.KArray, Elems: args[0].Elems[args[0].Lo:args[0].Hi]}})
						return boolfn.Val{Kind: boolfn.KTuple, Tuple: []boolfn.Val{a, boolfn.BoolVal(1)}}, true
					case 16:
						a, _ := model.OnCall("net/netip.AddrFrom16", call, []boolfn.Val{{Kind: boolfn.KArray, Elems: args[0].Elems[args[0].Lo:args[0].Hi]}})
						return boolfn.Val{Kind: boolfn.KTuple, Tuple: []boolfn.Val{a, boolfn.BoolVal(1)}}, true
					}
					return boolfn.Val{Kind: boolfn.KTuple, Tuple: []boolfn.Val{{Kind: boolfn.KArray, Elems: append(zeroBytes(16), make([]int, 8))}, boolfn.BoolVal(0)}}, true
				case "(net/netip.Addr).Unmap":
					if args[0].Kind == boolfn.KArray && len(args[0].Elems) == 17 {
						// exact under the scenario: only a mapped 16-byte address changes
						a := args[0]
						isMapped := m.And(a.Elems[16][1], mappedPrefix(m, a.Elems))
						el := make([][]int, 17)
						for i := 0; i < 17; i++ {
							el[i] = make([]int, 8)
							for b := 0; b < 8; b++ {
								un := 0
								switch {
								case i < 4:
									un = a.Elems[12+i][b]
								case i == 16 && b == 0:
									un = 1
								}
								el[i][b] = m.Ite(isMapped, un, a.Elems[i][b])
							}
						}
						return boolfn.Val{Kind: boolfn.KArray, Elems: el}, true
					}
				case "(net/netip.Addr).Is4In6":
					if args[0].Kind == boolfn.KArray && len(args[0].Elems) == 17 {
						return boolfn.BoolVal(m.And(args[0].Elems[16][1], mappedPrefix(m, args[0].Elems))), true
					}
				}
				if r, ok := model.OnCall(name, call, args); ok {
					return r, true
				}
				// anything that only builds an error value
				if res := call.Signature().Results(); res.Len() == 1 && res.At(0).Type().String() == "error" {
					return boolfn.BoolVal(1), true
				}
				if name == "fmt.Sprintf" || name == "(net.IP).String" {
					return boolfn.Str("?"), true
				}
				return boolfn.Val{}, false
			}
			args := []boolfn.Val{ipArg}
			if tg.fam != 0 {
				args = append(args, ev.Const(int64(tg.fam), 16, false))
			}
			rs, err := ev.Call(tg.f, args)
			if err != nil || len(rs) != 2 || rs[1].Kind != boolfn.KBits || len(rs[1].Bits) != 1 {
				if os.Getenv("GSA_DBG") != "" {
					fmt.Fprintln(os.Stderr, "exact conversions:", tg.name, sc.name, err)
				}
				c.L.Notef("%s is outside the exact evaluator's grammar for %s (%v); structural rules used instead", tg.name, sc.name, err)
				return false
			}
			assume := 1
			if ev.Assume != 0 {
				assume = ev.Assume
			}
			// the expected result
			var want [][]int // nil: error
			v4of := func(bs [][]int) [][]int {
				el := append(append([][]int(nil), bs...), zeroBytes(12)...)
				return append(el, model.flag(1, 0))
			}
			v6of := func(bs [][]int) [][]int {
				return append(append([][]int(nil), bs...), model.flag(0, 1))
			}
			switch {
			case sc.kind == "bad" || sc.kind == "nil":
			case tg.fam == 1 || tg.fam == 0:
				switch sc.kind {
				case "4":
					want = v4of(in.Elems)
				case "mapped":
					want = v4of(in.Elems[12:16])
				case "6":
					if tg.fam == 0 {
						want = v6of(in.Elems)
					}
				}
			case tg.fam == 2:
				if sc.kind == "4" {
					want = v6of(mapped16(in.Elems).Elems)
				} else {
					want = v6of(in.Elems)
				}
			}
			what := tg.name + " for " + sc.name
			errBit := rs[1].Bits[0]
			if want == nil {
				out = append(out, verdict{m.And(assume, m.Not(errBit)) == 0, what, "an input that is no address of the family is rejected"})
				continue
			}
			if d := m.And(assume, errBit); d != 0 {
				out = append(out, verdict{false, what, "rejected for the ip " + witnessIP(m.Witness(d), sc.n)})
				continue
			}
			ok, why := true, "same family, same bytes, for every value of the bytes"
			if rs[0].Kind != boolfn.KArray || len(rs[0].Elems) != 17 {
				ok, why = false, "the result is not an address"
			} else {
			cmp:
				for i := 0; i < 17; i++ {
					for b := 0; b < 8; b++ {
						if i == 16 && b > 1 {
							continue
						}
						if d := m.And(assume, m.Xor(rs[0].Elems[i][b], want[i][b])); d != 0 {
							ok = false
							if i == 16 {
								why = "wrong family for the ip " + witnessIP(m.Witness(d), sc.n)
							} else {
								why = sprintf("byte %d of the result differs for the ip %s", i, witnessIP(m.Witness(d), sc.n))
							}
							break cmp
						}
					}
				}
			}
			out = append(out, verdict{ok, what, why})
		}
	}
	c.L.Floor(rule, len(out))
	for _, v := range out {
		c.check(v.ok, rule, to, v.what, nil, v.why)
	}
	return true
}

// mappedPrefix: the first 12 bytes are ::ffff:0:0/96.
func mappedPrefix(m *boolfn.BDD, el [][]int) int {
	r := 1
	for i := 0; i < 12; i++ {
		want := 0
		if i >= 10 {
			want = 0xff
		}
		for b := 0; b < 8; b++ {
			bit := el[i][b]
			if (want>>uint(b))&1 == 0 {
				bit = m.Not(bit)
			}
			r = m.And(r, bit)
		}
	}
	return r
}
