package rules

import (
	"go/token"
	"go/types"
	"strings"

	"golang.org/x/tools/go/ssa"

	"verif/sa/boolfn"
	"verif/sa/core"
)

func init() {
	register(&Property{
		ID:        "C18",
		Level:     "other",
		PerConfig: true,
		Explanation: "Structural necessary conditions of the service lifecycle, decided on SSA/CFG for every build configuration: SignalHandler (R1) shutdown is called only under " +
			"IsShutdownSignal(sig) for the received signal, other signals only log and loop, Handle returns shutdown's status; (R2) shutdown is a descending index loop over h.services from " +
			"len-1 to 0 with exactly one Shutdown per iteration, no exit other than the loop test, status starts as success and can only turn into failure; (R3) every Shutdown call runs inside " +
			"a function that recovers a panic into a non-nil error without clobbering a returned error, so a panicking service neither stops the loop nor yields success. RefreshWorker (R4) in the " +
			"timer case exactly one refresh, its error handed to the ErrorHandler exactly once iff non-nil, and every back edge recomputes the delay from schedule.UntilNext(clock.Now()); the done " +
			"case returns; refresh derives its context from the constructor, defers the cancel and calls Refresh once; Shutdown closes done before the optional, flag-guarded final refresh whose error " +
			"is returned wrapped; nothing but the RefreshOnShutdown flag decides whether the final refresh happens (no other guard, no flag-set path around it). Not decided: timing against a real clock.",
		Technique: "CFG path event counting, loop-shape recognition, guard dominance, recover-path dataflow on go/ssa",
		Note:      "Trusted: go/ssa, Go's defer/recover semantics, select semantics.",
		DesignRef: "DESIGN.md section 4, C18",
		Run:       runC18,
	})
}

func runC18(c *Ctx) {
	c.L.Trust("go/types + go/ssa", "defer/recover semantics: a deferred function that recovers makes the enclosing function return its named results")
	c.L.Floor("C18.signal.filter", 2)
	c.L.Floor("C18.shutdown.loop", 4)
	c.L.Floor("C18.shutdown.status", 2)
	c.L.Floor("C18.shutdown.panic-isolation", 3)
	c.L.Floor("C18.refresh.loop", 6)
	c.L.Floor("C18.refresh.context", 2)
	c.L.Floor("C18.refresh.shutdown", 4)

	handle := c.fn("service", "SignalHandler.Handle")
	shut := c.fn("service", "SignalHandler.shutdown")
	if handle != nil && shut != nil {
		c18Signal(c, handle, shut)
	}
	if shut != nil {
		c18ShutdownLoop(c, shut)
	}
	c18Registry(c)
	c18Refresh(c)
	c18SignalSet(c)
}

// c18Registry: the list of registered services is owned by the handler: it is
// only ever extended by append(h.services, ...), or set to a fresh / nil slice
// — never aliased to a slice the caller keeps (a variadic argument is the
// caller's slice when it was spread with `svcs...`).
func c18Registry(c *Ctx) {
	c.L.Floor("C18.registry", 1)
	n := 0
	for _, f := range c.P.Funcs("service") {
		core.EachInstr(f, func(in ssa.Instruction) {
			st, ok := in.(*ssa.Store)
			if !ok {
				return
			}
			fa, ok := st.Addr.(*ssa.FieldAddr)
			if !ok || core.NamedOf(fa.X.Type()) != "SignalHandler" || core.FieldName(fa) != "services" {
				return
			}
			n++
			okV, why := false, "the stored value is "+core.Describe(st.Val)
			switch x := st.Val.(type) {
			case *ssa.Call:
				if b, isB := x.Call.Value.(*ssa.Builtin); isB && b.Name() == "append" {
					if name, base, isF := core.IsLoadOfField(x.Call.Args[0]); isF && name == "services" && base == fa.X {
						okV, why = true, "append(h.services, ...)"
					}
				}
				if strings.HasPrefix(core.CalleeName(&x.Call), "slices.Clone") {
					okV, why = true, "a clone"
				}
			case *ssa.Const:
				okV, why = x.Value == nil, "nil"
			case *ssa.MakeSlice:
				okV, why = true, "a fresh slice"
			case *ssa.Slice:
				if _, isAl := x.X.(*ssa.Alloc); isAl {
					okV, why = true, "a composite literal"
				}
			}
			c.check(okV, "C18.registry", f, "h.services is extended by append or set to a fresh slice", st,
				why+"; a stored caller-owned slice changes under the handler when the caller reuses it: services are shut down twice or never")
		})
	}
	if n == 0 {
		c.undecided("C18.registry", nil, "stores to SignalHandler.services", nil, "none found")
	}
}

func c18Signal(c *Ctx, handle, shut *ssa.Function) {
	// who calls shutdown
	n := 0
	for _, f := range c.P.Funcs("service") {
		for _, ci := range core.AllCalls(f) {
			if ci.Common().StaticCallee() != shut {
				continue
			}
			n++
			call, ok := ci.(*ssa.Call)
			if f != handle || !ok {
				c.check(false, "C18.signal.filter", f, "call of shutdown", ci, "shutdown may be started only by Handle on a shutdown signal")
				continue
			}
			// guarded by IsShutdownSignal(received signal)
			okG := false
			for _, g := range core.GuardsOf(call) {
				gc, ok := g.Cond.(*ssa.Call)
				if !ok || !g.Truth || !strings.HasSuffix(core.CalleeName(&gc.Call), "/osutil.IsShutdownSignal") {
					continue
				}
				if ex, ok := gc.Call.Args[0].(*ssa.Extract); ok && ex.Index == 0 {
					if rv, ok := ex.Tuple.(*ssa.UnOp); ok && rv.Op == token.ARROW {
						if name, base, isF := core.IsLoadOfField(rv.X); isF && name == "signal" && base == handle.Params[0] {
							okG = true
							// the false edge returns to the receive without other effects than logging
							iff := g.If
							fb := iff.Block().Succs[1]
							c.check(fb == rv.Block(), "C18.signal.filter", handle, "a non-shutdown signal goes straight back to the receive", iff, "non-shutdown signals are ignored")
						}
					}
				}
			}
			c.check(okG, "C18.signal.filter", handle, "shutdown only under IsShutdownSignal(received signal)", call, "only shutdown signals stop the services")
			// the status returned is shutdown's
			okR := false
			for _, ret := range core.Returns(handle) {
				if !core.Dominates(call, ret) {
					continue
				}
				// through result cells (the helper's and Handle's own)
				var from func(v ssa.Value, depth int) bool
				from = func(v ssa.Value, depth int) bool {
					if v == ssa.Value(call) {
						return true
					}
					ld, ok := v.(*ssa.UnOp)
					if !ok || ld.Op != token.MUL || depth > 4 {
						return false
					}
					for _, r := range core.Refs(ld.X) {
						if st, ok := r.(*ssa.Store); ok && st.Addr == ld.X && core.Dominates(st, ld) && core.Dominates(call, st) && from(st.Val, depth+1) {
							return true
						}
					}
					return false
				}
				if from(ret.Results[0], 0) {
					okR = true
				}
			}
			c.check(okR, "C18.signal.filter", handle, "Handle returns the status computed by shutdown", call, "success only if shutdown reports success")
			if core.InLoop(call) {
				// returns right after: exactly once
				_ = call
			}
		}
	}
	if n == 0 {
		c.undecided("C18.signal.filter", handle, "call of shutdown", nil, "not found")
	}
}

func c18ShutdownLoop(c *Ctx, shut *ssa.Function) {
	h := shut.Params[0]
	heads := core.LoopHeads(shut)
	if len(heads) != 1 {
		c.undecided("C18.shutdown.loop", shut, "the loop over h.services", nil, sprintf("expected one loop, found %d", len(heads)))
		return
	}
	var head *ssa.BasicBlock
	for b := range heads {
		head = b
	}
	body := core.LoopBody(head)
	// index phi: starts at len(h.services)-1, step -1, continues while i >= 0
	var idx *ssa.Phi
	for _, in := range head.Instrs {
		phi, ok := in.(*ssa.Phi)
		if !ok {
			break
		}
		if k, ok := stepOf(phi); ok && k == -1 {
			idx = phi
		}
	}
	okStart := false
	if idx != nil {
		for i, e := range idx.Edges {
			if body[head.Preds[i]] {
				continue
			}
			if b, ok := e.(*ssa.BinOp); ok && b.Op == token.SUB {
				if k, isK := core.ConstInt(b.Y); isK && k == 1 {
					if lc, ok := b.X.(*ssa.Call); ok && core.CalleeName(&lc.Call) == "builtin.len" {
						if name, base, isF := core.IsLoadOfField(lc.Call.Args[0]); isF && name == "services" && base == h {
							okStart = true
						}
					}
				}
			}
		}
	}
	okTest := false
	if iff, ok := head.Instrs[len(head.Instrs)-1].(*ssa.If); ok && idx != nil {
		if b, ok := iff.Cond.(*ssa.BinOp); ok && b.X == ssa.Value(idx) {
			k, isK := core.ConstInt(b.Y)
			if isK && ((b.Op == token.GEQ && k == 0) || (b.Op == token.GTR && k == -1)) && body[head.Succs[0]] && !body[head.Succs[1]] {
				okTest = true
			}
		}
	}
	c.check(idx != nil && okStart && okTest, "C18.shutdown.loop", shut, "for i := len(h.services)-1; i >= 0; i--", nil,
		"reverse registration order over every registered service")
	// no exit from the body other than the head's test
	okNoExit := true
	var exitAt ssa.Instruction
	for b := range body {
		if b == head {
			continue
		}
		for _, s := range b.Succs {
			if !body[s] {
				okNoExit, exitAt = false, b.Instrs[len(b.Instrs)-1]
			}
		}
		if _, isRet := b.Instrs[len(b.Instrs)-1].(*ssa.Return); isRet {
			okNoExit, exitAt = false, b.Instrs[len(b.Instrs)-1]
		}
	}
	c.check(okNoExit, "C18.shutdown.loop", shut, "no break / return inside the loop", exitAt, "shutdown continues past services that return errors")
	// exactly one Shutdown of h.services[i] per iteration
	isShutdownOf := func(in ssa.Instruction) (ssa.Value, bool) {
		call, ok := in.(*ssa.Call)
		if !ok {
			return nil, false
		}
		if call.Call.IsInvoke() && call.Call.Method.Name() == "Shutdown" {
			return call.Call.Value, true
		}
		if cal := call.Call.StaticCallee(); cal != nil && core.InModule(cal) {
			// helper that invokes Shutdown on one of its parameters exactly once
			for i, p := range cal.Params {
				cnt := 0
				for _, ci := range core.AllCalls(cal) {
					if ci.Common().IsInvoke() && ci.Common().Method.Name() == "Shutdown" && ci.Common().Value == ssa.Value(p) {
						cnt++
					}
				}
				if cnt == 1 && i < len(call.Call.Args) {
					return call.Call.Args[i], true
				}
			}
		}
		return nil, false
	}
	var sdCalls []*ssa.Call
	for b := range body {
		for _, in := range b.Instrs {
			if svc, ok := isShutdownOf(in); ok {
				call := in.(*ssa.Call)
				sdCalls = append(sdCalls, call)
				okSvc := false
				if ld, ok := svc.(*ssa.UnOp); ok && ld.Op == token.MUL {
					if ia, ok := ld.X.(*ssa.IndexAddr); ok && ia.Index == ssa.Value(idx) {
						if name, base, isF := core.IsLoadOfField(ia.X); isF && name == "services" && base == h {
							okSvc = true
						}
					}
				}
				c.check(okSvc, "C18.shutdown.loop", shut, "the service shut down is h.services[i]", call, "each registered service, by position")
			}
		}
	}
	for _, p := range head.Preds {
		if !body[p] {
			continue
		}
		mn, mx, ok := core.CountOnPaths(shut, head.Instrs[len(head.Instrs)-1], p.Instrs[len(p.Instrs)-1], func(in ssa.Instruction) bool { _, ok := isShutdownOf(in); return ok })
		c.check(ok && mn == 1 && mx == 1, "C18.shutdown.loop", shut, "exactly one Shutdown per iteration", p.Instrs[len(p.Instrs)-1], sprintf("Shutdown calls per iteration: min %d max %d", mn, mx))
	}
	// status phi
	var status *ssa.Phi
	for _, ret := range core.Returns(shut) {
		if phi, ok := ret.Results[0].(*ssa.Phi); ok && phi.Block() == head {
			status = phi
		}
	}
	if status == nil {
		c.undecided("C18.shutdown.status", shut, "status accumulator", nil, "the returned status is not a loop-carried value")
		return
	}
	okInit := false
	for i, e := range status.Edges {
		if !body[head.Preds[i]] {
			if k, isK := core.ConstInt(e); isK && k == 0 {
				okInit = true
			}
		}
	}
	c.check(okInit, "C18.shutdown.status", shut, "status starts as ExitCodeSuccess", nil, "zero services shut down successfully")
	// every back-edge value is the accumulator itself or a non-zero constant set on the error path
	okMono, okFail := true, false
	var walk func(v ssa.Value, seen map[ssa.Value]bool)
	walk = func(v ssa.Value, seen map[ssa.Value]bool) {
		if seen[v] {
			return
		}
		seen[v] = true
		switch x := v.(type) {
		case *ssa.Phi:
			if x == status {
				return
			}
			for i, e := range x.Edges {
				if k, isK := core.ConstInt(e); isK {
					if k == 0 {
						okMono = false
					} else {
						// the failure constant must come from the err != nil path of a Shutdown call
						from := x.Block().Preds[i]
						g := false
						for _, sc := range sdCalls {
							if guardedNonNilErrBlock(from, sc) {
								g = true
							}
						}
						if g {
							okFail = true
						}
					}
					continue
				}
				walk(e, seen)
			}
		case *ssa.Const:
			if k, _ := core.ConstInt(x); k == 0 {
				okMono = false
			}
		default:
			okMono = false
		}
	}
	for i, e := range status.Edges {
		if body[head.Preds[i]] {
			walk(e, map[ssa.Value]bool{})
		}
	}
	c.check(okMono, "C18.shutdown.status", shut, "status never goes back to success", nil, "once a service failed the result stays a failure")
	c.check(okFail, "C18.shutdown.status", shut, "status becomes a failure on every err != nil path", nil, "an error from any service makes the result a failure")

	// R3 panic isolation
	for _, sc := range sdCalls {
		cal := sc.Call.StaticCallee()
		if sc.Call.IsInvoke() || cal == nil {
			c.check(false, "C18.shutdown.panic-isolation", shut, "Shutdown is invoked inside a recovering helper", sc,
				"a panic in a service's Shutdown unwinds the loop: the remaining services are skipped and Handle's deferred recover returns the zero status, i.e. success")
			continue
		}
		c.L.Saw(core.FuncName(cal))
		c18RecoverHelper(c, cal)
	}
}

// guardedNonNilErrBlock: block b executes only when the call's error result is non-nil.
func guardedNonNilErrBlock(b *ssa.BasicBlock, call *ssa.Call) bool {
	gs := core.Guards(b)
	// include the edge into b itself: if b has a single predecessor ending in If
	if len(b.Preds) == 1 {
		if iff, ok := b.Preds[0].Instrs[len(b.Preds[0].Instrs)-1].(*ssa.If); ok {
			gs = append(gs, core.Guard{Cond: iff.Cond, Truth: b.Preds[0].Succs[0] == b, If: iff})
		}
	}
	for _, g := range gs {
		cond, truth := core.StripNot(g.Cond, g.Truth)
		bo, ok := cond.(*ssa.BinOp)
		if !ok || (bo.Op != token.EQL && bo.Op != token.NEQ) {
			continue
		}
		if !((bo.X == ssa.Value(call) && core.IsNilConst(bo.Y)) || (bo.Y == ssa.Value(call) && core.IsNilConst(bo.X))) {
			continue
		}
		if ((bo.Op == token.EQL) == truth) == false {
			return true
		}
	}
	return false
}

// c18RecoverHelper: helper(ctx, s) (err error) invokes s.Shutdown once, stores
// its result in the named result, and a deferred closure overwrites the result
// only when recover() returned non-nil, with a non-nil error.
func c18RecoverHelper(c *Ctx, f *ssa.Function) {
	c.check(f.Recover != nil, "C18.shutdown.panic-isolation", f, "the helper has a recover path returning its named result", nil,
		"without a recovering deferred function the panic propagates")
	var cell *ssa.Alloc
	var inv *ssa.Call
	core.EachInstr(f, func(in ssa.Instruction) {
		if call, ok := in.(*ssa.Call); ok && call.Call.IsInvoke() && call.Call.Method.Name() == "Shutdown" {
			inv = call
			for _, r := range core.Refs(call) {
				if st, ok := r.(*ssa.Store); ok {
					cell, _ = st.Addr.(*ssa.Alloc)
				}
			}
		}
	})
	c.check(inv != nil && cell != nil, "C18.shutdown.panic-isolation", f, "Shutdown's error is stored in the named result", inv, "the ordinary error is returned as is")
	// every service is shut down: no return of the helper without the call
	// (an expired context or an earlier failure is no reason to skip a service)
	if inv != nil {
		for _, ret := range core.Returns(f) {
			if f.Recover != nil && ret.Block() == f.Recover {
				continue
			}
			mn, mx, okC := core.CountOnPaths(f, nil, ret, func(in ssa.Instruction) bool { return in == ssa.Instruction(inv) })
			c.check(okC && mn == 1 && mx == 1, "C18.shutdown.loop", f, "the helper calls s.Shutdown exactly once on every path", ret,
				sprintf("Shutdown calls on the paths to this return: min %d max %d; a path around the call leaves a registered service running", mn, mx))
		}
	}
	if cell == nil {
		return
	}
	// deferred closures capturing the cell
	found := false
	core.EachInstr(f, func(in ssa.Instruction) {
		d, ok := in.(*ssa.Defer)
		if !ok {
			return
		}
		mc, ok := d.Call.Value.(*ssa.MakeClosure)
		if !ok {
			return
		}
		cl := mc.Fn.(*ssa.Function)
		var fv *ssa.FreeVar
		for i, b := range mc.Bindings {
			if b == ssa.Value(cell) {
				fv = cl.FreeVars[i]
			}
		}
		if fv == nil {
			return
		}
		var rec *ssa.Call
		for _, ci := range core.CallsTo(cl, "builtin.recover") {
			rec = ci.(*ssa.Call)
		}
		if rec == nil {
			return
		}
		found = true
		// the deferred function must be registered before Shutdown runs
		c.check(inv != nil && core.Dominates(d, inv), "C18.shutdown.panic-isolation", f, "the recovering defer is registered before Shutdown is called", d, "otherwise the panic is not covered")
		core.EachInstr(cl, func(in2 ssa.Instruction) {
			st, ok := in2.(*ssa.Store)
			if !ok || st.Addr != ssa.Value(fv) {
				return
			}
			// guarded by recover() != nil
			okG := false
			for _, g := range core.GuardsOf(st) {
				cond, truth := core.StripNot(g.Cond, g.Truth)
				if bo, ok := cond.(*ssa.BinOp); ok && (bo.X == ssa.Value(rec) || bo.Y == ssa.Value(rec)) && (core.IsNilConst(bo.X) || core.IsNilConst(bo.Y)) {
					if (bo.Op == token.NEQ && truth) || (bo.Op == token.EQL && !truth) {
						okG = true
					}
				}
			}
			c.check(okG, "C18.shutdown.panic-isolation", cl, "the result is overwritten only when a panic was recovered", st,
				"an unconditional `err = FromRecovered(recover())` replaces the error returned by Shutdown with nil, so a failing service is reported as success")
			// the stored value derives from the recovered value (non-nil)
			okV := false
			if call, ok := st.Val.(*ssa.Call); ok {
				for _, a := range call.Call.Args {
					if a == ssa.Value(rec) {
						okV = true
					}
				}
			}
			if mi, ok := st.Val.(*ssa.MakeInterface); ok {
				_ = mi
				okV = true
			}
			c.check(okV, "C18.shutdown.panic-isolation", cl, "a recovered panic becomes a non-nil error", st, "so the status turns into a failure")
		})
	})
	c.check(found, "C18.shutdown.panic-isolation", f, "a deferred closure recovers into the named result", nil, "panic -> error")
}

func c18Refresh(c *Ctx) {
	loop := c.fn("service", "RefreshWorker.refreshInALoop")
	refresh := c.fn("service", "RefreshWorker.refresh")
	sd := c.fn("service", "RefreshWorker.Shutdown")
	if loop != nil {
		w := loop.Params[0]
		var sel *ssa.Select
		core.EachInstr(loop, func(in ssa.Instruction) {
			if s, ok := in.(*ssa.Select); ok {
				sel = s
			}
		})
		doneIdx, tickIdx := -1, -1
		var after *ssa.Call
		if sel != nil && sel.Blocking {
			for i, st := range sel.States {
				if name, base, isF := core.IsLoadOfField(st.Chan); isF && name == "done" && base == w {
					doneIdx = i
				}
				if call, ok := st.Chan.(*ssa.Call); ok && call.Call.IsInvoke() && call.Call.Method.Name() == "After" {
					tickIdx, after = i, call
				}
			}
		}
		c.check(sel != nil && len(sel.States) == 2 && doneIdx >= 0 && tickIdx >= 0 && core.InLoop(sel), "C18.refresh.loop", loop, "loop { select { <-w.done ; <-w.clock.After(waitDur) } }", sel,
			"wait for the next tick or for shutdown")
		if sel == nil || after == nil {
			return
		}
		// done case returns
		for _, ret := range core.Returns(loop) {
			if ret.Block() == loop.Recover {
				continue
			}
			idx, ok := selectBranch(ret, sel)
			c.check(ok && idx == doneIdx, "C18.refresh.loop", loop, "the done case returns", ret, "after Shutdown no more refreshes are started by the loop")
		}
		// the delay phi
		phi, _ := after.Call.Args[0].(*ssa.Phi)
		isUntilNext := func(v ssa.Value) bool {
			call, ok := v.(*ssa.Call)
			if !ok || !call.Call.IsInvoke() || call.Call.Method.Name() != "UntilNext" {
				return false
			}
			if name, base, isF := core.IsLoadOfField(call.Call.Value); !isF || name != "schedule" || base != w {
				return false
			}
			now, ok := call.Call.Args[0].(*ssa.Call)
			return ok && now.Call.IsInvoke() && now.Call.Method.Name() == "Now"
		}
		okPhi := phi != nil
		if phi == nil {
			// no loop-carried delay: the delay must be computed inside the loop,
			// i.e. anew for every wait
			if call, isC := after.Call.Args[0].(*ssa.Call); isC && isUntilNext(call) && core.InLoop(call) {
				okPhi = true
			}
		}
		if phi != nil {
			var chk func(v ssa.Value, depth int) bool
			chk = func(v ssa.Value, depth int) bool {
				if v == ssa.Value(phi) || depth > 4 {
					return false // the old delay is carried over unchanged
				}
				if p2, ok := v.(*ssa.Phi); ok {
					for _, e := range p2.Edges {
						if !chk(e, depth+1) {
							return false
						}
					}
					return true
				}
				return isUntilNext(v)
			}
			for _, e := range phi.Edges {
				if !chk(e, 0) {
					okPhi = false
				}
			}
		}
		c.check(okPhi, "C18.refresh.loop", loop, "every delay handed to clock.After is a fresh schedule.UntilNext(clock.Now())", after,
			"the schedule is consulted after each refresh, also after a failed one; a stale delay is reused otherwise")
		// refresh exactly once in the tick case, before the back edge
		head := sel.Block()
		for !core.LoopHeads(loop)[head] && head.Idom() != nil {
			head = head.Idom()
		}
		body := core.LoopBody(head)
		isRefresh := func(in ssa.Instruction) bool {
			call, ok := in.(*ssa.Call)
			return ok && refresh != nil && call.Call.StaticCallee() == refresh
		}
		isHandle := func(in ssa.Instruction) bool {
			call, ok := in.(*ssa.Call)
			if !ok || !call.Call.IsInvoke() || call.Call.Method.Name() != "Handle" {
				return false
			}
			name, base, isF := core.IsLoadOfField(call.Call.Value)
			return isF && name == "errHdlr" && base == w
		}
		var refreshCall *ssa.Call
		core.EachInstr(loop, func(in ssa.Instruction) {
			if isRefresh(in) {
				refreshCall = in.(*ssa.Call)
			}
		})
		// the wait is not skipped: every way from the loop head to a refresh
		// passes the select (where Shutdown is noticed)
		if refreshCall != nil {
			mnS, _, okS := core.CountOnPaths(loop, head.Instrs[0], refreshCall, func(in ssa.Instruction) bool { return in == ssa.Instruction(sel) })
			if head == sel.Block() {
				mnS, okS = 1, true // the select is in the head block itself
			}
			c.check(okS && mnS >= 1, "C18.refresh.loop", loop, "every refresh is preceded, in its iteration, by the select on w.done", refreshCall,
				"a path from the loop head to the refresh around the select (a fast path for a zero delay) starts refreshes after Shutdown has returned")
		}
		// "consults the schedule for the next delay after each refresh": between
		// a refresh and the next wait — to the end of the iteration, then from
		// the loop head to clock.After — the schedule is asked, with a clock
		// reading taken in that stretch too, on every path
		if refreshCall != nil {
			isUN := func(in ssa.Instruction) bool {
				call, ok := in.(*ssa.Call)
				return ok && isUntilNext(call)
			}
			isNowOfUN := func(in ssa.Instruction) bool {
				call, ok := in.(*ssa.Call)
				if !ok || !call.Call.IsInvoke() || call.Call.Method.Name() != "Now" {
					return false
				}
				for _, r := range core.Refs(call) {
					if rc, ok := r.(*ssa.Call); ok && isUntilNext(rc) {
						return true
					}
				}
				return false
			}
			for _, pred := range []func(ssa.Instruction) bool{isUN, isNowOfUN} {
				mnB, _, okB := core.CountOnPaths(loop, head.Instrs[0], after, pred)
				if after.Block() == head && !okB {
					mnB, okB = 0, true
				}
				okAfter := true
				for _, p := range head.Preds {
					if !body[p] {
						continue
					}
					mnA, _, okA := core.CountOnPaths(loop, refreshCall, p.Instrs[len(p.Instrs)-1], pred)
					if !okA || !okB || mnA+mnB < 1 {
						okAfter = false
					}
				}
				c.check(okAfter, "C18.refresh.loop", loop, "between a refresh and the next wait the schedule is asked for the delay, with a fresh clock reading", refreshCall,
					"a delay computed before a refresh that takes time is stale by the duration of that refresh")
			}
		}
		for _, p := range head.Preds {
			if !body[p] {
				continue
			}
			term := p.Instrs[len(p.Instrs)-1]
			mn, mx, ok := core.CountOnPaths(loop, sel, term, isRefresh)
			c.check(ok && mn == 1 && mx == 1, "C18.refresh.loop", loop, "exactly one refresh per elapsed interval", term, sprintf("refresh calls between the select and the back edge: min %d max %d", mn, mx))
			mn, mx, ok = core.CountOnPaths(loop, sel, term, isHandle)
			c.check(ok && mx <= 1, "C18.refresh.loop", loop, "the error handler is called at most once per refresh", term, sprintf("Handle calls per iteration: min %d max %d", mn, mx))
		}
		core.EachInstr(loop, func(in ssa.Instruction) {
			if !isHandle(in) {
				return
			}
			call := in.(*ssa.Call)
			okE := refreshCall != nil && len(call.Call.Args) == 2 && call.Call.Args[1] == ssa.Value(refreshCall) && guardedNonNilErr(call, refreshCall)
			c.check(okE, "C18.refresh.loop", loop, "errHdlr.Handle(ctx, err) iff refresh returned err != nil", call, "every refresh error reaches the handler, with that error")
		})
		if refreshCall != nil {
			// a non-nil error must reach Handle on every path: from the err != nil
			// edge to the end of the iteration exactly one Handle call
			okAll := false
			for _, r := range core.Refs(refreshCall) {
				bo, ok := r.(*ssa.BinOp)
				if !ok || (bo.Op != token.NEQ && bo.Op != token.EQL) || !(core.IsNilConst(bo.X) || core.IsNilConst(bo.Y)) {
					continue
				}
				for _, rr := range core.Refs(bo) {
					iff, ok := rr.(*ssa.If)
					if !ok {
						continue
					}
					nn := iff.Block().Succs[0]
					if bo.Op == token.EQL {
						nn = iff.Block().Succs[1]
					}
					good := true
					nlatch := 0
					for _, p := range head.Preds {
						if !body[p] {
							continue
						}
						term := p.Instrs[len(p.Instrs)-1]
						var mn, mx int
						var okP bool
						if nn == p && false {
							continue
						}
						// count from the start of the non-nil successor
						first := nn.Instrs[0]
						mn, mx, okP = core.CountOnPaths(loop, first, term, isHandle)
						if !okP {
							continue
						}
						nlatch++
						if isHandle(first) {
							mn, mx = mn+1, mx+1
						}
						if mn != 1 || mx != 1 {
							good = false
						}
					}
					if good && nlatch > 0 {
						okAll = true
					}
				}
			}
			c.check(okAll, "C18.refresh.loop", loop, "the err != nil branch calls the handler", refreshCall, "exactly once per failed refresh")
		}
	}
	if refresh != nil {
		w := refresh.Params[0]
		var newCall, refr *ssa.Call
		core.EachInstr(refresh, func(in ssa.Instruction) {
			call, ok := in.(*ssa.Call)
			if !ok || !call.Call.IsInvoke() {
				return
			}
			switch call.Call.Method.Name() {
			case "New":
				if name, base, isF := core.IsLoadOfField(call.Call.Value); isF && name == "contextCons" && base == w {
					newCall = call
				}
			case "Refresh":
				refr = call
			}
		})
		okCtx := false
		if newCall != nil && refr != nil {
			if ex, ok := refr.Call.Args[0].(*ssa.Extract); ok && ex.Tuple == ssa.Value(newCall) && ex.Index == 0 {
				okCtx = true
			}
		}
		c.check(okCtx, "C18.refresh.context", refresh, "Refresh receives the context from contextCons.New(ctx)", refr, "per-refresh context from the constructor")
		// every call of refresh performs the refresh: exactly one Refresh on every
		// path to a return (a guard that skips it — "already running", "too soon" —
		// drops a scheduled or the final refresh and returns nil for it)
		if refr != nil {
			isRefr := func(in ssa.Instruction) bool { return in == ssa.Instruction(refr) }
			for _, ret := range core.Returns(refresh) {
				if ret.Block() == refresh.Recover {
					continue
				}
				mn, mx, ok := core.CountOnPaths(refresh, nil, ret, isRefr)
				c.check(ok && mn == 1 && mx == 1, "C18.refresh.context", refresh, "exactly one Refresh on every path through refresh", ret,
					sprintf("min %d max %d: a path around the call reports success for a refresh that did not happen", mn, mx))
			}
		}
		okDefer := false
		core.EachInstr(refresh, func(in ssa.Instruction) {
			if d, ok := in.(*ssa.Defer); ok && newCall != nil {
				if ex, ok := d.Call.Value.(*ssa.Extract); ok && ex.Tuple == ssa.Value(newCall) && ex.Index == 1 {
					okDefer = true
				}
			}
		})
		c.check(okDefer, "C18.refresh.context", refresh, "the context's cancel function is deferred", nil, "resources of the per-refresh context are released")
	}
	if sd != nil {
		w := sd.Params[0]
		var cl, rf *ssa.Call
		core.EachInstr(sd, func(in ssa.Instruction) {
			call, ok := in.(*ssa.Call)
			if !ok {
				return
			}
			if b, ok := call.Call.Value.(*ssa.Builtin); ok && b.Name() == "close" {
				if name, base, isF := core.IsLoadOfField(call.Call.Args[0]); isF && name == "done" && base == w {
					cl = call
				}
			}
			if refresh != nil && call.Call.StaticCallee() == refresh {
				rf = call
			}
		})
		c.check(cl != nil && !core.InLoop(cl) && (rf == nil || core.Dominates(cl, rf)), "C18.refresh.shutdown", sd, "close(w.done) first, on every path", cl, "the loop stops before the final refresh")
		if rf != nil {
			okFlag := false
			for _, g := range core.GuardsOf(rf) {
				cond, truth := core.StripNot(g.Cond, g.Truth)
				if name, base, isF := core.IsLoadOfField(cond); isF && name == "refrOnShutdown" && base == w && truth {
					okFlag = true
				}
			}
			c.check(okFlag, "C18.refresh.shutdown", sd, "the final refresh runs only under refrOnShutdown", rf, "a single final Refresh when RefreshOnShutdown is set")
			// ... and always under it: no other condition stands between the
			// flag and the refresh, and a return that the refresh did not
			// precede happens only with the flag unset.
			extra := ""
			isFlag := func(v ssa.Value) bool {
				name, base, isF := core.IsLoadOfField(v)
				return isF && name == "refrOnShutdown" && base == w
			}
			for _, g := range core.GuardsOf(rf) {
				cond, _ := core.StripNot(g.Cond, g.Truth)
				if !isFlag(cond) {
					extra = "the refresh is also guarded by " + core.Describe(cond)
				}
			}
			// paths from the entry on which every test of the (immutable) flag
			// finds it set, cut at the refresh
			seen := map[*ssa.BasicBlock]bool{}
			var dfs func(b *ssa.BasicBlock)
			dfs = func(b *ssa.BasicBlock) {
				if seen[b] {
					return
				}
				seen[b] = true
				for _, in := range b.Instrs {
					if in == ssa.Instruction(rf) {
						return
					}
					if ret, isRet := in.(*ssa.Return); isRet && extra == "" {
						extra = "the return at " + c.ipos(ret) + " is reachable without the refresh although refrOnShutdown is set"
					}
				}
				if iff, isIf := b.Instrs[len(b.Instrs)-1].(*ssa.If); isIf {
					cond, truth := core.StripNot(iff.Cond, true)
					if isFlag(cond) {
						if truth {
							dfs(b.Succs[0])
						} else {
							dfs(b.Succs[1])
						}
						return
					}
				}
				for _, sb := range b.Succs {
					dfs(sb)
				}
			}
			dfs(sd.Blocks[0])
			c.check(extra == "", "C18.refresh.shutdown", sd, "with refrOnShutdown set the final refresh runs on every path", rf, "nothing but the flag decides whether the final Refresh happens: "+extra)
			mn, mx, ok := 0, 0, false
			for _, ret := range core.Returns(sd) {
				a, b, k := core.CountOnPaths(sd, nil, ret, func(in ssa.Instruction) bool { return in == ssa.Instruction(rf) })
				if k {
					ok = true
					if b > mx {
						mx = b
					}
					_ = a
				}
			}
			c.check(ok && mx == 1 && mn == 0, "C18.refresh.shutdown", sd, "at most one final refresh", rf, "not in a loop")
			// its error is returned (wrapped)
			okErr := false
			sdFacts := core.Facts(sd)
			for _, ret := range core.Returns(sd) {
				for _, lf := range sdFacts.Leaves(ret.Results[0], ret) {
					if call, ok := lf.V.(*ssa.Call); ok && core.CalleeName(&call.Call) == "fmt.Errorf" && variadicHas(call.Call.Args[1], rf) && factNonNil(lf.Facts, rf) {
						okErr = true
					}
					if lf.V == ssa.Value(rf) {
						okErr = true
					}
					// errors.Annotate(err, "...: %w") of the module: nil for nil, fmt.Errorf otherwise
					if call, ok := lf.V.(*ssa.Call); ok && strings.HasSuffix(core.CalleeName(&call.Call), "golibs/errors.Annotate") && len(call.Call.Args) > 0 && call.Call.Args[0] == ssa.Value(rf) {
						okErr = true
					}
				}
			}
			c.check(okErr, "C18.refresh.shutdown", sd, "the final refresh's error is returned", rf, "Shutdown returns the error of the final Refresh")
		} else {
			c.check(false, "C18.refresh.shutdown", sd, "final refresh under refrOnShutdown", nil, "RefreshOnShutdown has no effect")
		}
	}
}

// factNonNil: the facts contain v != nil.
func factNonNil(facts []core.Fact, v ssa.Value) bool {
	for _, g := range facts {
		cond, truth := core.StripNot(g.Cond, g.Truth)
		bo, ok := cond.(*ssa.BinOp)
		if !ok || (bo.Op != token.EQL && bo.Op != token.NEQ) {
			continue
		}
		// the tested value may be a re-load of the named result the value was
		// just stored to (`err = f(); if err != nil`)
		x, y := core.LoadSource(bo.X), core.LoadSource(bo.Y)
		if !((x == v && core.IsNilConst(bo.Y)) || (y == v && core.IsNilConst(bo.X))) {
			continue
		}
		if (bo.Op == token.NEQ) == truth {
			return true
		}
	}
	return false
}

// c18SignalSet decides which signals are shutdown signals: osutil's predicate
// IsShutdownSignal is evaluated exactly on an os.Signal whose dynamic type is
// the platform's signal type and whose number is a symbolic integer, and must
// hold exactly for the signals the package subscribes to in
// NotifyShutdownSignal (its sibling: the set the handler is notified of is the
// set it shuts down on).  Skipped, with a note, where the subscribed signals
// are not constants (Windows: os.Interrupt is a variable).
func c18SignalSet(c *Ctx) {
	const rule = "C18.signal.set-exact"
	pred := c.fn("osutil", "IsShutdownSignal")
	notify := c.fn("osutil", "notifyShutdownSignal")
	if pred == nil || notify == nil || len(pred.Params) != 1 {
		return
	}
	// the subscribed signals: constants of an integer type converted to the
	// interface in the call of Notify
	var set []int64
	var sigType types.Type
	okConst := true
	n := 0
	core.EachInstr(notify, func(in ssa.Instruction) {
		mi, ok := in.(*ssa.MakeInterface)
		if !ok {
			return
		}
		n++
		k, isK := mi.X.(*ssa.Const)
		if !isK {
			okConst = false
			return
		}
		v, isInt := core.ConstInt(k)
		if !isInt {
			okConst = false
			return
		}
		set = append(set, v)
		sigType = k.Type()
	})
	if !okConst || n == 0 || sigType == nil {
		c.L.Notef("the signals subscribed to in notifyShutdownSignal are not all constants: C18.signal.set-exact not evaluated in this configuration")
		return
	}
	m := boolfn.New()
	ev := &boolfn.Eval{M: m, Entered: map[string]bool{}, ForcePath: true, Steps: 200000}
	ev.InScope = core.InModule
	in := ev.IntInput(0, 64, true)
	ev.OnTypeAssert = func(v *ssa.TypeAssert, x boolfn.Val) (boolfn.Val, bool) {
		if x.Kind != boolfn.KBits {
			return boolfn.Val{}, false
		}
		same := types.Identical(v.AssertedType, sigType)
		if types.IsInterface(v.AssertedType) {
			return boolfn.Val{}, false
		}
		val := x
		if !same {
			val = ev.Const(0, 64, true)
		}
		yes := 0
		if same {
			yes = 1
		}
		if v.CommaOk {
			return boolfn.Val{Kind: boolfn.KTuple, Tuple: []boolfn.Val{val, boolfn.BoolVal(yes)}}, true
		}
		if !same {
			return boolfn.Val{}, false // would panic
		}
		return val, true
	}
	rs, err := ev.Call(pred, []boolfn.Val{in})
	if err != nil || len(rs) != 1 || rs[0].Kind != boolfn.KBits || len(rs[0].Bits) != 1 {
		c.L.Notef("IsShutdownSignal is outside the exact evaluator's grammar (%v): C18.signal.set-exact not evaluated", err)
		return
	}
	want := 0
	for _, v := range set {
		eq := 1
		kb := ev.Const(v, 64, true).Bits
		for b := range kb {
			eq = m.And(eq, m.Not(m.Xor(in.Bits[b], kb[b])))
		}
		want = m.Or(want, eq)
	}
	c.L.Floor(rule, 1)
	what := sprintf("IsShutdownSignal(sig) <=> sig is one of the %d signals subscribed to in NotifyShutdownSignal %v", len(set), set)
	if d := m.Xor(rs[0].Bits[0], want); d != 0 {
		// a small signal number as witness where there is one
		small := d
		for b := 7; b < 64; b++ {
			small = m.And(small, m.Not(in.Bits[b]))
		}
		if small != 0 {
			d = small
		}
		w := m.Witness(d)
		var v int64
		for b := 0; b < 64; b++ {
			if w[63-b] { // IntInput numbers its variables from the high bit
				v |= 1 << uint(b)
			}
		}
		kind := "is a shutdown signal though the handler is never subscribed to it"
		if m.And(d, want) != 0 {
			kind = "is subscribed to but is not a shutdown signal"
		}
		c.check(false, rule, pred, what, nil, sprintf("signal number %d %s", v, kind))
		return
	}
	c.check(true, rule, pred, what, nil, "equal as Boolean functions of the 64 bits of the signal number (dynamic type: the platform's signal type)")
}
