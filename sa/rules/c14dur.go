package rules

import (
	"go/token"

	"golang.org/x/tools/go/ssa"

	"verif/sa/core"
)

// ---- Duration: pairing, cuts, and the guard arithmetic ----

func c14Duration(c *Ctx) {
	if m := c.fn("timeutil", "Duration.MarshalText"); m != nil {
		ok := false
		for _, ret := range core.Returns(m) {
			if cv, isCv := ret.Results[0].(*ssa.Convert); isCv {
				if call, isCall := cv.X.(*ssa.Call); isCall && core.CalleeName(&call.Call) == "("+core.ModPath+"/timeutil.Duration).String" && call.Call.Args[0] == ssa.Value(m.Params[0]) {
					ok = true
				}
			}
		}
		c.check(ok, "C14.duration.pair", m, "MarshalText == []byte(d.String())", nil, "writer")
	}
	if u := c.fn("timeutil", "Duration.UnmarshalText"); u != nil {
		var pd *ssa.Call
		for _, ci := range core.CallsTo(u, "time.ParseDuration") {
			pd = ci.(*ssa.Call)
		}
		okIn := false
		if pd != nil {
			if cv, ok := pd.Call.Args[0].(*ssa.Convert); ok && cv.X == ssa.Value(u.Params[1]) {
				okIn = true
			}
		}
		c.check(okIn, "C14.duration.pair", u, "UnmarshalText parses string(b) with time.ParseDuration", pd, "reader accepts everything time.Duration.String (and its prefixes without zero units) produces")
		okSt := false
		core.EachInstr(u, func(in ssa.Instruction) {
			st, ok := in.(*ssa.Store)
			if !ok || st.Addr != ssa.Value(u.Params[0]) {
				return
			}
			v := st.Val
			if ct, ok := v.(*ssa.ChangeType); ok {
				v = ct.X
			}
			if cv, ok := v.(*ssa.Convert); ok {
				v = cv.X
			}
			if ex, ok := v.(*ssa.Extract); ok && pd != nil && ex.Tuple == ssa.Value(pd) && ex.Index == 0 && guardedNilErr(st, extractOf(pd, 1)) {
				okSt = true
			}
		})
		c.check(okSt, "C14.duration.pair", u, "*d = Duration(parsed) only when the parse succeeded", nil, "the stored value is exactly what was parsed")
	}
	s := c.fn("timeutil", "Duration.String")
	if s == nil {
		return
	}
	// base text and cuts
	var base *ssa.Call
	for _, ci := range core.CallsTo(s, "(time.Duration).String") {
		base = ci.(*ssa.Call)
	}
	okBase := false
	if base != nil {
		v := base.Call.Args[0]
		if ct, ok := v.(*ssa.ChangeType); ok {
			v = ct.X
		}
		if cv, ok := v.(*ssa.Convert); ok {
			v = cv.X
		}
		okBase = v == ssa.Value(s.Params[0])
	}
	c.check(okBase, "C14.duration.cuts", s, "base text is time.Duration(d).String()", base, "the text is time.Duration's, possibly shortened")
	// cutExpr: the returned text is base (nil, true) or base[:len(base)-y] (y, true)
	cutExpr := func(ret *ssa.Return) (ssa.Value, bool) {
		v := ret.Results[0]
		if base != nil && v == ssa.Value(base) {
			return nil, true
		}
		sl, ok := v.(*ssa.Slice)
		if !ok || base == nil || sl.X != ssa.Value(base) || sl.Low != nil || sl.High == nil {
			return nil, false
		}
		b, ok := sl.High.(*ssa.BinOp)
		if !ok || b.Op != token.SUB {
			return nil, false
		}
		if lc, ok := b.X.(*ssa.Call); !ok || core.CalleeName(&lc.Call) != "builtin.len" || lc.Call.Args[0] != ssa.Value(base) {
			return nil, false
		}
		return b.Y, true
	}
	// cutOf evaluates the number of bytes cut with the given valuation of SSA values
	cutOf := func(ret *ssa.Return, exact func(ssa.Value) (int64, bool)) (int64, bool) {
		y, ok := cutExpr(ret)
		if !ok {
			return 0, false
		}
		if y == nil {
			return 0, true
		}
		return exact(y)
	}
	fs := core.Facts(s)
	for _, ret := range core.Returns(s) {
		y, ok := cutExpr(ret)
		var ks []int64
		if ok && y == nil {
			ks = []int64{0}
		} else if ok {
			for _, lf := range fs.Leaves(y, ret) {
				k, isK := core.ConstInt(lf.V)
				if !isK {
					ok = false
				}
				ks = append(ks, k)
			}
		}
		for _, k := range ks {
			c.check(ok && (k == 0 || k == int64(len("0s")) || k == int64(len("0m0s"))), "C14.duration.cuts", s, sprintf("returns the base text minus a suffix of %d bytes", k), ret,
				"only the redundant trailing units \"0s\" (2 bytes) and \"0m0s\" (4 bytes) may be removed")
		}
		if !ok {
			c.check(false, "C14.duration.cuts", s, "returns the base text or a prefix base[:len(base)-k] of it", ret, "only trailing units may be removed")
		}
	}
	// R3: evaluate the guards on the congruence abstraction of the second count
	c.L.Floor("C14.duration.guards", 1)
	bad, n, undec := durationGuardCheck(s, cutOf)
	switch {
	case undec != "":
		c.undecided("C14.duration.guards", s, "guards selecting the cut, evaluated on (sign, seconds mod 3600, whole-second)", nil,
			"the guards are outside the congruence domain: "+undec)
	default:
		c.check(bad == "", "C14.duration.guards", s, "guards selecting the cut, evaluated on (sign, seconds mod 3600, whole-second)", nil,
			sprintf("%d abstract classes evaluated exactly; spec: drop \"0s\" iff whole seconds, seconds part 0 and minutes part != 0; drop \"0m0s\" iff minutes part is 0 too (and d != 0). %s", n, bad))
	}
}

func extractOf(call *ssa.Call, idx int) ssa.Value {
	for _, r := range core.Refs(call) {
		if ex, ok := r.(*ssa.Extract); ok && ex.Index == idx {
			return ex
		}
	}
	return nil
}

// abstract values of the congruence evaluation
type cgKind int

const (
	cgTop   cgKind = iota
	cgNs           // the input duration in ns
	cgSec          // the whole-second count: class (sign, |x| mod 3600)
	cgSecNs        // sec * 1e9
	cgExact        // a known integer
	cgBool
	cgOther   // strings etc.
	cgNonZero // an integer known to differ from 0 (the sub-second remainder of a non-whole duration)
)

type cgVal struct {
	k cgKind
	n int64
	b bool
}

// durationGuardCheck walks String's CFG for every class of the second count
// and compares the chosen cut with the specification.
func durationGuardCheck(f *ssa.Function, cutOf func(*ssa.Return, func(ssa.Value) (int64, bool)) (int64, bool)) (bad string, classes int, undecided string) {
	const second = int64(1000000000)
	for _, sign := range []int64{-1, 0, 1} {
		for r := int64(0); r < 3600; r++ {
			if (sign == 0) != (r == 0) && sign == 0 {
				continue // zero has residue 0 only
			}
			for _, whole := range []bool{true, false} {
				if sign == 0 && !whole {
					// |d| < 1s, non-zero: sec == 0, not whole
				}
				classes++
				vals := map[ssa.Value]cgVal{f.Params[0]: {k: cgNs}}
				get := func(v ssa.Value) cgVal {
					if k, ok := core.ConstInt(v); ok {
						return cgVal{k: cgExact, n: k}
					}
					if b, ok := core.ConstBool(v); ok {
						return cgVal{k: cgBool, b: b}
					}
					if x, ok := vals[v]; ok {
						return x
					}
					return cgVal{k: cgOther}
				}
				rep := func(x cgVal) (int64, bool) { // exact integer meaning, if any
					if x.k == cgExact {
						return x.n, true
					}
					return 0, false
				}
				blk := f.Blocks[0]
				var prev *ssa.BasicBlock
				steps := 0
			walk:
				for {
					steps++
					if steps > 200 {
						return "", classes, "evaluation does not terminate (loop in String)"
					}
					for _, in := range blk.Instrs {
						switch x := in.(type) {
						case *ssa.Phi:
							for i, p := range blk.Preds {
								if p == prev {
									vals[x] = get(x.Edges[i])
								}
							}
						case *ssa.Convert:
							vals[x] = get(x.X)
						case *ssa.ChangeType:
							vals[x] = get(x.X)
						case *ssa.BinOp:
							a, b := get(x.X), get(x.Y)
							res := cgVal{k: cgTop}
							av, aok := rep(a)
							bv, bok := rep(b)
							switch {
							case a.k == cgNs && x.Op == token.QUO && bok && bv == second:
								res = cgVal{k: cgSec}
							case a.k == cgSec && x.Op == token.MUL && bok && bv == second, b.k == cgSec && x.Op == token.MUL && aok && av == second:
								res = cgVal{k: cgSecNs}
							case (a.k == cgSecNs && b.k == cgNs) || (a.k == cgNs && b.k == cgSecNs):
								switch x.Op {
								case token.EQL:
									res = cgVal{k: cgBool, b: whole}
								case token.NEQ:
									res = cgVal{k: cgBool, b: !whole}
								}
							case a.k == cgNs && x.Op == token.REM && bok && bv == second:
								// d % 1s: zero exactly for whole-second durations
								if whole {
									res = cgVal{k: cgExact, n: 0}
								} else {
									res = cgVal{k: cgNonZero}
								}
							case a.k == cgNonZero && bok && bv == 0 && (x.Op == token.EQL || x.Op == token.NEQ):
								res = cgVal{k: cgBool, b: x.Op == token.NEQ}
							case a.k == cgSec && x.Op == token.REM && bok && bv > 0 && 3600%bv == 0:
								res = cgVal{k: cgExact, n: sign * (r % bv)}
							case a.k == cgSec && bok && bv == 0:
								// comparisons of the class with zero: decided by the sign
								switch x.Op {
								case token.EQL:
									res = cgVal{k: cgBool, b: sign == 0}
								case token.NEQ:
									res = cgVal{k: cgBool, b: sign != 0}
								case token.LSS:
									res = cgVal{k: cgBool, b: sign < 0}
								case token.GTR:
									res = cgVal{k: cgBool, b: sign > 0}
								case token.LEQ:
									res = cgVal{k: cgBool, b: sign <= 0}
								case token.GEQ:
									res = cgVal{k: cgBool, b: sign >= 0}
								}
							case aok && bok:
								switch x.Op {
								case token.ADD:
									res = cgVal{k: cgExact, n: av + bv}
								case token.SUB:
									res = cgVal{k: cgExact, n: av - bv}
								case token.MUL:
									res = cgVal{k: cgExact, n: av * bv}
								case token.QUO:
									if bv != 0 {
										res = cgVal{k: cgExact, n: av / bv}
									}
								case token.REM:
									if bv != 0 {
										res = cgVal{k: cgExact, n: av % bv}
									}
								case token.EQL:
									res = cgVal{k: cgBool, b: av == bv}
								case token.NEQ:
									res = cgVal{k: cgBool, b: av != bv}
								case token.LSS:
									res = cgVal{k: cgBool, b: av < bv}
								case token.LEQ:
									res = cgVal{k: cgBool, b: av <= bv}
								case token.GTR:
									res = cgVal{k: cgBool, b: av > bv}
								case token.GEQ:
									res = cgVal{k: cgBool, b: av >= bv}
								}
							case a.k == cgOther || b.k == cgOther:
								res = cgVal{k: cgOther}
							}
							vals[x] = res
						case *ssa.UnOp:
							a := get(x.X)
							if x.Op == token.NOT && a.k == cgBool {
								vals[x] = cgVal{k: cgBool, b: !a.b}
							} else if x.Op == token.SUB && a.k == cgExact {
								vals[x] = cgVal{k: cgExact, n: -a.n}
							} else {
								vals[x] = cgVal{k: cgOther}
							}
						case *ssa.If:
							cnd := get(x.Cond)
							if cnd.k != cgBool {
								return "", classes, "a branch condition (" + core.Describe(x.Cond) + ") is not determined by the sign and the residue mod 3600 of the second count"
							}
							prev = blk
							if cnd.b {
								blk = blk.Succs[0]
							} else {
								blk = blk.Succs[1]
							}
							continue walk
						case *ssa.Jump:
							prev = blk
							blk = blk.Succs[0]
							continue walk
						case *ssa.Return:
							cut, ok := cutOf(x, func(v ssa.Value) (int64, bool) { return rep(get(v)) })
							if !ok {
								return "", classes, "unrecognised return value"
							}
							// specification
							want := int64(0)
							if sign != 0 && whole && r%60 == 0 {
								if r >= 60 {
									want = 2
								} else {
									want = 4
								}
							}
							if sign == 0 {
								want = 0
							}
							if cut != want && bad == "" {
								secs := sign * (r + 3600)
								bad = sprintf("MISMATCH for second count ≡ %d (mod 3600), sign %d, whole=%v (e.g. %d s): cuts %d bytes, specification cuts %d", r, sign, whole, secs, cut, want)
							}
							break walk
						default:
							if v, ok := in.(ssa.Value); ok {
								vals[v] = cgVal{k: cgOther}
							}
						}
					}
					break
				}
			}
		}
	}
	return bad, classes, ""
}
