package rules

import (
	"runtime/debug"
	"fmt"
	"os"
	"strings"
	"sync"

	"golang.org/x/tools/go/ssa"

	"verif/sa/boolfn"
	"verif/sa/core"
)

// c03LabelsExact decides the label validators exactly for every label of 0..66
// arbitrary bytes (the window 1..63 and both sides of it): each validator is
// evaluated by the BDD engine (path mode; `range` decodes UTF-8; deferred
// wrappers run; error values are the bit "non-nil"; replaceKind and
// errors.Unwrap keep that bit) and its verdict compared with the grammar:
//
//	domain label:   1 <= len <= 63
//	hostname label: domain label, first and last byte a letter or digit, the
//	                ones between letters, digits or '-'
//	TLD label:      hostname label with a byte that is not a digit
//	service label:  '_' followed by a hostname label, 2..16 bytes in all
//
// and the Boolean twins (IsValidHostnameLabel, isValidTLDLabel) with the same.
// Labels longer than 66 bytes are covered by the length windows (E1).
func c03LabelsExact(c *Ctx, prop string) map[string]bool {
	rule := prop + ".label-exact"
	type spec struct {
		fn      string
		boolean bool
		want    func(m *boolfn.BDD, ev *boolfn.Eval, s [][]int) int
	}
	cls := func(m *boolfn.BDD, ev *boolfn.Eval, b []int, pred func(v int) bool) int {
		r := 0
		for v := 0; v < 256; v++ {
			if !pred(v) {
				continue
			}
			eq := 1
			for k := 0; k < 8; k++ {
				bit := b[k]
				if (v>>uint(k))&1 == 0 {
					bit = m.Not(bit)
				}
				eq = m.And(eq, bit)
			}
			r = m.Or(r, eq)
		}
		return r
	}
	alnum := func(v int) bool {
		return v >= '0' && v <= '9' || v >= 'a' && v <= 'z' || v >= 'A' && v <= 'Z'
	}
	host := func(m *boolfn.BDD, ev *boolfn.Eval, s [][]int) int {
		n := len(s)
		if n < 1 || n > 63 {
			return 0
		}
		r := m.And(cls(m, ev, s[0], alnum), cls(m, ev, s[n-1], alnum))
		for i := 1; i < n-1; i++ {
			r = m.And(r, cls(m, ev, s[i], func(v int) bool { return alnum(v) || v == '-' }))
		}
		return r
	}
	tld := func(m *boolfn.BDD, ev *boolfn.Eval, s [][]int) int {
		nonDigit := 0
		for i := range s {
			nonDigit = m.Or(nonDigit, m.Not(cls(m, ev, s[i], func(v int) bool { return v >= '0' && v <= '9' })))
		}
		return m.And(host(m, ev, s), nonDigit)
	}
	specs := []spec{
		{"ValidateDomainNameLabel", false, func(m *boolfn.BDD, ev *boolfn.Eval, s [][]int) int {
			if len(s) >= 1 && len(s) <= 63 {
				return 1
			}
			return 0
		}},
		{"ValidateHostnameLabel", false, host},
		{"IsValidHostnameLabel", true, host},
		{"ValidateTLDLabel", false, tld},
		{"isValidTLDLabel", true, tld},
		{"ValidateServiceNameLabel", false, func(m *boolfn.BDD, ev *boolfn.Eval, s [][]int) int {
			if len(s) < 2 || len(s) > 16 {
				return 0
			}
			return m.And(cls(m, ev, s[0], func(v int) bool { return v == '_' }), host(m, ev, s[1:]))
		}},
	}
	decided := map[string]bool{}
	n := 0
	type job struct {
		sp  int
		L   int
		bad string
		err error
	}
	lengths := c03Lengths(c)
	var jobs []*job
	fns := make([]*ssa.Function, len(specs))
	for si, sp := range specs {
		f := c.fn("netutil", sp.fn)
		if f == nil || len(f.Params) != 1 {
			continue
		}
		fns[si] = f
		for _, L := range lengths {
			jobs = append(jobs, &job{sp: si, L: L})
		}
	}
	// every (validator, length) pair has its own BDD manager: evaluated in parallel
	parallelDo(len(jobs), func(k int) {
		jb := jobs[k]
		sp, f, L := specs[jb.sp], fns[jb.sp], jb.L
		m := boolfn.New()
		ev := &boolfn.Eval{M: m, Entered: map[string]bool{}, ErrorsAsBits: true, ForcePath: true, Steps: 2000000}
		ev.InScope = core.InModule
		ev.Override = func(name string, call *ssa.CallCommon, args []boolfn.Val) (boolfn.Val, bool) {
			switch {
			case strings.HasSuffix(name, "/netutil.replaceKind"):
				return boolfn.Opaque("void"), true
			case strings.HasSuffix(name, "/errors.Unwrap") || name == "errors.Unwrap":
				// the wrappers of this package always wrap a non-nil error (E5)
				if len(args) == 1 && args[0].Kind == boolfn.KBits {
					return args[0], true
				}
			}
			return boolfn.Val{}, false
		}
		in := ev.StringInput(0, L)
		rs, err := ev.Call(f, []boolfn.Val{in})
		if err != nil || len(rs) != 1 || rs[0].Kind != boolfn.KBits || len(rs[0].Bits) != 1 {
			if err == nil {
				err = fmt.Errorf("unexpected result shape")
			}
			jb.err = err
			return
		}
		got := rs[0].Bits[0]
		if !sp.boolean {
			got = m.Not(got) // err == nil
		}
		want := 0
		if gerr := boolfn.Guard(func() { want = sp.want(m, ev, in.Elems) }); gerr != nil {
			jb.err = gerr
			return
		}
		if got != want {
			d := m.Xor(got, want)
			kind := "rejected though the grammar accepts it"
			if x := m.And(got, m.Not(want)); x != 0 {
				d, kind = x, "accepted though the grammar rejects it"
			}
			jb.bad = sprintf("the %d-byte label %s is %s", L, witnessName(m.Witness(d), L, 24), kind)
		}
	})
	for si, sp := range specs {
		f := fns[si]
		if f == nil {
			continue
		}
		bad, unsup := "", false
		for _, jb := range jobs {
			if jb.sp != si {
				continue
			}
			if jb.err != nil && !unsup {
				unsup = true
				if os.Getenv("GSA_DBG") != "" {
					fmt.Fprintln(os.Stderr, "exact label validator:", sp.fn, "L =", jb.L, jb.err)
				}
				c.L.Notef("%s is outside the exact evaluator's grammar at length %d (%v)", sp.fn, jb.L, jb.err)
			}
			if jb.bad != "" && bad == "" {
				bad = jb.bad
			}
		}
		if unsup {
			continue
		}
		decided[sp.fn] = true
		n++
		what := sp.fn + " accepts exactly the labels of its grammar"
		if bad != "" {
			c.check(false, rule, f, what, nil, bad)
		} else {
			c.check(true, rule, f, what, nil, sprintf("equal as Boolean functions for every label of %v bytes, arbitrary bytes", lengths))
		}
	}
	if n > 0 {
		c.L.Floor(rule, n)
	}
	return decided
}

// c03Lengths: the label lengths evaluated.  The quick tier takes both sides of
// every boundary of the grammar (0/1, 2, 16/17, 63/64) and a few lengths in
// between; the thorough tier every length 0..66.
func c03Lengths(c *Ctx) []int {
	if c.Tier == "thorough" {
		out := make([]int, 67)
		for i := range out {
			out[i] = i
		}
		return append(out, 100, 255, 256, 257, 300, 319, 320)
	}
	// every length up to 20 (the service-label window ends at 16), a few in
	// the middle, and both sides of 63
	out := []int{}
	for i := 0; i <= 20; i++ {
		out = append(out, i)
	}
	out = append(out, 32)
	// ... and far beyond it (a length held in a narrow integer wraps at 256)
	return append(out, 63, 64, 100, 255, 256, 257, 300)
}

// parallelDo runs f(0..n-1) on up to 8 goroutines.
func parallelDo(n int, f func(k int)) {
	var wg sync.WaitGroup
	sem := make(chan struct{}, 8)
	var mu sync.Mutex
	var failed any
	for k := 0; k < n; k++ {
		wg.Add(1)
		sem <- struct{}{}
		go func(k int) {
			defer wg.Done()
			defer func() { <-sem }()
			defer func() {
				// a panic in a worker is re-raised in the caller, where the rule
				// runner turns it into "undecided"
				if r := recover(); r != nil {
					if os.Getenv("GSA_DBG") != "" {
						fmt.Fprintf(os.Stderr, "worker panic: %v\n%s\n", r, debug.Stack())
					}
					mu.Lock()
					failed = r
					mu.Unlock()
				}
			}()
			f(k)
		}(k)
	}
	wg.Wait()
	if failed != nil {
		panic(failed)
	}
}

// c03NamesExact decides the name-level validators exactly on short names: every
// ASCII name of 0..9 bytes without an ACE prefix (on these idna.ToASCII is the
// identity; that is the assumption under which the evaluation runs, expressed
// as a condition on the bytes).  The label validators they call are evaluated
// too, so the verdict is a Boolean function of the name's bytes, compared with
// the grammar:
//
//	domain name: non-empty; every label but the last 1..63 bytes; the last a TLD label
//	hostname:    every label but the last a hostname label; the last a TLD label
//	SRV name:    every label but the last a service label (when it starts with '_')
//	             or a hostname label; the last a TLD label
//
// (a TLD label is a hostname label with a byte that is not a digit).  This
// decides how the names are cut into labels and which validator each label
// gets, whatever the loop looks like; the 253-byte window stays with E1.
func c03NamesExact(c *Ctx, prop string) map[string]bool {
	rule := prop + ".name-exact"
	type spec struct {
		fn      string
		boolean bool
		kind    string
	}
	specs := []spec{{"ValidateDomainName", false, "domain"}, {"ValidateHostname", false, "host"}, {"ValidateSRVDomainName", false, "srv"}, {"IsValidHostname", true, "host"}}
	lengths := []int{0, 1, 2, 3, 4, 5, 6, 7, 8, 9}
	if c.Tier == "thorough" {
		lengths = append(lengths, 10, 11, 12)
	}
	if prop == "C02" {
		// only the twin pair is of interest there
		specs = []spec{specs[1], specs[3]}
	}
	// long names: five labels of 49 letters (250 bytes with their dots) and a
	// free tail, so that the total length crosses the 253-byte limit
	longPrefix := strings.Repeat(strings.Repeat("a", 49)+".", 5)
	type job struct {
		sp   int
		L    int
		long bool
		bad  string
		err  error
	}
	var jobs []*job
	fns := make([]*ssa.Function, len(specs))
	for si, sp := range specs {
		f := c.fn("netutil", sp.fn)
		if f == nil || len(f.Params) != 1 {
			continue
		}
		fns[si] = f
		for _, L := range lengths {
			jobs = append(jobs, &job{sp: si, L: L})
		}
		for n := 0; n <= 5; n++ {
			jobs = append(jobs, &job{sp: si, L: n, long: true})
		}
	}
	parallelDo(len(jobs), func(k int) {
		jb := jobs[k]
		sp, f, L := specs[jb.sp], fns[jb.sp], jb.L
		m := boolfn.New()
		ev := &boolfn.Eval{M: m, Entered: map[string]bool{}, ErrorsAsBits: true, ForcePath: true, Steps: 3000000}
		ev.InScope = core.InModule
		in := ev.StringInput(0, L)
		for i := range in.Elems {
			in.Elems[i][7] = 0 // ASCII
		}
		free := L
		if jb.long {
			el := append(append([][]int(nil), ev.ConstBytes(longPrefix)...), in.Elems...)
			L = len(el)
			in = boolfn.Val{Kind: boolfn.KSlice, Elems: el, Lo: 0, Hi: L}
		}
		is := func(i int, v byte) int {
			eq := 1
			for b := 0; b < 8; b++ {
				bit := in.Elems[i][b]
				if (v>>uint(b))&1 == 0 {
					bit = m.Not(bit)
				}
				eq = m.And(eq, bit)
			}
			return eq
		}
		// no "xn--" (in any letter case) anywhere: ToASCII leaves the name alone
		plain := 1
		for i := 0; i+4 <= L; i++ {
			ace := m.And(m.And(m.Or(is(i, 'x'), is(i, 'X')), m.Or(is(i+1, 'n'), is(i+1, 'N'))), m.And(is(i+2, '-'), is(i+3, '-')))
			plain = m.And(plain, m.Not(ace))
		}
		ev.Assume = plain
		ev.Override = func(name string, call *ssa.CallCommon, args []boolfn.Val) (boolfn.Val, bool) {
			switch {
			case strings.HasSuffix(name, "/netutil.replaceKind"):
				return boolfn.Opaque("void"), true
			case strings.HasSuffix(name, "/errors.Unwrap") || name == "errors.Unwrap":
				if len(args) == 1 && args[0].Kind == boolfn.KBits {
					return args[0], true
				}
			case name == "golang.org/x/net/idna.ToASCII":
				return boolfn.Val{Kind: boolfn.KTuple, Tuple: []boolfn.Val{args[0], boolfn.BoolVal(0)}}, true
			}
			return boolfn.Val{}, false
		}
		ev.OnCall = func(name string, call *ssa.CallCommon, args []boolfn.Val) (boolfn.Val, bool) {
			if res := call.Signature().Results(); res.Len() == 1 && res.At(0).Type().String() == "error" {
				return boolfn.BoolVal(1), true
			}
			return boolfn.Val{}, false
		}
		rs, err := ev.Call(f, []boolfn.Val{in})
		if err != nil || len(rs) != 1 || rs[0].Kind != boolfn.KBits || len(rs[0].Bits) != 1 {
			if err == nil {
				err = fmt.Errorf("unexpected result shape")
			}
			jb.err = err
			return
		}
		got := rs[0].Bits[0]
		if !sp.boolean {
			got = m.Not(got)
		}
		got = m.And(got, plain)
		want := 0
		if gerr := boolfn.Guard(func() {
			cls := func(i int, pred func(v int) bool) int {
				r := 0
				for v := 0; v < 128; v++ {
					if pred(v) {
						r = m.Or(r, is(i, byte(v)))
					}
				}
				return r
			}
			alnum := func(v int) bool { return v >= '0' && v <= '9' || v >= 'a' && v <= 'z' || v >= 'A' && v <= 'Z' }
			host := func(lo, hi int) int { // [lo,hi) is a hostname label
				if hi-lo < 1 || hi-lo > 63 {
					return 0
				}
				r := m.And(cls(lo, alnum), cls(hi-1, alnum))
				for i := lo + 1; i < hi-1; i++ {
					r = m.And(r, cls(i, func(v int) bool { return alnum(v) || v == '-' }))
				}
				return r
			}
			noDot := func(lo, hi int) int {
				r := 1
				for i := lo; i < hi; i++ {
					r = m.And(r, m.Not(is(i, '.')))
				}
				return r
			}
			tld := func(lo, hi int) int {
				nd := 0
				for i := lo; i < hi; i++ {
					nd = m.Or(nd, m.Not(cls(i, func(v int) bool { return v >= '0' && v <= '9' })))
				}
				return m.And(host(lo, hi), nd)
			}
			inner := func(lo, hi int) int { // a label that is not the last one
				switch sp.kind {
				case "domain":
					if hi-lo >= 1 && hi-lo <= 63 {
						return noDot(lo, hi)
					}
					return 0
				case "host":
					return host(lo, hi)
				}
				// srv
				if hi-lo < 1 {
					return 0
				}
				under := is(lo, '_')
				svc := 0
				if hi-lo >= 2 && hi-lo <= 16 {
					svc = host(lo+1, hi)
				}
				return m.Or(m.And(under, svc), m.And(m.Not(under), host(lo, hi)))
			}
			// ok[p]: the labels in front of position p (each closed by a dot at
			// its end) are fine; p is a label start
			ok := make([]int, L+1)
			ok[0] = 1
			for p := 0; p <= L; p++ {
				if ok[p] == 0 {
					continue
				}
				// the last label [p, L): no dot inside (host/tld classes exclude dots)
				if L > 0 {
					want = m.Or(want, m.And(ok[p], m.And(noDot(p, L), tld(p, L))))
				}
				// a label [p, q) followed by a dot at q
				for q := p; q < L; q++ {
					lab := m.And(noDot(p, q), m.And(is(q, '.'), inner(p, q)))
					if lab != 0 {
						ok[q+1] = m.Or(ok[q+1], m.And(ok[p], lab))
					}
				}
			}
			if L > 253 {
				want = 0 // longer than a domain name may be
			}
			want = m.And(want, plain)
		}); gerr != nil {
			jb.err = gerr
			return
		}
		if got != want {
			d := m.Xor(got, want)
			kind := "rejected though the grammar accepts it"
			if x := m.And(got, m.Not(want)); x != 0 {
				d, kind = x, "accepted though the grammar rejects it"
			}
			if jb.long {
				jb.bad = sprintf("the %d-byte name (five labels of 49 letters)+%s is %s", L, witnessName(m.Witness(d), free, free), kind)
			} else {
				jb.bad = sprintf("the name %s is %s", witnessName(m.Witness(d), L, L), kind)
			}
		}
	})
	decided := map[string]bool{}
	n := 0
	for si, sp := range specs {
		f := fns[si]
		if f == nil {
			continue
		}
		bad, unsup := "", false
		for _, jb := range jobs {
			if jb.sp != si {
				continue
			}
			if jb.err != nil && !unsup {
				unsup = true
				if os.Getenv("GSA_DBG") != "" {
					fmt.Fprintln(os.Stderr, "exact name validator:", sp.fn, "L =", jb.L, jb.long, jb.err)
				}
				c.L.Notef("%s is outside the exact evaluator's grammar at length %d (%v)", sp.fn, jb.L, jb.err)
			}
			if jb.bad != "" && bad == "" {
				bad = jb.bad
			}
		}
		if unsup {
			continue
		}
		decided[sp.fn] = true
		n++
		what := sp.fn + " cuts the name into labels and validates each as its grammar says"
		if bad != "" {
			c.check(false, rule, f, what, nil, bad)
		} else {
			c.check(true, rule, f, what, nil, sprintf("equal as Boolean functions for every ASCII name of %v bytes without an ACE prefix, and for the names of 250..255 bytes made of five 49-letter labels and a free tail", lengths))
		}
	}
	if n > 0 {
		c.L.Floor(rule, n)
	}
	return decided
}
