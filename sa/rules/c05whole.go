package rules

import (
	"fmt"
	"os"
	"strings"
	"time"

	"golang.org/x/tools/go/ssa"

	"verif/sa/boolfn"
	"verif/sa/core"
)

// c05EntryExact decides a whole entry point of the property —
// PrefixFromReversedAddr (extract == false) or ExtractReversedAddr — for every
// name of the listed lengths: the name is L symbolic bytes;
// ValidateDomainName is an uninterpreted predicate V of the dot-trimmed name
// (one free Boolean per window), assumed only to imply what it documents (the
// name is not empty and has no empty label); the trailing-dot trim, the
// lowering, the suffix dispatch, the label-alignment test, the index scanners
// and the family decoders are evaluated.  The verdict must be
//
//	err == nil <=> V(name) and lower(name) is  k<=4 octets + in-addr.arpa
//	               or k<=32 hex digits + ip6.arpa         (Prefix…)
//	err == nil <=> V(name) and lower(name) has such a name as a label-aligned
//	               suffix                                  (Extract…)
//
// and the returned prefix that of the (longest such) name, host bits zero.
func c05EntryExact(c *Ctx, fname string, extract bool) (okExact bool) {
	defer recoverUnsupported(c, &okExact, "c05EntryExact")
	rule := "C05.prefix.accepted-exact"
	if extract {
		rule = "C05.extract.accepted-exact"
	}
	f := c.fn("netutil", fname)
	if f == nil || len(f.Params) != 1 {
		return false
	}
	if th := lengthThresholds(f, 80, "ValidateDomainName"); len(th) > 0 {
		c.L.Notef("%s treats long inputs differently (%s): the lengths evaluated do not cover that; structural rules used instead", fname, th[0])
		return false
	}
	v4tail, v6tail := "in-addr.arpa", "ip6.arpa"
	if s, ok := strConstOf(c, "netutil", "arpaV4Suffix"); ok && len(s) > 1 {
		v4tail = s[1:]
	}
	if s, ok := strConstOf(c, "netutil", "arpaV6Suffix"); ok && len(s) > 1 {
		v6tail = s[1:]
	}
	// quick tier: every length to 22 (all label shapes of up to three octets or
	// seven nibbles, with and without the trailing dot), then the lengths at
	// which the full IPv4 and IPv6 names sit; thorough tier: every length
	var lengths []int
	for L := 0; L <= 22; L++ {
		lengths = append(lengths, L)
	}
	if extract {
		lengths = append(lengths, 26, 29, 30)
	} else {
		lengths = append(lengths, 25, 28, 29, 30, 72, 73)
	}
	if c.Tier == "thorough" {
		lengths = lengths[:0]
		top := 78
		if extract {
			top = 44
		}
		for L := 0; L <= top; L++ {
			lengths = append(lengths, L)
		}
	}
	bads := make([]string, len(lengths))
	errs := make([]error, len(lengths))
	inQuick := map[int]bool{}
	for L := 0; L <= 22; L++ {
		inQuick[L] = true
	}
	for _, L := range []int{25, 26, 28, 29, 30, 72, 73} {
		inQuick[L] = true
	}
	var evalOne func(k int)
	skipped := 0
	evalOne = func(k int) {
		L := lengths[k]
		if os.Getenv("GSA_DBG") != "" {
			t0 := time.Now()
			defer func() { fmt.Fprintln(os.Stderr, "exact", fname, "L =", L, time.Since(t0)) }()
		}
		m := boolfn.New()
		ev := &boolfn.Eval{M: m, Entered: map[string]bool{}, ErrorsAsBits: true, ForcePath: true, Steps: 6000000}
		ev.InScope = core.InModule
		model := &netipModel{ev: ev, fresh: 1 << 21}
		in := ev.StringInput(0, L)
		eqc := func(bits []int, v byte) int {
			eq := 1
			for b := 0; b < 8; b++ {
				bit := bits[b]
				if (v>>uint(b))&1 == 0 {
					bit = m.Not(bit)
				}
				eq = m.And(eq, bit)
			}
			return eq
		}
		is := func(i int, v byte) int { return eqc(in.Elems[i], v) }
		vVar := func(hi int) int { return m.Var(1<<20 + hi) }
		wellFormed := func(hi int) int {
			if hi == 0 {
				return 0
			}
			r := m.And(m.Not(is(0, '.')), m.Not(is(hi-1, '.')))
			for i := 1; i < hi; i++ {
				r = m.And(r, m.Not(m.And(is(i-1, '.'), is(i, '.'))))
			}
			return r
		}
		assume := 1
		for _, hi := range []int{L, L - 1} {
			if hi >= 0 {
				assume = m.And(assume, m.Or(m.Not(vVar(hi)), wellFormed(hi)))
			}
		}
		ev.Assume = assume
		ev.Override = func(name string, call *ssa.CallCommon, args []boolfn.Val) (boolfn.Val, bool) {
			switch {
			case strings.HasSuffix(name, "/netutil.ValidateDomainName") && len(args) == 1:
				switch a := args[0]; {
				case a.Kind == boolfn.KSlice && len(a.Elems) == L && a.Lo == 0:
					return boolfn.BoolVal(m.Not(vVar(a.Hi))), true
				case a.Kind == boolfn.KStr && a.Str == "":
					return boolfn.BoolVal(1), true
				}
				return boolfn.Val{}, false
			case strings.HasSuffix(name, "/netutil.replaceKind"):
				return boolfn.Opaque("void"), true
			}
			return boolfn.Val{}, false
		}
		ev.OnCall = func(name string, call *ssa.CallCommon, args []boolfn.Val) (boolfn.Val, bool) {
			if r, ok := model.OnCall(name, call, args); ok {
				return r, true
			}
			if res := call.Signature().Results(); res.Len() == 1 && res.At(0).Type().String() == "error" {
				return boolfn.BoolVal(1), true
			}
			return boolfn.Val{}, false
		}
		rs, err := ev.Call(f, []boolfn.Val{in})
		if err != nil || len(rs) != 2 || rs[1].Kind != boolfn.KBits || len(rs[1].Bits) != 1 {
			if err == nil {
				err = fmt.Errorf("unexpected result shape")
			}
			errs[k] = err
			return
		}
		got := m.And(m.Not(rs[1].Bits[0]), assume)
		want, want4 := 0, 0
		wantAddr := zeroBytes(16)
		wantBits := make([]int, 8)
		if gerr := boolfn.Guard(func() {
			hexbit := func(bits []int, bit int) int {
				r := 0
				for v := 0; v < 256; v++ {
					if h := hexValue(v); h >= 0 && (bit < 0 || (h>>uint(bit))&1 == 1) {
						r = m.Or(r, eqc(bits, byte(v)))
					}
				}
				return r
			}
			for _, hi := range []int{L, L - 1} {
				if hi < 0 {
					continue
				}
				sel := vVar(hi)
				if hi == L-1 {
					sel = m.And(sel, is(L-1, '.'))
				} else if L > 0 {
					sel = m.And(sel, m.Not(is(L-1, '.')))
				}
				if sel == 0 {
					continue
				}
				low := make([][]int, hi)
				for i := range low {
					up := m.And(m.Not(ev.Ult8(in.Elems[i], 'A')), m.Not(ev.Ult8c('Z', in.Elems[i])))
					nb := append([]int(nil), in.Elems[i]...)
					nb[5] = m.Or(nb[5], up)
					low[i] = nb
				}
				tailAt := func(tail string) int {
					if len(tail) > hi {
						return 0
					}
					r := 1
					for j := 0; j < len(tail); j++ {
						r = m.And(r, eqc(low[hi-len(tail)+j], tail[j]))
					}
					return r
				}
				// candidate start positions, the leftmost first: the name
				// low[p:hi] is canonical and p is label-aligned
				taken := 0 // some longer suffix already chosen
				for p := 0; p < hi; p++ {
					if !extract && p > 0 {
						break
					}
					aligned := 1
					if p > 0 {
						aligned = eqc(low[p-1], '.')
					}
					// IPv4: low[p:hi-len(v4tail)] is k labels each followed by a dot
					if n := hi - len(v4tail) - p; n >= 0 && n <= 16 {
						base := m.And(m.And(sel, aligned), tailAt(v4tail))
						emit := func(cnd int, vals [][]int) {
							cnd = m.And(cnd, m.Not(taken))
							if cnd == 0 {
								return
							}
							want = m.Or(want, cnd)
							want4 = m.Or(want4, cnd)
							kk := len(vals)
							for j := 0; j < kk; j++ {
								for b := 0; b < 8; b++ {
									wantAddr[j][b] = m.Or(wantAddr[j][b], m.And(cnd, vals[kk-1-j][b]))
								}
							}
							pl := ev.Const(int64(8*kk), 8, false).Bits
							for b := 0; b < 8; b++ {
								wantBits[b] = m.Or(wantBits[b], m.And(cnd, pl[b]))
							}
						}
						if base != 0 {
							if n == 0 {
								emit(base, nil)
							} else if n >= 2 {
								b2 := m.And(base, eqc(low[p+n-1], '.'))
								for kk := 1; kk <= 4 && b2 != 0; kk++ {
									model.labels(low, p, p+n-1, kk, func(cond int, vals [][]int) {
										emit(m.And(b2, cond), vals)
									})
								}
							}
						}
					}
					// IPv6
					if n := hi - len(v6tail) - p; n >= 0 && n <= 64 && n%2 == 0 {
						cnd := m.And(m.And(sel, aligned), tailAt(v6tail))
						kk := n / 2
						for i := 0; i < kk && cnd != 0; i++ {
							cnd = m.And(cnd, m.And(hexbit(low[p+2*i], -1), eqc(low[p+2*i+1], '.')))
						}
						cnd = m.And(cnd, m.Not(taken))
						if cnd != 0 {
							want = m.Or(want, cnd)
							for j := 0; j < kk; j++ {
								src := low[p+2*(kk-1-j)]
								for b := 0; b < 4; b++ {
									bit := b
									if j%2 == 0 {
										bit = b + 4
									}
									wantAddr[j/2][bit] = m.Or(wantAddr[j/2][bit], m.And(cnd, hexbit(src, b)))
								}
							}
							pl := ev.Const(int64(4*kk), 8, false).Bits
							for b := 0; b < 8; b++ {
								wantBits[b] = m.Or(wantBits[b], m.And(cnd, pl[b]))
							}
						}
					}
					taken = want
				}
				// p == hi is never a name (both tails are non-empty)
			}
			want = m.And(want, assume)
		}); gerr != nil {
			errs[k] = gerr
			return
		}
		if got != want {
			d := m.Xor(got, want)
			kind := "refused though it is (or ends, label-aligned, in) the reverse name of a network"
			if x := m.And(got, m.Not(want)); x != 0 {
				d, kind = x, "accepted though it is not such a name (ValidateDomainName's verdict free)"
			}
			bads[k] = sprintf("the %d-byte name %s is %s", L, witnessName(m.Witness(d), L, L), kind)
			return
		}
		if want == 0 {
			return
		}
		if rs[0].Kind != boolfn.KArray || len(rs[0].Elems) != 18 {
			bads[k] = "the result is not PrefixFrom(address, bits)"
			return
		}
		if d := m.And(want, m.Xor(rs[0].Elems[16][0], want4)); d != 0 {
			bads[k] = sprintf("for the name %s the prefix is of the wrong family", witnessName(m.Witness(d), L, L))
			return
		}
		for b := 0; b < 8; b++ {
			if d := m.And(want, m.Xor(rs[0].Elems[17][b], wantBits[b])); d != 0 {
				bads[k] = sprintf("for the name %s the prefix length is not 8 (4) per label of the longest reverse name", witnessName(m.Witness(d), L, L))
				return
			}
		}
		for j := 0; j < 16; j++ {
			for b := 0; b < 8; b++ {
				if d := m.And(want, m.Xor(rs[0].Elems[j][b], wantAddr[j][b])); d != 0 {
					bads[k] = sprintf("for the name %s byte %d of the prefix's address is not the decoded one", witnessName(m.Witness(d), L, L), j)
					return
				}
			}
		}
	}
	parallelDo(len(lengths), func(k int) {
		if gerr := boolfn.Guard(func() { evalOne(k) }); gerr != nil && errs[k] == nil {
			errs[k] = gerr
		}
	})
	for k, e := range errs {
		// the thorough tier's extra lengths are evaluated as far as the node
		// budget goes: beyond it a length is noted, not concluded from
		if e != nil && !inQuick[lengths[k]] && strings.Contains(e.Error(), "node budget") {
			c.L.Notef("%s: length %d not evaluated (%v)", fname, lengths[k], e)
			errs[k], bads[k] = nil, ""
			skipped++
		}
	}
	for k, e := range errs {
		if e != nil {
			if os.Getenv("GSA_DBG") != "" {
				fmt.Fprintln(os.Stderr, "exact", fname, ": L =", lengths[k], e)
			}
			c.L.Notef("%s is outside the exact evaluator's grammar at length %d (%v)", fname, lengths[k], e)
			return false
		}
	}
	c.L.Floor(rule, 1)
	what := fname + " accepts exactly the valid domain names that are the reverse name of a network and returns that network"
	if extract {
		what = fname + " accepts exactly the valid domain names with a reverse name as a label-aligned suffix and returns the network of the longest one"
	}
	for _, b := range bads {
		if b != "" {
			c.check(false, rule, f, what, nil, b)
			return true
		}
	}
	c.check(true, rule, f, what, nil, sprintf("equal as Boolean functions of the name's bytes and of ValidateDomainName's verdict, for %d name lengths from %d to %d (%d more beyond the node budget)", len(lengths)-skipped, lengths[0], lengths[len(lengths)-1], skipped))
	return true
}
