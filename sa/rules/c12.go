package rules

import (
	"go/token"
	"strings"

	"golang.org/x/tools/go/ssa"

	"verif/sa/boolfn"
	"verif/sa/core"
)

func init() {
	register(&Property{
		ID:    "C12",
		Level: "other",
		Explanation: "Decided exactly by abstract evaluation into BDDs (no execution): IPToAddr (both families) and IPToAddrNoMapped return the address of the same family and bytes, or an error, in every length scenario (4, 16 mapped / unmapped, 5, 17, 32 bytes, nil). Structural necessary conditions for the other conversions (and as fall-back), decided on the SSA of netutil/addrconv.go and sort.go: (R1) both results of IPMask.Size are used and every " +
			"successful return of IPNetToPrefix is guarded by a test that excludes bits == 0 (the sentinel for nil / non-contiguous masks), and the ones count is what reaches PrefixFrom; " +
			"(R2) the slice given to netip.AddrFromSlice derives from the argument only through To4/To16 and its ok result guards success; NoMapped variants delegate; " +
			"(R3) NetAddrToAddrPort rebuilds the AddrPort only from Addr()/Unmap() and Port() of the same value; (R4) the exact decision table of PreferIPv4/PreferIPv6 over the atoms " +
			"{a.IsValid, b.IsValid, fam(a), fam(b), sign of a.Compare(b)} is computed as a BDD and compared with the table in the property. " +
			"Not decided: membership equivalence prefix <=> *net.IPNet, which rests on the semantics of net and netip.",
		Technique: "exact abstract evaluation of go/ssa into ROBDDs (IPToAddr / IPToAddrNoMapped in every length scenario against a model of net/netip; the comparator's decision table) + SSA dataflow (value provenance, guard dominance) for the prefix and AddrPort conversions",
		Note:      "Trusted: go/ssa, the documented behaviour of net.IPMask.Size (0,0 for non-canonical masks), netip.AddrFromSlice, netip.Addr.Compare being a strict weak order.",
		DesignRef: "DESIGN.md section 4, C12",
		Run:       runC12,
	})
}

func runC12(c *Ctx) {
	c.L.Trust("go/types + go/ssa", "net.IPMask.Size returns (0, 0) for a mask that is not ones followed by zeros, and for nil", "netip.AddrFromSlice, netip.Addr.Compare", "/verif/sa/boolfn")
	c.L.Floor("C12.mask.size-sentinel", 1)
	c.L.Floor("C12.mask.ones-to-prefix", 1)
	c.L.Floor("C12.addr.provenance", 1)
	c.L.Floor("C12.addr.ok-guard", 1)
	c.L.Floor("C12.delegation", 3)
	c.L.Floor("C12.addrport", 1)
	c.L.Floor("C12.prefer.table", 2)

	// ---- R1: IPNetToPrefix ----
	if f := c.fn("netutil", "IPNetToPrefix"); f != nil {
		sizes := core.CallsTo(f, "(net.IPMask).Size")
		if len(sizes) == 0 {
			c.undecided("C12.mask.size-sentinel", f, "call of IPMask.Size", nil, "the mask is not measured with IPMask.Size: unrecognised form, cannot show non-contiguous masks are rejected")
		}
		for _, ci := range sizes {
			call := ci.(*ssa.Call)
			var ones, bits *ssa.Extract
			for _, r := range core.Refs(call) {
				if ex, ok := r.(*ssa.Extract); ok {
					if ex.Index == 0 {
						ones = ex
					} else {
						bits = ex
					}
				}
			}
			// mask operand is subnet.Mask
			if fname, base, ok := core.IsLoadOfField(call.Call.Args[0]); !ok || fname != "Mask" || base != f.Params[0] {
				c.check(false, "C12.mask.size-sentinel", f, "Size receiver", call, "Size must be taken of subnet.Mask")
			}
			if bits == nil {
				c.check(false, "C12.mask.size-sentinel", f, "bits result of Mask.Size()", call,
					"the second result is discarded: Size returns 0, 0 for a nil or non-contiguous mask, which then becomes a /0 prefix (widened, not rejected)")
			} else {
				// every successful return must be guarded by a test on bits that is false for bits == 0
				core.EachInstr(f, func(in ssa.Instruction) {
					ret, ok := in.(*ssa.Return)
					if !ok || len(ret.Results) != 2 {
						return
					}
					// per arriving error value: nil only on paths where bits != 0 holds
					for _, lf := range core.Facts(f).Leaves(ret.Results[1], ret) {
						if !core.IsNilConst(lf.V) {
							continue
						}
						c.check(factsExcludeZero(lf.Facts, bits), "C12.mask.size-sentinel", f, "success return guarded by bits != 0", ret,
							"a nil or non-contiguous mask (Size() == 0, 0) must be rejected on every path to a nil error")
					}
				})
			}
			if ones == nil {
				c.check(false, "C12.mask.ones-to-prefix", f, "ones result of Mask.Size()", call, "the ones count is unused")
			} else {
				for _, pf := range core.CallsTo(f, "net/netip.PrefixFrom") {
					args := pf.Common().Args
					okOnes := args[1] == ones
					okAddr := false
					if ex, isEx := args[0].(*ssa.Extract); isEx && ex.Index == 0 {
						if cl, isCall := ex.Tuple.(*ssa.Call); isCall && core.CalleeName(&cl.Call) == core.ModPath+"/netutil.IPToAddr" {
							if fname, base, ok := core.IsLoadOfField(cl.Call.Args[0]); ok && fname == "IP" && base == f.Params[0] && cl.Call.Args[1] == f.Params[1] {
								okAddr = true
							}
						}
					}
					c.check(okOnes && okAddr, "C12.mask.ones-to-prefix", f, "PrefixFrom(IPToAddr(subnet.IP, fam), ones)", pf,
						"the prefix is built from the converted subnet address and the mask's ones count")
				}
			}
		}
		// every success return returns a PrefixFrom result checked by IsValid
		core.EachInstr(f, func(in ssa.Instruction) {
			ret, ok := in.(*ssa.Return)
			if !ok || len(ret.Results) != 2 || !core.IsNilConst(ret.Results[1]) {
				return
			}
			call, isCall := ret.Results[0].(*ssa.Call)
			good := isCall && core.CalleeName(&call.Call) == "net/netip.PrefixFrom"
			if good {
				good = false
				for _, g := range core.GuardsOf(ret) {
					if vc, isC := g.Cond.(*ssa.Call); isC && g.Truth && core.CalleeName(&vc.Call) == "(net/netip.Prefix).IsValid" && vc.Call.Args[0] == call {
						good = true
					}
				}
			}
			c.check(good, "C12.mask.valid-guard", f, "success returns a PrefixFrom value under IsValid()", ret, "an invalid prefix (ones beyond the address length) must be rejected")
		})
	}

	// ---- R2: IPToAddr ----
	// decided exactly where possible (c12exact.go); the structural rules of R2
	// are the fall-back
	convExact := c12ConvExact(c)
	if convExact {
		c.L.Floor("C12.addr.provenance", 0)
		c.L.Floor("C12.addr.ok-guard", 0)
		c.L.Floor("C12.delegation", 1)
	}
	if f := c.fn("netutil", "IPToAddr"); f != nil && !convExact {
		ip := f.Params[0]
		for _, ci := range core.CallsTo(f, "net/netip.AddrFromSlice") {
			call := ci.(*ssa.Call)
			bad := provenanceOutside(call.Call.Args[0], ip, map[string]bool{"(net.IP).To4": true, "(net.IP).To16": true})
			c.check(bad == "", "C12.addr.provenance", f, "AddrFromSlice("+core.Describe(call.Call.Args[0])+")", call,
				"the bytes converted must be the argument's, normalised only by To4/To16"+bad)
			var okx *ssa.Extract
			for _, r := range core.Refs(call) {
				if ex, isEx := r.(*ssa.Extract); isEx && ex.Index == 1 {
					okx = ex
				}
			}
			core.EachInstr(f, func(in ssa.Instruction) {
				ret, isRet := in.(*ssa.Return)
				if !isRet || len(ret.Results) != 2 || !core.IsNilConst(ret.Results[1]) {
					return
				}
				guarded := false
				for _, g := range core.GuardsOf(ret) {
					if okx != nil && g.Cond == okx && g.Truth {
						guarded = true
					}
				}
				ex, isEx := ret.Results[0].(*ssa.Extract)
				c.check(guarded && isEx && ex.Tuple == call && ex.Index == 0, "C12.addr.ok-guard", f, "success returns AddrFromSlice's address under ok", ret,
					"slices that are not an address (wrong length) must be rejected, and the result must be the converted address")
			})
		}
		if len(core.CallsTo(f, "net/netip.AddrFromSlice")) == 0 {
			c.undecided("C12.addr.provenance", f, "call of netip.AddrFromSlice", nil, "unrecognised conversion")
		}
		// family: To4 on the IPv4 branch, To16 on the IPv6 branch
		for _, spec := range []struct {
			callee string
			fam    int64
		}{{"(net.IP).To4", 1}, {"(net.IP).To16", 2}} {
			for _, ci := range core.CallsTo(f, spec.callee) {
				call := ci.(*ssa.Call)
				okFam := false
				for _, g := range core.GuardsOf(call) {
					if b, isB := g.Cond.(*ssa.BinOp); isB && b.Op == token.EQL && g.Truth && b.X == f.Params[1] {
						if k, isK := core.ConstInt(b.Y); isK && k == spec.fam {
							okFam = true
						}
					}
				}
				c.check(okFam && call.Call.Args[0] == ip, "C12.addr.family", f, spec.callee+" under fam == "+sprintf("%d", spec.fam), call,
					"the requested family selects the normalisation (AddrFamilyIPv4=1 -> To4, AddrFamilyIPv6=2 -> To16)")
			}
		}
	}

	// ---- delegation of the NoMapped variants ----
	if f := c.fn("netutil", "IPToAddrNoMapped"); f != nil && !convExact {
		c12Delegates(c, f, core.ModPath+"/netutil.IPToAddr")
	}
	if f := c.fn("netutil", "IPNetToPrefixNoMapped"); f != nil {
		c12Delegates(c, f, core.ModPath+"/netutil.IPNetToPrefix")
	}

	// ---- R3: NetAddrToAddrPort ----
	if f := c.fn("netutil", "NetAddrToAddrPort"); f != nil {
		n := 0
		for _, ci := range core.CallsTo(f, "net/netip.AddrPortFrom") {
			n++
			call := ci.(*ssa.Call)
			a0, a1 := call.Call.Args[0], call.Call.Args[1]
			var src ssa.Value
			okPort := false
			if pc, isC := a1.(*ssa.Call); isC && core.CalleeName(&pc.Call) == "(net/netip.AddrPort).Port" {
				src, okPort = pc.Call.Args[0], true
			}
			okAddr := false
			v := a0
			if uc, isC := v.(*ssa.Call); isC && core.CalleeName(&uc.Call) == "(net/netip.Addr).Unmap" {
				v = uc.Call.Args[0]
			}
			if ac, isC := v.(*ssa.Call); isC && core.CalleeName(&ac.Call) == "(net/netip.AddrPort).Addr" && ac.Call.Args[0] == src {
				okAddr = true
			}
			fromInvoke := false
			if sc, isC := src.(*ssa.Call); isC && sc.Call.IsInvoke() && sc.Call.Method.Name() == "AddrPort" {
				fromInvoke = true
			}
			c.check(okPort && okAddr && fromInvoke, "C12.addrport", f, "AddrPortFrom(x.Addr()[.Unmap()], x.Port())", call,
				"address and port must come from the same AddrPort() value; only Unmap may be applied")
		}
		if n == 0 {
			// acceptable alternative: no rebuild at all (returns AddrPort() as is) would not unmap
			c.undecided("C12.addrport", f, "AddrPortFrom call", nil, "the 4in6 normalisation is not recognisable")
		}
		// every returned value is zero, the AddrPort() result, or the rebuilt one
		core.EachInstr(f, func(in ssa.Instruction) {
			ret, ok := in.(*ssa.Return)
			if !ok {
				return
			}
			for _, v := range flattenPhi(ret.Results[0]) {
				okv := false
				switch x := v.(type) {
				case *ssa.Const:
					okv = true
				case *ssa.Call:
					n := core.CalleeName(&x.Call)
					okv = n == "net/netip.AddrPortFrom" || (x.Call.IsInvoke() && x.Call.Method.Name() == "AddrPort")
					if x.Call.IsInvoke() {
						// the un-rebuilt value may be returned only when it is not 4in6
						// (phi edge from the Is4In6 == false branch): checked by edge origin below
					}
				}
				c.check(okv, "C12.addrport.result", f, "result "+core.Describe(v), ret, "the result is the zero value, the AddrPort() value or its unmapped rebuild")
			}
		})
		// the raw AddrPort() value must not be returned on the Is4In6 branch
		for _, ci := range core.CallsTo(f, "(net/netip.Addr).Is4In6") {
			call := ci.(*ssa.Call)
			okb := false
			for _, r := range core.Refs(call) {
				if iff, isIf := r.(*ssa.If); isIf {
					tb := iff.Block().Succs[0]
					// true branch must contain the AddrPortFrom call
					for _, in := range tb.Instrs {
						if cc, isC := in.(*ssa.Call); isC && core.CalleeName(&cc.Call) == "net/netip.AddrPortFrom" {
							okb = true
						}
					}
				}
			}
			c.check(okb, "C12.addrport.unmap-branch", f, "Is4In6 branch rebuilds the value", call, "4in6 results are normalised to IPv4")
		}
	}

	// ---- R4: comparator tables ----
	for _, spec := range []struct{ name, fam string }{{"PreferIPv4", "Is4"}, {"PreferIPv6", "Is6"}} {
		f := c.fn("netutil", spec.name)
		if f == nil {
			continue
		}
		c12Prefer(c, f, spec.fam)
	}
}

// guardExcludesZero reports whether some dominating branch outcome on a
// comparison of v with a constant is false when v == 0.
func guardExcludesZero(in ssa.Instruction, v ssa.Value) bool {
	var fs []core.Fact
	for _, g := range core.GuardsOf(in) {
		fs = append(fs, core.Fact{Cond: g.Cond, Truth: g.Truth})
	}
	return factsExcludeZero(fs, v)
}

func factsExcludeZero(facts []core.Fact, v ssa.Value) bool {
	for _, g := range facts {
		cond, truth := core.StripNot(g.Cond, g.Truth)
		b, ok := cond.(*ssa.BinOp)
		if !ok {
			continue
		}
		var k int64
		var isK bool
		op := b.Op
		switch {
		case b.X == v:
			k, isK = core.ConstInt(b.Y)
		case b.Y == v:
			k, isK = core.ConstInt(b.X)
			op = flipOp(op)
		default:
			continue
		}
		if !isK {
			// comparison with the address' bit length: `bits == addr.BitLen()`
			other := b.Y
			if b.Y == v {
				other = b.X
			}
			if cl, isC := other.(*ssa.Call); isC && strings.HasSuffix(core.CalleeName(&cl.Call), ".BitLen") && op == token.EQL && truth {
				return true
			}
			continue
		}
		// value of (0 op k)
		var at0 bool
		switch op {
		case token.EQL:
			at0 = 0 == k
		case token.NEQ:
			at0 = 0 != k
		case token.LSS:
			at0 = 0 < k
		case token.LEQ:
			at0 = 0 <= k
		case token.GTR:
			at0 = 0 > k
		case token.GEQ:
			at0 = 0 >= k
		default:
			continue
		}
		if at0 != truth {
			return true
		}
	}
	return false
}

func flipOp(op token.Token) token.Token {
	switch op {
	case token.LSS:
		return token.GTR
	case token.LEQ:
		return token.GEQ
	case token.GTR:
		return token.LSS
	case token.GEQ:
		return token.LEQ
	}
	return op
}

// flattenPhi returns the non-phi values that can reach v through phis.
func flattenPhi(v ssa.Value) []ssa.Value {
	seen := map[ssa.Value]bool{}
	var out []ssa.Value
	var walk func(v ssa.Value)
	walk = func(v ssa.Value) {
		if seen[v] {
			return
		}
		seen[v] = true
		if p, ok := v.(*ssa.Phi); ok {
			for _, e := range p.Edges {
				walk(e)
			}
			return
		}
		out = append(out, v)
	}
	walk(v)
	return out
}

// provenanceOutside walks v back through phis, conversions, slicing and the
// allowed calls; it returns "" when every root is `root`, else a description
// of the first foreign root.
func provenanceOutside(v ssa.Value, root ssa.Value, allowed map[string]bool) string {
	seen := map[ssa.Value]bool{}
	var bad string
	var walk func(v ssa.Value)
	walk = func(v ssa.Value) {
		if seen[v] || bad != "" {
			return
		}
		seen[v] = true
		if v == root {
			return
		}
		switch x := v.(type) {
		case *ssa.Phi:
			for _, e := range x.Edges {
				walk(e)
			}
		case *ssa.ChangeType:
			walk(x.X)
		case *ssa.Convert:
			walk(x.X)
		case *ssa.Slice:
			walk(x.X)
		case *ssa.Call:
			n := core.CalleeName(&x.Call)
			if allowed[n] && len(x.Call.Args) >= 1 {
				walk(x.Call.Args[0])
				return
			}
			bad = "; found call of " + n
		case *ssa.Const:
			// a nil slice carries no bytes of its own (the converters reject it)
			if !x.IsNil() {
				bad = "; found " + core.Describe(v)
			}
		default:
			bad = "; found " + core.Describe(v)
		}
	}
	walk(v)
	return bad
}

// c12Delegates: every return of f returns both results of one call of target,
// or a non-nil error.
func c12Delegates(c *Ctx, f *ssa.Function, target string) {
	core.EachInstr(f, func(in ssa.Instruction) {
		ret, ok := in.(*ssa.Return)
		if !ok || len(ret.Results) != 2 {
			return
		}
		e0, ok0 := ret.Results[0].(*ssa.Extract)
		e1, ok1 := ret.Results[1].(*ssa.Extract)
		if ok0 && ok1 && e0.Tuple == e1.Tuple && e0.Index == 0 && e1.Index == 1 {
			if cl, isC := e0.Tuple.(*ssa.Call); isC && core.CalleeName(&cl.Call) == target {
				// the converted value derives from the parameter (To4 allowed)
				okArg := true
				if bad := provenanceOutside(cl.Call.Args[0], f.Params[0], map[string]bool{"(net.IP).To4": true, "(net.IP).To16": true}); bad != "" {
					okArg = false
				}
				c.check(okArg, "C12.delegation", f, "return "+shortCallee(target)+"(...)", ret, "the NoMapped variant delegates to the checked converter with its own argument")
				// the family: IPv4 exactly when To4() of the argument's IP is non-nil
				// (To4 also recognises the 16-byte ::ffff:a.b.c.d form; netip.AddrFromSlice does not unmap)
				// evaluated per value that may arrive (phi edges carry their own facts)
				isK, found, famOK := true, true, true
				to4Fact := func(facts []core.Fact) (v4, ok bool) {
					// To4 returns nil or exactly 4 bytes: tests of its length say the same
					isTo4Of := func(x ssa.Value) bool {
						t4, isC := x.(*ssa.Call)
						if !isC || core.CalleeName(&t4.Call) != "(net.IP).To4" {
							return false
						}
						src := t4.Call.Args[0]
						if fn, base, isLd := core.IsLoadOfField(src); isLd && fn == "IP" {
							src = base
						}
						return src == ssa.Value(f.Params[0])
					}
					lenOfTo4 := func(x ssa.Value) bool {
						if cv, isCv := x.(*ssa.Convert); isCv {
							x = cv.X
						}
						lc, isC := x.(*ssa.Call)
						if !isC || core.CalleeName(&lc.Call) != "builtin.len" {
							return false
						}
						return isTo4Of(lc.Call.Args[0])
					}
					for _, g := range facts {
						if v, isZero, okZ := core.ZeroTest(g.Cond, g.Truth); okZ && lenOfTo4(v) {
							return !isZero, true
						}
						cond, truth := core.StripNot(g.Cond, g.Truth)
						if bo, isB := cond.(*ssa.BinOp); isB && (bo.Op == token.EQL || bo.Op == token.NEQ) && lenOfTo4(bo.X) {
							if k, isK := core.ConstInt(bo.Y); isK && k == 4 {
								return (bo.Op == token.EQL) == truth, true
							}
						}
					}
					for _, g := range facts {
						cond, truth := core.StripNot(g.Cond, g.Truth)
						b, isB := cond.(*ssa.BinOp)
						if !isB || (b.Op != token.NEQ && b.Op != token.EQL) {
							continue
						}
						x := b.X
						if core.IsNilConst(b.X) {
							x = b.Y
						} else if !core.IsNilConst(b.Y) {
							continue
						}
						t4, isC := x.(*ssa.Call)
						if !isC || core.CalleeName(&t4.Call) != "(net.IP).To4" {
							continue
						}
						src := t4.Call.Args[0]
						if fn, base, isLd := core.IsLoadOfField(src); isLd && fn == "IP" {
							src = base
						}
						if src != ssa.Value(f.Params[0]) {
							continue
						}
						return (b.Op == token.NEQ) == truth, true
					}
					return false, false
				}
				for _, lf := range core.Facts(f).Leaves(cl.Call.Args[1], cl) {
					fam, k := core.ConstInt(lf.V)
					if !k {
						isK = false
						continue
					}
					v4, ok := to4Fact(lf.Facts)
					if !ok {
						found = false
						continue
					}
					want := int64(2)
					if v4 {
						want = 1
					}
					if fam != want {
						famOK = false
					}
				}
				c.check(isK && found && famOK, "C12.delegation", f, "family passed to "+shortCallee(target)+" is IPv4 exactly under To4() != nil", cl,
					"an IPv4-mapped 16-byte net.IP is an IPv4 address for the NoMapped variants; any other family test (AddrFromSlice+Is4, len == 4) treats it as IPv6")
				return
			}
		}
		if !core.IsNilConst(ret.Results[1]) {
			if _, isMI := ret.Results[1].(*ssa.MakeInterface); isMI {
				c.check(true, "C12.delegation", f, "error return", ret, "rejection")
				return
			}
		}
		c.check(false, "C12.delegation", f, "return "+core.Describe(ret.Results[0]), ret, "a success that does not come from "+shortCallee(target)+" bypasses its checks")
	})
}

func shortCallee(s string) string { return strings.TrimPrefix(s, core.ModPath+"/") }

// c12Prefer evaluates the comparator over atoms and compares the table.
func c12Prefer(c *Ctx, f *ssa.Function, fam string) {
	m := boolfn.New()
	const (
		va = iota
		vb
		fa
		fb
		lt
		gt
		oa // the other family predicate, must not matter
		ob
	)
	ev := &boolfn.Eval{M: m, Entered: map[string]bool{}}
	ev.InScope = func(fn *ssa.Function) bool { return core.InModule(fn) }
	atomFor := func(arg boolfn.Val, a, b int) (boolfn.Val, bool) {
		switch arg.Name {
		case "a":
			return boolfn.BoolVal(m.Var(a)), true
		case "b":
			return boolfn.BoolVal(m.Var(b)), true
		}
		return boolfn.Val{}, false
	}
	ev.OnCall = func(name string, call *ssa.CallCommon, args []boolfn.Val) (boolfn.Val, bool) {
		name = strings.TrimPrefix(name, "dynamic:func:")
		name = strings.TrimSuffix(name, "$thunk")
		if len(args) == 0 || args[0].Kind != boolfn.KOpaque {
			return boolfn.Val{}, false
		}
		other := "Is6"
		if fam == "Is6" {
			other = "Is4"
		}
		switch name {
		case "(net/netip.Addr).IsValid":
			return atomFor(args[0], va, vb)
		case "(net/netip.Addr)." + fam:
			return atomFor(args[0], fa, fb)
		case "(net/netip.Addr)." + other:
			return atomFor(args[0], oa, ob)
		case "(net/netip.Addr).Compare":
			if len(args) == 2 && args[0].Name == "a" && args[1].Name == "b" {
				bits := make([]int, 64)
				bits[0] = m.Or(m.Var(lt), m.Var(gt))
				for i := 1; i < 64; i++ {
					bits[i] = m.Var(lt)
				}
				return boolfn.Val{Kind: boolfn.KBits, Bits: bits, Signed: true}, true
			}
			if len(args) == 2 && args[0].Name == "b" && args[1].Name == "a" {
				bits := make([]int, 64)
				bits[0] = m.Or(m.Var(lt), m.Var(gt))
				for i := 1; i < 64; i++ {
					bits[i] = m.Var(gt)
				}
				return boolfn.Val{Kind: boolfn.KBits, Bits: bits, Signed: true}, true
			}
		}
		return boolfn.Val{}, false
	}
	rs, err := ev.Call(f, []boolfn.Val{boolfn.Opaque("a"), boolfn.Opaque("b")})
	if err != nil || len(rs) != 1 || rs[0].Kind != boolfn.KBits || len(rs[0].Bits) != 64 {
		c.undecided("C12.prefer.table", f, "decision table", nil, sprintf("outside the loop-free grammar: %v", err))
		return
	}
	for fn := range ev.Entered {
		c.L.Saw(strings.ReplaceAll(fn, core.ModPath+"/", ""))
	}
	r := rs[0].Bits
	neg := r[63]
	nz := 0
	for _, b := range r {
		nz = m.Or(nz, b)
	}
	pos := m.And(m.Not(neg), nz)
	A, B, FA, FB, LT, GT := m.Var(va), m.Var(vb), m.Var(fa), m.Var(fb), m.Var(lt), m.Var(gt)
	wellformed := m.Not(m.And(LT, GT))
	implies := func(p, q int) bool { return m.And(m.And(wellformed, p), m.Not(q)) == 0 }
	rows := []struct {
		name string
		pre  int
		post int
	}{
		{"invalid a sorts after valid b", m.And(m.Not(A), B), pos},
		{"valid a sorts before invalid b", m.And(A, m.Not(B)), neg},
		{"preferred family first (a preferred, b not)", m.And(m.And(A, B), m.And(FA, m.Not(FB))), neg},
		{"preferred family first (b preferred, a not)", m.And(m.And(A, B), m.And(m.Not(FA), FB)), pos},
		{"same family: negative iff a < b", m.And(m.And(A, B), m.Not(m.Xor(FA, FB))), m.Not(m.Xor(neg, LT))},
		{"same family: positive iff a > b", m.And(m.And(A, B), m.Not(m.Xor(FA, FB))), m.Not(m.Xor(pos, GT))},
	}
	for _, row := range rows {
		ok := implies(row.pre, row.post)
		reason := "holds for every assignment of {a.IsValid, b.IsValid, " + fam + "(a), " + fam + "(b), sign of a.Compare(b)}"
		if !ok {
			w := m.Witness(m.And(m.And(wellformed, row.pre), m.Not(row.post)))
			reason = sprintf("fails for a.IsValid=%v b.IsValid=%v %s(a)=%v %s(b)=%v a<b=%v a>b=%v", w[va], w[vb], fam, w[fa], fam, w[fb], w[lt], w[gt])
		}
		c.check(ok, "C12.prefer.table", f, row.name, nil, reason)
	}
}
