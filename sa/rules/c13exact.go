package rules

import (
	"fmt"
	"os"
	"time"

	"verif/sa/boolfn"
	"verif/sa/core"
)

// c13FoldExact decides ContainsFold exactly in its haystack: s is L symbolic
// bytes (every L up to the bound), assumed to be valid UTF-8 free of U+FFFD
// (the property's precondition); substr runs over a generated set of needles
// — the empty string, every single rune whose fold orbit has more than two
// members (k/K/Kelvin sign, s/S/long s, the Greek and Cyrillic variants, ...:
// all 84 of them) and one representative of every other orbit shape (UTF-8
// width of the rune and of its partner), every pair of a 14-rune subset of
// those, and a few triples.  The function is evaluated path by path with the
// library given its exact meaning on symbolic bytes — DecodeRuneInString,
// IndexFunc (UTF-8 decoding included, the predicate closure evaluated),
// unicode.SimpleFold (the Unicode table as a Boolean function of the rune)
// and EqualFold (rune by rune, same fold orbit) — and the result compared, as
// a Boolean function of the 8L bits of s, with the definition: some offset i
// at which a rune of s starts, with i+len(substr) <= L, has
// EqualFold(s[i:i+len(substr)], substr).
func c13FoldExact(c *Ctx) (okExact bool) {
	defer recoverUnsupported(c, &okExact, "c13FoldExact")
	const rule = "C13.fold-exact"
	f := c.fn("stringutil", "ContainsFold")
	if f == nil || len(f.Params) != 2 {
		return false
	}
	if os.Getenv("GSA_NOEXACT") != "" && os.Getenv("GSA_REPO") != "" {
		return false // development aid: exercise the structural fall-back
	}
	if th := lengthThresholds(f, 8); len(th) > 0 {
		c.L.Notef("ContainsFold treats long operands differently (%s): an evaluation on operands of a few bytes does not cover that; structural rules used instead", th[0])
		return false
	}
	big, reps := boolfn.FoldNeedleRunes()
	needles := []string{""}
	for _, r := range append(append([]rune(nil), big...), reps...) {
		needles = append(needles, string(r))
	}
	pairSet := []rune{'k', 'K', 0x212A, 's', 0x17F, 0x3C3, 0x3C2, 0x3A3, 'a', '1', 0xC0, 0xDF, 0x1E9E, 0x10400}
	for _, a := range pairSet {
		for _, b := range pairSet {
			needles = append(needles, string([]rune{a, b}))
		}
	}
	needles = append(needles, "[{[", "@`@", "a~^", "sks", "K\u017fk", "a1a", "1kA", "\u03c3\u03c2\u03a3"[:6]+"s")
	maxL := 6
	if c.Tier == "thorough" {
		maxL = 8
	}
	type lk struct {
		L    int
		sub  string
		symK int // > 0: the needle is symK symbolic ASCII bytes
	}
	var cases []lk
	// every ASCII needle of one byte and (against s of at most 3 bytes, 4 in the thorough tier) of two
	for L := 0; L <= maxL; L++ {
		cases = append(cases, lk{L: L, symK: 1})
		if L <= 3 || (L == 4 && c.Tier == "thorough") {
			cases = append(cases, lk{L: L, symK: 2})
		}
	}
	for _, n := range needles {
		for L := 0; L <= maxL; L++ {
			if L < len(n) && L != 0 && L != len(n)-1 {
				continue // shorter than the needle: one such length is enough
			}
			cases = append(cases, lk{L: L, sub: n})
		}
	}
	bads := make([]string, len(cases))
	errs := make([]error, len(cases))
	parallelDo(len(cases), func(k int) {
		L, sub, symK := cases[k].L, cases[k].sub, cases[k].symK
		if os.Getenv("GSA_DBG") != "" && symK > 0 {
			t0 := time.Now()
			defer func() { fmt.Fprintln(os.Stderr, "exact ContainsFold L =", L, "symK =", symK, time.Since(t0)) }()
		}
		K := len(sub)
		m := boolfn.New()
		ev := &boolfn.Eval{M: m, Entered: map[string]bool{}, ErrorsAsBits: true, ForcePath: true, Steps: 3000000}
		ev.InScope = core.InModule
		needle := boolfn.Val{Kind: boolfn.KStr, Str: sub}
		if symK > 0 {
			// the needle's variables come first in the order: the functions are
			// then a case split on the needle over automata in s
			K = symK
			needle = ev.StringInput(0, K)
			for j := range needle.Elems {
				needle.Elems[j][7] = 0 // ASCII
			}
		}
		s := ev.StringInput(8*symK, L)
		var want, pre int
		if gerr := boolfn.Guard(func() {
			starts, validS := ev.RuneStarts(s.Elems)
			pre = validS
			nb := needle.Elems
			if symK == 0 {
				nb = ev.ConstBytes(sub)
			}
			for i := 0; i+K <= L; i++ {
				if starts[i] == 0 {
					continue
				}
				want = m.Or(want, m.And(starts[i], ev.EqualFold(s.Elems[i:i+K], nb)))
			}
			want = m.And(want, pre)
		}); gerr != nil {
			errs[k] = gerr
			return
		}
		ev.Assume = pre
		rs, err := ev.Call(f, []boolfn.Val{s, needle})
		if err != nil || len(rs) != 1 || rs[0].Kind != boolfn.KBits || len(rs[0].Bits) != 1 {
			if err == nil {
				err = fmt.Errorf("unexpected result shape")
			}
			errs[k] = err
			return
		}
		got := m.And(rs[0].Bits[0], pre)
		if got != want {
			d := m.Xor(got, want)
			kind := "false though a window of s equals substr under simple folding"
			if x := m.And(got, m.Not(want)); x != 0 {
				d, kind = x, "true though no window of s that starts at a rune boundary equals substr under simple folding"
			}
			w := m.Witness(d)
			nd := sprintf("%q", sub)
			if symK > 0 {
				nd = witnessAt(w, 0, symK)
			}
			bads[k] = sprintf("ContainsFold(%s, %s) is %s", witnessAt(w, 8*symK, L), nd, kind)
		}
	})
	what := "ContainsFold(s, substr) <=> some window of len(substr) bytes of s, starting at a rune boundary, equals substr under simple case folding"
	// a witness found in one evaluation stands whatever happens in the others
	for _, b := range bads {
		if b != "" {
			c.L.Floor(rule, 1)
			c.check(false, rule, f, what, nil, b)
			return true
		}
	}
	for k, e := range errs {
		if e != nil {
			if os.Getenv("GSA_DBG") != "" {
				fmt.Fprintln(os.Stderr, "exact ContainsFold:", cases[k], e)
			}
			c.L.Notef("ContainsFold is outside the exact evaluator's grammar at len(s) = %d, substr = %q (%v); structural rules used instead", cases[k].L, cases[k].sub, e)
			return false
		}
	}
	c.L.Floor(rule, 1)
	c.check(true, rule, f, what, nil, sprintf("equal as Boolean functions of the bits of s for every valid s of 0..%d bytes and every ASCII needle of one byte (of two bytes against s of at most 3 bytes; 4 in the thorough tier), and each of %d further needles (every rune of a fold orbit with more than two members, one rune per other orbit shape, %d pairs, 8 triples): %d evaluations", maxL, len(needles), len(pairSet)*len(pairSet), len(cases)))
	return true
}

// witnessAt spells n bytes of a witness whose bits start at variable base.
func witnessAt(w map[int]bool, base, n int) string {
	b := make([]byte, 0, n)
	for i := 0; i < n; i++ {
		var v byte
		for k := 0; k < 8; k++ {
			if w[base+8*i+k] {
				v |= 1 << uint(7-k)
			}
		}
		b = append(b, v)
	}
	return sprintf("%q", string(b))
}

// c13SplitExact decides SplitTrimmed exactly on short inputs: s is L symbolic
// bytes (valid UTF-8: the Unicode white space included), sep one of a few
// constant separators.  The function
// is evaluated path by path (strings.Split forks on the set of separator
// occurrences, TrimSpace on the two cut positions); every path returns a list
// of windows of s, and for every path, under its condition, the list must be
// the definition's: trim s, cut it at the leftmost non-overlapping occurrences
// of sep, trim every piece, keep the non-empty ones, in order.
func c13SplitExact(c *Ctx) (okExact bool) {
	defer recoverUnsupported(c, &okExact, "c13SplitExact")
	const rule = "C13.split-exact"
	f := c.fn("stringutil", "SplitTrimmed")
	if f == nil || len(f.Params) != 2 {
		return false
	}
	if th := lengthThresholds(f, 8); len(th) > 0 {
		c.L.Notef("SplitTrimmed treats long inputs differently (%s): an evaluation on inputs of a few bytes does not cover that; structural rules used instead", th[0])
		return false
	}
	seps := []string{",", " ", ", ", ";;", "\n"}
	maxL := 5
	if c.Tier == "thorough" {
		maxL = 7
	}
	type cs struct {
		L   int
		sep string
	}
	var cases []cs
	for _, sp := range seps {
		for L := 0; L <= maxL; L++ {
			cases = append(cases, cs{L, sp})
		}
	}
	bads := make([]string, len(cases))
	errs := make([]error, len(cases))
	parallelDo(len(cases), func(k int) {
		L, sep := cases[k].L, cases[k].sep
		m := boolfn.New()
		ev := &boolfn.Eval{M: m, Entered: map[string]bool{}, ErrorsAsBits: true, ForcePath: true, Steps: 3000000}
		ev.InScope = core.InModule
		in := ev.StringInput(0, L)
		_, valid := ev.RuneStarts(in.Elems)
		ev.Assume = valid
		is := func(i int, v byte) int {
			eq := 1
			for b := 0; b < 8; b++ {
				bit := in.Elems[i][b]
				if (v>>uint(b))&1 == 0 {
					bit = m.Not(bit)
				}
				eq = m.And(eq, bit)
			}
			return eq
		}
		// trim(lo, hi): alternatives (cond, lo', hi') of TrimSpace(s[lo:hi])
		type win struct{ cond, lo, hi int }
		specErr := false
		trim := func(cond, lo, hi int) []win {
			cuts, ok := ev.TrimSpaceCuts(in.Elems[lo:hi], cond)
			if !ok {
				specErr = true
				return nil
			}
			var out []win
			for _, c := range cuts {
				if cc := m.And(cond, c.Cond); m.And(cc, valid) != 0 {
					out = append(out, win{cc, lo + c.Lo, lo + c.Hi})
				}
			}
			return out
		}
		matchAt := func(q int) int {
			if q+len(sep) > L {
				return 0
			}
			r := 1
			for j := 0; j < len(sep); j++ {
				r = m.And(r, is(q+j, sep[j]))
			}
			return r
		}
		// the definition, as alternatives (cond, list of windows)
		type list struct {
			cond int
			w    [][2]int
		}
		var spec []list
		for _, t := range trim(1, 0, L) {
			var rec func(from, cond int, acc [][2]int)
			piece := func(cond, lo, hi int, acc [][2]int, then func(cond int, acc [][2]int)) {
				for _, p := range trim(cond, lo, hi) {
					if p.lo == p.hi {
						then(p.cond, acc)
					} else {
						then(p.cond, append(append([][2]int(nil), acc...), [2]int{p.lo, p.hi}))
					}
				}
			}
			rec = func(from, cond int, acc [][2]int) {
				none := cond
				for q := from; q+len(sep) <= t.hi && none != 0; q++ {
					hit := matchAt(q)
					if c := m.And(none, hit); c != 0 {
						qq := q
						piece(c, from, q, acc, func(c2 int, a2 [][2]int) { rec(qq+len(sep), c2, a2) })
					}
					none = m.And(none, m.Not(hit))
				}
				if none != 0 {
					piece(none, from, t.hi, acc, func(c2 int, a2 [][2]int) { spec = append(spec, list{c2, a2}) })
				}
			}
			rec(t.lo, t.cond, nil)
		}
		if specErr {
			errs[k] = fmt.Errorf("the definition cannot be spelled out")
			return
		}
		rs, err := ev.Call(f, []boolfn.Val{in, {Kind: boolfn.KStr, Str: sep}})
		if err != nil {
			errs[k] = err
			return
		}
		var alts []boolfn.ChoiceAlt
		switch {
		case len(rs) == 1 && rs[0].Kind == boolfn.KChoice:
			alts = rs[0].Alts
		case len(rs) == 1:
			alts = []boolfn.ChoiceAlt{{Cond: 1, Val: rs[0]}}
		default:
			errs[k] = fmt.Errorf("unexpected result shape")
			return
		}
		cover := 0
		for _, a := range alts {
			cover = m.Or(cover, a.Cond)
			items, ok := ev.Items(a.Val)
			if !ok {
				errs[k] = fmt.Errorf("a result is not a list of strings")
				return
			}
			var got [][2]int
			for _, it := range items {
				switch {
				case it.Kind == boolfn.KSlice && len(it.Elems) == L && it.Hi > it.Lo:
					got = append(got, [2]int{it.Lo, it.Hi})
				case it.Kind == boolfn.KStr && it.Str == "", it.Kind == boolfn.KSlice && it.Hi == it.Lo:
					got = append(got, [2]int{0, 0})
				default:
					errs[k] = fmt.Errorf("an element of the result is not a window of the input")
					return
				}
			}
			for _, sp := range spec {
				d := m.And(valid, m.And(a.Cond, sp.cond))
				if d == 0 {
					continue
				}
				same := len(got) == len(sp.w)
				for i := 0; same && i < len(got); i++ {
					same = got[i] == sp.w[i]
				}
				if !same {
					w := witnessAt(m.Witness(d), 0, L)
					var bs []byte
					fmt.Sscanf(w, "%q", &bs)
					str := string(bs)
					show := func(ws [][2]int) string {
						out := []string{}
						for _, x := range ws {
							if x[1] <= len(str) {
								out = append(out, str[x[0]:x[1]])
							}
						}
						return sprintf("%q", out)
					}
					bads[k] = sprintf("SplitTrimmed(%s, %q) returns %s, the definition gives %s", w, sep, show(got), show(sp.w))
					return
				}
			}
		}
		if m.And(valid, m.Not(cover)) != 0 {
			bads[k] = "the paths of the function do not cover every input"
		}
	})
	what := "SplitTrimmed(s, sep) == the non-empty trimmed pieces of Split(TrimSpace(s), sep), in order"
	for _, b := range bads {
		if b != "" {
			c.L.Floor(rule, 1)
			c.check(false, rule, f, what, nil, b)
			return true
		}
	}
	for k, e := range errs {
		if e != nil {
			if os.Getenv("GSA_DBG") != "" {
				fmt.Fprintln(os.Stderr, "exact SplitTrimmed:", cases[k], e)
			}
			c.L.Notef("SplitTrimmed is outside the exact evaluator's grammar at len(s) = %d, sep = %q (%v); structural rules used instead", cases[k].L, cases[k].sep, e)
			return false
		}
	}
	c.L.Floor(rule, 1)
	c.check(true, rule, f, what, nil, sprintf("the list returned on every path equals the definition's, window by window, for every s of 0..%d bytes (valid UTF-8) and the separators %q", maxL, seps))
	return true
}
