package rules

import (
	"go/token"
	"go/types"

	"golang.org/x/tools/go/ssa"

	"verif/sa/core"
	"verif/sa/lincon"
)

// Ring-buffer rules decided by the relational interpreter (E1) instead of by
// the shape of the code: the effect of Push on (cur, full, buf[cur]) and the
// two chronological halves returned by splitCur are compared, for every
// abstract state, with the ring model
//
//	cur' = cur+1 (cur+1 < n) | 0 (cur+1 == n);  full' = full || cur+1 == n
//	halves = (buf[:cur], -) when !full, (buf[cur:], buf[:cur]) when full
//
// under the struct invariant 0 <= cur < len(buf) == cap(buf), which the
// constructor establishes (C11.ring.cursor "buf = make([]T, n)") and Push
// re-establishes (first assertion below).  The fields are found by their role
// (the slice, the unsigned counter, the flag), not by their names.

type ringFields struct{ buf, cur, full int }

func ringFieldsOf(recv ssa.Value) (ringFields, bool) {
	rf := ringFields{-1, -1, -1}
	p, ok := recv.Type().Underlying().(*types.Pointer)
	if !ok {
		return rf, false
	}
	st, ok := p.Elem().Underlying().(*types.Struct)
	if !ok {
		return rf, false
	}
	for i := 0; i < st.NumFields(); i++ {
		switch t := st.Field(i).Type().Underlying().(type) {
		case *types.Slice:
			if rf.buf >= 0 {
				return rf, false
			}
			rf.buf = i
		case *types.Basic:
			switch {
			case t.Info()&types.IsUnsigned != 0 || t.Info()&types.IsInteger != 0:
				if rf.cur >= 0 {
					return rf, false
				}
				rf.cur = i
			case t.Kind() == types.Bool:
				if rf.full >= 0 {
					return rf, false
				}
				rf.full = i
			}
		}
	}
	return rf, rf.buf >= 0 && rf.cur >= 0 && rf.full >= 0
}

func c11RingSemantic(c *Ctx) {
	c.L.Floor("C11.ring.push", 3)
	c.L.Floor("C11.ring.split", 2)
	fieldOf := func(recv ssa.Value, addr ssa.Value) int {
		fa, ok := addr.(*ssa.FieldAddr)
		if !ok || fa.X != recv {
			return -1
		}
		return fa.Field
	}
	sliceType := func(recv ssa.Value, idx int) types.Type {
		return recv.Type().Underlying().(*types.Pointer).Elem().Underlying().(*types.Struct).Field(idx).Type()
	}
	capIsLen := func(recv ssa.Value, rf ringFields) func(ssa.CallInstruction) bool {
		return func(call ssa.CallInstruction) bool {
			ld, ok := call.Common().Args[0].(*ssa.UnOp)
			if !ok || ld.Op != token.MUL {
				return false
			}
			return fieldOf(recv, ld.X) == rf.buf
		}
	}

	// ---------------- Push ----------------
	if push := c.fn("container", "RingBuffer.Push"); push != nil && len(push.Params) == 2 {
		recv := push.Params[0]
		rf, ok := ringFieldsOf(recv)
		if !ok {
			c.undecided("C11.ring.push", push, "fields of RingBuffer", nil, "expected one slice, one unsigned counter and one flag")
		} else {
			lincon.Reset()
			a := lincon.New(c.P.SSA, core.InModule)
			a.CapIsLen = capIsLen(recv, rf)
			var cur0, n lincon.Lin
			a.Hook = func(h *lincon.Handle) {
				if h.Instr.Parent() != push {
					return
				}
				switch in := h.Instr.(type) {
				case *ssa.Store:
					switch fieldOf(recv, in.Addr) {
					case rf.cur:
						v, ok := h.Int(in.Val)
						step := ok && h.ProvesEQ(v.Sub(cur0).AddK(-1)) && h.ProvesLE(v.Sub(n).AddK(1))
						wrap := ok && h.ProvesEQ(v) && h.ProvesEQ(cur0.AddK(1).Sub(n))
						h.Assert("ring.push", "cur' == cur+1 < len(buf), or cur' == 0 when cur+1 == len(buf)", step || wrap)
					case rf.full:
						k, isK := core.ConstBool(in.Val)
						h.Assert("ring.push", "full is set only when the cursor wraps (cur+1 == len(buf))", isK && k && h.ProvesEQ(cur0.AddK(1).Sub(n)))
					case rf.buf:
						h.Assert("ring.push", "Push does not replace the storage", false)
					default:
						// element store: rb.buf[i] = e
						if ia, ok := in.Addr.(*ssa.IndexAddr); ok {
							if ld, ok := ia.X.(*ssa.UnOp); ok && ld.Op == token.MUL && fieldOf(recv, ld.X) == rf.buf {
								i, okI := h.Int(ia.Index)
								h.Assert("ring.push", "the pushed value is written at the cursor (buf[cur])", okI && h.ProvesEQ(i.Sub(cur0)) && in.Val == ssa.Value(push.Params[1]))
							}
						}
					}
				case *ssa.Return:
					// the flag is set on the wrapping path
					if h.ProvesEQ(cur0.AddK(1).Sub(n)) {
						v, known := h.BoolField(recv, rf.full)
						h.Assert("ring.push", "after the cursor wrapped the buffer is full", known && v)
					} else {
						h.Assert("ring.push", "every exit is a step (cur+1 < len) or a wrap (cur+1 == len)", h.ProvesLE(cur0.AddK(2).Sub(n)))
					}
				}
			}
			a.Entry(push, func(h *lincon.Handle) {
				var okN bool
				n, okN = h.SliceFieldLen(recv, rf.buf, "buf", sliceType(recv, rf.buf))
				cur0 = h.Field(recv, rf.cur, "cur", true)
				if !okN {
					return
				}
				h.AssumeLE(lincon.K(1).Sub(n))  // a buffer with room (the empty one returns at once)
				h.AssumeLE(cur0.Sub(n).AddK(1)) // invariant: cur < len(buf)
			})
			recordObligations(c, a, "C11", func(o *lincon.Oblig) bool { return o.Kind == "assert:ring.push" })
		}
	}

	// ---------------- splitCur ----------------
	if sc := c.fn("container", "RingBuffer.splitCur"); sc != nil && len(sc.Params) == 1 {
		recv := sc.Params[0]
		rf, ok := ringFieldsOf(recv)
		if !ok {
			c.undecided("C11.ring.split", sc, "fields of RingBuffer", nil, "expected one slice, one unsigned counter and one flag")
			return
		}
		lincon.Reset()
		a := lincon.New(c.P.SSA, core.InModule)
		a.CapIsLen = capIsLen(recv, rf)
		var cur0, n lincon.Lin
		a.Hook = func(h *lincon.Handle) {
			ret, ok := h.Instr.(*ssa.Return)
			if !ok || ret.Parent() != sc || len(ret.Results) != 2 {
				return
			}
			o0, off0, n0, ok0 := h.SliceView(ret.Results[0])
			o1, off1, n1, ok1 := h.SliceView(ret.Results[1])
			bo, okB := h.SliceFieldObj(recv, rf.buf)
			full, known := h.BoolField(recv, rf.full)
			good := ok0 && ok1 && okB && known
			if good {
				if full {
					good = o0 == bo && h.ProvesEQ(off0.Sub(cur0)) && h.ProvesEQ(n0.Add(cur0).Sub(n)) &&
						(h.ProvesEQ(n1) || (o1 == bo && h.ProvesEQ(off1))) && h.ProvesEQ(n1.Sub(cur0))
				} else {
					good = (h.ProvesEQ(n0) || (o0 == bo && h.ProvesEQ(off0))) && h.ProvesEQ(n0.Sub(cur0)) && h.ProvesEQ(n1)
				}
			}
			h.Assert("ring.split", "halves are (buf[:cur], empty) when not full and (buf[cur:], buf[:cur]) when full", good)
		}
		a.Entry(sc, func(h *lincon.Handle) {
			var okN bool
			n, okN = h.SliceFieldLen(recv, rf.buf, "buf", sliceType(recv, rf.buf))
			cur0 = h.Field(recv, rf.cur, "cur", true)
			if !okN {
				return
			}
			h.AssumeLE(lincon.K(1).Sub(n))
			h.AssumeLE(cur0.Sub(n).AddK(1))
		})
		recordObligations(c, a, "C11", func(o *lincon.Oblig) bool { return o.Kind == "assert:ring.split" })
	}
}
