package rules

import (
	"go/token"
	"go/types"

	"golang.org/x/tools/go/ssa"

	"verif/sa/core"
)

func init() {
	register(&Property{
		ID:    "C16",
		Level: "proof",
		Explanation: "Non-interference by dataflow on the SSA of RedactUserinfo / RedactUserinfoInURLError: every use of the input URL is classified " +
			"(nil-test of User, whole-struct copy into a fresh allocation, reads of other fields, guarded identity return); the copy's User field is " +
			"overwritten, on every path to the return, by a value that derives only from constants; no store goes through the input. Hence the result is a " +
			"function of (input without User, constants). Decides the structural non-interference argument for all URLs x credentials; trusts url.URL.String to read only the struct's fields.",
		Technique: "SSA dataflow / non-interference (use classification of the input pointer, dominance of the mask store)",
		Note:      "Trusted: go/types, go/ssa, net/url (*URL).String reading only the struct fields. Assumes u != nil as documented.",
		DesignRef: "DESIGN.md section 4, C16",
		Run:       runC16,
	})
}

func runC16(c *Ctx) {
	c.L.Trust("go/types + go/ssa (x/tools v0.29.0)", "net/url: (*URL).String reads only the fields of the URL struct", "rule code in /verif/sa/rules/c16.go")
	c.L.Assumef("u is non-nil (documented precondition)")
	c.L.Floor("C16.redact.use-of-input", 2)
	c.L.Floor("C16.redact.return", 2)
	c.L.Floor("C16.redact.mask-store", 1)
	c.L.Floor("C16.mask.writer", 1)
	c.L.Floor("C16.errurl.store", 1)

	if f := c.fn("netutil/urlutil", "RedactUserinfo"); f != nil {
		c16Redact(c, f)
	}
	if f := c.fn("netutil/urlutil", "RedactUserinfoInURLError"); f != nil {
		c16ErrURL(c, f)
	}
}

// isNilTestOnly reports whether every use of the loaded value is a comparison
// with nil.
func isNilTestOnly(v ssa.Value) bool {
	for _, r := range core.Refs(v) {
		b, ok := r.(*ssa.BinOp)
		if !ok || (b.Op != token.EQL && b.Op != token.NEQ) {
			if _, isDbg := r.(*ssa.DebugRef); isDbg {
				continue
			}
			return false
		}
		if !core.IsNilConst(b.X) && !core.IsNilConst(b.Y) {
			return false
		}
	}
	return true
}

// guardedByNilUser reports whether instruction in executes only when
// base.User == nil (want true) or != nil (want false).
func guardedByFieldNil(in ssa.Instruction, base ssa.Value, field string, wantNil bool) bool {
	for _, g := range core.GuardsOf(in) {
		cond, truth := core.StripNot(g.Cond, g.Truth)
		b, ok := cond.(*ssa.BinOp)
		if !ok {
			continue
		}
		var other ssa.Value
		switch {
		case core.IsNilConst(b.Y):
			other = b.X
		case core.IsNilConst(b.X):
			other = b.Y
		default:
			continue
		}
		fname, fbase, ok := core.IsLoadOfField(other)
		if !ok || fname != field || fbase != base {
			continue
		}
		isNil := (b.Op == token.EQL) == truth
		if b.Op != token.EQL && b.Op != token.NEQ {
			continue
		}
		if isNil == wantNil {
			return true
		}
	}
	return false
}

func c16Redact(c *Ctx, f *ssa.Function) {
	if len(f.Params) != 1 {
		c.undecided("C16.redact.use-of-input", f, "signature", nil, "expected exactly one *url.URL parameter")
		return
	}
	u := f.Params[0]
	var copies []*ssa.Alloc // fresh allocations that received *u
	// (1)/(4)/(5): classify every use of the input pointer.
	for _, r := range core.Refs(u) {
		switch x := r.(type) {
		case *ssa.DebugRef:
		case *ssa.FieldAddr:
			name := core.FieldName(x)
			for _, rr := range core.Refs(x) {
				switch y := rr.(type) {
				case *ssa.UnOp: // load
					if name == "User" {
						c.check(isNilTestOnly(y), "C16.redact.use-of-input", f, "read of u.User", y,
							"the credentials may only be tested for nil; any other use can flow into the result")
					} else {
						c.check(true, "C16.redact.use-of-input", f, "read of u."+name, y, "non-credential field")
					}
				case *ssa.Store:
					c.check(y.Addr != x, "C16.redact.input-unmodified", f, "store to u."+name, y, "the input URL must never be modified")
				case *ssa.DebugRef:
				default:
					c.undecided("C16.redact.use-of-input", f, "address of u."+name+" escapes", rr, "cannot track this use of the input")
				}
			}
		case *ssa.UnOp: // *u
			ok := true
			for _, rr := range core.Refs(x) {
				st, isStore := rr.(*ssa.Store)
				if !isStore {
					if _, d := rr.(*ssa.DebugRef); d {
						continue
					}
					ok = false
					continue
				}
				al, isAlloc := st.Addr.(*ssa.Alloc)
				if !isAlloc || st.Val != x {
					ok = false
					continue
				}
				copies = append(copies, al)
			}
			c.check(ok, "C16.redact.use-of-input", f, "copy *u", x, "the struct copy (which contains User) may only initialise a fresh local URL")
		case *ssa.Return:
			// handled below
		case *ssa.Store:
			if x.Addr == u {
				c.check(false, "C16.redact.input-unmodified", f, "store through u", x, "the input URL must never be modified")
			} else {
				c.undecided("C16.redact.use-of-input", f, "u stored", x, "the input pointer escapes")
			}
		default:
			c.undecided("C16.redact.use-of-input", f, "u used by "+core.Describe(asValue(r)), r, "unrecognised use of the input URL (call or escape): cannot show the credentials do not flow out")
		}
	}
	isCopy := func(v ssa.Value) *ssa.Alloc {
		for _, a := range copies {
			if a == v {
				return a
			}
		}
		return nil
	}
	// (1)/(2): every return.
	core.EachInstr(f, func(in ssa.Instruction) {
		ret, ok := in.(*ssa.Return)
		if !ok || len(ret.Results) != 1 {
			return
		}
		v := ret.Results[0]
		switch {
		case v == u:
			c.check(guardedByFieldNil(ret, u, "User", true), "C16.redact.return", f, "return u", ret,
				"the input itself may be returned only when it has no userinfo")
		case isCopy(v) != nil:
			al := isCopy(v)
			c16CopyMasked(c, f, al, ret)
		default:
			c.undecided("C16.redact.return", f, "return "+core.Describe(v), ret, "result is neither the input nor a masked fresh copy")
		}
	})
	c.L.Record(core.Discharged, "C16.redact.input-unmodified", core.FuncName(f), "no store through u", c.P.Pos(f.Pos()), "all uses of u enumerated")
}

func asValue(in ssa.Instruction) ssa.Value {
	v, _ := in.(ssa.Value)
	return v
}

// c16CopyMasked checks that the fresh copy al has its User field overwritten
// with an untainted value before ret and that nothing else of it is changed.
func c16CopyMasked(c *Ctx, f *ssa.Function, al *ssa.Alloc, ret *ssa.Return) {
	var copyStore *ssa.Store
	var maskStores []*ssa.Store
	for _, r := range core.Refs(al) {
		switch x := r.(type) {
		case *ssa.Store:
			if x.Addr == al {
				copyStore = x
			}
		case *ssa.FieldAddr:
			name := core.FieldName(x)
			for _, rr := range core.Refs(x) {
				st, ok := rr.(*ssa.Store)
				if !ok {
					continue
				}
				if name == "User" {
					maskStores = append(maskStores, st)
				} else {
					c.check(false, "C16.redact.other-fields", f, "store to copy."+name, st, "every component other than User must equal the input's")
				}
			}
		case *ssa.Return, *ssa.DebugRef:
		default:
			c.undecided("C16.redact.return", f, "copy used by "+core.Describe(asValue(r)), r, "the fresh copy escapes before it is returned")
		}
	}
	c.L.Record(core.Discharged, "C16.redact.other-fields", core.FuncName(f), "only User of the copy is overwritten", c.ipos(ret), "stores into the copy enumerated")
	dominating := false
	for _, st := range maskStores {
		why, clean := untaintedMask(c, st.Val)
		c.check(clean, "C16.redact.mask-store", f, "copy.User = "+core.Describe(st.Val), st,
			"the stored userinfo must derive only from constants: "+why)
		if copyStore != nil && core.Dominates(copyStore, st) && core.Dominates(st, ret) {
			dominating = true
		}
	}
	c.check(dominating, "C16.redact.return", f, "return of masked copy", ret,
		"a store of the mask to copy.User must follow the struct copy and dominate the return (otherwise the copied credentials are returned)")
}

// untaintedMask: the value is a load of a package-level variable that is only
// ever assigned, in the package initialiser, the result of url.User /
// url.UserPassword on constants (or such a call directly).
func untaintedMask(c *Ctx, v ssa.Value) (string, bool) {
	switch x := v.(type) {
	case *ssa.Call:
		n := core.CalleeName(&x.Call)
		if n != "net/url.UserPassword" && n != "net/url.User" {
			return "call of " + n, false
		}
		for _, a := range x.Call.Args {
			if _, ok := core.ConstString(a); !ok {
				return "non-constant argument " + core.Describe(a), false
			}
		}
		return "constant userinfo", true
	case *ssa.UnOp:
		g, ok := x.X.(*ssa.Global)
		if x.Op != token.MUL || !ok {
			return "not a package variable: " + core.Describe(v), false
		}
		return maskGlobalConst(c, g)
	}
	return "value " + core.Describe(v), false
}

func maskGlobalConst(c *Ctx, g *ssa.Global) (string, bool) {
	writers := 0
	okAll := true
	why := ""
	for _, fn := range c.P.Funcs(core.PkgOf2(g)) {
		core.EachInstr(fn, func(in ssa.Instruction) {
			st, ok := in.(*ssa.Store)
			if !ok || st.Addr != g {
				// the address must not escape either
				if v, isV := in.(ssa.Value); isV {
					_ = v
				}
				return
			}
			writers++
			w, clean := "", false
			if call, isCall := st.Val.(*ssa.Call); isCall {
				w, clean = untaintedMask(c, call)
			} else {
				w = "assigned " + core.Describe(st.Val)
			}
			inInit := fn.Name() == "init" && fn.Parent() == nil
			ok2 := clean && inInit
			c.check(ok2, "C16.mask.writer", fn, g.Name()+" = "+core.Describe(st.Val), st,
				"the shared mask is written only by its initialiser, from constants")
			if !ok2 {
				okAll = false
				why = w
			}
		})
	}
	// any use of the global other than load/store (address taken) is unknown
	for _, r := range core.Refs(g) {
		switch x := r.(type) {
		case *ssa.Store:
			if x.Addr != g {
				okAll, why = false, "address of "+g.Name()+" stored"
			}
		case *ssa.UnOp, *ssa.DebugRef:
		default:
			okAll, why = false, "address of "+g.Name()+" escapes"
		}
	}
	if writers == 0 {
		return g.Name() + " is never initialised (nil mask)", false
	}
	if !okAll {
		return why, false
	}
	return "package variable " + g.Name() + " initialised from constants", true
}

func c16ErrURL(c *Ctx, f *ssa.Function) {
	if len(f.Params) != 2 {
		c.undecided("C16.errurl.store", f, "signature", nil, "expected (u, err)")
		return
	}
	u, errp := f.Params[0], f.Params[1]
	redact := c.P.Func("netutil/urlutil", "RedactUserinfo")
	stores := 0
	core.EachInstr(f, func(in ssa.Instruction) {
		switch x := in.(type) {
		case *ssa.Store:
			stores++
			fa, ok := x.Addr.(*ssa.FieldAddr)
			if !ok || core.FieldName(fa) != "URL" {
				c.check(false, "C16.errurl.store", f, "store to "+core.Describe(x.Addr), x, "only the URL text of the *url.Error may be written")
				return
			}
			// target: direct type assertion of the err parameter to *url.Error
			okT := false
			if ex, isEx := fa.X.(*ssa.Extract); isEx && ex.Index == 0 {
				if ta, isTA := ex.Tuple.(*ssa.TypeAssert); isTA && ta.X == errp && ta.CommaOk && isPtrToNamed(ta.AssertedType, "net/url", "Error") {
					// guarded by ok
					for _, g := range core.GuardsOf(x) {
						if e2, isE := g.Cond.(*ssa.Extract); isE && e2.Tuple == ta && e2.Index == 1 && g.Truth {
							okT = true
						}
					}
				}
			}
			c.check(okT, "C16.errurl.target", f, "target of the overwrite", x,
				"the overwritten object must be err itself asserted to *url.Error (top level only), under ok")
			c.check(guardedByFieldNil(x, u, "User", false), "C16.errurl.guard", f, "overwrite only when u has userinfo", x,
				"errors for URLs without userinfo are left untouched")
			// value: RedactUserinfo(u).String()
			okV := false
			if call, isCall := x.Val.(*ssa.Call); isCall && core.CalleeName(&call.Call) == "(*net/url.URL).String" && len(call.Call.Args) == 1 {
				if inner, isCall := call.Call.Args[0].(*ssa.Call); isCall && inner.Call.StaticCallee() == redact && redact != nil &&
					len(inner.Call.Args) == 1 && inner.Call.Args[0] == u {
					okV = true
				}
			}
			c.check(okV, "C16.errurl.store", f, "errURL.URL = "+core.Describe(x.Val), x,
				"the new text must be RedactUserinfo(u).String()")
		case *ssa.Call:
			n := core.CalleeName(&x.Call)
			if x.Call.StaticCallee() == redact || n == "(*net/url.URL).String" {
				return
			}
			c.check(false, "C16.errurl.effects", f, "call of "+n, x, "no other effect is allowed: every other error is left untouched")
		case *ssa.MapUpdate, *ssa.Send, *ssa.Go, *ssa.Defer:
			c.check(false, "C16.errurl.effects", f, "side effect", in, "no other effect is allowed")
		}
	})
	c.L.Record(core.Discharged, "C16.errurl.effects", core.FuncName(f), "effects enumerated", c.P.Pos(f.Pos()), sprintf("%d store(s), calls limited to RedactUserinfo and String", stores))
}

func isPtrToNamed(t types.Type, pkg, name string) bool {
	p, ok := t.(*types.Pointer)
	if !ok {
		return false
	}
	n, ok := types.Unalias(p.Elem()).(*types.Named)
	return ok && n.Obj().Name() == name && n.Obj().Pkg() != nil && n.Obj().Pkg().Path() == pkg
}
