package rules

import (
	"go/token"
	"go/types"

	"golang.org/x/tools/go/ssa"

	"verif/sa/core"
)

func init() {
	register(&Property{
		ID:    "C16",
		Level: "proof",
		Explanation: "Non-interference by an object-state dataflow on the SSA of RedactUserinfo / RedactUserinfoInURLError: every use of the input URL (and of the phis it flows into) is classified " +
			"(u.User only in nil tests, other fields read, *u only assigned as a whole to a local URL, no store through it, no call receives it); every local url.URL carries an abstract state " +
			"{zero, holds *u, fields copied one by one} x {User overwritten by the mask since} propagated over the CFG; every value that may be returned (per phi edge, with the branch facts of that " +
			"edge) is the input under u.User == nil or a local copy in the state 'whole input, User = mask'; the mask is a package variable written only by its initialiser from constants. Hence the " +
			"result is a function of (input without User, constants). The error function's only store outside local copies is errURL.URL of err asserted to *url.Error under ok and u.User != nil, " +
			"with the String() of RedactUserinfo(u) or of a local masked copy. Decides the structural non-interference argument for all URLs x credentials; trusts url.URL.String to read only the struct's fields.",
		Technique: "SSA dataflow / non-interference (use classification of the input pointer, dominance of the mask store)",
		Note:      "Trusted: go/types, go/ssa, net/url (*URL).String reading only the struct fields. Assumes u != nil as documented.",
		DesignRef: "DESIGN.md section 4, C16",
		Run:       runC16,
	})
}

func runC16(c *Ctx) {
	c.L.Trust("go/types + go/ssa (x/tools v0.29.0)", "net/url: (*URL).String reads only the fields of the URL struct", "rule code in /verif/sa/rules/c16.go")
	c.L.Assumef("u is non-nil (documented precondition)")
	c.L.Floor("C16.redact.use-of-input", 1)
	c.L.Floor("C16.redact.return", 1)
	c.L.Floor("C16.redact.mask-store", 1)
	c.L.Floor("C16.mask.writer", 1)
	c.L.Floor("C16.errurl.store", 1)

	if f := c.fn("netutil/urlutil", "RedactUserinfo"); f != nil {
		c16Redact(c, f)
	}
	if f := c.fn("netutil/urlutil", "RedactUserinfoInURLError"); f != nil {
		c16ErrURL(c, f)
	}
}

// isNilTestOnly reports whether every use of the loaded value is a comparison
// with nil.
func isNilTestOnly(v ssa.Value) bool {
	for _, r := range core.Refs(v) {
		b, ok := r.(*ssa.BinOp)
		if !ok || (b.Op != token.EQL && b.Op != token.NEQ) {
			if _, isDbg := r.(*ssa.DebugRef); isDbg {
				continue
			}
			return false
		}
		if !core.IsNilConst(b.X) && !core.IsNilConst(b.Y) {
			return false
		}
	}
	return true
}

// factFieldNil reports whether the facts contain base.<field> == nil (wantNil)
// or != nil (!wantNil).
func factFieldNil(facts []core.Fact, base ssa.Value, field string, wantNil bool) bool {
	for _, g := range facts {
		cond, truth := core.StripNot(g.Cond, g.Truth)
		b, ok := cond.(*ssa.BinOp)
		if !ok || (b.Op != token.EQL && b.Op != token.NEQ) {
			continue
		}
		var other ssa.Value
		switch {
		case core.IsNilConst(b.Y):
			other = b.X
		case core.IsNilConst(b.X):
			other = b.Y
		default:
			continue
		}
		fname, fbase, ok := core.IsLoadOfField(other)
		if !ok || fname != field || fbase != base {
			continue
		}
		if ((b.Op == token.EQL) == truth) == wantNil {
			return true
		}
	}
	return false
}

// copyState is the abstract content of one local url.URL object.
type copyState struct {
	whole     int    // 0 zero value, 1 assigned *u as a whole, 2 anything else
	fields    uint64 // non-User fields assigned u's field of the same name
	userClean bool   // User overwritten by the constant mask since the last whole assignment
	userSet   bool   // some store to User happened
}

func (a copyState) join(b copyState) copyState {
	r := copyState{fields: a.fields & b.fields, userClean: a.userClean && b.userClean, userSet: a.userSet || b.userSet}
	if a.whole == b.whole {
		r.whole = a.whole
	} else {
		r.whole = 2
	}
	return r
}

// c16Flow is the per-function object-state analysis shared by both rules.
type c16Flow struct {
	c      *Ctx
	f      *ssa.Function
	u      *ssa.Parameter
	facts  *core.FactSet
	allocs []*ssa.Alloc
	in     map[*ssa.BasicBlock]map[*ssa.Alloc]copyState
	nfield int
	userIx int
}

func isURLStruct(t types.Type) (*types.Struct, bool) {
	n, ok := types.Unalias(t).(*types.Named)
	if !ok || n.Obj().Name() != "URL" || n.Obj().Pkg() == nil || n.Obj().Pkg().Path() != "net/url" {
		return nil, false
	}
	st, ok := n.Underlying().(*types.Struct)
	return st, ok
}

func newC16Flow(c *Ctx, f *ssa.Function, u *ssa.Parameter) *c16Flow {
	fl := &c16Flow{c: c, f: f, u: u, facts: core.Facts(f), in: map[*ssa.BasicBlock]map[*ssa.Alloc]copyState{}, userIx: -1}
	core.EachInstr(f, func(in ssa.Instruction) {
		if al, ok := in.(*ssa.Alloc); ok {
			if st, isURL := isURLStruct(al.Type().Underlying().(*types.Pointer).Elem()); isURL {
				fl.allocs = append(fl.allocs, al)
				fl.nfield = st.NumFields()
				for i := 0; i < st.NumFields(); i++ {
					if st.Field(i).Name() == "User" {
						fl.userIx = i
					}
				}
			}
		}
	})
	if len(fl.allocs) == 0 || len(f.Blocks) == 0 {
		return fl
	}
	out := map[*ssa.BasicBlock]map[*ssa.Alloc]copyState{}
	for changed := true; changed; {
		changed = false
		for _, b := range f.Blocks {
			var st map[*ssa.Alloc]copyState
			if b == f.Blocks[0] {
				st = map[*ssa.Alloc]copyState{}
			} else {
				for _, p := range b.Preds {
					o, ok := out[p]
					if !ok {
						continue
					}
					if st == nil {
						st = map[*ssa.Alloc]copyState{}
						for k, v := range o {
							st[k] = v
						}
						continue
					}
					for _, al := range fl.allocs {
						st[al] = st[al].join(o[al])
					}
				}
				if st == nil {
					continue
				}
			}
			fl.in[b] = st
			cur := map[*ssa.Alloc]copyState{}
			for k, v := range st {
				cur[k] = v
			}
			for _, in := range b.Instrs {
				fl.step(cur, in, false)
			}
			if old, ok := out[b]; !ok || !sameCopyStates(old, cur, fl.allocs) {
				out[b] = cur
				changed = true
			}
		}
	}
	return fl
}

func sameCopyStates(a, b map[*ssa.Alloc]copyState, allocs []*ssa.Alloc) bool {
	for _, al := range allocs {
		if a[al] != b[al] {
			return false
		}
	}
	return true
}

// isInput: the pointer may be the input URL.
func (fl *c16Flow) isInput(v ssa.Value) bool {
	for _, l := range fl.facts.Leaves(v, fl.f.Blocks[0].Instrs[0]) {
		if l.V == ssa.Value(fl.u) {
			return true
		}
	}
	return false
}

// step applies one instruction to the object states; with report it also
// records the obligations attached to stores into the copies.
func (fl *c16Flow) step(cur map[*ssa.Alloc]copyState, in ssa.Instruction, report bool) {
	c, f := fl.c, fl.f
	switch x := in.(type) {
	case *ssa.Alloc:
		for _, al := range fl.allocs {
			if al == x {
				cur[al] = copyState{}
			}
		}
	case *ssa.Store:
		if al, ok := x.Addr.(*ssa.Alloc); ok && fl.isCopy(al) {
			st := copyState{whole: 2}
			if ld, isLd := x.Val.(*ssa.UnOp); isLd && ld.Op == token.MUL && ld.X == ssa.Value(fl.u) {
				st = copyState{whole: 1}
			}
			cur[al] = st
			return
		}
		fa, ok := x.Addr.(*ssa.FieldAddr)
		if !ok {
			return
		}
		al, ok := fa.X.(*ssa.Alloc)
		if !ok || !fl.isCopy(al) {
			return
		}
		st := cur[al]
		name := core.FieldName(fa)
		if fa.Field == fl.userIx {
			why, clean := untaintedMask(c, x.Val)
			st.userClean, st.userSet = clean, true
			if report {
				c.check(clean, "C16.redact.mask-store", f, "copy.User = "+core.Describe(x.Val), x,
					"the stored userinfo must derive only from constants: "+why)
			}
		} else {
			n, base, isLd := core.IsLoadOfField(x.Val)
			same := isLd && n == name && base == ssa.Value(fl.u)
			if same {
				st.fields |= 1 << uint(fa.Field)
			} else {
				st.whole = 2
			}
			if report {
				c.check(same, "C16.redact.other-fields", f, "store to copy."+name, x, "every component other than User must equal the input's")
			}
		}
		cur[al] = st
	}
}

func (fl *c16Flow) isCopy(al *ssa.Alloc) bool {
	for _, a := range fl.allocs {
		if a == al {
			return true
		}
	}
	return false
}

// stateAt returns the state of al just before instruction at (from == nil) or
// at the end of block from.
func (fl *c16Flow) stateAt(al *ssa.Alloc, at ssa.Instruction, from *ssa.BasicBlock) (copyState, bool) {
	b := at.Block()
	if from != nil {
		b = from
	}
	st, ok := fl.in[b]
	if !ok {
		return copyState{}, false
	}
	cur := map[*ssa.Alloc]copyState{}
	for k, v := range st {
		cur[k] = v
	}
	for _, in := range b.Instrs {
		if from == nil && in == at {
			break
		}
		fl.step(cur, in, false)
	}
	return cur[al], true
}

// masked: the object holds the input's components with User replaced by the mask.
func (fl *c16Flow) masked(st copyState) bool {
	if !st.userClean {
		return false
	}
	if st.whole == 1 {
		return true
	}
	if st.whole != 0 {
		return false
	}
	all := uint64(0)
	for i := 0; i < fl.nfield; i++ {
		if i != fl.userIx {
			all |= 1 << uint(i)
		}
	}
	return st.fields&all == all
}

// report replays every block once with reporting switched on.
func (fl *c16Flow) report() {
	for _, b := range fl.f.Blocks {
		st, ok := fl.in[b]
		if !ok {
			continue
		}
		cur := map[*ssa.Alloc]copyState{}
		for k, v := range st {
			cur[k] = v
		}
		for _, in := range b.Instrs {
			fl.step(cur, in, true)
		}
	}
}

// classifyInputUses enumerates every use of the input pointer (and of the phis
// it flows into).  allowCall says which calls may receive it.
func (fl *c16Flow) classifyInputUses(rule string, allowCall func(*ssa.Call) bool) {
	c, f, u := fl.c, fl.f, fl.u
	seen := map[ssa.Value]bool{}
	var visit func(v ssa.Value)
	visit = func(v ssa.Value) {
		if seen[v] {
			return
		}
		seen[v] = true
		for _, r := range core.Refs(v) {
			switch x := r.(type) {
			case *ssa.DebugRef, *ssa.Return:
			case *ssa.Phi:
				visit(x)
			case *ssa.BinOp:
				// pointer comparison (u == nil): reveals nothing about the credentials
				c.check(x.Op == token.EQL || x.Op == token.NEQ, rule, f, "comparison of the input pointer", x, "pointer identity only")
			case *ssa.FieldAddr:
				name := core.FieldName(x)
				for _, rr := range core.Refs(x) {
					switch y := rr.(type) {
					case *ssa.UnOp:
						if name == "User" {
							c.check(isNilTestOnly(y), rule, f, "read of u.User", y,
								"the credentials may only be tested for nil; any other use can flow into the result")
						} else {
							c.check(true, rule, f, "read of u."+name, y, "non-credential field")
						}
					case *ssa.Store:
						if y.Addr == ssa.Value(x) {
							// a store through a pointer that may be the input
							c.check(v != ssa.Value(u) && !fl.mayBeInputAt(v, y), "C16.redact.input-unmodified", f, "store to u."+name, y, "the input URL must never be modified")
						}
					case *ssa.DebugRef:
					default:
						c.undecided(rule, f, "address of u."+name+" escapes", rr, "cannot track this use of the input")
					}
				}
			case *ssa.UnOp: // *u
				ok := true
				for _, rr := range core.Refs(x) {
					st, isStore := rr.(*ssa.Store)
					if !isStore {
						if _, d := rr.(*ssa.DebugRef); d {
							continue
						}
						ok = false
						continue
					}
					al, isAlloc := st.Addr.(*ssa.Alloc)
					if !isAlloc || st.Val != ssa.Value(x) || !fl.isCopy(al) {
						ok = false
					}
				}
				c.check(ok && v == ssa.Value(u), rule, f, "copy *u", x, "the struct copy (which contains User) may only initialise a fresh local URL")
			case *ssa.Store:
				if x.Addr == v {
					c.check(false, "C16.redact.input-unmodified", f, "store through u", x, "the input URL must never be modified")
				} else {
					c.undecided(rule, f, "u stored", x, "the input pointer escapes")
				}
			case *ssa.Call:
				if allowCall != nil && allowCall(x) {
					continue
				}
				c.undecided(rule, f, "u passed to "+core.CalleeName(&x.Call), r, "unrecognised use of the input URL (call or escape): cannot show the credentials do not flow out")
			default:
				c.undecided(rule, f, "u used by "+core.Describe(asValue(r)), r, "unrecognised use of the input URL (call or escape): cannot show the credentials do not flow out")
			}
		}
	}
	visit(u)
}

// mayBeInputAt: v (a phi the input flows into) may still be the input when the
// store executes.  A phi that merges the input with a fresh copy is the input
// on some path.
func (fl *c16Flow) mayBeInputAt(v ssa.Value, at ssa.Instruction) bool {
	for _, l := range fl.facts.Leaves(v, at) {
		if l.V == ssa.Value(fl.u) {
			return true
		}
	}
	return false
}

// redactedAt: on every path, v is either the input under "u.User == nil"
// (identity, only when allowIdentity) or a local copy in the masked state.
func (fl *c16Flow) redactedAt(v ssa.Value, at ssa.Instruction, allowIdentity bool) (bool, string) {
	for _, l := range fl.facts.Leaves(v, at) {
		switch x := l.V.(type) {
		case *ssa.Parameter:
			if x != fl.u {
				return false, "parameter " + x.Name()
			}
			if !allowIdentity || !factFieldNil(l.Facts, fl.u, "User", true) {
				return false, "the input itself may be used only when it has no userinfo (u.User == nil on that path)"
			}
		case *ssa.Alloc:
			if !fl.isCopy(x) {
				return false, "not a URL copy"
			}
			st, ok := fl.stateAt(x, at, l.From)
			if !ok || !fl.masked(st) {
				return false, "the copy does not hold the input with User overwritten by the mask on every path (otherwise the copied credentials are used)"
			}
		case *ssa.Call:
			redact := fl.c.P.Func("netutil/urlutil", "RedactUserinfo")
			if redact == nil || x.Call.StaticCallee() != redact || len(x.Call.Args) != 1 || x.Call.Args[0] != ssa.Value(fl.u) {
				return false, "call of " + core.CalleeName(&x.Call)
			}
		default:
			return false, "value " + core.Describe(l.V)
		}
	}
	return true, ""
}

func c16Redact(c *Ctx, f *ssa.Function) {
	if len(f.Params) != 1 {
		c.undecided("C16.redact.use-of-input", f, "signature", nil, "expected exactly one *url.URL parameter")
		return
	}
	u := f.Params[0]
	fl := newC16Flow(c, f, u)
	fl.classifyInputUses("C16.redact.use-of-input", nil)
	fl.report()
	// copies must not escape except through the return
	for _, al := range fl.allocs {
		for _, r := range core.Refs(al) {
			switch r.(type) {
			case *ssa.Store, *ssa.FieldAddr, *ssa.Return, *ssa.DebugRef, *ssa.Phi:
			default:
				c.undecided("C16.redact.return", f, "copy used by "+core.Describe(asValue(r)), r, "the fresh copy escapes before it is returned")
			}
		}
	}
	for _, ret := range core.Returns(f) {
		if len(ret.Results) != 1 {
			continue
		}
		ok, why := fl.redactedAt(ret.Results[0], ret, true)
		c.check(ok, "C16.redact.return", f, "return "+core.Describe(ret.Results[0]), ret,
			"every returned value is the input under u.User == nil or a copy of it whose User holds the mask: "+why)
	}
	c.L.Record(core.Discharged, "C16.redact.input-unmodified", core.FuncName(f), "no store through u", c.P.Pos(f.Pos()), "all uses of u enumerated")
	c.L.Record(core.Discharged, "C16.redact.other-fields", core.FuncName(f), "only User of the copy is overwritten", c.P.Pos(f.Pos()), "stores into the copies enumerated")
}

func asValue(in ssa.Instruction) ssa.Value {
	v, _ := in.(ssa.Value)
	return v
}

// untaintedMask: the value is a load of a package-level variable that is only
// ever assigned, in the package initialiser, the result of url.User /
// url.UserPassword on constants (or such a call directly).
func untaintedMask(c *Ctx, v ssa.Value) (string, bool) {
	switch x := v.(type) {
	case *ssa.Call:
		n := core.CalleeName(&x.Call)
		if n != "net/url.UserPassword" && n != "net/url.User" {
			return "call of " + n, false
		}
		for _, a := range x.Call.Args {
			if _, ok := core.ConstString(a); !ok {
				return "non-constant argument " + core.Describe(a), false
			}
		}
		return "constant userinfo", true
	case *ssa.UnOp:
		g, ok := x.X.(*ssa.Global)
		if x.Op != token.MUL || !ok {
			return "not a package variable: " + core.Describe(v), false
		}
		return maskGlobalConst(c, g)
	}
	return "value " + core.Describe(v), false
}

func maskGlobalConst(c *Ctx, g *ssa.Global) (string, bool) {
	writers := 0
	okAll := true
	why := ""
	for _, fn := range c.P.Funcs(core.PkgOf2(g)) {
		core.EachInstr(fn, func(in ssa.Instruction) {
			st, ok := in.(*ssa.Store)
			if !ok || st.Addr != g {
				// the address must not escape either
				if v, isV := in.(ssa.Value); isV {
					_ = v
				}
				return
			}
			writers++
			w, clean := "", false
			if call, isCall := st.Val.(*ssa.Call); isCall {
				w, clean = untaintedMask(c, call)
			} else {
				w = "assigned " + core.Describe(st.Val)
			}
			inInit := fn.Name() == "init" && fn.Parent() == nil
			ok2 := clean && inInit
			c.check(ok2, "C16.mask.writer", fn, g.Name()+" = "+core.Describe(st.Val), st,
				"the shared mask is written only by its initialiser, from constants")
			if !ok2 {
				okAll = false
				why = w
			}
		})
	}
	// any use of the global other than load/store (address taken) is unknown
	for _, r := range core.Refs(g) {
		switch x := r.(type) {
		case *ssa.Store:
			if x.Addr != g {
				okAll, why = false, "address of "+g.Name()+" stored"
			}
		case *ssa.UnOp, *ssa.DebugRef:
		default:
			okAll, why = false, "address of "+g.Name()+" escapes"
		}
	}
	if writers == 0 {
		return g.Name() + " is never initialised (nil mask)", false
	}
	if !okAll {
		return why, false
	}
	return "package variable " + g.Name() + " initialised from constants", true
}

func c16ErrURL(c *Ctx, f *ssa.Function) {
	if len(f.Params) != 2 {
		c.undecided("C16.errurl.store", f, "signature", nil, "expected (u, err)")
		return
	}
	u, errp := f.Params[0], f.Params[1]
	redact := c.P.Func("netutil/urlutil", "RedactUserinfo")
	fl := newC16Flow(c, f, u)
	isString := func(call *ssa.Call) bool {
		return core.CalleeName(&call.Call) == "(*net/url.URL).String" && len(call.Call.Args) == 1
	}
	fl.classifyInputUses("C16.errurl.effects", func(call *ssa.Call) bool {
		return redact != nil && call.Call.StaticCallee() == redact
	})
	fl.report()
	// values derived from the err parameter by assertion
	fromErr := func(v ssa.Value) (*ssa.TypeAssert, bool) {
		ex, isEx := v.(*ssa.Extract)
		if !isEx || ex.Index != 0 {
			return nil, false
		}
		ta, isTA := ex.Tuple.(*ssa.TypeAssert)
		if !isTA || ta.X != ssa.Value(errp) || !ta.CommaOk || !isPtrToNamed(ta.AssertedType, "net/url", "Error") {
			return nil, false
		}
		return ta, true
	}
	stores := 0
	core.EachInstr(f, func(in ssa.Instruction) {
		switch x := in.(type) {
		case *ssa.Store:
			if al, ok := x.Addr.(*ssa.Alloc); ok && fl.isCopy(al) {
				return
			}
			fa, ok := x.Addr.(*ssa.FieldAddr)
			if ok {
				if al, isAl := fa.X.(*ssa.Alloc); isAl && fl.isCopy(al) {
					return // local copy: handled by the object-state analysis
				}
			}
			stores++
			if !ok || core.FieldName(fa) != "URL" {
				c.check(false, "C16.errurl.store", f, "store to "+core.Describe(x.Addr), x, "only the URL text of the *url.Error may be written")
				return
			}
			// target: direct type assertion of the err parameter to *url.Error, under ok
			okT := false
			if ta, isErr := fromErr(fa.X); isErr {
				for _, g := range fl.facts.At(x.Block()) {
					if e2, isE := g.Cond.(*ssa.Extract); isE && e2.Tuple == ssa.Value(ta) && e2.Index == 1 && g.Truth {
						okT = true
					}
				}
			}
			c.check(okT, "C16.errurl.target", f, "target of the overwrite", x,
				"the overwritten object must be err itself asserted to *url.Error (top level only), under ok")
			c.check(factFieldNil(fl.facts.At(x.Block()), u, "User", false), "C16.errurl.guard", f, "overwrite only when u has userinfo", x,
				"errors for URLs without userinfo are left untouched")
			// value: <redacted URL>.String()
			okV, why := false, "not a String() call"
			if call, isCall := x.Val.(*ssa.Call); isCall && isString(call) {
				okV, why = fl.redactedAt(call.Call.Args[0], call, false)
			}
			c.check(okV, "C16.errurl.store", f, "errURL.URL = "+core.Describe(x.Val), x,
				"the new text must be the String() of the redacted URL (RedactUserinfo(u) or a copy of u whose User holds the mask): "+why)
		case *ssa.Call:
			n := core.CalleeName(&x.Call)
			if (redact != nil && x.Call.StaticCallee() == redact) || n == "net/url.UserPassword" || n == "net/url.User" {
				return
			}
			if isString(x) {
				ok, why := fl.redactedAt(x.Call.Args[0], x, false)
				c.check(ok, "C16.errurl.effects", f, "String() of "+core.Describe(x.Call.Args[0]), x, "only the redacted URL may be rendered: "+why)
				return
			}
			// a call that receives the error, the URL or a copy could change or leak them
			touches := false
			for _, a := range x.Call.Args {
				if a == ssa.Value(errp) || a == ssa.Value(u) {
					touches = true
				}
				if _, isErr := fromErr(a); isErr {
					touches = true
				}
				if al, isAl := a.(*ssa.Alloc); isAl && fl.isCopy(al) {
					touches = true
				}
			}
			c.check(!touches, "C16.errurl.effects", f, "call of "+n, x, "no other effect on the error or the URL is allowed: every other error is left untouched")
		case *ssa.MapUpdate, *ssa.Send, *ssa.Go, *ssa.Defer:
			c.check(false, "C16.errurl.effects", f, "side effect", in, "no other effect is allowed")
		}
	})
	c.L.Record(core.Discharged, "C16.errurl.effects", core.FuncName(f), "effects enumerated", c.P.Pos(f.Pos()), sprintf("%d store(s) outside local copies; calls limited to RedactUserinfo and String of the redacted URL", stores))
}

func isPtrToNamed(t types.Type, pkg, name string) bool {
	p, ok := t.(*types.Pointer)
	if !ok {
		return false
	}
	n, ok := types.Unalias(p.Elem()).(*types.Named)
	return ok && n.Obj().Name() == name && n.Obj().Pkg() != nil && n.Obj().Pkg().Path() == pkg
}
