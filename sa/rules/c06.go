package rules

import (
	"fmt"
	"go/ast"
	"net/netip"
	"sort"
	"strings"

	"golang.org/x/tools/go/ssa"

	"verif/sa/boolfn"
	"verif/sa/core"
)

func init() {
	register(&Property{
		ID:    "C06",
		Level: "proof",
		Explanation: "Exact Boolean-function evaluation (ROBDD over the 32/128 address bits, built by one dataflow pass over the loop-free SSA of " +
			"isLocallyServedV4/V6 and isSpecialPurposeV4/V6) compared for identity with the function denoted by the prefix list parsed from the doc comments of " +
			"IsLocallyServed / IsSpecialPurpose in the current tree; the exported wrappers are evaluated with atoms IsValid/Is4 and must equal " +
			"IsValid && (Is4 ? V4(As4) : V6(As16)). Covers all 2^32 + 2^128 addresses and the invalid address by construction; zone-independence follows from As16 dropping the zone.",
		Technique: "exact abstract interpretation of loop-free SSA into ROBDDs; set equality against the documented prefix list",
		Note:      "Trusted: the BDD package and evaluator in /verif/sa/boolfn, go/ssa, the meaning of netip.Addr.IsValid/Is4/As4/As16, netip.ParsePrefix used to read the doc list. The documented list is the specification (as the property says).",
		DesignRef: "DESIGN.md section 4, C06",
		Run:       runC06,
	})
}

// docPrefixes reads the indented prefix lines of a function's doc comment.
func docPrefixes(c *Ctx, pkg, name string) (v4, v6 []netip.Prefix) {
	tp := c.P.TPkg(pkg)
	if tp == nil {
		return
	}
	for _, f := range tp.Syntax {
		for _, d := range f.Decls {
			fd, ok := d.(*ast.FuncDecl)
			if !ok || fd.Name.Name != name || fd.Recv != nil || fd.Doc == nil {
				continue
			}
			for _, cm := range fd.Doc.List {
				line := strings.TrimPrefix(cm.Text, "//")
				if !strings.HasPrefix(line, "\t") {
					continue
				}
				fs := strings.Fields(line)
				if len(fs) == 0 {
					continue
				}
				p, err := netip.ParsePrefix(fs[0])
				if err != nil {
					continue
				}
				if p.Addr().Is4() {
					v4 = append(v4, p)
				} else {
					v6 = append(v6, p)
				}
			}
		}
	}
	return
}

func prefixBDD(m *boolfn.BDD, base int, p netip.Prefix, nbytes int) int {
	var bs []byte
	if nbytes == 4 {
		a := p.Addr().As4()
		bs = a[:]
	} else {
		a := p.Addr().As16()
		bs = a[:]
	}
	r := 1
	for i := p.Bits() - 1; i >= 0; i-- {
		r = m.And(m.Lit(base+i, bs[i/8]>>(7-i%8)&1 == 1), r)
	}
	return r
}

// cubeToPrefix renders a cube over address bits as a prefix when its fixed
// bits are a leading run, else as an address with a bit mask.
func cubeToPrefix(cube map[int]bool, base, nbytes int) string {
	b := make([]byte, nbytes)
	maxv, n := -1, 0
	for v, val := range cube {
		i := v - base
		if i < 0 || i >= nbytes*8 {
			continue
		}
		n++
		if i > maxv {
			maxv = i
		}
		if val {
			b[i/8] |= 1 << (7 - i%8)
		}
	}
	var a netip.Addr
	if nbytes == 4 {
		a = netip.AddrFrom4([4]byte(b))
	} else {
		a = netip.AddrFrom16([16]byte(b))
	}
	if n == maxv+1 {
		return fmt.Sprintf("%s/%d", a, maxv+1)
	}
	return fmt.Sprintf("%s (bits fixed: %d of the first %d)", a, n, maxv+1)
}

func runC06(c *Ctx) {
	c.L.Trust("ROBDD package /verif/sa/boolfn (canonical form: equal functions have equal node ids)", "go/types + go/ssa (x/tools v0.29.0)",
		"netip.Addr accessors: IsValid, Is4, As4, As16 (As16 ignores the zone)", "net/netip.ParsePrefix for reading the documented list")
	c.L.Assumef("the prefix lists in the doc comments of IsLocallyServed and IsSpecialPurpose are the specification (property statement)")
	c.L.Floor("C06.doc-list", 2)
	c.L.Floor("C06.set-equality", 4)
	c.L.Floor("C06.wrapper", 2)

	m := boolfn.New()
	const (
		atomValid = 0
		atomIs4   = 1
		base4     = 2
		base6     = 2 + 32
	)
	ev := &boolfn.Eval{M: m, Entered: map[string]bool{}}
	ev.InScope = func(fn *ssa.Function) bool { return core.InModule(fn) }
	ev.OnCall = func(name string, call *ssa.CallCommon, args []boolfn.Val) (boolfn.Val, bool) {
		if len(args) == 1 && args[0].Kind == boolfn.KOpaque && args[0].Name == "addr" {
			switch name {
			case "(net/netip.Addr).IsValid":
				return boolfn.BoolVal(m.Var(atomValid)), true
			case "(net/netip.Addr).Is4":
				return boolfn.BoolVal(m.Var(atomIs4)), true
			case "(net/netip.Addr).Is6":
				return boolfn.BoolVal(m.And(m.Var(atomValid), m.Not(m.Var(atomIs4)))), true
			case "(net/netip.Addr).BitLen":
				// 0 for the invalid address, 32 for IPv4, 128 for IPv6
				v4, v6, z := ev.Const(32, 64, true), ev.Const(128, 64, true), ev.Const(0, 64, true)
				bits := make([]int, 64)
				for i := range bits {
					bits[i] = m.Ite(m.Var(atomValid), m.Ite(m.Var(atomIs4), v4.Bits[i], v6.Bits[i]), z.Bits[i])
				}
				return boolfn.Val{Kind: boolfn.KBits, Bits: bits, Signed: true}, true
			case "(net/netip.Addr).As4":
				return ev.ArrayInput(base4, 4), true
			case "(net/netip.Addr).As16":
				return ev.ArrayInput(base6, 16), true
			}
		}
		return boolfn.Val{}, false
	}

	samples := []any{}
	type fam struct {
		doc, v4, v6 string
		min4, min6  int
	}
	for _, tc := range []fam{{"IsLocallyServed", "isLocallyServedV4", "isLocallyServedV6", 9, 5}, {"IsSpecialPurpose", "isSpecialPurposeV4", "isSpecialPurposeV6", 16, 19}} {
		wrapper := c.fn("netutil", tc.doc)
		if wrapper == nil {
			continue
		}
		d4, d6 := docPrefixes(c, "netutil", tc.doc)
		c.check(len(d4) >= tc.min4 && len(d6) >= tc.min6, "C06.doc-list", wrapper, "documented prefix list of "+tc.doc, nil,
			sprintf("parsed %d IPv4 and %d IPv6 prefixes from the doc comment (at least %d and %d were there when the rule was written)", len(d4), len(d6), tc.min4, tc.min6))
		spec := map[int]int{}
		for _, f := range []struct {
			name string
			ps   []netip.Prefix
			n    int
			base int
		}{{tc.v4, d4, 4, base4}, {tc.v6, d6, 16, base6}} {
			sp := 0
			for _, p := range f.ps {
				sp = m.Or(sp, prefixBDD(m, f.base, p, f.n))
			}
			spec[f.n] = sp
			fn := c.P.Func("netutil", f.name)
			if fn == nil {
				// the helper may have been renamed or inlined; the wrapper
				// equality below still decides the property.
				c.L.Notef("helper %s not found; relying on the wrapper equality", f.name)
				continue
			}
			c.L.Saw(core.FuncName(fn))
			rs, err := ev.Call(fn, []boolfn.Val{ev.ArrayInput(f.base, f.n)})
			if err != nil || len(rs) != 1 || rs[0].Kind != boolfn.KBits || len(rs[0].Bits) != 1 {
				c.undecided("C06.set-equality", fn, f.name+" == documented list", nil, sprintf("outside the loop-free predicate grammar: %v", err))
				continue
			}
			impl := rs[0].Bits[0]
			diff := m.Xor(impl, sp)
			reason := sprintf("accepted set equals the union of the %d documented prefixes (ROBDD identity over %d bits)", len(f.ps), f.n*8)
			if diff != 0 {
				over := m.And(impl, m.Not(sp))
				under := m.And(sp, m.Not(impl))
				var o, u []string
				for _, cb := range m.Cubes(over, 6) {
					o = append(o, cubeToPrefix(cb, f.base, f.n))
				}
				for _, cb := range m.Cubes(under, 6) {
					u = append(u, cubeToPrefix(cb, f.base, f.n))
				}
				sort.Strings(o)
				sort.Strings(u)
				w := cubeToPrefix(fullCube(m.Witness(diff), f.base, f.n), f.base, f.n)
				reason = sprintf("differs from the documented list; accepted but undocumented: %v; documented but rejected: %v; witness address %s", o, u, strings.TrimSuffix(strings.TrimSuffix(w, "/32"), "/128"))
			}
			c.check(diff == 0, "C06.set-equality", fn, f.name+" == documented list", nil, reason)
			samples = append(samples, map[string]any{"function": f.name, "documented_prefixes": len(f.ps), "bdd_nodes_impl": m.Size(), "addresses_accepted": m.SatCount(shift(m, impl, f.base), f.n*8)})
		}
		// wrapper: IsValid && (Is4 ? V4 : V6)
		rs, err := ev.Call(wrapper, []boolfn.Val{boolfn.Opaque("addr")})
		if err != nil || len(rs) != 1 || rs[0].Kind != boolfn.KBits || len(rs[0].Bits) != 1 {
			c.undecided("C06.wrapper", wrapper, tc.doc+" == IsValid && (Is4 ? V4(As4) : V6(As16))", nil, sprintf("outside the grammar: %v", err))
			continue
		}
		want := m.And(m.Var(atomValid), m.Ite(m.Var(atomIs4), spec[4], spec[16]))
		got := rs[0].Bits[0]
		// an invalid address is never IPv4: compare on the feasible atom values only
		feasible := m.Or(m.Var(atomValid), m.Not(m.Var(atomIs4)))
		got, want = m.And(got, feasible), m.And(want, feasible)
		reason := "the exported function denotes IsValid ∧ (Is4 ? doc4(As4) : doc6(As16)): invalid address rejected, each family tested against its own documented list"
		if got != want {
			w := m.Witness(m.Xor(got, want))
			reason = sprintf("wrapper differs from IsValid && (Is4 ? V4 : V6); witness: valid=%v is4=%v v4=%s v6=%s", w[atomValid], w[atomIs4],
				cubeToPrefix(fullCube(w, base4, 4), base4, 4), cubeToPrefix(fullCube(w, base6, 16), base6, 16))
		}
		c.check(got == want, "C06.wrapper", wrapper, tc.doc+" == IsValid && (Is4 ? V4(As4) : V6(As16))", nil, reason)
	}
	for f := range ev.Entered {
		c.L.Saw(strings.ReplaceAll(f, core.ModPath+"/", ""))
	}
	if p := Get("C06"); p != nil {
		p.Extra = map[string]any{"bdd_nodes": m.Size(), "predicates": samples}
	}
}

// fullCube completes a partial witness with zeros over the address bits.
func fullCube(w map[int]bool, base, nbytes int) map[int]bool {
	out := map[int]bool{}
	for i := 0; i < nbytes*8; i++ {
		out[base+i] = w[base+i]
	}
	return out
}

// shift is the identity; SatCount counts over [0,nvars) so functions over a
// block starting at base are counted after renaming, which preserves counts
// when the function only mentions the block (variables below base are free and
// would double the count).  Rebuild the function over variables 0..
func shift(m *boolfn.BDD, f, base int) int {
	if base == 0 {
		return f
	}
	cubes := m.Cubes(f, 1<<16)
	r := 0
	for _, cb := range cubes {
		t := 1
		var vars []int
		for v := range cb {
			vars = append(vars, v)
		}
		sort.Sort(sort.Reverse(sort.IntSlice(vars)))
		for _, v := range vars {
			t = m.And(m.Lit(v-base, cb[v]), t)
		}
		r = m.Or(r, t)
	}
	return r
}
