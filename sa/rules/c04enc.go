package rules

import (
	"fmt"
	"go/constant"
	"go/types"
	"os"
	"strconv"

	"golang.org/x/tools/go/ssa"

	"verif/sa/boolfn"
	"verif/sa/core"
)

// c04EncoderExact decides the ARPA encoder exactly.  IPToReversedAddr is
// evaluated on a net.IP of symbolic bytes in each of the scenarios that the
// library's To4 / To16 distinguish by the length and the IPv4-mapped prefix,
// with strings.Builder, strconv.Itoa / FormatUint, string tables and closures
// given their meaning by the evaluator (boolfn/sym.go).  The result is a
// string whose length and bytes are Boolean functions of the 32 resp. 128
// address bits; it is compared, for every address at once, with the codec:
//
//	IPv4:  dec(b[3]) "." dec(b[2]) "." dec(b[1]) "." dec(b[0]) ".in-addr.arpa"[1:]
//	IPv6:  for i = 15..0: hex(b[i]&0xf) "." hex(b[i]>>4) "."   then "ip6.arpa"
//
// whatever loops, helpers, tables and writers the encoder is made of.  When
// the encoder is outside the evaluator's grammar the structural rules of R4
// decide instead (return false).
func c04EncoderExact(c *Ctx, f *ssa.Function) (decided bool) {
	const rule = "C04.encoder-exact"
	if len(f.Params) != 1 {
		return false
	}
	strConst := func(name, dflt string) string {
		if tp := c.P.TPkg("netutil"); tp != nil {
			if k, ok := tp.Types.Scope().Lookup(name).(*types.Const); ok && k.Val().Kind() == constant.String {
				return constant.StringVal(k.Val())
			}
		}
		return dflt
	}
	v4suf := strConst("arpaV4Suffix", ".in-addr.arpa")
	v6suf := strConst("arpaV6Suffix", ".ip6.arpa")
	if len(v4suf) < 2 || len(v6suf) < 2 {
		return false
	}
	type scenario struct {
		name   string
		n      int
		to4    func(in boolfn.Val) boolfn.Val
		to16   func(in boolfn.Val) boolfn.Val
		family int // 4, 6 or 0 (rejected)
		src    func(in boolfn.Val) [][]int
	}
	whole := func(in boolfn.Val) boolfn.Val { return in }
	none := func(in boolfn.Val) boolfn.Val { return boolfn.Nil() }
	scs := []scenario{
		{"a 4-byte address", 4, whole, nil, 4, func(in boolfn.Val) [][]int { return in.Elems }},
		{"a 16-byte IPv4-mapped address", 16, func(in boolfn.Val) boolfn.Val { return boolfn.Window(in, 12, 16) }, nil, 4,
			func(in boolfn.Val) [][]int { return in.Elems[12:16] }},
		{"a 16-byte IPv6 address", 16, none, whole, 6, func(in boolfn.Val) [][]int { return in.Elems }},
		{"a slice that is no address (5 bytes)", 5, none, none, 0, nil},
		{"an empty slice", 0, none, none, 0, nil},
	}
	type outcome struct {
		ok  bool
		why string
	}
	var outs []outcome
	var entered map[string]bool
	for _, sc := range scs {
		m := boolfn.New()
		ev := &boolfn.Eval{M: m, Entered: map[string]bool{}, ErrorsAsBits: true}
		ev.InScope = core.InModule
		in := ev.StringInput(0, sc.n)
		ev.OnCall = func(name string, call *ssa.CallCommon, args []boolfn.Val) (boolfn.Val, bool) {
			switch name {
			case "(net.IP).To4":
				return sc.to4(args[0]), true
			case "(net.IP).To16":
				if sc.to16 == nil {
					// not reached in a correct encoder of this scenario; a 16-byte
					// slice is its own To16, a 4-byte one has no in-place form
					if sc.n == 16 {
						return args[0], true
					}
					return boolfn.Val{}, false
				}
				return sc.to16(args[0]), true
			case "(net.IP).String":
				return boolfn.Str("?"), true
			}
			return boolfn.Val{}, false
		}
		rs, err := ev.Call(f, []boolfn.Val{in})
		if err != nil || len(rs) != 2 || rs[1].Kind != boolfn.KBits || len(rs[1].Bits) != 1 {
			if os.Getenv("GSA_DBG") != "" {
				fmt.Fprintln(os.Stderr, "exact encoder:", sc.name, err)
			}
			c.L.Notef("IPToReversedAddr is outside the exact evaluator's grammar for %s (%v); structural encoder rules used instead", sc.name, err)
			return false
		}
		entered = ev.Entered
		errBit := rs[1].Bits[0]
		if sc.family == 0 {
			outs = append(outs, outcome{errBit == 1, "err != nil for " + sc.name})
			continue
		}
		if errBit != 0 {
			w := m.Witness(errBit)
			outs = append(outs, outcome{false, "an error is returned for " + sc.name + " " + witnessIP(w, sc.n)})
			continue
		}
		src := sc.src(in)
		var parts []boolfn.Val
		if sc.family == 4 {
			for k := 3; k >= 0; k-- {
				d, err := ev.Formatted(src[k], func(v uint64) string { return strconv.FormatUint(v, 10) })
				if err != nil {
					return false
				}
				parts = append(parts, d, boolfn.Str("."))
			}
			parts = append(parts, boolfn.Str(v4suf[1:]))
		} else {
			for k := 15; k >= 0; k-- {
				lo, err1 := ev.Formatted(src[k][:4], func(v uint64) string { return strconv.FormatUint(v, 16) })
				hi, err2 := ev.Formatted(src[k][4:], func(v uint64) string { return strconv.FormatUint(v, 16) })
				if err1 != nil || err2 != nil {
					return false
				}
				parts = append(parts, lo, boolfn.Str("."), hi, boolfn.Str("."))
			}
			parts = append(parts, boolfn.Str(v6suf[1:]))
		}
		want, err := ev.Concat(parts...)
		if err != nil {
			return false
		}
		why, diff := ev.SameString(rs[0], want)
		if why == "" {
			outs = append(outs, outcome{true, sprintf("the name of %s is the codec's for all 2^%d values", sc.name, 8*len(src))})
			continue
		}
		outs = append(outs, outcome{false, sprintf("for %s %s: %s", sc.name, witnessIP(m.Witness(diff), sc.n), why)})
	}
	c.L.Floor(rule, len(scs))
	for i, o := range outs {
		what := "encodes " + scs[i].name + " as the codec prescribes"
		if scs[i].family == 0 {
			what = "rejects " + scs[i].name
		}
		c.check(o.ok, rule, f, what, nil, o.why)
	}
	if len(entered) > 0 {
		c.L.Notef("exact encoder: %d functions evaluated symbolically", len(entered))
	}
	return true
}

// witnessIP renders the address bytes of a BDD witness.
func witnessIP(w map[int]bool, n int) string {
	s := "["
	for i := 0; i < n; i++ {
		v := 0
		for k := 0; k < 8; k++ {
			if w[8*i+k] {
				v |= 1 << uint(7-k)
			}
		}
		if i > 0 {
			s += " "
		}
		s += strconv.Itoa(v)
	}
	return s + "]"
}
