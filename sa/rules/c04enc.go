package rules

import (
	"fmt"
	"go/constant"
	"go/token"
	"go/types"
	"os"
	"strconv"
	"strings"

	"golang.org/x/tools/go/ssa"

	"verif/sa/boolfn"
	"verif/sa/core"
)

// c04EncoderExact decides the ARPA encoder exactly.  IPToReversedAddr is
// evaluated on a net.IP of symbolic bytes in each of the scenarios that the
// library's To4 / To16 distinguish by the length and the IPv4-mapped prefix,
// with strings.Builder, strconv.Itoa / FormatUint, string tables and closures
// given their meaning by the evaluator (boolfn/sym.go).  The result is a
// string whose length and bytes are Boolean functions of the 32 resp. 128
// address bits; it is compared, for every address at once, with the codec:
//
//	IPv4:  dec(b[3]) "." dec(b[2]) "." dec(b[1]) "." dec(b[0]) ".in-addr.arpa"[1:]
//	IPv6:  for i = 15..0: hex(b[i]&0xf) "." hex(b[i]>>4) "."   then "ip6.arpa"
//
// whatever loops, helpers, tables and writers the encoder is made of.  When
// the encoder is outside the evaluator's grammar the structural rules of R4
// decide instead (return false).
func c04EncoderExact(c *Ctx, f *ssa.Function) (decided bool) {
	const rule = "C04.encoder-exact"
	if len(f.Params) != 1 {
		return false
	}
	strConst := func(name, dflt string) string {
		if tp := c.P.TPkg("netutil"); tp != nil {
			if k, ok := tp.Types.Scope().Lookup(name).(*types.Const); ok && k.Val().Kind() == constant.String {
				return constant.StringVal(k.Val())
			}
		}
		return dflt
	}
	v4suf := strConst("arpaV4Suffix", ".in-addr.arpa")
	v6suf := strConst("arpaV6Suffix", ".ip6.arpa")
	if len(v4suf) < 2 || len(v6suf) < 2 {
		return false
	}
	type scenario struct {
		name   string
		n      int
		to4    func(in boolfn.Val) boolfn.Val
		to16   func(in boolfn.Val) boolfn.Val
		family int // 4, 6 or 0 (rejected)
		src    func(in boolfn.Val) [][]int
	}
	whole := func(in boolfn.Val) boolfn.Val { return in }
	none := func(in boolfn.Val) boolfn.Val { return boolfn.Nil() }
	scs := []scenario{
		{"a 4-byte address", 4, whole, nil, 4, func(in boolfn.Val) [][]int { return in.Elems }},
		{"a 16-byte IPv4-mapped address", 16, func(in boolfn.Val) boolfn.Val { return boolfn.Window(in, 12, 16) }, nil, 4,
			func(in boolfn.Val) [][]int { return in.Elems[12:16] }},
		{"a 16-byte IPv6 address", 16, none, whole, 6, func(in boolfn.Val) [][]int { return in.Elems }},
		{"a slice that is no address (5 bytes)", 5, none, none, 0, nil},
		{"an empty slice", 0, none, none, 0, nil},
	}
	type outcome struct {
		ok  bool
		why string
	}
	var outs []outcome
	var entered map[string]bool
	for _, sc := range scs {
		m := boolfn.New()
		ev := &boolfn.Eval{M: m, Entered: map[string]bool{}, ErrorsAsBits: true}
		ev.InScope = core.InModule
		in := ev.StringInput(0, sc.n)
		ev.OnCall = func(name string, call *ssa.CallCommon, args []boolfn.Val) (boolfn.Val, bool) {
			switch name {
			case "(net.IP).To4":
				return sc.to4(args[0]), true
			case "(net.IP).To16":
				if sc.to16 == nil {
					// not reached in a correct encoder of this scenario; a 16-byte
					// slice is its own To16, a 4-byte one has no in-place form
					if sc.n == 16 {
						return args[0], true
					}
					return boolfn.Val{}, false
				}
				return sc.to16(args[0]), true
			case "(net.IP).String":
				return boolfn.Str("?"), true
			}
			return boolfn.Val{}, false
		}
		rs, err := ev.Call(f, []boolfn.Val{in})
		if err != nil || len(rs) != 2 || rs[1].Kind != boolfn.KBits || len(rs[1].Bits) != 1 {
			if os.Getenv("GSA_DBG") != "" {
				fmt.Fprintln(os.Stderr, "exact encoder:", sc.name, err)
			}
			c.L.Notef("IPToReversedAddr is outside the exact evaluator's grammar for %s (%v); structural encoder rules used instead", sc.name, err)
			return false
		}
		entered = ev.Entered
		errBit := rs[1].Bits[0]
		if sc.family == 0 {
			outs = append(outs, outcome{errBit == 1, "err != nil for " + sc.name})
			continue
		}
		if errBit != 0 {
			w := m.Witness(errBit)
			outs = append(outs, outcome{false, "an error is returned for " + sc.name + " " + witnessIP(w, sc.n)})
			continue
		}
		src := sc.src(in)
		var parts []boolfn.Val
		if sc.family == 4 {
			for k := 3; k >= 0; k-- {
				d, err := ev.Formatted(src[k], func(v uint64) string { return strconv.FormatUint(v, 10) })
				if err != nil {
					return false
				}
				parts = append(parts, d, boolfn.Str("."))
			}
			parts = append(parts, boolfn.Str(v4suf[1:]))
		} else {
			for k := 15; k >= 0; k-- {
				lo, err1 := ev.Formatted(src[k][:4], func(v uint64) string { return strconv.FormatUint(v, 16) })
				hi, err2 := ev.Formatted(src[k][4:], func(v uint64) string { return strconv.FormatUint(v, 16) })
				if err1 != nil || err2 != nil {
					return false
				}
				parts = append(parts, lo, boolfn.Str("."), hi, boolfn.Str("."))
			}
			parts = append(parts, boolfn.Str(v6suf[1:]))
		}
		want, err := ev.Concat(parts...)
		if err != nil {
			return false
		}
		why, diff := ev.SameString(rs[0], want)
		if why == "" {
			outs = append(outs, outcome{true, sprintf("the name of %s is the codec's for all 2^%d values", sc.name, 8*len(src))})
			continue
		}
		outs = append(outs, outcome{false, sprintf("for %s %s: %s", sc.name, witnessIP(m.Witness(diff), sc.n), why)})
	}
	c.L.Floor(rule, len(scs))
	for i, o := range outs {
		what := "encodes " + scs[i].name + " as the codec prescribes"
		if scs[i].family == 0 {
			what = "rejects " + scs[i].name
		}
		c.check(o.ok, rule, f, what, nil, o.why)
	}
	if len(entered) > 0 {
		c.L.Notef("exact encoder: %d functions evaluated symbolically", len(entered))
	}
	return true
}

// witnessIP renders the address bytes of a BDD witness.
func witnessIP(w map[int]bool, n int) string {
	s := "["
	for i := 0; i < n; i++ {
		v := 0
		for k := 0; k < 8; k++ {
			if w[8*i+k] {
				v |= 1 << uint(7-k)
			}
		}
		if i > 0 {
			s += " "
		}
		s += strconv.Itoa(v)
	}
	return s + "]"
}

// c04RoundTripExact decides the first sentence of the property end to end:
// IPFromReversedAddr(IPToReversedAddr(a)) == a for every address.  The encoder
// is evaluated on symbolic address bytes as in c04EncoderExact; its result —
// a string whose length and bytes are Boolean functions of the address bits,
// one case per combination of digit counts — is then handed, case by case and
// under the condition of the case, to the *whole* decoder: TrimSuffix,
// ValidateDomainName (idna.ToASCII is the identity on these names: ASCII
// without an "xn--" label, which is checked on the symbolic bytes), the
// deferred wrapper, the lowering, the suffix dispatch and the family decoder,
// with the library scanners and netip given their exact meaning.  The result
// must be err == nil and the address a (an IPv4-mapped a comes back as IPv4).
func c04RoundTripExact(c *Ctx) (okExact bool) {
	defer recoverUnsupported(c, &okExact, "c04RoundTripExact")
	const rule = "C04.roundtrip-exact"
	enc := c.fn("netutil", "IPToReversedAddr")
	dec := c.fn("netutil", "IPFromReversedAddr")
	if enc == nil || dec == nil || len(enc.Params) != 1 || len(dec.Params) != 1 {
		return false
	}
	type scenario struct {
		name string
		n    int
		kind string
	}
	scs := []scenario{{"a 4-byte address", 4, "4"}, {"a 16-byte IPv4-mapped address", 16, "mapped"}, {"a 16-byte IPv6 address", 16, "6"}}
	type verdict struct {
		ok  bool
		why string
	}
	var out []verdict
	for _, sc := range scs {
		m := boolfn.New()
		ev := &boolfn.Eval{M: m, Entered: map[string]bool{}, ErrorsAsBits: true, ForcePath: true, Steps: 2000000}
		ev.InScope = core.InModule
		model := &netipModel{ev: ev, fresh: 1 << 20}
		in := ev.StringInput(0, sc.n)
		ev.Override = func(name string, call *ssa.CallCommon, args []boolfn.Val) (boolfn.Val, bool) {
			switch {
			case strings.HasSuffix(name, "/netutil.replaceKind"):
				return boolfn.Opaque("void"), true
			case strings.HasSuffix(name, "/errors.Unwrap") || name == "errors.Unwrap":
				if len(args) == 1 && args[0].Kind == boolfn.KBits {
					return args[0], true
				}
			}
			return boolfn.Val{}, false
		}
		ev.OnCall = func(name string, call *ssa.CallCommon, args []boolfn.Val) (boolfn.Val, bool) {
			switch name {
			case "(net.IP).To4":
				switch {
				case sc.kind == "4":
					return args[0], true
				case sc.kind == "mapped":
					return boolfn.Window(args[0], 12, 16), true
				}
				return boolfn.Nil(), true
			case "(net.IP).To16":
				if sc.n == 16 {
					return args[0], true
				}
				return boolfn.Val{}, false
			case "(net.IP).String":
				return boolfn.Str("?"), true
			case "golang.org/x/net/idna.ToASCII":
				// the identity on ASCII names without an ACE label
				if ev.IsPlainASCII(args[0]) {
					return boolfn.Val{Kind: boolfn.KTuple, Tuple: []boolfn.Val{args[0], boolfn.BoolVal(0)}}, true
				}
				return boolfn.Val{}, false
			}
			if r, ok := model.OnCall(name, call, args); ok {
				return r, true
			}
			if res := call.Signature().Results(); res.Len() == 1 && res.At(0).Type().String() == "error" {
				return boolfn.BoolVal(1), true
			}
			if name == "fmt.Sprintf" {
				return boolfn.Str("?"), true
			}
			return boolfn.Val{}, false
		}
		rs, err := ev.Call(enc, []boolfn.Val{in})
		var alts []boolfn.Alt
		if err == nil && len(rs) == 2 {
			alts, err = ev.Expand(rs[0])
		}
		if err != nil || len(alts) == 0 {
			if os.Getenv("GSA_DBG") != "" {
				fmt.Fprintln(os.Stderr, "exact round trip: encoder,", sc.name, err)
			}
			c.L.Notef("the round trip is outside the exact evaluator's grammar (encoder, %s: %v)", sc.name, err)
			return false
		}
		src := in.Elems
		if sc.kind == "mapped" {
			src = in.Elems[12:16]
		}
		v := verdict{true, sprintf("for all 2^%d values of %s (%d cases of the name's length): the decoder returns the address", 8*len(src), sc.name, len(alts))}
		// every spelling the property allows: any letter case (one free Boolean
		// per byte decides whether a letter is written in upper case) and an
		// optional trailing dot
		type spelling struct {
			bytes [][]int
			cond  int
		}
		var spell []spelling
		nextVar := 1 << 19
		for _, a := range alts {
			mixed := make([][]int, len(a.Bytes))
			for i, bt := range a.Bytes {
				lower := m.And(m.Not(ev.Ult8(bt, 'a')), m.Not(ev.Ult8c('z', bt)))
				up := m.And(lower, m.Var(nextVar))
				nextVar++
				nb := append([]int(nil), bt...)
				nb[5] = m.And(bt[5], m.Not(up))
				mixed[i] = nb
			}
			dot := ev.Const('.', 8, false).Bits
			spell = append(spell,
				spelling{a.Bytes, a.Cond},
				spelling{append(append([][]int(nil), a.Bytes...), dot), a.Cond},
				spelling{mixed, a.Cond},
				spelling{append(append([][]int(nil), mixed...), dot), a.Cond})
		}
		v.why = sprintf("for all 2^%d values of %s (%d cases of the name's length, each in lower case, in every mix of letter cases, with and without a trailing dot): the decoder returns the address", 8*len(src), sc.name, len(alts))
		for _, a := range spell {
			a := struct {
				Bytes [][]int
				Cond  int
			}{a.bytes, a.cond}
			ev.Assume = a.Cond
			drs, derr := ev.Call(dec, []boolfn.Val{boolfn.Bytes(a.Bytes)})
			if derr != nil || len(drs) != 2 || drs[1].Kind != boolfn.KBits || len(drs[1].Bits) != 1 {
				if os.Getenv("GSA_DBG") != "" {
					fmt.Fprintln(os.Stderr, "exact round trip: decoder,", sc.name, derr)
				}
				c.L.Notef("the round trip is outside the exact evaluator's grammar (decoder on the name of %s: %v)", sc.name, derr)
				return false
			}
			if d := m.And(a.Cond, drs[1].Bits[0]); d != 0 {
				v = verdict{false, "the name of the address " + witnessIP(m.Witness(d), sc.n) + " is refused by the decoder"}
				break
			}
			if drs[0].Kind != boolfn.KArray || len(drs[0].Elems) != 17 {
				v = verdict{false, "the decoder's result is not an address"}
				break
			}
			want4 := 0
			if sc.kind != "6" {
				want4 = 1
			}
			if d := m.And(a.Cond, m.Xor(drs[0].Elems[16][0], want4)); d != 0 {
				v = verdict{false, "the address " + witnessIP(m.Witness(d), sc.n) + " comes back in the other family"}
				break
			}
			bad := false
			for i := range src {
				for b := 0; b < 8 && !bad; b++ {
					if d := m.And(a.Cond, m.Xor(drs[0].Elems[i][b], src[i][b])); d != 0 {
						v = verdict{false, sprintf("the address %s comes back with a different byte %d", witnessIP(m.Witness(d), sc.n), i)}
						bad = true
					}
				}
			}
			if bad {
				break
			}
		}
		out = append(out, v)
	}
	c.L.Floor(rule, len(scs))
	for i, v := range out {
		c.check(v.ok, rule, dec, "IPFromReversedAddr(IPToReversedAddr(a)) == a for "+scs[i].name, nil, v.why)
	}
	return true
}

// c04AcceptedExact decides the second sentence of the property — "accepts no
// other input" — for the whole IPFromReversedAddr, for every name length 0..75:
// the name is L symbolic bytes; ValidateDomainName is an uninterpreted
// predicate V of the (dot-trimmed) name, one free Boolean per window, assumed
// only to imply what it documents (no empty label); everything else — the
// trailing-dot trim, the lowering, the suffix dispatch, the cut, the family
// decoders — is evaluated.  The verdict must be
//
//	err == nil  <=>  V(name) and lower(name) is a dotted quad + ".in-addr.arpa"
//	                 or 32 hex-digit labels + ".ip6.arpa"
//
// and the returned address the decoded one.
func c04AcceptedExact(c *Ctx) (okExact bool) {
	defer recoverUnsupported(c, &okExact, "c04AcceptedExact")
	const rule = "C04.accepted-exact"
	f := c.fn("netutil", "IPFromReversedAddr")
	if f == nil || len(f.Params) != 1 {
		return false
	}
	if th := lengthThresholds(f, 80, "ValidateDomainName"); len(th) > 0 {
		c.L.Notef("%s treats long inputs differently (%s): the lengths evaluated do not cover that; structural rules used instead", "IPFromReversedAddr", th[0])
		return false
	}
	v4suf, v6suf := ".in-addr.arpa", ".ip6.arpa"
	if s, ok := strConstOf(c, "netutil", "arpaV4Suffix"); ok && len(s) > 1 {
		v4suf = s
	}
	if s, ok := strConstOf(c, "netutil", "arpaV6Suffix"); ok && len(s) > 1 {
		v6suf = s
	}
	var lengths []int
	for L := 0; L <= 31; L++ {
		lengths = append(lengths, L)
	}
	lengths = append(lengths, 40, 64, 71, 72, 73, 74, 75)
	bads := make([]string, len(lengths))
	errs := make([]error, len(lengths))
	parallelDo(len(lengths), func(k int) {
		L := lengths[k]
		m := boolfn.New()
		ev := &boolfn.Eval{M: m, Entered: map[string]bool{}, ErrorsAsBits: true, ForcePath: true, Steps: 3000000}
		ev.InScope = core.InModule
		model := &netipModel{ev: ev, fresh: 1 << 21}
		in := ev.StringInput(0, L)
		is := func(i int, v byte) int {
			eq := 1
			for b := 0; b < 8; b++ {
				bit := in.Elems[i][b]
				if (v>>uint(b))&1 == 0 {
					bit = m.Not(bit)
				}
				eq = m.And(eq, bit)
			}
			return eq
		}
		// V per window [0,hi): hi == L (no trailing dot) or L-1
		vVar := func(hi int) int { return m.Var(1<<20 + hi) }
		wellFormed := func(hi int) int {
			r := 1
			for i := 0; i < hi; i++ {
				if i == 0 || i == hi-1 {
					r = m.And(r, m.Not(is(i, '.')))
				}
				if i > 0 {
					r = m.And(r, m.Not(m.And(is(i-1, '.'), is(i, '.'))))
				}
			}
			if hi == 0 {
				return 0 // the empty name is not valid
			}
			return r
		}
		assume := 1
		for _, hi := range []int{L, L - 1} {
			if hi >= 0 {
				assume = m.And(assume, m.Or(m.Not(vVar(hi)), wellFormed(hi)))
			}
		}
		ev.Assume = assume
		ev.Override = func(name string, call *ssa.CallCommon, args []boolfn.Val) (boolfn.Val, bool) {
			switch {
			case strings.HasSuffix(name, "/netutil.ValidateDomainName") && len(args) == 1:
				switch a := args[0]; {
				case a.Kind == boolfn.KSlice && len(a.Elems) == L && a.Lo == 0:
					return boolfn.BoolVal(m.Not(vVar(a.Hi))), true
				case a.Kind == boolfn.KStr && a.Str == "":
					return boolfn.BoolVal(1), true
				}
				return boolfn.Val{}, false
			case strings.HasSuffix(name, "/netutil.replaceKind"):
				return boolfn.Opaque("void"), true
			case strings.HasSuffix(name, "/errors.Unwrap") || name == "errors.Unwrap":
				if len(args) == 1 && args[0].Kind == boolfn.KBits {
					return args[0], true
				}
			}
			return boolfn.Val{}, false
		}
		ev.OnCall = func(name string, call *ssa.CallCommon, args []boolfn.Val) (boolfn.Val, bool) {
			if r, ok := model.OnCall(name, call, args); ok {
				return r, true
			}
			if res := call.Signature().Results(); res.Len() == 1 && res.At(0).Type().String() == "error" {
				return boolfn.BoolVal(1), true
			}
			return boolfn.Val{}, false
		}
		rs, err := ev.Call(f, []boolfn.Val{in})
		if err != nil || len(rs) != 2 || rs[1].Kind != boolfn.KBits || len(rs[1].Bits) != 1 {
			if err == nil {
				err = fmt.Errorf("unexpected result shape")
			}
			errs[k] = err
			return
		}
		got := m.And(m.Not(rs[1].Bits[0]), assume)
		want := 0
		wantAddr := zeroBytes(16)
		want4 := 0
		if gerr := boolfn.Guard(func() {
			lower := func(i int) []int {
				// the byte after ASCII lowering
				up := m.And(m.Not(ev.Ult8(in.Elems[i], 'A')), m.Not(ev.Ult8c('Z', in.Elems[i])))
				nb := append([]int(nil), in.Elems[i]...)
				nb[5] = m.Or(nb[5], up)
				return nb
			}
			eqc := func(bits []int, v byte) int {
				eq := 1
				for b := 0; b < 8; b++ {
					bit := bits[b]
					if (v>>uint(b))&1 == 0 {
						bit = m.Not(bit)
					}
					eq = m.And(eq, bit)
				}
				return eq
			}
			for _, hi := range []int{L, L - 1} {
				if hi < 0 {
					continue
				}
				// which spelling: with the trailing dot the last byte is '.'
				sel := vVar(hi)
				if hi == L-1 {
					sel = m.And(sel, is(L-1, '.'))
				} else if L > 0 {
					// TrimSuffix removes a final dot when there is one
					sel = m.And(sel, m.Not(is(L-1, '.')))
				}
				low := make([][]int, hi)
				for i := range low {
					low[i] = lower(i)
				}
				hasSuffix := func(suf string) int {
					if len(suf) > hi {
						return 0
					}
					r := 1
					for j := 0; j < len(suf); j++ {
						r = m.And(r, eqc(low[hi-len(suf)+j], suf[j]))
					}
					return r
				}
				// IPv4
				if n := hi - len(v4suf); n >= 7 && n <= 15 {
					ok4, a4 := model.parseV4(low[:n])
					cnd := m.And(sel, m.And(hasSuffix(v4suf), ok4))
					if cnd != 0 {
						want = m.Or(want, cnd)
						want4 = m.Or(want4, cnd)
						for j := 0; j < 4; j++ {
							for b := 0; b < 8; b++ {
								wantAddr[j][b] = m.Or(wantAddr[j][b], m.And(cnd, a4[3-j][b]))
							}
						}
					}
				}
				// IPv6
				if hi == 64+len(v6suf)-1 {
					cnd := m.And(sel, hasSuffix(v6suf))
					hexv := func(bits []int, bit int) int {
						r := 0
						for v := 0; v < 256; v++ {
							if h := hexValue(v); h >= 0 && (h>>uint(bit))&1 == 1 {
								r = m.Or(r, eqc(bits, byte(v)))
							}
						}
						return r
					}
					isHex := func(bits []int) int {
						r := 0
						for v := 0; v < 256; v++ {
							if hexValue(v) >= 0 {
								r = m.Or(r, eqc(bits, byte(v)))
							}
						}
						return r
					}
					for i := 0; i < 16 && cnd != 0; i++ {
						cnd = m.And(cnd, m.And(isHex(low[4*i]), isHex(low[4*i+2])))
						cnd = m.And(cnd, eqc(low[4*i+1], '.'))
						if 4*i+3 < 63 {
							cnd = m.And(cnd, eqc(low[4*i+3], '.'))
						}
					}
					if cnd != 0 {
						want = m.Or(want, cnd)
						for i := 0; i < 16; i++ {
							for b := 0; b < 8; b++ {
								src, bit := low[4*i], b
								if b >= 4 {
									src, bit = low[4*i+2], b-4
								}
								wantAddr[15-i][b] = m.Or(wantAddr[15-i][b], m.And(cnd, hexv(src, bit)))
							}
						}
					}
				}
			}
			want = m.And(want, assume)
		}); gerr != nil {
			errs[k] = gerr
			return
		}
		if got != want {
			d := m.Xor(got, want)
			kind := "refused though it is the canonical name of an address"
			if x := m.And(got, m.Not(want)); x != 0 {
				d, kind = x, "accepted though it is not a canonical reverse name (with a valid domain name assumed only where the witness says so)"
			}
			bads[k] = sprintf("the %d-byte name %s is %s", L, witnessName(m.Witness(d), L, L), kind)
			return
		}
		if want == 0 {
			return
		}
		if rs[0].Kind != boolfn.KArray || len(rs[0].Elems) != 17 {
			bads[k] = "the result is not an address"
			return
		}
		if d := m.And(want, m.Xor(rs[0].Elems[16][0], want4)); d != 0 {
			bads[k] = sprintf("for the name %s the address comes back in the wrong family", witnessName(m.Witness(d), L, L))
			return
		}
		for j := 0; j < 16; j++ {
			for b := 0; b < 8; b++ {
				if d := m.And(want, m.Xor(rs[0].Elems[j][b], wantAddr[j][b])); d != 0 {
					bads[k] = sprintf("for the name %s byte %d of the address is not the decoded one", witnessName(m.Witness(d), L, L), j)
					return
				}
			}
		}
	})
	for k, e := range errs {
		if e != nil {
			if os.Getenv("GSA_DBG") != "" {
				fmt.Fprintln(os.Stderr, "exact accepted language: L =", lengths[k], e)
			}
			c.L.Notef("IPFromReversedAddr is outside the exact evaluator's grammar at length %d (%v)", lengths[k], e)
			return false
		}
	}
	c.L.Floor(rule, 1)
	what := "IPFromReversedAddr accepts exactly the canonical names (any letter case, optional trailing dot) and returns their address"
	for _, b := range bads {
		if b != "" {
			c.check(false, rule, f, what, nil, b)
			return true
		}
	}
	c.check(true, rule, f, what, nil, sprintf("equal as Boolean functions of the name's bytes and of ValidateDomainName's verdict, for every name of %d..%d bytes and of 40, 64, 71..75 bytes", lengths[0], 31))
	return true
}

// c04NoRetainedArgument: the encoder's result is a function of the bytes it
// is given *now*.  A package-level memory that keeps the caller's net.IP — the
// slice itself, not a copy — answers a later call from bytes the caller has
// since overwritten.  Decided by taint: the slice parameter, its re-slicings
// and conversions, and every local object it is stored into must not reach a
// store into package-level state or a call on it (atomic/sync cells).
func c04NoRetainedArgument(c *Ctx, f *ssa.Function) {
	const rule = "C04.no-retained-argument"
	if f == nil || len(f.Params) == 0 {
		return
	}
	tainted := map[ssa.Value]bool{}
	for _, p := range f.Params {
		if _, ok := p.Type().Underlying().(*types.Slice); ok {
			tainted[p] = true
		}
	}
	rootGlobal := func(v ssa.Value) bool {
		for depth := 0; depth < 8; depth++ {
			switch x := v.(type) {
			case *ssa.Global:
				return true
			case *ssa.FieldAddr:
				v = x.X
			case *ssa.IndexAddr:
				v = x.X
			case *ssa.UnOp:
				v = x.X
			default:
				return false
			}
		}
		return false
	}
	// propagate to a fixed point
	for changed := true; changed; {
		changed = false
		mark := func(v ssa.Value) {
			if v != nil && !tainted[v] {
				tainted[v], changed = true, true
			}
		}
		core.EachInstr(f, func(in ssa.Instruction) {
			switch x := in.(type) {
			case *ssa.Slice:
				if tainted[x.X] {
					mark(x)
				}
			case *ssa.ChangeType:
				if tainted[x.X] {
					mark(x)
				}
			case *ssa.Convert:
				// a conversion between slice types shares the array; string(b)
				// copies
				if _, ok := x.Type().Underlying().(*types.Slice); ok && tainted[x.X] {
					mark(x)
				}
			case *ssa.MakeInterface:
				if tainted[x.X] {
					mark(x)
				}
			case *ssa.Phi:
				for _, e := range x.Edges {
					if tainted[e] {
						mark(x)
					}
				}
			case *ssa.Store:
				// a local object that holds the slice is itself a carrier
				if tainted[x.Val] {
					root := x.Addr
					for {
						switch a := root.(type) {
						case *ssa.FieldAddr:
							root = a.X
							continue
						case *ssa.IndexAddr:
							root = a.X
							continue
						}
						break
					}
					if _, ok := root.(*ssa.Alloc); ok {
						mark(root)
					}
				}
			case *ssa.UnOp:
				if x.Op == token.MUL && tainted[x.X] {
					mark(x)
				}
			case *ssa.Call:
				// net.IP's own views of the same array
				switch core.CalleeName(&x.Call) {
				case "(net.IP).To4", "(net.IP).To16":
					if len(x.Call.Args) == 1 && tainted[x.Call.Args[0]] {
						mark(x)
					}
				}
			}
		})
	}
	n := 0
	if os.Getenv("GSA_DBG") != "" {
		for v := range tainted {
			fmt.Fprintln(os.Stderr, "retained-argument: tainted", v.Name(), v)
		}
	}
	core.EachInstr(f, func(in ssa.Instruction) {
		switch x := in.(type) {
		case *ssa.Store:
			if tainted[x.Val] && rootGlobal(x.Addr) {
				n++
				c.check(false, rule, f, "the caller's slice is not kept in package-level state", x, "a later call is answered from bytes the caller may have overwritten since")
			}
		case ssa.CallInstruction:
			com := x.Common()
			if len(com.Args) == 0 || !rootGlobal(com.Args[0]) {
				return
			}
			for _, a := range com.Args[1:] {
				if tainted[a] {
					n++
					c.check(false, rule, f, "the caller's slice is not kept in package-level state", x, sprintf("%s stores an object holding the argument's backing array: a later call is answered from bytes the caller may have overwritten since", core.CalleeName(com)))
					return
				}
			}
		}
	})
	if n == 0 {
		c.check(true, rule, f, "the caller's slice is not kept in package-level state", nil, "no tainted value reaches a store into, or a call on, a package-level variable")
	}
}
