package rules

import (
	"go/token"
	"go/types"
	"strings"

	"golang.org/x/tools/go/ssa"

	"verif/sa/core"
	"verif/sa/lincon"
)

func init() {
	register(&Property{
		ID:    "C10",
		Level: "other",
		Explanation: "Lockset analysis (must/may-held dataflow over the CFG of every function of package cache): every access to the guarded fields of cache " +
			"(items, usage, size; the classification of all struct fields is exhaustive and checked) and every list-helper call happens with c.lock held on every path; " +
			"hit/miss are touched only through sync/atomic; conf is written only by the constructor; no lock is leaked or taken twice; items are immutable once " +
			"published in the map (their key/value are stored only into a fresh local before the map store). These are the structural conditions for data-race freedom and " +
			"per-key atomicity. The C09 bounds in every Stats snapshot: the relational interpreter proves size <= MaxSize and len(items) <= MaxCount at every release of the mutex from the same bounds at its acquisition (C09.bounds), with the limits tied to the configuration by C09.config-exact. Linearizability itself (a property of histories) is not decided.",
		Technique: "lockset (must/may-held) dataflow + who-may-write + publication/immutability typestate on go/ssa; linear-constraint abstract interpretation of the critical sections for the bounds",
		Note:      "Trusted: go/ssa, sync.Mutex semantics. Assumes callers do not mutate key/value slices after Set and cache objects are only created by newCache.",
		DesignRef: "DESIGN.md section 4, C10",
		Run:       runC10,
	})
	register(&Property{
		ID:    "C09",
		Level: "other",
		Explanation: "Structural necessary conditions on package cache's SSA: (R1) list links: items are linked into the usage list only under conf.EnableLRU, so every unlink of an " +
			"item obtained from the map must be under the same condition (else nil dereference); (R2) every map delete / insert is paired inside the same critical section with " +
			"the matching size adjustment of the same item, Clear resets items, list and size together; (R3) eviction takes listFirst, appends go after listLast, Get re-links on hit, " +
			"each victim is deleted once and OnDelete is called once with its key and value; (R4) OnDelete runs with the lock released and no value read from guarded state before an " +
			"unlock window is used after the lock is re-taken; (R5) refusing Set paths write nothing, Set returns the comma-ok of its own key's lookup, Get counts exactly one hit or miss; " +
			"(R6) the bounds as an inductive invariant: size <= MaxSize and len(items) <= MaxCount are assumed at every acquisition of the mutex (size and count otherwise arbitrary: other " +
			"and re-entrant calls ran in between) and proved, by the relational abstract interpreter, at every release in Set, Del and Clear, including the release in front of the OnDelete " +
			"window; newCache establishes MaxSize >= 1, MaxCount >= 1, MaxElementSize <= MaxSize; (R7) Set's refuse / evict / store decision as a table over its four tests; the six list " +
			"primitives have the effect of a circular doubly linked list (symbolic heap evaluation). " +
			"The limits the cache works with are the configured ones (0 = unlimited, element limit = min(MaxElementSize or MaxSize, MaxSize)): newCache evaluated on a grid realising every order type of the three limits and its constants. " +
			"Not decided: LRU order and latest-Set-wins as relations over whole histories.",
		Technique: "linear-constraint abstract interpretation (inductive invariant of the critical sections) + CFG/SSA rules: guard-consistency typestate, event pairing inside lock regions, stale-value-across-unlock dataflow, path event counting, decision tables, symbolic heap evaluation",
		Note:      "Trusted: go/ssa. The invariant 'with LRU every mapped item is linked and the list is non-empty whenever the eviction loop runs' is assumed (argued in DESIGN.md).",
		DesignRef: "DESIGN.md section 4, C09",
		Run:       runC09,
	})
}

// cacheFieldClass is the frozen classification of the fields of cache.cache,
// confirmed by reading; an unclassified (new) field makes the rule undecided.
var cacheFieldClass = map[string]string{
	"items": "guarded", // map of live items: mutated by Set/Del/Clear
	"usage": "guarded", // LRU list sentinel
	"size":  "guarded", // byte accounting
	"lock":  "lock",
	"conf":  "immutable", // written by newCache only
	"miss":  "atomic",
	"hit":   "atomic",
}

type cacheInfo struct {
	c      *Ctx
	fns    []*ssa.Function
	helper map[*ssa.Function]bool // list helpers (first parameter *listItem)
}

func loadCache(c *Ctx, prop string) *cacheInfo {
	ci := &cacheInfo{c: c, helper: map[*ssa.Function]bool{}}
	ci.fns = c.P.Funcs("cache")
	if len(ci.fns) == 0 {
		c.L.Record(core.Undecided, prop+".anchor", "cache", "package cache", "-", "package not found")
		return nil
	}
	for _, f := range ci.fns {
		if len(f.Params) > 0 && core.NamedOf(f.Params[0].Type()) == "listItem" && f.Signature.Recv() == nil {
			ci.helper[f] = true
		}
	}
	// exhaustive field classification
	tp := c.P.TPkg("cache")
	obj := tp.Types.Scope().Lookup("cache")
	if obj == nil {
		c.L.Record(core.Undecided, prop+".anchor", "cache", "type cache", "-", "type not found")
		return nil
	}
	st, ok := obj.Type().Underlying().(*types.Struct)
	if !ok {
		c.L.Record(core.Undecided, prop+".anchor", "cache", "type cache", "-", "not a struct")
		return nil
	}
	for i := 0; i < st.NumFields(); i++ {
		n := st.Field(i).Name()
		if _, ok := cacheFieldClass[n]; !ok {
			c.L.Record(core.Undecided, prop+".field-classification", "cache.cache", "field "+n, c.P.Pos(st.Field(i).Pos()),
				"new field of cache is not classified as guarded / atomic / immutable: the lockset rule cannot judge its accesses")
		} else {
			c.L.Record(core.Discharged, prop+".field-classification", "cache.cache", "field "+n, c.P.Pos(st.Field(i).Pos()), cacheFieldClass[n])
		}
	}
	return ci
}

// cacheField returns the cache field addressed by v (&c.f) and the base.
func cacheField(v ssa.Value) (string, ssa.Value, bool) {
	fa, ok := v.(*ssa.FieldAddr)
	if !ok || core.NamedOf(fa.X.Type()) != "cache" {
		return "", nil, false
	}
	if _, isPtr := fa.X.Type().Underlying().(*types.Pointer); !isPtr {
		return "", nil, false
	}
	return core.FieldName(fa), fa.X, true
}

func isFreshLocal(v ssa.Value) bool {
	_, ok := v.(*ssa.Alloc)
	return ok
}

// guardedAccess describes a touch of guarded state by an instruction.
type guardedAccess struct {
	in    ssa.Instruction
	what  string
	write bool
	base  ssa.Value // the cache object
}

// guardedAccesses enumerates the accesses to guarded cache state in fn.
func (ci *cacheInfo) guardedAccesses(fn *ssa.Function) []guardedAccess {
	var out []guardedAccess
	core.EachInstr(fn, func(in ssa.Instruction) {
		switch x := in.(type) {
		case *ssa.UnOp:
			if x.Op == token.MUL {
				if f, base, ok := cacheField(x.X); ok && cacheFieldClass[f] == "guarded" {
					out = append(out, guardedAccess{in, "read of c." + f, false, base})
				}
			}
		case *ssa.Store:
			if f, base, ok := cacheField(x.Addr); ok && cacheFieldClass[f] == "guarded" {
				out = append(out, guardedAccess{in, "write of c." + f, true, base})
			}
		case *ssa.MapUpdate:
			if f, base, ok := loadedCacheField(x.Map); ok {
				out = append(out, guardedAccess{in, "map store into c." + f, true, base})
			}
		case *ssa.Lookup:
			if f, base, ok := loadedCacheField(x.X); ok {
				out = append(out, guardedAccess{in, "map lookup in c." + f, false, base})
			}
		case *ssa.Range:
			if f, base, ok := loadedCacheField(x.X); ok {
				out = append(out, guardedAccess{in, "range over c." + f, false, base})
			}
		case *ssa.Call:
			if b, isB := x.Call.Value.(*ssa.Builtin); isB && len(x.Call.Args) > 0 {
				if f, base, ok := loadedCacheField(x.Call.Args[0]); ok {
					out = append(out, guardedAccess{in, b.Name() + " of c." + f, b.Name() == "delete" || b.Name() == "clear", base})
				}
			}
			if callee := x.Call.StaticCallee(); callee != nil && ci.helper[callee] {
				// list helper: touches the links of its arguments
				var base ssa.Value
				for _, a := range x.Call.Args {
					if _, b, ok := cacheField(a); ok {
						base = b
					}
				}
				w := callee.Name() != "listFirst" && callee.Name() != "listLast"
				out = append(out, guardedAccess{in, "list helper " + callee.Name(), w, base})
			}
		}
	})
	return out
}

// loadedCacheField: v is a load of c.<guarded field>.
func loadedCacheField(v ssa.Value) (string, ssa.Value, bool) {
	u, ok := v.(*ssa.UnOp)
	if !ok || u.Op != token.MUL {
		return "", nil, false
	}
	f, base, ok := cacheField(u.X)
	if !ok || cacheFieldClass[f] != "guarded" {
		return "", nil, false
	}
	return f, base, true
}

// isConstructorOf reports whether every cache object touched in fn is a fresh
// local (the object is not published yet).
func accessOnFresh(a guardedAccess, fn *ssa.Function) bool {
	if a.base != nil {
		return isFreshLocal(a.base)
	}
	// list helper on item links only: fresh iff no cache parameter/receiver exists
	for _, p := range fn.Params {
		if core.NamedOf(p.Type()) == "cache" {
			return false
		}
	}
	return true
}

func runC10(c *Ctx) {
	c.L.Trust("go/types + go/ssa", "sync.Mutex: Lock/Unlock give mutual exclusion and happens-before", "rule code /verif/sa/rules/cache.go, /verif/sa/core/lockset.go")
	c.L.Assumef("cache objects are created only by newCache and not copied; callers do not mutate key/value slices passed to Set")
	c.L.Floor("C10.lockset", 25)
	c.L.Floor("C10.atomic-counters", 3)
	c.L.Floor("C10.lock-balance", 5)
	c.L.Floor("C10.item-immutable", 2)
	c.L.Floor("C10.conf-immutable", 4)
	c.L.Floor("C10.callback-unlocked", 1)
	c.L.Floor("C10.no-stale-after-relock", 1)
	ci := loadCache(c, "C10")
	if ci == nil {
		return
	}
	c.L.Floor("C10.insert-atomic", 2)
	c09ConfigExact(c)      // the bounds every Stats snapshot must respect are the configured ones
	c09BoundsMode(c, true) // ... and they hold whenever the lock is released, i.e. in every snapshot
	c10InsertAtomic(c, c.fn("cache", "cache.Set"))
	for _, fn := range ci.fns {
		if ci.helper[fn] || fn.Name() == "structPtr" {
			continue // helpers run in their caller's critical section
		}
		c.L.Saw(core.FuncName(fn))
		li := core.Locksets(fn)
		// R1 lockset
		for _, a := range ci.guardedAccesses(fn) {
			if accessOnFresh(a, fn) {
				c.check(true, "C10.lockset", fn, a.what+" (object not yet published)", a.in, "constructor: the cache is a fresh local")
				continue
			}
			held := false
			for l := range li.Must[a.in] {
				if strings.HasSuffix(l, ".lock") {
					held = true
				}
			}
			c.check(held, "C10.lockset", fn, a.what+" under c.lock", a.in,
				"guarded state must be accessed with the mutex held on every path; must-held set here is "+core.Held(li.Must[a.in]))
		}
		// R2 atomics, conf immutability
		core.EachInstr(fn, func(in ssa.Instruction) {
			fa, ok := in.(*ssa.FieldAddr)
			if !ok {
				return
			}
			f, base, ok := cacheField(fa)
			if !ok {
				// nested: &c.conf.X
				if inner, isFA := fa.X.(*ssa.FieldAddr); isFA {
					if f2, base2, ok2 := cacheField(inner); ok2 && f2 == "conf" {
						for _, r := range core.Refs(fa) {
							if st, isSt := r.(*ssa.Store); isSt && st.Addr == fa {
								c.check(isFreshLocal(base2), "C10.conf-immutable", fn, "write of c.conf."+core.FieldName(fa), st,
									"the configuration is read without the lock, so it may only be written before the cache is published")
							}
						}
					}
				}
				return
			}
			switch cacheFieldClass[f] {
			case "atomic":
				for _, r := range core.Refs(fa) {
					call, isCall := r.(*ssa.Call)
					okA := isCall && (strings.HasPrefix(core.CalleeName(&call.Call), "sync/atomic.") || strings.HasPrefix(core.CalleeName(&call.Call), "(*sync/atomic."))
					if _, isDbg := r.(*ssa.DebugRef); isDbg {
						continue
					}
					c.check(okA || isFreshLocal(base), "C10.atomic-counters", fn, "use of &c."+f, r, "hit/miss are read and written concurrently without the lock: only sync/atomic operations are allowed")
				}
			case "immutable":
				for _, r := range core.Refs(fa) {
					if st, isSt := r.(*ssa.Store); isSt && st.Addr == fa {
						c.check(isFreshLocal(base), "C10.conf-immutable", fn, "write of c.conf", st, "written only by the constructor")
					}
				}
			}
		})
		// R3 balance
		for _, op := range li.Ops {
			if op.Op == "Lock" && !op.Defer {
				c.check(!li.May[op.Instr][op.Lock], "C10.lock-balance", fn, "Lock of "+op.Lock+" not already held", op.Instr, "locking a held sync.Mutex deadlocks")
			}
			if op.Op == "Unlock" && !op.Defer {
				c.check(li.Must[op.Instr][op.Lock], "C10.lock-balance", fn, "Unlock of "+op.Lock+" while held", op.Instr, "unlock of an unlocked mutex panics; must-held: "+core.Held(li.Must[op.Instr]))
			}
		}
		for _, ret := range core.Returns(fn) {
			leaked := map[string]bool{}
			for l := range li.May[ret] {
				if !li.Deferred[l] {
					leaked[l] = true
				}
			}
			if len(li.Ops) > 0 {
				c.check(len(leaked) == 0, "C10.lock-balance", fn, "no lock held at return", ret, "may-held at return: "+core.Held(leaked))
			}
		}
		// R4 published items are immutable
		core.EachInstr(fn, func(in ssa.Instruction) {
			st, ok := in.(*ssa.Store)
			if !ok {
				return
			}
			fa, ok := st.Addr.(*ssa.FieldAddr)
			if !ok || core.NamedOf(fa.X.Type()) != "item" {
				return
			}
			name := core.FieldName(fa)
			if name != "key" && name != "value" {
				return
			}
			al, fresh := fa.X.(*ssa.Alloc)
			okOrder := fresh
			if fresh {
				// must precede every publication of the alloc
				core.EachInstr(fn, func(in2 ssa.Instruction) {
					if mu, isMU := in2.(*ssa.MapUpdate); isMU && mu.Value == al && !core.Dominates(st, mu) {
						okOrder = false
					}
				})
			}
			c.check(okOrder, "C10.item-immutable", fn, "store to item."+name, st,
				"Get returns item.value after releasing the lock, so key/value may be written only into a fresh item before it is stored in the map")
		})
		// whole-item overwrite through a pointer that is not a fresh local
		core.EachInstr(fn, func(in ssa.Instruction) {
			st, ok := in.(*ssa.Store)
			if !ok || core.NamedOf(st.Addr.Type()) != "item" {
				return
			}
			if _, isFA := st.Addr.(*ssa.FieldAddr); isFA {
				return
			}
			c.check(isFreshLocal(st.Addr), "C10.item-immutable", fn, "overwrite of *item", st, "only a fresh local item may be written as a whole")
		})
	}
	// unlock windows (Set releases the lock around OnDelete): each critical
	// section must re-read what it depends on.
	cacheUnlockWindowRules(c, ci, "C10")
}

// ---------------------------------------------------------------------------

func runC09(c *Ctx) {
	c.L.Trust("go/types + go/ssa", "rule code /verif/sa/rules/cache.go")
	c.L.Assumef("with EnableLRU every item in the map is linked into the usage list and the eviction loop only runs when the list is non-empty (argued from MaxElementSize <= MaxSize and MaxCount >= 1 in DESIGN.md)")
	ci := loadCache(c, "C09")
	if ci == nil {
		return
	}
	c.L.Floor("C09.link-guard", 2)
	c.L.Floor("C09.accounting.delete", 2)
	c.L.Floor("C09.accounting.insert", 1)
	c.L.Floor("C09.accounting.clear", 3)
	c.L.Floor("C09.eviction", 4)
	c.L.Floor("C09.callback-unlocked", 1)
	c.L.Floor("C09.no-stale-after-relock", 1)
	c.L.Floor("C09.refusal-pure", 1)
	if !c09ConfigExact(c) {
		// what the eviction loop relies on (limits >= 1, element limit <= MaxSize)
		// follows from the exact rule; the relational rule is its fall-back
		c09Config(c)
	}
	c09Bounds(c)
	c.L.Floor("C09.set-result", 1)
	c.L.Floor("C09.get-counts", 2)

	set := c.fn("cache", "cache.Set")
	get := c.fn("cache", "cache.Get")
	del := c.fn("cache", "cache.Del")
	clr := c.fn("cache", "cache.Clear")

	// ---- R1: link-guard consistency over the whole package ----
	linksGuarded, linkSites := true, 0
	type site struct {
		fn   *ssa.Function
		call *ssa.Call
	}
	var unlinks []site
	for _, fn := range ci.fns {
		if ci.helper[fn] {
			continue
		}
		core.EachInstr(fn, func(in ssa.Instruction) {
			call, ok := in.(*ssa.Call)
			if !ok || call.Call.StaticCallee() == nil {
				return
			}
			switch call.Call.StaticCallee().Name() {
			case "listAppend":
				if isItemLink(call.Call.Args[0]) {
					linkSites++
					if !guardedByConfFlag(call, "EnableLRU", true) {
						linksGuarded = false
					}
				}
			case "listUnlink":
				unlinks = append(unlinks, site{fn, call})
			}
		})
	}
	if linkSites == 0 {
		c.undecided("C09.link-guard", nil, "listAppend(&item.used, ...) sites", nil, "no link site recognised")
	}
	for _, u := range unlinks {
		arg := u.call.Call.Args[0]
		switch {
		case isItemLink(arg) && fromMapLookup(itemOfLink(arg)):
			ok := !linksGuarded || guardedByConfFlag(u.call, "EnableLRU", true)
			c.check(ok, "C09.link-guard", u.fn, "listUnlink(&"+core.Describe(itemOfLink(arg))+".used) under EnableLRU", u.call,
				"items are linked only when conf.EnableLRU is set; unlinking an item found through the map without that condition dereferences nil links when LRU is off")
		case fromListEnd(arg) || (nodeOfLink(arg) != nil && fromListEnd(nodeOfLink(arg))):
			c.check(true, "C09.link-guard", u.fn, "listUnlink(node from listFirst/listLast)", u.call, "linked by provenance")
		default:
			c.undecided("C09.link-guard", u.fn, "listUnlink("+core.Describe(arg)+")", u.call, "cannot tell whether the node is linked")
		}
	}
	// the anchor a node is appended after must still be linked: no listUnlink
	// may run between the listFirst/listLast call that produced the anchor and
	// the listAppend that uses it (the unlinked node could be that anchor)
	c.L.Floor("C09.list.fresh-anchor", 2)
	for _, fn := range ci.fns {
		if ci.helper[fn] {
			continue
		}
		for _, ci2 := range core.CallsTo(fn, core.ModPath+"/cache.listAppend") {
			ap := ci2.(*ssa.Call)
			anchor, isCall := ap.Call.Args[1].(*ssa.Call)
			if !isCall || !(isListEndOf(anchor, "listLast") || isListEndOf(anchor, "listFirst")) {
				c.undecided("C09.list.fresh-anchor", fn, "anchor of listAppend", ap, "the anchor is not the result of listFirst/listLast(&c.usage)")
				continue
			}
			stale := ""
			for _, u := range unlinks {
				if u.fn == fn && core.MayFollow(anchor, u.call) && core.MayFollow(u.call, ap) && !core.Reaches(ap.Block(), anchor.Block()) {
					stale = c.ipos(u.call)
				}
			}
			c.check(stale == "", "C09.list.fresh-anchor", fn, "listAppend anchor is read after every unlink that precedes the append", ap,
				"a node unlinked at "+stale+" between reading the anchor and appending may be the anchor itself; the new item would hang off a node that is no longer in the list and never be evicted")
		}
	}
	if get != nil {
		// Get: unlink+append pair on the same item, both under ok && EnableLRU
		for _, u := range unlinks {
			if u.fn != get {
				continue
			}
			paired := false
			for _, ci2 := range core.CallsTo(get, core.ModPath+"/cache.listAppend") {
				ap := ci2.(*ssa.Call)
				if sameValue(ap.Call.Args[0], u.call.Call.Args[0]) && core.Dominates(u.call, ap) && isListEndOf(ap.Call.Args[1], "listLast") {
					paired = true
				}
			}
			c.check(paired, "C09.eviction", get, "Get: hit moves the item to the back (unlink then append after listLast)", u.call, "move-to-back on hit is what makes eviction least-recently-used")
			// ... on every hit: the only conditions are the lookup's ok, conf.EnableLRU,
			// and (optionally) "the item is not already the last one" (item.used.next != &c.usage)
			extra := ""
			for _, g := range core.GuardsOf(u.call) {
				cond, truth := core.StripNot(g.Cond, g.Truth)
				if ex, isEx := cond.(*ssa.Extract); isEx && ex.Index == 1 && truth {
					if _, isLk := ex.Tuple.(*ssa.Lookup); isLk {
						continue
					}
				}
				if p := core.PathOf(cond); len(p.Fields) == 2 && p.Fields[0] == "conf" && p.Fields[1] == "EnableLRU" && truth {
					continue
				}
				if b, isB := cond.(*ssa.BinOp); isB && (b.Op == token.NEQ) == truth && (b.Op == token.NEQ || b.Op == token.EQL) {
					px := core.PathOf(b.X)
					already := false
					if n := len(px.Fields); n >= 2 && px.Fields[n-1] == "next" && px.Fields[n-2] == "used" && isUsageList(b.Y) {
						continue // already the most recently used one: nothing to move
					}
					// the same test through the list: listLast(&c.usage) != &item.used
					for _, pr := range [][2]ssa.Value{{b.X, b.Y}, {b.Y, b.X}} {
						if isListEndOf(pr[0], "listLast") && sameValue(pr[1], u.call.Call.Args[0]) {
							already = true
						}
					}
					if already {
						continue
					}
				}
				extra = core.Describe(cond)
			}
			c.check(extra == "", "C09.eviction", get, "the move-to-back happens on every hit with LRU on", u.call,
				"an additional condition ("+extra+") skips the refresh for some hits; the entry just read is then evicted before older ones")
		}
		if len(core.CallsTo(get, core.ModPath+"/cache.listAppend")) == 0 {
			c.check(false, "C09.eviction", get, "Get: hit moves the item to the back", nil, "no re-append in Get: eviction order would be insertion order, not use order")
		}
	}

	// ---- R2: accounting ----
	for _, fn := range []*ssa.Function{set, del} {
		if fn == nil {
			continue
		}
		li := core.Locksets(fn)
		_ = li
		core.EachInstr(fn, func(in ssa.Instruction) {
			call, ok := in.(*ssa.Call)
			if !ok {
				return
			}
			b, isB := call.Call.Value.(*ssa.Builtin)
			if !isB || b.Name() != "delete" {
				return
			}
			if _, _, ok := loadedCacheField(call.Call.Args[0]); !ok {
				return
			}
			key := call.Call.Args[1]
			// find the size decrement of the deleted item in the same lock region
			found := false
			for _, sub := range sizeUpdates(fn, token.SUB) {
				if !sameRegion(sub.store, call) {
					continue
				}
				if itemMatchesKey(sub.item, key) {
					found = true
				}
			}
			c.check(found, "C09.accounting.delete", fn, "delete(c.items, "+core.Describe(key)+") paired with c.size -= len(key)+len(value) of that item", call,
				"Stats().Size must equal the summed sizes of live entries: every removal subtracts the removed item's size inside the same critical section")
		})
	}
	if set != nil {
		core.EachInstr(set, func(in ssa.Instruction) {
			mu, ok := in.(*ssa.MapUpdate)
			if !ok {
				return
			}
			if _, _, ok := loadedCacheField(mu.Map); !ok {
				return
			}
			// inserted item's size added
			okAdd := false
			for _, add := range sizeUpdates(set, token.ADD) {
				if sameRegion(add.store, mu) && add.amount != nil && isSizeOfItem(set, add.amount, mu.Value) {
					okAdd = true
				}
			}
			c.check(okAdd, "C09.accounting.insert", set, "c.items[key] = it paired with c.size += len(it.key)+len(it.value)", mu,
				"the inserted item's size is added inside the same critical section")
			// replaced entry subtracted: a lookup of the same key whose ok-branch subtracts the old item
			okRepl := false
			for _, sub := range sizeUpdates(set, token.SUB) {
				if sameRegion(sub.store, mu) && fromMapLookup(sub.item) && sameKey(lookupKey(sub.item), mu.Key) && core.Dominates(sub.store, mu) == false && core.MayFollow(sub.store, mu) {
					// the subtraction is conditional (under exists) and precedes the store
					if guardedByLookupOK(sub.store, sub.item) && onlyGuardSinceLookup(sub.store, sub.item) {
						okRepl = true
					}
				}
			}
			c.check(okRepl, "C09.accounting.insert", set, "replaced entry's size subtracted under `exists` and nothing else", mu,
				"when the key is already present its old size leaves the total before the new item is stored — also with LRU off")
		})
	}
	if clr != nil {
		resets := map[string]bool{}
		core.EachInstr(clr, func(in ssa.Instruction) {
			switch x := in.(type) {
			case *ssa.Store:
				if f, _, ok := cacheField(x.Addr); ok {
					switch f {
					case "items":
						if _, isMk := x.Val.(*ssa.MakeMap); isMk {
							resets["items"] = true
						}
					case "size":
						if k, isK := core.ConstInt(x.Val); isK && k == 0 {
							resets["size"] = true
						}
					}
				}
			case *ssa.Call:
				if cal := x.Call.StaticCallee(); cal != nil && cal.Name() == "listInit" {
					if f, _, ok := cacheField(x.Call.Args[0]); ok && f == "usage" {
						resets["usage"] = true
					}
				}
				if b, isB := x.Call.Value.(*ssa.Builtin); isB && b.Name() == "clear" {
					if f, _, ok := loadedCacheField(x.Call.Args[0]); ok {
						resets[f] = true
					}
				}
			}
		})
		for _, f := range []string{"items", "size", "usage"} {
			c.check(resets[f], "C09.accounting.clear", clr, "Clear resets c."+f, nil, "Clear must reset the map, the list and the size together (reset completeness over the guarded fields)")
		}
		// ... on every path: an early return is only sound when the map itself is empty
		isReset := func(in ssa.Instruction) bool {
			if x, ok := in.(*ssa.Store); ok {
				if f, _, ok := cacheField(x.Addr); ok && f == "items" {
					_, isMk := x.Val.(*ssa.MakeMap)
					return isMk
				}
			}
			if x, ok := in.(*ssa.Call); ok {
				if b, isB := x.Call.Value.(*ssa.Builtin); isB && b.Name() == "clear" {
					if f, _, ok := loadedCacheField(x.Call.Args[0]); ok && f == "items" {
						return true
					}
				}
			}
			return false
		}
		for _, ret := range core.Returns(clr) {
			mn, _, ok := core.CountOnPaths(clr, nil, ret, isReset)
			okPath := ok && mn >= 1
			if ok && mn == 0 {
				for _, g := range core.GuardsOf(ret) {
					cond, truth := core.StripNot(g.Cond, g.Truth)
					if b, isB := cond.(*ssa.BinOp); isB && b.Op == token.EQL && truth {
						if lc, isC := b.X.(*ssa.Call); isC && core.CalleeName(&lc.Call) == "builtin.len" {
							if f, _, ok := loadedCacheField(lc.Call.Args[0]); ok && f == "items" {
								if k, isK := core.ConstInt(b.Y); isK && k == 0 {
									okPath = true
								}
							}
						}
					}
				}
			}
			c.check(okPath, "C09.accounting.clear", clr, "the map is emptied on every path through Clear", ret,
				"an exit that skips the reset leaves entries alive (size 0 does not mean empty: an entry with empty key and value has size 0)")
		}
	}

	// ---- R3: eviction discipline in Set ----
	if set != nil {
		heads := core.LoopHeads(set)
		if len(heads) != 1 {
			c.undecided("C09.eviction", set, "eviction loop", nil, sprintf("expected one loop, found %d", len(heads)))
		}
		for h := range heads {
			body := core.LoopBody(h)
			var firsts, dels, cbs []ssa.Instruction
			for b := range body {
				for _, in := range b.Instrs {
					call, ok := in.(*ssa.Call)
					if !ok {
						continue
					}
					if cal := call.Call.StaticCallee(); cal != nil && (cal.Name() == "listFirst" || cal.Name() == "listLast") {
						firsts = append(firsts, call)
						c.check(cal.Name() == "listFirst" && isUsageList(call.Call.Args[0]), "C09.eviction", set, "victim = listFirst(&c.usage)", call,
							"the least recently used entry is at the front of the list; evicting from the back would remove the most recent one")
					}
					if bi, isB := call.Call.Value.(*ssa.Builtin); isB && bi.Name() == "delete" {
						dels = append(dels, call)
					}
					if isOnDeleteCall(call) {
						cbs = append(cbs, call)
					}
				}
			}
			c.check(len(firsts) == 1 && len(dels) == 1, "C09.eviction", set, "one victim and one delete per iteration", nil,
				sprintf("found %d victim selections and %d deletes in the eviction loop body", len(firsts), len(dels)))
			if len(firsts) == 1 && len(dels) == 1 {
				victim := firsts[0].(*ssa.Call)
				d := dels[0].(*ssa.Call)
				c.check(itemMatchesKey(itemFromNode(set, victim), d.Call.Args[1]) || keyOfVictim(d.Call.Args[1], victim), "C09.eviction", set, "delete key is the victim's key", d,
					"the entry removed from the map must be the one unlinked from the list")
				// unlink of the victim
				unl := false
				for _, u := range unlinks {
					if u.fn == set && (u.call.Call.Args[0] == ssa.Value(victim) || nodeOfLink(u.call.Call.Args[0]) == ssa.Value(victim)) && body[u.call.Block()] {
						unl = true
					}
				}
				c.check(unl, "C09.eviction", set, "victim unlinked from the list", victim, "the evicted entry leaves the usage list")
			}
			for _, cb := range cbs {
				call := cb.(*ssa.Call)
				// arguments are key and value of the victim
				okArgs := len(call.Call.Args) == 2 && len(firsts) == 1 &&
					fieldOfVictim(call.Call.Args[0], "key", firsts[0].(*ssa.Call)) && fieldOfVictim(call.Call.Args[1], "value", firsts[0].(*ssa.Call))
				c.check(okArgs, "C09.eviction", set, "OnDelete(victim.key, victim.value)", call, "the callback receives the evicted entry's key and value")
				// exactly once per iteration when configured: guarded by OnDelete != nil, not in an inner loop
				mn, mx, ok := core.CountOnPaths(set, firsts[0], call, func(in ssa.Instruction) bool { return isOnDeleteCall(in) })
				c.check(ok && mn == 0 && mx == 0, "C09.eviction", set, "OnDelete called once per victim", call, sprintf("other callback calls between the victim selection and this call: min %d max %d", mn, mx))
			}
			if len(cbs) == 0 {
				c.check(false, "C09.eviction", set, "OnDelete call in the eviction loop", nil, "evicted entries must be reported to conf.OnDelete")
			}
		}
		// appends of the new item: after listLast(&c.usage), under EnableLRU
		for _, ci2 := range core.CallsTo(set, core.ModPath+"/cache.listAppend") {
			ap := ci2.(*ssa.Call)
			c.check(isListEndOf(ap.Call.Args[1], "listLast"), "C09.eviction", set, "new item appended after listLast(&c.usage)", ap, "new and re-used entries go to the back (most recently used)")
		}
	}

	// ---- R4: callback outside the lock; no stale values after re-lock ----
	cacheUnlockWindowRules(c, ci, "C09")

	// ---- R5 ----
	if set != nil {
		for _, ret := range core.Returns(set) {
			if b, isB := core.ConstBool(ret.Results[0]); isB && !b {
				dirty := ""
				// paths on which the tests of the immutable configuration flags
				// (C10.conf-immutable) disagree with each other do not exist
				fs := core.Facts(set)
				for _, a := range ci.guardedAccesses(set) {
					if a.write && core.FeasibleFollow(fs, a.in, ret, confFlagAtom) {
						dirty = a.what + " at " + c.ipos(a.in)
					}
				}
				c.check(dirty == "", "C09.refusal-pure", set, "return false changes nothing", ret, "a refused Set must leave the cache untouched; preceding write: "+dirty)
			} else {
				// the result is the comma-ok of the lookup of the parameter key
				okRes := false
				if ex, isEx := ret.Results[0].(*ssa.Extract); isEx && ex.Index == 1 {
					if lk, isLk := ex.Tuple.(*ssa.Lookup); isLk && lk.CommaOk && sameKey(lk.Index, paramKeyString(set)) {
						if _, _, ok := loadedCacheField(lk.X); ok {
							okRes = true
						}
					}
				}
				c.check(okRes, "C09.set-result", set, "Set returns the comma-ok of c.items[key]", ret, "Set reports whether it replaced a live entry of the same key")
			}
		}
	}
	if get != nil {
		for _, ret := range core.Returns(get) {
			isAdd := func(in ssa.Instruction) bool {
				call, ok := in.(*ssa.Call)
				return ok && isAtomicOp(core.CalleeName(&call.Call), "Add")
			}
			mn, mx, ok := core.CountOnPaths(get, nil, ret, isAdd)
			which := "hit"
			if core.IsNilConst(ret.Results[0]) {
				which = "miss"
			}
			// the add on this path is on the right counter with delta 1
			right := false
			core.EachInstr(get, func(in ssa.Instruction) {
				if !isAdd(in) || !core.Dominates(in, ret) {
					return
				}
				call := in.(*ssa.Call)
				if f, _, okf := cacheField(call.Call.Args[0]); okf && f == which {
					if k, isK := core.ConstInt(call.Call.Args[1]); isK && k == 1 {
						right = true
					}
				}
			})
			c.check(ok && mn == 1 && mx == 1 && right, "C09.get-counts", get, "Get counts exactly one "+which+" on this return", ret, sprintf("atomic adds on paths to this return: min %d max %d", mn, mx))
		}
		// Get's result is the value of the item looked up with the parameter key
		for _, ret := range core.Returns(get) {
			if core.IsNilConst(ret.Results[0]) {
				continue
			}
			okv := false
			if name, base, ok := core.IsLoadOfField(ret.Results[0]); ok && name == "value" && fromMapLookup(base) && sameKey(lookupKey(base), paramKeyString(get)) {
				okv = true
			}
			c.check(okv, "C09.get-result", get, "Get returns c.items[key].value", ret, "the value returned belongs to the entry stored under the requested key")
		}
	}
	c09Pairing(c, ci, set, get, del)
	if set != nil {
		c09SetDecision(c, set)
	}
	c09ListOps(c)
}

// c09Pairing: explicit forms of what the instance floors used to catch by
// accident.  (a) Every removal of a live entry from the map — delete in Del,
// replacement in Set — unlinks that entry from the usage list under
// conf.EnableLRU, and Get re-appends only what it has just unlinked; (b) the
// eviction loop is reachable only with LRU on: a full cache without LRU is
// refused before it; (c) Stats reports the four observables from the fields
// that hold them.
func c09Pairing(c *Ctx, ci *cacheInfo, set, get, del *ssa.Function) {
	c.L.Floor("C09.unlink-paired", 3)
	c.L.Floor("C09.stats", 4)
	unlinkOf := func(fn *ssa.Function, item ssa.Value) *ssa.Call {
		for _, cl := range core.CallsTo(fn, core.ModPath+"/cache.listUnlink") {
			call := cl.(*ssa.Call)
			if isItemLink(call.Call.Args[0]) && sameValue(itemOfLink(call.Call.Args[0]), item) {
				return call
			}
		}
		return nil
	}
	if del != nil {
		n := 0
		core.EachInstr(del, func(in ssa.Instruction) {
			call, ok := in.(*ssa.Call)
			if !ok {
				return
			}
			if bi, isB := call.Call.Value.(*ssa.Builtin); !isB || bi.Name() != "delete" {
				return
			}
			n++
			// the item removed: the lookup of the same key in this function
			var item ssa.Value
			core.EachInstr(del, func(in2 ssa.Instruction) {
				if ex, ok := in2.(*ssa.Extract); ok && ex.Index == 0 && fromMapLookup(ex) && sameKey(lookupKey(ex), call.Call.Args[1]) {
					item = ex
				}
			})
			var u *ssa.Call
			if item != nil {
				u = unlinkOf(del, item)
			}
			c.check(u != nil && sameRegion(u, call) && guardedByConfFlag(u, "EnableLRU", true), "C09.unlink-paired", del,
				"Del: delete(c.items, key) is paired with listUnlink(&item.used) under EnableLRU", call,
				"a deleted entry that stays in the usage list is later picked as eviction victim: its size is subtracted twice and a live key may be deleted")
		})
		if n == 0 {
			c.undecided("C09.unlink-paired", del, "delete(c.items, key) in Del", nil, "not found")
		}
	}
	if set != nil {
		// replacement: under `exists` of the lookup of the stored key there is an unlink of the old item
		core.EachInstr(set, func(in ssa.Instruction) {
			mu, ok := in.(*ssa.MapUpdate)
			if !ok {
				return
			}
			if _, _, isItems := loadedCacheField(mu.Map); !isItems {
				return
			}
			var item ssa.Value
			core.EachInstr(set, func(in2 ssa.Instruction) {
				if ex, ok := in2.(*ssa.Extract); ok && ex.Index == 0 && fromMapLookup(ex) && sameKey(lookupKey(ex), mu.Key) && sameRegion(ex, mu) {
					item = ex
				}
			})
			var u *ssa.Call
			if item != nil {
				u = unlinkOf(set, item)
			}
			c.check(u != nil && guardedByLookupOK(u, item) && guardedByConfFlag(u, "EnableLRU", true) && core.MayFollow(u, mu), "C09.unlink-paired", set,
				"Set: a replaced entry is unlinked from the usage list (under exists && EnableLRU) before the new item is stored", mu,
				"the replaced item would stay in the list: it is evicted later although it is no longer in the map")
		})
		// the eviction loop runs only with LRU on
		for h := range core.LoopHeads(set) {
			okRef := false
			for _, ret := range core.Returns(set) {
				b, isK := core.ConstBool(ret.Results[0])
				if isK && !b && guardedByConfFlag(ret, "EnableLRU", false) && !core.Reaches(h, ret.Block()) {
					okRef = true
				}
			}
			if !okRef {
				// or: the refusal sits at the top of the loop body, so that every
				// effect of the loop runs with LRU known to be on
				fs := core.Facts(set)
				body := core.LoopBody(h)
				n, all := 0, true
				for _, a := range ci.guardedAccesses(set) {
					if !a.write || !body[a.in.Block()] {
						continue
					}
					n++
					on := false
					for _, f := range fs.At(a.in.Block()) {
						if name, pos, ok := confFlagAtom(f.Cond); ok && name == "EnableLRU" && f.Truth == pos {
							on = true
						}
					}
					all = all && on
				}
				okRef = n > 0 && all
			}
			c.check(okRef, "C09.refusal-pure", set, "without LRU a Set that does not fit returns false before the eviction loop", h.Instrs[0],
				"with LRU off the usage list is empty: entering the eviction loop dereferences the list sentinel as an item")
		}
	}
	if get != nil {
		for _, cl := range core.CallsTo(get, core.ModPath+"/cache.listAppend") {
			ap := cl.(*ssa.Call)
			ok := false
			if isItemLink(ap.Call.Args[0]) {
				if u := unlinkOf(get, itemOfLink(ap.Call.Args[0])); u != nil && core.Dominates(u, ap) {
					ok = true
				}
			}
			c.check(ok, "C09.unlink-paired", get, "Get: the item re-appended was unlinked first", ap, "appending a node that is still linked corrupts the list (two predecessors point at it)")
		}
	}
	if st := c.fn("cache", "cache.Stats"); st != nil {
		want := map[string]string{"Count": "len(items)", "Size": "size", "Hit": "hit", "Miss": "miss"}
		got := map[string]string{}
		core.EachInstr(st, func(in ssa.Instruction) {
			s2, ok := in.(*ssa.Store)
			if !ok {
				return
			}
			fa, ok := s2.Addr.(*ssa.FieldAddr)
			if !ok || core.NamedOf(fa.X.Type()) != "Stats" {
				return
			}
			v := s2.Val
			if cv, isCv := v.(*ssa.Convert); isCv {
				v = cv.X
			}
			switch x := v.(type) {
			case *ssa.Call:
				switch core.CalleeName(&x.Call) {
				case "builtin.len":
					if f, _, ok := loadedCacheField(x.Call.Args[0]); ok {
						got[core.FieldName(fa)] = "len(" + f + ")"
					}
				default:
					if isAtomicOp(core.CalleeName(&x.Call), "Load") {
						if f, _, ok := cacheField(x.Call.Args[0]); ok {
							got[core.FieldName(fa)] = f
						}
					}
				}
			case *ssa.UnOp:
				if f, _, ok := cacheField(x.X); ok {
					got[core.FieldName(fa)] = f
				}
			}
		})
		for _, k := range []string{"Count", "Size", "Hit", "Miss"} {
			c.check(got[k] == want[k], "C09.stats", st, "Stats()."+k+" == c."+want[k], nil, "found "+got[k])
		}
	}
}

// ---- small pattern helpers ----

// isItemLink: v is &X.used for an *item X.
func isItemLink(v ssa.Value) bool {
	fa, ok := v.(*ssa.FieldAddr)
	return ok && core.NamedOf(fa.X.Type()) == "item" && core.FieldName(fa) == "used"
}

func itemOfLink(v ssa.Value) ssa.Value { return v.(*ssa.FieldAddr).X }

// fromMapLookup: v is (extract #0 of) a lookup in c.items.
func fromMapLookup(v ssa.Value) bool { return lookupOf(v) != nil }

func lookupOf(v ssa.Value) *ssa.Lookup {
	switch x := v.(type) {
	case *ssa.Extract:
		if lk, ok := x.Tuple.(*ssa.Lookup); ok && x.Index == 0 {
			if _, _, ok := loadedCacheField(lk.X); ok {
				return lk
			}
		}
	case *ssa.Lookup:
		if _, _, ok := loadedCacheField(x.X); ok {
			return x
		}
	}
	return nil
}

func lookupKey(v ssa.Value) ssa.Value {
	if lk := lookupOf(v); lk != nil {
		return lk.Index
	}
	return nil
}

// sameKey: two key expressions are the same value, or conversions string(x)
// of the same value.
func sameKey(a, b ssa.Value) bool {
	if a == nil || b == nil {
		return false
	}
	if a == b {
		return true
	}
	ca, ok1 := a.(*ssa.Convert)
	cb, ok2 := b.(*ssa.Convert)
	if ok1 && ok2 {
		return sameValue(storedIn(ca.X), storedIn(cb.X))
	}
	return false
}

// storedIn: a load of a field of an object allocated in this function, whose
// only store to that field is v, is v.
func storedIn(x ssa.Value) ssa.Value {
	ld, ok := x.(*ssa.UnOp)
	if !ok || ld.Op != token.MUL {
		return x
	}
	fa, ok := ld.X.(*ssa.FieldAddr)
	if !ok {
		return x
	}
	al, ok := fa.X.(*ssa.Alloc)
	if !ok {
		return x
	}
	var val ssa.Value
	n := 0
	for _, r := range core.Refs(al) {
		fa2, isFA := r.(*ssa.FieldAddr)
		if !isFA || fa2.Field != fa.Field {
			continue
		}
		for _, rr := range core.Refs(fa2) {
			if st, isSt := rr.(*ssa.Store); isSt && st.Addr == ssa.Value(fa2) {
				n++
				val = st.Val
			}
		}
	}
	if n == 1 {
		return val
	}
	return x
}

// sameValue: identical SSA value, or two loads / field addresses of the same path.
func sameValue(a, b ssa.Value) bool {
	if a == b {
		return true
	}
	pa, pb := core.PathOf(a), core.PathOf(b)
	if len(pa.Fields) == 0 || len(pa.Fields) != len(pb.Fields) || pa.Base != pb.Base {
		return false
	}
	for i := range pa.Fields {
		if pa.Fields[i] != pb.Fields[i] {
			return false
		}
	}
	return true
}

// paramKeyString is a marker: string(key) of the first parameter after the receiver.
func paramKeyString(fn *ssa.Function) ssa.Value {
	// any Convert string <- []byte of the key parameter
	var out ssa.Value
	core.EachInstr(fn, func(in ssa.Instruction) {
		if cv, ok := in.(*ssa.Convert); ok && len(fn.Params) >= 2 && (cv.X == fn.Params[1] || (out == nil && storedIn(cv.X) == ssa.Value(fn.Params[1]))) {
			out = cv
		}
	})
	return out
}

// confFlagAtom: the condition is c.conf.<flag> or its negation.
func confFlagAtom(cond ssa.Value) (string, bool, bool) {
	v, truth := core.StripNot(cond, true)
	p := core.PathOf(v)
	if len(p.Fields) == 2 && p.Fields[0] == "conf" {
		if _, isBool := v.Type().Underlying().(*types.Basic); isBool {
			return p.Fields[1], truth, true
		}
	}
	return "", false, false
}

func guardedByConfFlag(in ssa.Instruction, flag string, want bool) bool {
	for _, g := range core.GuardsOf(in) {
		cond, truth := core.StripNot(g.Cond, g.Truth)
		p := core.PathOf(cond)
		if len(p.Fields) == 2 && p.Fields[0] == "conf" && p.Fields[1] == flag && truth == want {
			return true
		}
	}
	return false
}

// fromListEnd: v is the result of listFirst/listLast.
func fromListEnd(v ssa.Value) bool {
	call, ok := v.(*ssa.Call)
	if !ok || call.Call.StaticCallee() == nil {
		return false
	}
	n := call.Call.StaticCallee().Name()
	return n == "listFirst" || n == "listLast"
}

func isListEndOf(v ssa.Value, name string) bool {
	call, ok := v.(*ssa.Call)
	if !ok || call.Call.StaticCallee() == nil || call.Call.StaticCallee().Name() != name {
		return false
	}
	return isUsageList(call.Call.Args[0])
}

func isUsageList(v ssa.Value) bool {
	f, _, ok := cacheField(v)
	return ok && f == "usage"
}

type sizeUpdate struct {
	store  *ssa.Store
	item   ssa.Value // the item whose key/value lengths are used (nil if not of that shape)
	amount ssa.Value
}

// sizeUpdates finds stores `c.size = c.size OP amount`.
func sizeUpdates(fn *ssa.Function, op token.Token) []sizeUpdate {
	var out []sizeUpdate
	core.EachInstr(fn, func(in ssa.Instruction) {
		st, ok := in.(*ssa.Store)
		if !ok {
			return
		}
		if f, _, ok := cacheField(st.Addr); !ok || f != "size" {
			return
		}
		b, ok := st.Val.(*ssa.BinOp)
		if !ok || b.Op != op {
			return
		}
		if f, _, ok := loadedCacheField(b.X); !ok || f != "size" {
			return
		}
		out = append(out, sizeUpdate{store: st, item: itemOfSizeExpr(b.Y), amount: b.Y})
	})
	return out
}

// itemOfSizeExpr: uint(len(X.key) + len(X.value)) -> X.
func itemOfSizeExpr(v ssa.Value) ssa.Value {
	if cv, ok := v.(*ssa.Convert); ok {
		v = cv.X
	}
	b, ok := v.(*ssa.BinOp)
	if !ok || b.Op != token.ADD {
		return nil
	}
	x1, f1 := lenOfItemField(b.X)
	x2, f2 := lenOfItemField(b.Y)
	if x1 == nil || x1 != x2 || f1 == f2 {
		return nil
	}
	return x1
}

func lenOfItemField(v ssa.Value) (ssa.Value, string) {
	call, ok := v.(*ssa.Call)
	if !ok {
		return nil, ""
	}
	b, ok := call.Call.Value.(*ssa.Builtin)
	if !ok || b.Name() != "len" {
		return nil, ""
	}
	name, base, ok := core.IsLoadOfField(call.Call.Args[0])
	if !ok || core.NamedOf(base.Type()) != "item" || (name != "key" && name != "value") {
		return nil, ""
	}
	return base, name
}

// isSizeOfItem: amount == uint(len(k)+len(v)) where k and v are what was
// stored into item.key / item.value of the fresh item.
func isSizeOfItem(fn *ssa.Function, amount ssa.Value, item ssa.Value) bool {
	if x := itemOfSizeExpr(amount); x != nil && x == item {
		return true
	}
	if cv, ok := amount.(*ssa.Convert); ok {
		amount = cv.X
	}
	b, ok := amount.(*ssa.BinOp)
	if !ok || b.Op != token.ADD {
		return false
	}
	lenArg := func(v ssa.Value) ssa.Value {
		if cv, isCv := v.(*ssa.Convert); isCv { // uint(len(k)) + uint(len(v))
			v = cv.X
		}
		call, ok := v.(*ssa.Call)
		if !ok {
			return nil
		}
		if bi, ok := call.Call.Value.(*ssa.Builtin); !ok || bi.Name() != "len" {
			return nil
		}
		return call.Call.Args[0]
	}
	a1, a2 := lenArg(b.X), lenArg(b.Y)
	if a1 == nil || a2 == nil {
		return false
	}
	stored := map[string]ssa.Value{}
	core.EachInstr(fn, func(in ssa.Instruction) {
		if st, ok := in.(*ssa.Store); ok {
			if fa, ok := st.Addr.(*ssa.FieldAddr); ok && fa.X == item {
				stored[core.FieldName(fa)] = st.Val
			}
		}
	})
	return (stored["key"] == a1 && stored["value"] == a2) || (stored["key"] == a2 && stored["value"] == a1)
}

// sameRegion: no Unlock can execute between the two instructions (either order).
func sameRegion(a, b ssa.Instruction) bool {
	fn := a.Parent()
	blocked := false
	core.EachInstr(fn, func(in ssa.Instruction) {
		call, ok := in.(*ssa.Call)
		if !ok || !strings.HasSuffix(core.CalleeName(&call.Call), ").Unlock") {
			return
		}
		// an unlock strictly between a and b on some path
		if core.MayFollow(a, in) && core.MayFollow(in, b) && !core.ReachAvoiding(a, b, in) {
			blocked = true
		}
		if core.MayFollow(b, in) && core.MayFollow(in, a) && !core.ReachAvoiding(b, a, in) {
			blocked = true
		}
	})
	if blocked {
		return false
	}
	return core.MayFollow(a, b) || core.MayFollow(b, a)
}

// itemMatchesKey: key is the lookup key of item, or string(item.key).
func itemMatchesKey(item ssa.Value, key ssa.Value) bool {
	if item == nil {
		return false
	}
	if lk := lookupKey(item); lk != nil && sameKey(lk, key) {
		return true
	}
	if cv, ok := key.(*ssa.Convert); ok {
		if name, base, ok := core.IsLoadOfField(cv.X); ok && name == "key" && base == item {
			return true
		}
	}
	return false
}

func keyOfVictim(key ssa.Value, victim *ssa.Call) bool {
	cv, ok := key.(*ssa.Convert)
	if !ok {
		return false
	}
	name, base, ok := core.IsLoadOfField(cv.X)
	return ok && name == "key" && derivesFrom(base, victim)
}

func fieldOfVictim(v ssa.Value, field string, victim *ssa.Call) bool {
	name, base, ok := core.IsLoadOfField(v)
	return ok && name == field && derivesFrom(base, victim)
}

// derivesFrom: v is computed from src through conversions and structPtr.
func derivesFrom(v, src ssa.Value) bool {
	for i := 0; i < 8; i++ {
		if v == src {
			return true
		}
		switch x := v.(type) {
		case *ssa.Convert:
			v = x.X
		case *ssa.ChangeType:
			v = x.X
		case *ssa.Call:
			if cal := x.Call.StaticCallee(); cal != nil && cal.Name() == "structPtr" {
				v = x.Call.Args[0]
				continue
			}
			return false
		default:
			return false
		}
	}
	return false
}

// itemFromNode finds the *item computed from a list node in fn.
func itemFromNode(fn *ssa.Function, node ssa.Value) ssa.Value {
	var out ssa.Value
	core.EachInstr(fn, func(in ssa.Instruction) {
		if cv, ok := in.(*ssa.Convert); ok && core.NamedOf(cv.Type()) == "item" && derivesFrom(cv, node) {
			out = cv
		}
	})
	return out
}

func isOnDeleteCall(in ssa.Instruction) bool {
	call, ok := in.(*ssa.Call)
	if !ok || call.Call.IsInvoke() || call.Call.StaticCallee() != nil {
		return false
	}
	p := core.PathOf(call.Call.Value)
	return len(p.Fields) == 2 && p.Fields[0] == "conf" && p.Fields[1] == "OnDelete"
}

// guardedByLookupOK: in executes only when the comma-ok of item's lookup is true.
func guardedByLookupOK(in ssa.Instruction, item ssa.Value) bool {
	ex, ok := item.(*ssa.Extract)
	if !ok {
		return false
	}
	for _, g := range core.GuardsOf(in) {
		if e2, ok := g.Cond.(*ssa.Extract); ok && e2.Tuple == ex.Tuple && e2.Index == 1 && g.Truth {
			return true
		}
	}
	return false
}

// onlyGuardSinceLookup: between the map lookup that produced item and in, the
// only branch condition in force is the lookup's own ok result — the action
// happens whenever the key was present, under no further condition.
func onlyGuardSinceLookup(in ssa.Instruction, item ssa.Value) bool {
	ex, ok := item.(*ssa.Extract)
	if !ok {
		return false
	}
	lk, ok := ex.Tuple.(ssa.Instruction)
	if !ok {
		return false
	}
	before := map[*ssa.If]bool{}
	for _, g := range core.GuardsOf(lk) {
		before[g.If] = true
	}
	for _, g := range core.GuardsOf(in) {
		if before[g.If] {
			continue
		}
		if e2, ok := g.Cond.(*ssa.Extract); ok && e2.Tuple == ex.Tuple && e2.Index == 1 && g.Truth {
			continue
		}
		return false
	}
	return true
}

// dependents returns the instructions that use v or a value computed from it
// (through arithmetic, conversions, phis, extracts, field loads).
func dependents(v ssa.Value) []ssa.Instruction {
	seen := map[ssa.Value]bool{}
	var out []ssa.Instruction
	var walk func(v ssa.Value)
	walk = func(v ssa.Value) {
		if seen[v] {
			return
		}
		seen[v] = true
		for _, r := range core.Refs(v) {
			if _, dbg := r.(*ssa.DebugRef); dbg {
				continue
			}
			out = append(out, r)
			switch x := r.(type) {
			case *ssa.BinOp, *ssa.UnOp, *ssa.Convert, *ssa.ChangeType, *ssa.Phi, *ssa.Extract, *ssa.FieldAddr, *ssa.Field, *ssa.IndexAddr, *ssa.Slice, *ssa.MakeInterface:
				walk(x.(ssa.Value))
			case *ssa.Call:
				// results of pure helpers (len, structPtr, list ends) depend on the argument
				if b, ok := x.Call.Value.(*ssa.Builtin); ok && (b.Name() == "len" || b.Name() == "cap") {
					walk(x)
				} else if cal := x.Call.StaticCallee(); cal != nil && (cal.Name() == "structPtr" || cal.Name() == "listFirst" || cal.Name() == "listLast") {
					walk(x)
				}
			}
		}
	}
	walk(v)
	return out
}

// cacheUnlockWindowRules: the callback runs with no lock held, and no value
// read from guarded state before an unlock window is used after the lock is
// taken again (one report per stale read).
func cacheUnlockWindowRules(c *Ctx, ci *cacheInfo, prop string) {
	for _, fn := range ci.fns {
		if ci.helper[fn] {
			continue
		}
		li := core.Locksets(fn)
		core.EachInstr(fn, func(in ssa.Instruction) {
			if !isOnDeleteCall(in) {
				return
			}
			c.check(len(li.May[in]) == 0, prop+".callback-unlocked", fn, "OnDelete called with no lock held", in,
				"the callback may call back into the cache (re-entrant use is part of the property); may-held here: "+core.Held(li.May[in]))
		})
		var relocks []ssa.Instruction
		for _, op := range li.Ops {
			if (op.Op != "Lock" && op.Op != "RLock") || op.Defer {
				continue
			}
			for _, op2 := range li.Ops {
				if (op2.Op == "Unlock" || op2.Op == "RUnlock") && !op2.Defer && op2.Lock == op.Lock && core.MayFollow(op2.Instr, op.Instr) {
					relocks = append(relocks, op.Instr)
					break
				}
			}
		}
		// a call of a cache function that takes the lock itself, made after this
		// function released it, is a re-lock point as well: what it is handed was
		// read in the earlier critical section
		var lockingCalls []ssa.Instruction
		core.EachInstr(fn, func(in ssa.Instruction) {
			call, ok := in.(*ssa.Call)
			if !ok {
				return
			}
			g := call.Call.StaticCallee()
			if g == nil || !core.InModule(g) || len(g.Blocks) == 0 || g == fn {
				return
			}
			takes := false
			for _, op := range core.Locksets(g).Ops {
				if op.Op == "Lock" || op.Op == "RLock" {
					takes = true
				}
			}
			if !takes {
				return
			}
			for _, op2 := range li.Ops {
				if (op2.Op == "Unlock" || op2.Op == "RUnlock") && !op2.Defer && core.MayFollow(op2.Instr, in) {
					lockingCalls = append(lockingCalls, in)
					break
				}
			}
		})
		if len(relocks) == 0 && len(lockingCalls) == 0 {
			continue
		}
		n := 0
		for _, a := range ci.guardedAccesses(fn) {
			lv, isVal := a.in.(ssa.Value)
			if a.write || !isVal {
				continue
			}
			for _, k := range lockingCalls {
				if !core.MayFollow(a.in, k) {
					continue
				}
				for _, u := range dependents(lv) {
					if u == k {
						n++
						c.check(false, prop+".no-stale-after-relock", fn, "value from "+a.what+" handed to a function that re-takes the lock", k,
							"read at "+c.ipos(a.in)+" in a critical section that has ended; "+core.CalleeName(k.(*ssa.Call).Common())+" locks again and works on it: other calls may have replaced or removed the entry in between")
					}
				}
			}
		}
		for _, a := range ci.guardedAccesses(fn) {
			lv, isVal := a.in.(ssa.Value)
			if a.write || !isVal {
				continue
			}
			reported := false
			for _, k := range relocks {
				if reported || !core.MayFollow(a.in, k) {
					continue
				}
				for _, u := range dependents(lv) {
					if core.ReachAvoiding(k, u, a.in) {
						n++
						reported = true
						c.check(false, prop+".no-stale-after-relock", fn, "value from "+a.what+" used after the lock was released and re-taken", u,
							"read at "+c.ipos(a.in)+", lock re-taken at "+c.ipos(k)+", used at "+c.ipos(u)+": the callback window lets other calls change the cache, so decisions based on the old value are stale")
						break
					}
				}
			}
		}
		c.check(n == 0, prop+".no-stale-after-relock", fn, "no guarded value crosses an unlock window", nil, sprintf("%d re-lock site(s) examined", len(relocks)))
	}
}

// c09Config: the constructor establishes what the eviction loop relies on —
// MaxSize >= 1, MaxCount >= 1 and MaxElementSize <= MaxSize for every Config
// (E1 assertion at the return of newCache).  Without the last one an element
// larger than the whole cache passes the size test in Set and the eviction
// loop then runs on an empty list.
func c09Config(c *Ctx) {
	c.L.Floor("C09.config", 3)
	nc := c.fn("cache", "newCache")
	if nc == nil {
		return
	}
	fieldIdx := func(t types.Type, name string) int {
		for {
			if p, ok := t.Underlying().(*types.Pointer); ok {
				t = p.Elem()
				continue
			}
			break
		}
		st, ok := t.Underlying().(*types.Struct)
		if !ok {
			return -1
		}
		for i := 0; i < st.NumFields(); i++ {
			if st.Field(i).Name() == name {
				return i
			}
		}
		return -1
	}
	var obj *ssa.Alloc
	for _, ret := range core.Returns(nc) {
		if al, ok := ret.Results[0].(*ssa.Alloc); ok {
			obj = al
		}
	}
	if obj == nil {
		c.undecided("C09.config", nc, "the cache object returned by newCache", nil, "not a local allocation")
		return
	}
	ci := fieldIdx(obj.Type(), "conf")
	if ci < 0 {
		c.undecided("C09.config", nc, "field conf", nil, "not found")
		return
	}
	confT := obj.Type().Underlying().(*types.Pointer).Elem().Underlying().(*types.Struct).Field(ci).Type()
	path := func(name string) string { return sprintf(".%d.%d", ci, fieldIdx(confT, name)) }
	lincon.Reset()
	a := lincon.New(c.P.SSA, core.InModule)
	a.Hook = func(h *lincon.Handle) {
		ret, ok := h.Instr.(*ssa.Return)
		if !ok || ret.Parent() != nc {
			return
		}
		ms, ok1 := h.Cell(obj, path("MaxSize"))
		mc, ok2 := h.Cell(obj, path("MaxCount"))
		me, ok3 := h.Cell(obj, path("MaxElementSize"))
		h.Assert("config", "conf.MaxSize >= 1 when newCache returns", ok1 && h.ProvesLE(ms.Neg().AddK(1)))
		h.Assert("config", "conf.MaxCount >= 1 when newCache returns", ok2 && h.ProvesLE(mc.Neg().AddK(1)))
		h.Assert("config", "conf.MaxElementSize <= conf.MaxSize when newCache returns", ok1 && ok3 && h.ProvesLE(me.Sub(ms)))
	}
	a.Entry(nc, nil)
	recordObligations(c, a, "C09", func(o *lincon.Oblig) bool { return strings.HasPrefix(o.Kind, "assert:") })
}

// c09SetDecision: which of refuse / evict / store Set does, as a function of
// its four tests — (T) the element exceeds MaxElementSize, (L) conf.EnableLRU,
// (S) size+add > MaxSize, (N) len(items) == MaxCount — by walking the CFG
// from the entry under all 16 outcomes: T -> refuse; !L && (S || N) -> refuse;
// L && (S || N) -> evict; otherwise store.  The refusal test and the eviction
// loop test are separate code: the table ties them to the same predicate.
func c09SetDecision(c *Ctx, set *ssa.Function) {
	c.L.Floor("C09.set-decision", 1)
	what := "refuse / evict / store as a function of (too big, LRU, size full, count full)"
	recv := ssa.Value(set.Params[0])
	fieldLoad := func(v ssa.Value, path ...string) bool {
		p := core.PathOf(v)
		if p.Base != recv || len(p.Fields) != len(path) {
			return false
		}
		for i := range path {
			if p.Fields[i] != path[i] {
				return false
			}
		}
		return true
	}
	isAddSize := func(v ssa.Value) bool {
		if cv, ok := v.(*ssa.Convert); ok {
			v = cv.X
		}
		b, ok := v.(*ssa.BinOp)
		if !ok || b.Op != token.ADD {
			return false
		}
		// uint(len(key)+len(val)) or uint(len(key))+uint(len(val))
		bx, by := b.X, b.Y
		if cv, ok := bx.(*ssa.Convert); ok {
			bx = cv.X
		}
		if cv, ok := by.(*ssa.Convert); ok {
			by = cv.X
		}
		lx, okx := bx.(*ssa.Call)
		ly, oky := by.(*ssa.Call)
		return okx && oky && core.CalleeName(&lx.Call) == "builtin.len" && core.CalleeName(&ly.Call) == "builtin.len" &&
			((lx.Call.Args[0] == ssa.Value(set.Params[1]) && ly.Call.Args[0] == ssa.Value(set.Params[2])) || (lx.Call.Args[0] == ssa.Value(set.Params[2]) && ly.Call.Args[0] == ssa.Value(set.Params[1])))
	}
	classify := func(v ssa.Value) (string, bool) {
		if fieldLoad(v, "conf", "EnableLRU") {
			return "L", true
		}
		b0, ok := v.(*ssa.BinOp)
		if !ok {
			return "", false
		}
		// mirrored forms: `max < x` is `x > max`, `max == n` is `n == max`
		b := &ssa.BinOp{Op: b0.Op, X: b0.X, Y: b0.Y}
		if b.Op == token.LSS {
			b.Op, b.X, b.Y = token.GTR, b0.Y, b0.X
		}
		if b.Op == token.EQL && fieldLoad(b.X, "conf", "MaxCount") {
			b.X, b.Y = b0.Y, b0.X
		}
		switch {
		case b.Op == token.GTR && isAddSize(b.X) && fieldLoad(b.Y, "conf", "MaxElementSize"):
			return "T", true
		case b.Op == token.GTR && fieldLoad(b.Y, "conf", "MaxSize"):
			if s, ok := b.X.(*ssa.BinOp); ok && s.Op == token.ADD && ((fieldLoad(s.X, "size") && isAddSize(s.Y)) || (fieldLoad(s.Y, "size") && isAddSize(s.X))) {
				return "S", true
			}
		case b.Op == token.EQL && fieldLoad(b.Y, "conf", "MaxCount"):
			x := b.X
			if cv, ok := x.(*ssa.Convert); ok {
				x = cv.X
			}
			if lc, ok := x.(*ssa.Call); ok && core.CalleeName(&lc.Call) == "builtin.len" && fieldLoad(lc.Call.Args[0], "items") {
				return "N", true
			}
		}
		return "", false
	}
	var head *ssa.BasicBlock
	for h := range core.LoopHeads(set) {
		head = h
	}
	if head == nil {
		c.undecided("C09.set-decision", set, what, nil, "no eviction loop")
		return
	}
	body := core.LoopBody(head)
	bad, undec := "", ""
	n := 0
	for m := 0; m < 16 && undec == ""; m++ {
		asg := map[string]bool{"T": m&1 != 0, "L": m&2 != 0, "S": m&4 != 0, "N": m&8 != 0}
		b := set.Blocks[0]
		outcome := ""
		// a condition kept in a variable (`full := a || b; if full && ...`) is
		// a phi of the atoms: its value is the one of the edge the walk took
		var prev *ssa.BasicBlock
		phiVal := map[*ssa.Phi]ssa.Value{}
		goTo := func(nb *ssa.BasicBlock) {
			prev, b = b, nb
			for _, in := range nb.Instrs {
				phi, ok := in.(*ssa.Phi)
				if !ok {
					break
				}
				for i, p := range nb.Preds {
					if p == prev {
						phiVal[phi] = phi.Edges[i]
					}
				}
			}
		}
		var truthOf func(v ssa.Value, depth int) (bool, bool)
		truthOf = func(v ssa.Value, depth int) (bool, bool) {
			cond, truth := core.StripNot(v, true)
			if k, isK := core.ConstBool(cond); isK {
				return k == truth, true
			}
			if phi, isPhi := cond.(*ssa.Phi); isPhi && depth < 6 {
				if e, ok := phiVal[phi]; ok {
					r, ok := truthOf(e, depth+1)
					return r == truth, ok
				}
				return false, false
			}
			name, ok := classify(cond)
			if !ok {
				return false, false
			}
			return asg[name] == truth, true
		}
		for steps := 0; steps < 64 && outcome == "" && undec == ""; steps++ {
			evicts := false
			for _, in := range b.Instrs {
				if call, ok := in.(*ssa.Call); ok && body[b] {
					if cal := call.Call.StaticCallee(); cal != nil && (cal.Name() == "listFirst" || cal.Name() == "listUnlink") {
						evicts = true
					}
				}
			}
			if evicts {
				outcome = "evict"
				break
			}
			stored := false
			for _, in := range b.Instrs {
				if mu, ok := in.(*ssa.MapUpdate); ok {
					if _, _, isItems := loadedCacheField(mu.Map); isItems {
						stored = true
					}
				}
				// the replaced-entry lookup belongs to the store phase
				if lk, ok := in.(*ssa.Lookup); ok && !body[b] {
					if _, _, isItems := loadedCacheField(lk.X); isItems {
						stored = true
					}
				}
			}
			if stored {
				outcome = "store"
				break
			}
			switch t := b.Instrs[len(b.Instrs)-1].(type) {
			case *ssa.Return:
				if k, isK := core.ConstBool(t.Results[0]); isK && !k {
					outcome = "refuse"
				} else {
					outcome = "return"
				}
			case *ssa.Jump:
				goTo(b.Succs[0])
			case *ssa.If:
				taken, ok := truthOf(t.Cond, 0)
				if !ok {
					cond, _ := core.StripNot(t.Cond, true)
					undec = "a test that is not one of the four recognised ones: " + core.Describe(cond)
					break
				}
				if taken {
					goTo(b.Succs[0])
				} else {
					goTo(b.Succs[1])
				}
			default:
				undec = "unexpected block end"
			}
		}
		if undec != "" {
			break
		}
		n++
		want := "store"
		switch {
		case asg["T"]:
			want = "refuse"
		case !asg["L"] && (asg["S"] || asg["N"]):
			want = "refuse"
		case asg["L"] && (asg["S"] || asg["N"]):
			want = "evict"
		}
		if outcome != want && bad == "" {
			bad = sprintf("for %v Set does %q, expected %q", asg, outcome, want)
		}
	}
	if undec != "" {
		c.undecided("C09.set-decision", set, what, nil, undec)
		return
	}
	c.check(bad == "", "C09.set-decision", set, what, nil, sprintf("%d outcomes walked. %s", n, bad))
}

// c09ListOps: the intrusive list primitives, evaluated symbolically (straight
// line code, helper calls inlined, reads resolved against the writes made so
// far), have exactly the effect of a circular doubly linked list with a
// sentinel: the final heap of each helper equals the expected one.
func c09ListOps(c *Ctx) {
	c.L.Floor("C09.list-ops", 5)
	type cellK struct{ obj, field string }
	var eval func(f *ssa.Function, args []string, heap map[cellK]string, depth int) (string, string)
	eval = func(f *ssa.Function, args []string, heap map[cellK]string, depth int) (ret string, why string) {
		if len(f.Blocks) != 1 || depth > 3 {
			return "", "not straight-line code"
		}
		val := map[ssa.Value]string{}
		addr := map[ssa.Value]cellK{}
		for i, p := range f.Params {
			val[p] = args[i]
		}
		for _, in := range f.Blocks[0].Instrs {
			switch x := in.(type) {
			case *ssa.FieldAddr:
				base, ok := val[x.X]
				if !ok {
					return "", "field of an unknown object"
				}
				addr[x] = cellK{base, core.FieldName(x)}
			case *ssa.UnOp:
				k, ok := addr[x.X]
				if x.Op != token.MUL || !ok {
					return "", "unsupported " + core.Describe(x)
				}
				if v, ok := heap[k]; ok {
					val[x] = v
				} else {
					val[x] = k.obj + "." + k.field
				}
			case *ssa.Store:
				k, ok := addr[x.Addr]
				v, ok2 := val[x.Val]
				if !ok || !ok2 {
					return "", "unsupported store"
				}
				heap[k] = v
			case *ssa.Call:
				g := x.Call.StaticCallee()
				if g == nil || !core.InModule(g) {
					return "", "call of " + core.CalleeName(&x.Call)
				}
				var as []string
				for _, a := range x.Call.Args {
					v, ok := val[a]
					if !ok {
						return "", "unknown argument"
					}
					as = append(as, v)
				}
				r, w := eval(g, as, heap, depth+1)
				if w != "" {
					return "", w
				}
				val[x] = r
			case *ssa.Return:
				if len(x.Results) == 1 {
					return val[x.Results[0]], ""
				}
				return "", ""
			case *ssa.DebugRef:
			default:
				return "", "unsupported instruction " + in.String()
			}
		}
		return "", ""
	}
	specs := []struct {
		name string
		heap map[cellK]string
		ret  string
	}{
		{"listInit", map[cellK]string{{"p0", "next"}: "p0", {"p0", "prev"}: "p0"}, ""},
		{"listFirst", map[cellK]string{}, "p0.next"},
		{"listLast", map[cellK]string{}, "p0.prev"},
		{"listLink2", map[cellK]string{{"p0", "next"}: "p1", {"p1", "prev"}: "p0"}, ""},
		{"listUnlink", map[cellK]string{{"p0.prev", "next"}: "p0.next", {"p0.next", "prev"}: "p0.prev"}, ""},
		{"listAppend", map[cellK]string{{"p0", "next"}: "p1.next", {"p1.next", "prev"}: "p0", {"p1", "next"}: "p0", {"p0", "prev"}: "p1"}, ""},
	}
	for _, sp := range specs {
		f := c.P.Func("cache", sp.name)
		if sp.name == "listLink2" && (f == nil || len(f.Blocks) == 0) {
			// a pure helper of listUnlink / listAppend: their own effect is
			// evaluated with or without it
			continue
		}
		if f = c.fn("cache", sp.name); f == nil {
			continue
		}
		args := []string{"p0", "p1"}[:len(f.Params)]
		heap := map[cellK]string{}
		ret, why := eval(f, args, heap, 0)
		if why != "" {
			c.undecided("C09.list-ops", f, sp.name+" has the list effect", nil, why)
			continue
		}
		ok := ret == sp.ret && len(heap) == len(sp.heap)
		for k, v := range sp.heap {
			if heap[k] != v {
				ok = false
			}
		}
		c.check(ok, "C09.list-ops", f, sp.name+" has the list effect", nil, sprintf("final heap %v, result %q; expected %v, %q", heap, ret, sp.heap, sp.ret))
	}
}

// isAtomicOp: name is sync/atomic.<Op>Int32 & co. or the method <Op> of one of
// the atomic integer types; both forms take the address first.
func isAtomicOp(name, op string) bool {
	if strings.HasPrefix(name, "sync/atomic."+op) {
		return true
	}
	if strings.HasPrefix(name, "(*sync/atomic.") && strings.HasSuffix(name, ")."+op) {
		return true
	}
	return false
}

// nodeOfLink: v is &X.used for an *item X computed from a list node N by the
// container-of conversion (structPtr): that address is N itself.
func nodeOfLink(v ssa.Value) ssa.Value {
	if !isItemLink(v) {
		return nil
	}
	x := itemOfLink(v)
	for i := 0; i < 8; i++ {
		switch y := x.(type) {
		case *ssa.Convert:
			x = y.X
		case *ssa.ChangeType:
			x = y.X
		case *ssa.Call:
			if cal := y.Call.StaticCallee(); cal != nil && cal.Name() == "structPtr" {
				n := y.Call.Args[0]
				for {
					switch z := n.(type) {
					case *ssa.Convert:
						n = z.X
						continue
					case *ssa.ChangeType:
						n = z.X
						continue
					}
					break
				}
				return n
			}
			return nil
		default:
			return nil
		}
	}
	return nil
}

// c10InsertAtomic: a new element becomes visible in one critical section.  The
// link into the usage list (listAppend of the new item's node) and the store
// into the key map of the same item are not separated by an Unlock on any path
// — in between, another goroutine would find the element in one structure and
// not in the other (an eviction would unlink and "free" bytes never counted).
func c10InsertAtomic(c *Ctx, set *ssa.Function) {
	const rule = "C10.insert-atomic"
	if set == nil {
		return
	}
	var pubs []ssa.Instruction
	core.EachInstr(set, func(in ssa.Instruction) {
		switch x := in.(type) {
		case *ssa.MapUpdate:
			if _, isAlloc := core.Unwrap(x.Value).(*ssa.Alloc); isAlloc {
				pubs = append(pubs, x)
			}
		case *ssa.Call:
			if cal := x.Call.StaticCallee(); cal != nil && cal.Name() == "listAppend" && len(x.Call.Args) == 2 {
				if fa, ok := x.Call.Args[0].(*ssa.FieldAddr); ok {
					if _, isAlloc := core.Unwrap(fa.X).(*ssa.Alloc); isAlloc {
						pubs = append(pubs, x)
					}
				}
			}
		}
	})
	if len(pubs) < 2 {
		c.undecided(rule, set, "the link of the new item into the usage list and its store into the map", nil, sprintf("found %d of the two publication sites", len(pubs)))
		return
	}
	isPub := map[ssa.Instruction]bool{}
	for _, p := range pubs {
		isPub[p] = true
	}
	isUnlock := func(in ssa.Instruction) bool {
		call, ok := in.(*ssa.Call)
		if !ok {
			return false
		}
		n := core.CalleeName(&call.Call)
		return strings.HasSuffix(n, ".Unlock") || strings.HasSuffix(n, ".RUnlock")
	}
	for _, from := range pubs {
		// forward exploration (back edges included) with the state "an Unlock
		// has been passed"; it stops at the other publication sites
		type st struct {
			b        *ssa.BasicBlock
			i        int
			unlocked bool
		}
		seen := map[st]bool{}
		var bad ssa.Instruction
		var unlockAt ssa.Instruction
		idxOf := func(in ssa.Instruction) int {
			for i, x := range in.Block().Instrs {
				if x == in {
					return i
				}
			}
			return 0
		}
		work := []st{{from.Block(), idxOf(from) + 1, false}}
		for len(work) > 0 && bad == nil {
			cur := work[len(work)-1]
			work = work[:len(work)-1]
			if seen[cur] {
				continue
			}
			seen[cur] = true
			unlocked := cur.unlocked
			stop := false
			for i := cur.i; i < len(cur.b.Instrs); i++ {
				in := cur.b.Instrs[i]
				if isUnlock(in) {
					unlocked = true
					unlockAt = in
				}
				if isPub[in] && in != from {
					if unlocked {
						bad = in
					}
					stop = true
					break
				}
			}
			if stop {
				continue
			}
			for _, s := range cur.b.Succs {
				work = append(work, st{s, 0, unlocked})
			}
		}
		c.check(bad == nil, rule, set, "no Unlock between the link of the new item and its store into the map", from,
			sprintf("in between the element is in one structure and not in the other (Unlock at %s)", c.ipos(unlockAt)))
	}
}
