package rules

import (
	"fmt"
	"os"
	"golang.org/x/tools/go/ssa"

	"verif/sa/boolfn"
	"verif/sa/core"
)

// c04DecoderExact decides the full-length IPv6 ARPA decoder exactly: the name
// is a string of arpaV6MaxLen symbolic bytes (576 Boolean variables), the
// function is evaluated path by path (its loop over the 16 groups unrolls),
// and the two results are compared, as Boolean functions, with the codec:
//
//	err == nil  <=>  for every group i < 16: s[4i] and s[4i+2] are hex digits,
//	                 s[4i+1] == '.' and s[4i+3] == '.'
//	and then    addr[15-i] == hexval(s[4i+2])<<4 | hexval(s[4i])
//
// i.e. for all 2^576 names of that length, whatever the decoder's loops and
// helpers look like.  The bytes from 64 on (the suffix) are the dispatcher's
// business (C04.dispatch).
func c04DecoderExact(c *Ctx, prop string, npos int) (decided bool) {
	rule := prop + ".v6.decoder-exact"
	f := c.P.Func("netutil", "ipv6FromReversed")
	if f == nil || len(f.Params) != 1 {
		return false
	}
	n, ok := intConst(c, "netutil", "arpaV6MaxLen")
	if !ok || n < 64 || n > 128 {
		return false
	}
	m := boolfn.New()
	ev := &boolfn.Eval{M: m, Entered: map[string]bool{}, ErrorsAsBits: true}
	ev.InScope = core.InModule
	ev.OnCall = func(name string, call *ssa.CallCommon, args []boolfn.Val) (boolfn.Val, bool) {
		if name == "net/netip.AddrFrom16" && len(args) == 1 && args[0].Kind == boolfn.KArray {
			return args[0], true
		}
		return boolfn.Val{}, false
	}
	in := ev.StringInput(0, int(n))
	rs, err := ev.Call(f, []boolfn.Val{in})
	if err != nil || len(rs) != 2 || rs[1].Kind != boolfn.KBits || len(rs[1].Bits) != 1 {
		// outside the evaluator's grammar: the caller falls back to the rules
		// that enumerate the positions read by the scan loops
		if os.Getenv("GSA_DBG") != "" {
			fmt.Fprintln(os.Stderr, "exact decoder:", err)
		}
		c.L.Notef("ipv6FromReversed is outside the exact evaluator's grammar (%v); position-set rules used instead", err)
		return false
	}
	c.L.Floor(rule, 2)
	byteFn := func(bits []int, pred func(b int) bool) int {
		r := 0
		for v := 0; v < 256; v++ {
			if !pred(v) {
				continue
			}
			eq := 1
			for k := 0; k < 8; k++ {
				bit := bits[k]
				if (v>>uint(k))&1 == 0 {
					bit = m.Not(bit)
				}
				eq = m.And(eq, bit)
			}
			r = m.Or(r, eq)
		}
		return r
	}
	hexval := func(v int) int {
		switch {
		case v >= '0' && v <= '9':
			return v - '0'
		case v >= 'a' && v <= 'f':
			return v - 'a' + 10
		case v >= 'A' && v <= 'F':
			return v - 'A' + 10
		}
		return -1
	}
	// accept: all npos positions right; dot63: the byte after the last nibble
	// label, which the dispatcher's own suffix test covers when npos == 63
	accept := 1
	for i := 0; i < 16; i++ {
		accept = m.And(accept, byteFn(in.Elems[4*i], func(b int) bool { return hexval(b) >= 0 }))
		accept = m.And(accept, byteFn(in.Elems[4*i+2], func(b int) bool { return hexval(b) >= 0 }))
		accept = m.And(accept, byteFn(in.Elems[4*i+1], func(b int) bool { return b == '.' }))
		if 4*i+3 < npos {
			accept = m.And(accept, byteFn(in.Elems[4*i+3], func(b int) bool { return b == '.' }))
		}
	}
	gotAccept := m.Not(rs[1].Bits[0])
	// the dispatchers lower the name first: names with upper-case letters never
	// arrive here, so a decoder may treat them either way
	for i := 0; i < 64; i++ {
		lw := m.Not(byteFn(in.Elems[i], func(b int) bool { return b >= 'A' && b <= 'Z' }))
		accept = m.And(accept, lw)
		gotAccept = m.And(gotAccept, lw)
	}
	if npos < 64 {
		// a decoder that also insists on the dot at 63 is as good: compare on the
		// names that have it
		dot63 := byteFn(in.Elems[63], func(b int) bool { return b == '.' })
		gotAccept = m.And(gotAccept, dot63)
		accept = m.And(accept, dot63)
	}
	why := "err == nil exactly for the names with 32 hex-digit labels separated by dots (all 2^" + sprintf("%d", 8*n) + " names of that length)"
	if gotAccept != accept {
		w := m.Witness(m.Xor(gotAccept, accept))
		why = "differs from the codec at the name " + witnessName(w, int(n), 64)
		if m.And(gotAccept, m.Not(accept)) != 0 {
			why += " (accepted names that are not canonical exist)"
		}
	}
	c.check(gotAccept == accept, rule, f, "accepts exactly the 32-nibble names", nil, why)
	okBytes := rs[0].Kind == boolfn.KArray && len(rs[0].Elems) == 16
	whyB := "addr[15-i] == hexval(name[4i+2])<<4 | hexval(name[4i]) for every accepted name"
	if okBytes {
	outer:
		for i := 0; i < 16; i++ {
			for b := 0; b < 8; b++ {
				src, k := in.Elems[4*i], b
				if b >= 4 {
					src, k = in.Elems[4*i+2], b-4
				}
				want := byteFn(src, func(v int) bool { h := hexval(v); return h >= 0 && (h>>uint(k))&1 == 1 })
				if m.And(accept, m.Xor(rs[0].Elems[15-i][b], want)) != 0 {
					okBytes = false
					whyB = sprintf("bit %d of address byte %d is not the bit of the nibble at name position %d", b, 15-i, 4*i+2*(b/4))
					break outer
				}
			}
		}
	} else {
		whyB = "the first result is not the 16 decoded bytes"
	}
	c.check(okBytes, rule, f, "decodes the nibbles into the right address bytes", nil, whyB)
	return true
}

// witnessName renders the first `show` bytes of a name from a BDD witness.
func witnessName(w map[int]bool, n, show int) string {
	b := make([]byte, 0, show)
	for i := 0; i < show && i < n; i++ {
		var v byte
		for k := 0; k < 8; k++ {
			if w[8*i+k] {
				v |= 1 << uint(7-k)
			}
		}
		b = append(b, v)
	}
	return sprintf("%q…", string(b))
}
