package rules

import (
	"go/token"
	"go/types"

	"golang.org/x/tools/go/ssa"

	"verif/sa/core"
	"verif/sa/lincon"
)

func init() {
	register(&Property{
		ID:    "C15",
		Level: "proof",
		Explanation: "Eleven-plus proof obligations over the SSA of limitedReader.Read and TruncatedWriter.Write, discharged for all buffer sizes, remaining counts and reader/writer " +
			"behaviours: structural ones by dominance and dataflow (the delegated call is guarded by n != 0, its argument is a prefix window of the caller's buffer, results are returned " +
			"unchanged, the decrement dominates the success return, the fields are written only by the constructors and the one update), arithmetic ones by the relational abstract " +
			"interpreter with the struct invariant assumed at entry and re-proved at every store (len(p') <= remaining, no unsigned wrap in n - read / limit - offset, " +
			"offset' = offset + forwarded <= limit, first result == len(b)). Together they are an inductive argument that at most `limit` bytes are requested/forwarded in total.",
		Technique: "inductive struct invariant proved by abstract interpretation (linear constraints) + SSA dominance/dataflow obligations",
		Note:      "Trusted: go/ssa, /verif/sa/lincon, the io.Reader contract n <= len(p) for the wrapped reader (the code itself rejects n < 0), the wrapped reader/writer not calling back into the wrapper. Mathematical integers below 2^62.",
		DesignRef: "DESIGN.md section 4, C15",
		Run:       runC15,
	})
}

func runC15(c *Ctx) {
	c.L.Trust("go/types + go/ssa", "abstract interpreter /verif/sa/lincon", "io.Reader contract: Read returns n <= len(p)")
	c.L.Assumef("the wrapped io.Reader honours n <= len(p) (n < 0 is rejected by the code itself); the wrapped reader/writer does not call back into the same wrapper")
	c.L.Assumef("byte counts are below 2^62 (mathematical-integer model of uint64/uint/int conversions)")
	c.L.Floor("C15.reader.guard", 1)
	c.L.Floor("C15.reader.window", 1)
	c.L.Floor("C15.reader.request-bound", 1)
	c.L.Floor("C15.reader.decrement", 2)
	c.L.Floor("C15.reader.passthrough", 1)
	c.L.Floor("C15.reader.limit-error", 1)
	c.L.Floor("C15.fields.writers", 4)
	c.L.Floor("C15.writer.window", 1)
	c.L.Floor("C15.writer.forward-bound", 1)
	c.L.Floor("C15.writer.no-wrap", 1)
	c.L.Floor("C15.writer.offset-update", 2)
	c.L.Floor("C15.writer.reports-len", 1)

	rd := c.fn("ioutil", "limitedReader.Read")
	wr := c.fn("ioutil", "TruncatedWriter.Write")
	fidx := func(t types.Type, name string) int {
		for {
			if p, ok := t.Underlying().(*types.Pointer); ok {
				t = p.Elem()
				continue
			}
			break
		}
		st, ok := t.Underlying().(*types.Struct)
		if !ok {
			return -1
		}
		for i := 0; i < st.NumFields(); i++ {
			if st.Field(i).Name() == name {
				return i
			}
		}
		return -1
	}

	// ---------------- limitedReader.Read ----------------
	if rd != nil {
		lr, p := rd.Params[0], rd.Params[1]
		nIdx := fidx(lr.Type(), "n")
		var call *ssa.Call
		for _, ci := range core.AllCalls(rd) {
			if cc, ok := ci.(*ssa.Call); ok && cc.Call.IsInvoke() && cc.Call.Method.Name() == "Read" {
				call = cc
			}
		}
		if call == nil || nIdx < 0 {
			c.undecided("C15.reader.guard", rd, "delegated r.Read call", nil, "not found")
		} else {
			// O1 guard
			okG := false
			for _, g := range core.Facts(rd).At(call.Block()) {
				if v, isZero, ok := core.ZeroTest(g.Cond, g.Truth); ok && !isZero {
					if name, base, isF := core.IsLoadOfField(v); isF && name == "n" && base == lr {
						okG = true
					}
				}
			}
			c.check(okG, "C15.reader.guard", rd, "r.Read is called only when lr.n != 0", call, "once the limit is used up the wrapped reader is not touched again")
			// receiver of the call is lr.r
			name, base, isF := core.IsLoadOfField(call.Call.Value)
			c.check(isF && name == "r" && base == lr, "C15.reader.guard", rd, "the delegate is lr.r", call, "reads come from the wrapped reader")
			// O2 window
			c.check(isPrefixWindowOf(call.Call.Args[0], p), "C15.reader.window", rd, "argument is a prefix window p[:l] of the caller's buffer", call, "delivered bytes land at the start of p, in stream order")
			// O4 passthrough and O8 decrement dominates
			var dec *ssa.Store
			core.EachInstr(rd, func(in ssa.Instruction) {
				st, ok := in.(*ssa.Store)
				if !ok {
					return
				}
				if fa, ok := st.Addr.(*ssa.FieldAddr); ok && fa.X == ssa.Value(lr) && core.FieldName(fa) == "n" {
					// value: lr.n - uint64(n)
					okV := false
					if b, isB := st.Val.(*ssa.BinOp); isB && b.Op == token.SUB {
						nm, bs, isL := core.IsLoadOfField(b.X)
						y := b.Y
						if cv, isCv := y.(*ssa.Convert); isCv {
							y = cv.X
						}
						if ex, isEx := y.(*ssa.Extract); isEx && isL && nm == "n" && bs == lr && ex.Tuple == ssa.Value(call) && ex.Index == 0 {
							okV = true
						}
					}
					c.check(okV, "C15.reader.decrement", rd, "lr.n = lr.n - uint64(n) with n the count returned by r.Read", st, "the remaining budget decreases by exactly the bytes delivered")
					dec = st
				}
			})
			for _, ret := range core.Returns(rd) {
				ex0, ok0 := ret.Results[0].(*ssa.Extract)
				if ok0 && ex0.Tuple == ssa.Value(call) && ex0.Index == 0 {
					ex1, ok1 := ret.Results[1].(*ssa.Extract)
					c.check(ok1 && ex1.Tuple == ssa.Value(call) && ex1.Index == 1, "C15.reader.passthrough", rd, "(n, err) of r.Read returned unchanged", ret, "the reader's errors pass through with the bytes read")
					c.check(dec != nil && core.Dominates(dec, ret), "C15.reader.decrement", rd, "every return that delivers bytes is dominated by the decrement", ret,
						"bytes delivered together with an error must still be charged against the limit")
				} else if k, isK := core.ConstInt(ret.Results[0]); isK && k == 0 {
					// limit error or bad-length error
					if !core.Dominates(call, ret) {
						isLimit := false
						if mi, isMI := ret.Results[1].(*ssa.MakeInterface); isMI {
							if al, isAl := mi.X.(*ssa.Alloc); isAl && core.NamedOf(al.Type()) == "LimitError" {
								isLimit = true
							}
						}
						c.check(isLimit, "C15.reader.limit-error", rd, "a return without asking r is the limit error", ret,
							"any other early result (for instance (0, nil) for an empty buffer) hides the limit error and r's own errors from the caller")
					}
					if mi, isMI := ret.Results[1].(*ssa.MakeInterface); isMI {
						if al, isAl := mi.X.(*ssa.Alloc); isAl && core.NamedOf(al.Type()) == "LimitError" {
							okL := false
							for _, r := range core.Refs(al) {
								if fa, ok := r.(*ssa.FieldAddr); ok && core.FieldName(fa) == "Limit" {
									for _, rr := range core.Refs(fa) {
										if st, ok := rr.(*ssa.Store); ok {
											if nm, bs, isL := core.IsLoadOfField(st.Val); isL && nm == "limit" && bs == lr {
												okL = true
											}
										}
									}
								}
							}
							okZ := false
							for _, g := range core.Facts(rd).At(ret.Block()) {
								if v, isZero, ok := core.ZeroTest(g.Cond, g.Truth); ok && isZero {
									if nm, bs, isL := core.IsLoadOfField(v); isL && nm == "n" && bs == lr {
										okZ = true
									}
								}
							}
							c.check(okL && okZ, "C15.reader.limit-error", rd, "lr.n == 0 => return 0, &LimitError{Limit: lr.limit}", ret, "after the limit every Read returns 0 bytes and the error carrying the limit")
						}
					}
				} else {
					c.check(false, "C15.reader.passthrough", rd, "return "+core.Describe(ret.Results[0]), ret, "a return that is neither the delegate's result nor (0, error)")
				}
			}
			// E1 obligations
			lincon.Reset()
			a := lincon.New(c.P.SSA, core.InModule)
			a.PreserveFields = func(ssa.CallInstruction) bool { return true }
			a.InvokeSummary = func(h *lincon.Handle, cl *ssa.Call, res lincon.AV) {
				if cl != call {
					return
				}
				// io.Reader contract: n <= len(p)
				if ln, ok := h.Len(cl.Call.Args[0]); ok {
					if n, ok := lincon.TupleInt(res, 0); ok {
						h.AssumeLE(n.Sub(ln))
					}
				}
			}
			a.Hook = func(h *lincon.Handle) {
				switch in := h.Instr.(type) {
				case *ssa.Call:
					if in == call {
						ln, ok := h.Len(in.Call.Args[0])
						rem := h.Field(lr, nIdx, "n", true)
						h.Assert("reader.request-bound", "len(p') <= lr.n at r.Read(p')", ok && h.ProvesLE(ln.Sub(rem)))
					}
				case *ssa.BinOp:
					if in.Op == token.SUB && dec != nil && dec.Val == ssa.Value(in) {
						x, ok1 := h.Int(in.X)
						y, ok2 := h.Int(in.Y)
						h.Assert("reader.decrement", "no unsigned wrap in lr.n - uint64(n)", ok1 && ok2 && h.ProvesLE(y.Sub(x)))
					}
				case *ssa.Return:
					// an exit after the delegated Read that does not hand (n, err) through is
					// allowed only for an impossible count (n < 0); (0, nil) and (0, io.EOF)
					// results of the wrapped reader must pass through unchanged
					if core.Dominates(call, in) {
						if ex, isEx := in.Results[0].(*ssa.Extract); !isEx || ex.Tuple != ssa.Value(call) {
							n, ok := h.Int(extractOf(call, 0))
							h.Assert("reader.passthrough", "a replaced result only for a negative count from r.Read", ok && h.ProvesLE(n.AddK(1)))
						}
					}
				}
			}
			a.Entry(rd, nil)
			recordObligations(c, a, "C15", func(o *lincon.Oblig) bool { return true })
		}
	}

	// ---------------- TruncatedWriter.Write ----------------
	if wr != nil {
		w, b := wr.Params[0], wr.Params[1]
		limIdx, offIdx := fidx(w.Type(), "limit"), fidx(w.Type(), "offset")
		var call *ssa.Call
		for _, ci := range core.AllCalls(wr) {
			if cc, ok := ci.(*ssa.Call); ok && cc.Call.IsInvoke() && cc.Call.Method.Name() == "Write" {
				call = cc
			}
		}
		if call == nil || limIdx < 0 || offIdx < 0 {
			c.undecided("C15.writer.window", wr, "delegated w.Write call", nil, "not found")
		} else {
			c.check(isPrefixWindowOf(call.Call.Args[0], b), "C15.writer.window", wr, "forwarded bytes are a prefix window b[:idx]", call, "the first bytes of each write are forwarded, in order")
			name, base, isF := core.IsLoadOfField(call.Call.Value)
			c.check(isF && name == "w" && base == w, "C15.writer.window", wr, "the delegate is w.w", call, "bytes go to the wrapped writer")
			var upd *ssa.Store
			core.EachInstr(wr, func(in ssa.Instruction) {
				if st, ok := in.(*ssa.Store); ok {
					if fa, ok := st.Addr.(*ssa.FieldAddr); ok && fa.X == ssa.Value(w) && core.FieldName(fa) == "offset" {
						upd = st
					}
				}
			})
			c.check(upd != nil && core.Dominates(call, upd), "C15.writer.offset-update", wr, "offset is advanced after forwarding", upd, "each forwarded chunk is accounted")
			isUpd := func(in ssa.Instruction) bool {
				st, ok := in.(*ssa.Store)
				if !ok {
					return false
				}
				fa, ok := st.Addr.(*ssa.FieldAddr)
				return ok && fa.X == ssa.Value(w) && core.FieldName(fa) == "offset"
			}
			for _, ret := range core.Returns(wr) {
				if !core.Dominates(call, ret) {
					continue
				}
				mn, mx, okP := core.CountOnPaths(wr, call, ret, isUpd)
				c.check(okP && mn == 1 && mx == 1, "C15.writer.offset-update", wr, "exactly one accounting store on every path from w.Write to a return", ret,
					sprintf("min %d max %d: also when w.Write fails the forwarded chunk (and only it) is charged", mn, mx))
			}
			lincon.Reset()
			a := lincon.New(c.P.SSA, core.InModule)
			a.PreserveFields = func(ssa.CallInstruction) bool { return true }
			var subInstr *ssa.BinOp
			core.EachInstr(wr, func(in ssa.Instruction) {
				if bo, ok := in.(*ssa.BinOp); ok && bo.Op == token.SUB {
					if n1, b1, ok1 := core.IsLoadOfField(bo.X); ok1 && n1 == "limit" && b1 == w {
						if n2, b2, ok2 := core.IsLoadOfField(bo.Y); ok2 && n2 == "offset" && b2 == w {
							subInstr = bo
						}
					}
				}
			})
			a.Hook = func(h *lincon.Handle) {
				switch in := h.Instr.(type) {
				case *ssa.BinOp:
					if in == subInstr {
						x, ok1 := h.Int(in.X)
						y, ok2 := h.Int(in.Y)
						h.Assert("writer.no-wrap", "no unsigned wrap in w.limit - w.offset", ok1 && ok2 && h.ProvesLE(y.Sub(x)))
					}
				case *ssa.Call:
					if in == call {
						h.SetIntCell(w, "#forwarded", 1) // ghost: this path went through w.Write
						ln, ok := h.Len(in.Call.Args[0])
						lim := h.Field(w, limIdx, "limit", true)
						off := h.Field(w, offIdx, "offset", true)
						h.Assert("writer.forward-bound", "len(b') <= w.limit - w.offset at w.Write(b')", ok && h.ProvesLE(ln.Add(off).Sub(lim)))
						lb, okB := h.Len(b)
						h.Assert("writer.forward-exact", "len(b') == min(len(b), w.limit - w.offset): not fewer bytes than the budget allows", ok && okB &&
							(h.ProvesEQ(ln.Sub(lb)) || h.ProvesEQ(ln.Add(off).Sub(lim))))
					}
				case *ssa.Store:
					if fa, isFA := in.Addr.(*ssa.FieldAddr); isFA && fa.X == ssa.Value(w) && core.FieldName(fa) == "offset" {
						nv, ok := h.Int(in.Val)
						lim := h.Field(w, limIdx, "limit", true)
						off := h.Field(w, offIdx, "offset", true)
						h.Assert("writer.offset-update", "invariant preserved: new offset <= limit", ok && h.ProvesLE(nv.Sub(lim)))
						ln, okL := h.Len(call.Call.Args[0])
						h.Assert("writer.offset-update", "new offset == old offset + bytes forwarded", ok && okL && h.ProvesEQ(nv.Sub(off).Sub(ln)))
					}
				case *ssa.Return:
					r0, ok := h.Int(in.Results[0])
					lb, okB := h.Len(b)
					h.Assert("writer.reports-len", "first result == len(b)", ok && okB && h.ProvesEQ(r0.Sub(lb)))
					if g, okG := h.IntCell(w, "#forwarded"); !okG || !h.ProvesEQ(g.AddK(-1)) {
						// not known to have gone through w.Write
						lim := h.Field(w, limIdx, "limit", true)
						off := h.Field(w, offIdx, "offset", true)
						h.Assert("writer.forward-exact", "a return that skips w.Write happens only when no budget is left (limit == offset)", h.ProvesEQ(lim.Sub(off)))
					}
				}
			}
			a.Entry(wr, func(h *lincon.Handle) {
				h.SetIntCell(w, "#forwarded", 0)
				// struct invariant assumed at entry, re-proved at the store
				lim := h.Field(w, limIdx, "limit", true)
				off := h.Field(w, offIdx, "offset", true)
				h.AssumeLE(off.Sub(lim))
			})
			recordObligations(c, a, "C15", func(o *lincon.Oblig) bool { return true })
		}
	}

	// ---------------- who may write the fields ----------------
	for _, spec := range []struct{ typ, ctor string }{{"limitedReader", "LimitReader"}, {"TruncatedWriter", "NewTruncatedWriter"}} {
		for _, f := range c.P.Funcs("ioutil") {
			core.EachInstr(f, func(in ssa.Instruction) {
				st, ok := in.(*ssa.Store)
				if !ok {
					return
				}
				fa, ok := st.Addr.(*ssa.FieldAddr)
				if !ok || core.NamedOf(fa.X.Type()) != spec.typ {
					return
				}
				name := core.FieldName(fa)
				_, fresh := fa.X.(*ssa.Alloc)
				switch {
				case fresh && f.Name() == spec.ctor:
					okInit := true
					if spec.typ == "limitedReader" && (name == "n" || name == "limit") {
						okInit = st.Val == ssa.Value(f.Params[1])
					}
					if spec.typ == "TruncatedWriter" && name == "limit" {
						okInit = st.Val == ssa.Value(f.Params[1])
					}
					// the wrapped stream is the argument itself: reading from anything
					// else (an unwrapped inner reader, a buffered copy) bypasses the
					// accounting of r
					if (spec.typ == "limitedReader" && name == "r") || (spec.typ == "TruncatedWriter" && name == "w") {
						okInit = st.Val == ssa.Value(f.Params[0])
					}
					if spec.typ == "TruncatedWriter" && name == "offset" {
						k, isK := core.ConstInt(st.Val)
						okInit = isK && k == 0
					}
					c.check(okInit, "C15.fields.writers", f, spec.typ+"."+name+" initialised by the constructor", st, "n == limit == the requested limit; offset starts at 0 (establishes the invariant)")
				case (spec.typ == "limitedReader" && name == "n" && f == rd) || (spec.typ == "TruncatedWriter" && name == "offset" && f == wr):
					c.check(true, "C15.fields.writers", f, spec.typ+"."+name+" updated by the one accounting store", st, "checked above")
				default:
					c.check(false, "C15.fields.writers", f, "store to "+spec.typ+"."+name, st, "the budget fields may be written only by the constructor and the accounting update")
				}
			})
		}
	}
}

// isPrefixWindowOf: on every path v is base itself or base[:k] (possibly
// re-sliced from the front again): the bytes start at base[0].
func isPrefixWindowOf(v ssa.Value, base ssa.Value) bool {
	seen := map[ssa.Value]bool{}
	var walk func(v ssa.Value) bool
	walk = func(v ssa.Value) bool {
		if v == base {
			return true
		}
		if seen[v] {
			return true
		}
		seen[v] = true
		switch x := v.(type) {
		case *ssa.Phi:
			for _, e := range x.Edges {
				if !walk(e) {
					return false
				}
			}
			return true
		case *ssa.Slice:
			if x.Low != nil {
				if k, ok := core.ConstInt(x.Low); !ok || k != 0 {
					return false
				}
			}
			return walk(x.X)
		}
		return false
	}
	return walk(v)
}
