package rules

import (
	"go/constant"
	"go/token"
	"go/types"
	"sort"
	"strings"

	"golang.org/x/tools/go/ssa"

	"verif/sa/boolfn"
	"verif/sa/core"
	"verif/sa/lincon"
)

func init() {
	register(&Property{
		ID:    "C04",
		Level: "other",
		Explanation: "Decided exactly by abstract evaluation into BDDs (no execution): IPToReversedAddr equals the canonical name for all 2^32 / 2^128 addresses; ipv4FromReversed and ipv6FromReversed accept exactly the canonical address parts and decode them; IPFromReversedAddr(IPToReversedAddr(a)) == a for every address in every letter case, with and without a trailing dot. Structural conditions, decided on SSA, for the dispatcher in front of the decoders and as fall-back when a function leaves the evaluator's grammar: (R1) the text tested against the in-addr.arpa / ip6.arpa suffixes " +
			"derives from the argument only through identity, slicing, TrimSuffix(\".\") and an ASCII-only lowering helper whose body is verified (changes only bytes in 'A'..'Z', by +32); " +
			"strings.ToLower / unicode folding map non-ASCII letters (U+0130) onto suffix letters; (R2) in ipv6FromReversed every byte position 4i+{0,1,2,3}, i < 16, of the fixed-length name is " +
			"read and leads to a rejection when it is not a hex digit resp. a dot, and the function runs only when len(name) == 4*16-1+len(suffix); (R3) the IPv4 part is parsed by netip.ParseAddr, " +
			"rejected unless Is4(), and reversed by the permutation k -> 3-k; (R4) encoder and decoder tables agree: per byte low nibble then high nibble in base 16 from the last byte to the first vs. " +
			"offset 0 = low, offset 2 = high into byte 15-i; decimal octets by strconv.Itoa vs netip's decimal parser; the same suffix constants on both sides. " +
			"The name tested against the suffixes is never cut at the front (whole-name); ValidateDomainName validates only the Punycode form of its argument (validator-discipline). Not decided: the round trip as a statement about all 2^32 + 2^128 values.",
		Technique: "exact abstract evaluation of go/ssa into ROBDDs (encoder, IPv4/IPv6 decoders and the whole round trip over every spelling, as Boolean functions of the address bits / name bytes, compared with the codec) + SSA provenance rules for the dispatcher (suffix tests, ASCII lowering); structural table/index-set rules as fall-back",
		Note:      "Trusted: go/ssa, netip.ParseAddr, strconv.Itoa/FormatUint, strings.HasSuffix/TrimSuffix.",
		DesignRef: "DESIGN.md section 4, C04",
		Run:       runC04,
	})
	register(&Property{
		ID:    "C05",
		Level: "other",
		Explanation: "Decided exactly by abstract evaluation into BDDs (no execution): subnetFromReversedV4 / subnetFromReversedV6 accept exactly k <= 4 octet labels resp. k <= 32 nibble labels in front of the suffix, for every name length, and return the prefix of the grammar; indexFirstV4Label / indexFirstV6Label return the start of the longest label-aligned run of address labels; isIPv4Label is the octet predicate; and the two entry points as a whole: for names of every length up to 22 and of 25, 28..30, 72, 73 symbolic bytes (every length up to 78 resp. 44 in the thorough tier), with ValidateDomainName as an uninterpreted predicate V of the dot-trimmed name, PrefixFromReversedAddr succeeds <=> V and the lowered name is k <= 4 octet labels + in-addr.arpa or k <= 32 hex labels + ip6.arpa, ExtractReversedAddr succeeds <=> V and some label-aligned suffix is such a name, and the prefix returned (family, length, every byte) is that of the (longest such) name. Structural and arithmetic conditions as fall-back: (R1) ASCII-only folding before the suffix tests (as C04.R1) in PrefixFromReversedAddr and " +
			"ExtractReversedAddr; (R2) label alignment: at the point where ExtractReversedAddr cuts the embedded name, every abstract state of the relational interpreter entails that the domain is exactly " +
			"the root suffix or has a '.' right before it (byte fact), and the right-to-left label scanners test the byte before each candidate label; (R3) no leading zero is accepted: at the store of an " +
			"octet every abstract state entails len(label) == 1 or label[0] != '0'; the octet parser's bit size matches the byte conversion; (R4) arithmetic skeleton: prefix length 8*l resp. 4*l with l " +
			"incremented once per consumed label, the address is a zeroed local written only at ip[l] resp. ip[l/2] (high nibble for even l), more than 3 dots / more than 71 bytes are rejected before the " +
			"partial decoders run; (R5) the name tested against the suffixes is never cut at the front (label starts are positions of the whole name), and ValidateDomainName validates only the Punycode form of its argument. Not decided: the extractor on names longer than the evaluated lengths as a whole (its scanners and decoders are decided separately there); what ValidateDomainName accepts (C03).",
		Technique: "exact abstract evaluation of go/ssa into ROBDDs (both prefix decoders for every name length, both index scanners, the octet predicate, and both entry points whole with the domain validator uninterpreted, compared with the grammar as Boolean functions of the name bytes); abstract interpretation with byte facts (asserted obligations), SSA provenance and skeleton rules as fall-back",
		Note:      "Trusted: go/ssa, /verif/sa/lincon, strconv.ParseUint, strings.LastIndexByte/Count.",
		DesignRef: "DESIGN.md section 4, C05",
		Run:       runC05,
	})
}

// arpaSuffixConst: v is (a slice of) one of the ARPA suffix constants.
func arpaSuffixConst(v ssa.Value) (string, bool) {
	if sl, ok := v.(*ssa.Slice); ok {
		v = sl.X
	}
	s, ok := core.ConstString(v)
	if !ok {
		return "", false
	}
	if s == ".in-addr.arpa" || s == ".ip6.arpa" {
		return s, true
	}
	return "", false
}

// asciiFoldRule checks C04.R1 / C05.R1 for one decoder.
func asciiFoldRule(c *Ctx, prop string, f *ssa.Function) {
	in := f.Params[0]
	n := 0
	for _, ci := range core.CallsTo(f, "strings.HasSuffix") {
		call := ci.(*ssa.Call)
		if _, ok := arpaSuffixConst(call.Call.Args[1]); !ok {
			continue
		}
		n++
		why, ok := foldProvenance(c, call.Call.Args[0], in, map[ssa.Value]bool{})
		c.check(ok, prop+".ascii-fold", f, "text compared with the ARPA suffix is the input folded ASCII-only", call,
			"whatever is accepted must equal the canonical name ASCII-case-insensitively: "+why)
	}
	if n == 0 {
		c.undecided(prop+".ascii-fold", f, "HasSuffix(_, arpa suffix)", nil, "no suffix test against the ARPA constants found")
	}
}

// wholeNameRule: the text that is tested against the ARPA suffixes — and
// from there scanned for labels and decoded — is the caller's name as a
// whole: it derives from the parameter without a cut at the front.  The
// scanners and decoders take index 0 of what they are given for the start of
// a label; a name shortened from the left ("only the last 72 bytes can
// matter") starts in the middle of one.  Cuts at the end (the trailing dot)
// do not move label starts.  This is what the bounded exact rules cannot see
// when the cut only happens beyond the lengths they evaluate.
func wholeNameRule(c *Ctx, prop string, f *ssa.Function) {
	rule := prop + ".whole-name"
	in := ssa.Value(f.Params[0])
	n := 0
	for _, ci := range core.CallsTo(f, "strings.HasSuffix") {
		call := ci.(*ssa.Call)
		if _, ok := arpaSuffixConst(call.Call.Args[1]); !ok {
			continue
		}
		n++
		why := frontCut(call.Call.Args[0], in, map[ssa.Value]bool{})
		c.check(why == "", rule, f, "the name tested against the ARPA suffix is not cut at the front", call, "label starts are positions of the whole name: "+why)
	}
	for _, name := range []string{"strings.CutSuffix", "strings.TrimSuffix"} {
		for _, ci := range core.CallsTo(f, name) {
			call := ci.(*ssa.Call)
			if _, ok := arpaSuffixConst(call.Call.Args[1]); !ok {
				continue
			}
			n++
			why := frontCut(call.Call.Args[0], in, map[ssa.Value]bool{})
			c.check(why == "", rule, f, "the name tested against the ARPA suffix is not cut at the front", call, "label starts are positions of the whole name: "+why)
		}
	}
	if n == 0 {
		c.L.Notef("%s: no suffix test against the ARPA constants found in %s; the rule has nothing to look at", rule, f.Name())
	}
}

func frontCut(v, in ssa.Value, seen map[ssa.Value]bool) string {
	if v == in || seen[v] {
		return ""
	}
	seen[v] = true
	switch x := v.(type) {
	case *ssa.Phi:
		for _, e := range x.Edges {
			if why := frontCut(e, in, seen); why != "" {
				return why
			}
		}
	case *ssa.Slice:
		if x.Low != nil {
			if k, ok := core.ConstInt(x.Low); !ok || k != 0 {
				return "the name is re-sliced from " + core.Describe(x.Low) + " on"
			}
		}
		return frontCut(x.X, in, seen)
	case *ssa.Extract:
		return frontCut(x.Tuple, in, seen)
	case *ssa.Call:
		n := core.CalleeName(&x.Call)
		switch n {
		case "strings.TrimPrefix", "strings.TrimLeft", "strings.CutPrefix", "strings.TrimSpace", "strings.Trim", "strings.TrimLeftFunc", "strings.TrimFunc":
			return n + " removes bytes at the front of the name"
		}
		if len(x.Call.Args) >= 1 {
			if _, isStr := x.Call.Args[0].Type().Underlying().(*types.Basic); isStr {
				return frontCut(x.Call.Args[0], in, seen)
			}
		}
	}
	return ""
}

func foldProvenance(c *Ctx, v, in ssa.Value, seen map[ssa.Value]bool) (string, bool) {
	if v == in {
		return "", true
	}
	if seen[v] {
		return "", true
	}
	seen[v] = true
	switch x := v.(type) {
	case *ssa.Phi:
		for _, e := range x.Edges {
			if why, ok := foldProvenance(c, e, in, seen); !ok {
				return why, false
			}
		}
		return "", true
	case *ssa.Slice:
		return foldProvenance(c, x.X, in, seen)
	case *ssa.Call:
		n := core.CalleeName(&x.Call)
		switch {
		case n == "strings.TrimSuffix":
			if s, ok := core.ConstString(x.Call.Args[1]); ok && s == "." {
				return foldProvenance(c, x.Call.Args[0], in, seen)
			}
			return "TrimSuffix of something other than \".\"", false
		case n == "strings.ToLower" || n == "strings.ToUpper" || n == "strings.ToLowerSpecial" || n == "strings.Map" || n == "strings.ToTitle" || strings.HasPrefix(n, "unicode.") || strings.HasPrefix(n, "golang.org/x/text"):
			return n + " folds non-ASCII letters too (U+0130 'İ' becomes 'i', U+212A becomes 'k'), so names that are not ASCII-equal to the canonical name are accepted", false
		}
		if cal := x.Call.StaticCallee(); cal != nil && core.InModule(cal) && len(cal.Params) == 1 && len(x.Call.Args) == 1 {
			if why, ok := asciiLowerHelper(cal); !ok {
				return "helper " + cal.Name() + " is not a verified ASCII-only lowering: " + why, false
			}
			c.L.Saw(core.FuncName(cal))
			return foldProvenance(c, x.Call.Args[0], in, seen)
		}
		return "call of " + n, false
	}
	return "unrecognised transformation " + core.Describe(v), false
}

// asciiLowerHelper verifies: b := []byte(s); every store b[i] = b[i] + 32 is
// guarded by 'A' <= b[i] <= 'Z'; return string(b).
func asciiLowerHelper(f *ssa.Function) (string, bool) {
	var buf *ssa.Convert
	core.EachInstr(f, func(in ssa.Instruction) {
		if cv, ok := in.(*ssa.Convert); ok && cv.X == ssa.Value(f.Params[0]) && isByteSlice(cv.Type()) {
			buf = cv
		}
	})
	if buf == nil {
		return "no []byte(s) copy", false
	}
	for _, ret := range core.Returns(f) {
		cv, ok := ret.Results[0].(*ssa.Convert)
		if !(ok && cv.X == ssa.Value(buf)) && ret.Results[0] != ssa.Value(f.Params[0]) {
			return "result is not string(b) or s", false
		}
	}
	stores := 0
	okAll := true
	why := ""
	core.EachInstr(f, func(in ssa.Instruction) {
		st, ok := in.(*ssa.Store)
		if !ok {
			return
		}
		ia, ok := st.Addr.(*ssa.IndexAddr)
		if !ok || ia.X != ssa.Value(buf) {
			okAll, why = false, "store outside the copy"
			return
		}
		stores++
		// exact, per byte: with c the byte read at the same position, the value
		// stored under the store's guard G(c) is lower(c), and a byte that is
		// not stored to (not G(c)) is not an upper-case ASCII letter — decided
		// as Boolean functions of the eight bits of c
		var old *ssa.UnOp
		var find func(v ssa.Value, depth int)
		find = func(v ssa.Value, depth int) {
			if depth > 8 || old != nil {
				return
			}
			switch x := v.(type) {
			case *ssa.UnOp:
				if oa, isIA := x.X.(*ssa.IndexAddr); isIA && x.Op == token.MUL && oa.X == ssa.Value(buf) && oa.Index == ia.Index {
					old = x
					return
				}
				find(x.X, depth+1)
			case *ssa.BinOp:
				find(x.X, depth+1)
				find(x.Y, depth+1)
			case *ssa.Convert:
				find(x.X, depth+1)
			}
		}
		find(st.Val, 0)
		if old == nil {
			okAll, why = false, "the stored value is not computed from the byte at the same position"
			return
		}
		m := boolfn.New()
		ev := &boolfn.Eval{M: m}
		cv := ev.IntInput(0, 8, false)
		env := map[ssa.Value]boolfn.Val{old: cv}
		val, err := ev.Expr(st.Val, env)
		if err != nil || val.Kind != boolfn.KBits || len(val.Bits) != 8 {
			okAll, why = false, sprintf("the stored value is outside the expression grammar: %v", err)
			return
		}
		guard := 1
		for _, g := range core.Facts(f).At(st.Block()) {
			gv, err := ev.Expr(g.Cond, env)
			if err != nil || gv.Kind != boolfn.KBits || len(gv.Bits) != 1 {
				continue // a condition that does not speak about c (the loop test)
			}
			if g.Truth {
				guard = m.And(guard, gv.Bits[0])
			} else {
				guard = m.And(guard, m.Not(gv.Bits[0]))
			}
		}
		// upper(c): 'A' <= c <= 'Z'
		upper := 0
		for ch := int64('A'); ch <= 'Z'; ch++ {
			eq := 1
			for b := 0; b < 8; b++ {
				bit := cv.Bits[b]
				if (ch>>uint(b))&1 == 0 {
					bit = m.Not(bit)
				}
				eq = m.And(eq, bit)
			}
			upper = m.Or(upper, eq)
		}
		// lower(c) bit by bit: c with bit 5 set when upper(c)
		bad := 0
		for b := 0; b < 8; b++ {
			want := cv.Bits[b]
			if b == 5 {
				want = m.Or(cv.Bits[b], upper)
			}
			bad = m.Or(bad, m.And(guard, m.Xor(val.Bits[b], want)))
		}
		bad = m.Or(bad, m.And(m.Not(guard), upper))
		if bad != 0 {
			w := m.Witness(bad)
			var ch int64
			for i := 0; i < 8; i++ {
				if w[i] {
					ch |= 1 << uint(7-i)
				}
			}
			okAll, why = false, sprintf("the per-byte transformation differs from ASCII lowering at byte 0x%02x (%q)", ch, rune(ch))
		}
	})
	if stores == 0 {
		return "no byte is lowered", false
	}
	return why, okAll
}

// ivOf finds, for a loop head, the SSA value that equals the 0-based trip
// number and the trip count N of a `for iv < N` loop.
func ivOf(head *ssa.BasicBlock) (ssa.Value, *ssa.Phi, int64, bool) {
	iff, ok := head.Instrs[len(head.Instrs)-1].(*ssa.If)
	if !ok {
		return nil, nil, 0, false
	}
	b, ok := iff.Cond.(*ssa.BinOp)
	if !ok || b.Op != token.LSS {
		return nil, nil, 0, false
	}
	n, isK := core.ConstInt(b.Y)
	if !isK {
		return nil, nil, 0, false
	}
	for _, in := range head.Instrs {
		phi, ok := in.(*ssa.Phi)
		if !ok {
			break
		}
		k, ok := stepOf(phi)
		if !ok || k != 1 {
			continue
		}
		var start int64 = 1 << 40
		for i, e := range phi.Edges {
			if !head.Dominates(head.Preds[i]) {
				if s, isK := core.ConstInt(e); isK {
					start = s
				}
			}
		}
		if start == 0 && b.X == ssa.Value(phi) {
			return phi, phi, n, true
		}
		if start == -1 {
			if add, ok := b.X.(*ssa.BinOp); ok && add.Op == token.ADD && add.X == ssa.Value(phi) {
				if one, isK := core.ConstInt(add.Y); isK && one == 1 {
					return add, phi, n, true
				}
			}
		}
	}
	return nil, nil, 0, false
}

// affine: v == a*iv + k.
func affine(v, iv ssa.Value, depth int) (int64, int64, bool) {
	if v == iv {
		return 1, 0, true
	}
	if k, ok := core.ConstInt(v); ok {
		return 0, k, true
	}
	if depth > 6 {
		return 0, 0, false
	}
	switch x := v.(type) {
	case *ssa.Convert:
		return affine(x.X, iv, depth+1)
	case *ssa.BinOp:
		a1, k1, ok1 := affine(x.X, iv, depth+1)
		a2, k2, ok2 := affine(x.Y, iv, depth+1)
		if !ok1 || !ok2 {
			return 0, 0, false
		}
		switch x.Op {
		case token.ADD:
			return a1 + a2, k1 + k2, true
		case token.SUB:
			return a1 - a2, k1 - k2, true
		case token.MUL:
			if a1 == 0 {
				return k1 * a2, k1 * k2, true
			}
			if a2 == 0 {
				return a1 * k2, k1 * k2, true
			}
		}
	}
	return 0, 0, false
}

// leadsToReject: the byte value v (possibly through fromHexByte) is tested and
// one outcome of the test returns a non-nil error.
func leadsToReject(v ssa.Value) bool {
	for _, r := range core.Refs(v) {
		switch x := r.(type) {
		case *ssa.BinOp:
			for _, rr := range core.Refs(x) {
				if iff, ok := rr.(*ssa.If); ok {
					for _, s := range iff.Block().Succs {
						if blockRejects(s) {
							return true
						}
					}
				}
			}
		case *ssa.Call:
			if cal := x.Call.StaticCallee(); cal != nil && cal.Name() == "fromHexByte" {
				if leadsToReject(x) {
					return true
				}
			}
		case *ssa.Convert:
			if leadsToReject(x) {
				return true
			}
		}
	}
	return false
}

func blockRejects(b *ssa.BasicBlock) bool {
	ret, ok := b.Instrs[len(b.Instrs)-1].(*ssa.Return)
	if !ok || len(ret.Results) == 0 {
		return false
	}
	last := ret.Results[len(ret.Results)-1]
	_, isMI := last.(*ssa.MakeInterface)
	return isMI
}

func intConst(c *Ctx, pkg, name string) (int64, bool) {
	tp := c.P.TPkg(pkg)
	if tp == nil {
		return 0, false
	}
	k, ok := tp.Types.Scope().Lookup(name).(*types.Const)
	if !ok {
		return 0, false
	}
	return constant.Int64Val(k.Val())
}

func runC04(c *Ctx) {
	c.L.Trust("go/types + go/ssa", "netip.ParseAddr accepts exactly dotted-decimal IPv4 without leading zeros (and IPv6)", "strconv.Itoa / FormatUint")
	validatorDiscipline(c, "C04")
	c.L.Floor("C04.ascii-fold", 1)
	c.L.Floor("C04.v6.every-byte-checked", 3)
	c.L.Floor("C04.v4.parse", 2)
	c.L.Floor("C04.codec-tables", 4)

	dec := c.fn("netutil", "IPFromReversedAddr")
	if dec != nil {
		c.L.Floor("C04.whole-name", 1)
		wholeNameRule(c, "C04", dec)
	}
	if c04AcceptedExact(c) {
		// the accepted language of the whole decoder is decided exactly
		// (c04enc.go): the dispatcher rules are the fall-back
		c.L.Floor("C04.ascii-fold", 0)
	} else if dec != nil {
		asciiFoldRule(c, "C04", dec)
		c04Dispatch(c, dec)
	}
	// ---- R2 ----
	arpaV6FullScan(c, "C04", 63)
	c.L.Floor("C04.hex-table", 1)
	c04HexTable(c, "C04")
	// ---- R3 ----
	v4dec := c04V4DecodeExact(c)
	if v4dec {
		// decided exactly (c05exact.go): the structural rules are the fall-back
		c.L.Floor("C04.v4.parse", 0)
	}
	if f := c.fn("netutil", "ipv4FromReversed"); f != nil && !v4dec {
		var pa *ssa.Call
		for _, ci := range core.CallsTo(f, "net/netip.ParseAddr") {
			pa = ci.(*ssa.Call)
		}
		okIs4 := false
		for _, ret := range core.Returns(f) {
			if !core.IsNilConst(ret.Results[1]) {
				continue
			}
			for _, g := range core.GuardsOf(ret) {
				cond, truth := core.StripNot(g.Cond, g.Truth)
				if call, ok := cond.(*ssa.Call); ok && core.CalleeName(&call.Call) == "(net/netip.Addr).Is4" && truth {
					// of the parsed address itself: Unmap() first would let "::ffff:4.3.2.1" through
					if ex, isEx := call.Call.Args[0].(*ssa.Extract); isEx && pa != nil && ex.Tuple == ssa.Value(pa) && ex.Index == 0 {
						okIs4 = true
					}
				}
			}
		}
		c.check(pa != nil && pa.Call.Args[0] == ssa.Value(f.Params[0]) && okIs4, "C04.v4.parse", f, "IPv4 part parsed by netip.ParseAddr and accepted only if that result Is4()", pa,
			"an IPv6 literal in front of in-addr.arpa must be rejected")
		c.L.Floor("C04.v4.exits", 2)
		c04V4Exits(c, f, pa)
	}
	if f := c.fn("netutil", "reverseIPv4"); f != nil && !v4dec {
		// exact: the four output bytes as Boolean functions of the 32 input bits
		m := boolfn.New()
		ev := &boolfn.Eval{M: m, Entered: map[string]bool{}}
		ev.InScope = func(fn *ssa.Function) bool { return core.InModule(fn) }
		in := ev.ArrayInput(0, 4)
		rs, err := ev.Call(f, []boolfn.Val{in})
		okP, perm := false, "not evaluated"
		if err != nil {
			perm = "outside the evaluator's grammar: " + err.Error()
		} else if len(rs) == 1 && rs[0].Kind == boolfn.KArray && len(rs[0].Elems) == 4 {
			okP, perm = true, "out[k] == in[3-k] for k = 0..3, bit for bit"
			for k := 0; k < 4; k++ {
				for b := 0; b < 8; b++ {
					if rs[0].Elems[k][b] != in.Elems[3-k][b] {
						okP = false
						perm = sprintf("out[%d] bit %d is not in[%d] bit %d", k, b, 3-k, b)
					}
				}
			}
		} else {
			perm = "result is not a 4-byte array"
		}
		c.check(okP, "C04.v4.parse", f, "reverseIPv4 is the permutation k -> 3-k", nil, perm)
	}
	// ---- the round trip and the accepted language, end to end ----
	c04RoundTripExact(c)
	// ---- R4 encoder ----
	c.L.Floor("C04.no-retained-argument", 1)
	c04NoRetainedArgument(c, c.fn("netutil", "IPToReversedAddr"))
	if f := c.fn("netutil", "IPToReversedAddr"); f != nil && c04EncoderExact(c, f) {
		// decided exactly (c04enc.go); the structural rules below are the
		// fall-back for an encoder outside the evaluator's grammar
		c.L.Floor("C04.codec-tables", 0)
	} else if f != nil {
		var v4, v6 *ssa.Function
		for _, af := range f.AnonFuncs {
			if len(core.CallsTo(af, "strconv.Itoa")) > 0 {
				v4 = af
			}
			if len(core.CallsTo(af, "strconv.FormatUint")) > 0 {
				v6 = af
			}
		}
		okV4 := false
		if v4 != nil {
			for _, ci := range core.CallsTo(v4, "strconv.Itoa") {
				v := ci.Common().Args[0]
				if cv, ok := v.(*ssa.Convert); ok {
					v = cv.X
				}
				okV4 = v == ssa.Value(v4.Params[0])
			}
		}
		c.check(okV4, "C04.codec-tables", f, "encoder: IPv4 octets written with strconv.Itoa(int(octet))", nil,
			"decimal without leading zeros for every octet value 0..255, which is what the decoder (netip.ParseAddr) reads")
		okV6 := false
		if v6 != nil {
			var order []string
			core.EachInstr(v6, func(in ssa.Instruction) {
				call, ok := in.(*ssa.Call)
				if !ok || core.CalleeName(&call.Call) != "strconv.FormatUint" {
					return
				}
				base, _ := core.ConstInt(call.Call.Args[1])
				v := call.Call.Args[0]
				if cv, ok := v.(*ssa.Convert); ok {
					v = cv.X
				}
				kind := "?"
				if b, ok := v.(*ssa.BinOp); ok && b.X == ssa.Value(v6.Params[0]) {
					k, _ := core.ConstInt(b.Y)
					if b.Op == token.AND && k == 0x0f {
						kind = "low"
					}
					if b.Op == token.SHR && k == 4 {
						kind = "high"
					}
				}
				if base != 16 {
					kind = "?"
				}
				order = append(order, kind)
			})
			// order of emission: positions in the varargs array
			okV6 = len(order) == 2 && order[0] == "low" && order[1] == "high" && emittedInOrder(v6)
		}
		c.check(okV6, "C04.codec-tables", f, "encoder: per byte hex(low nibble) '.' hex(high nibble) '.'", nil, "agrees with the decoder's offsets 0 (low) and 2 (high)")
		// iteration from the last byte to the first
		okLoop := false
		for h := range core.LoopHeads(f) {
			for _, in := range h.Instrs {
				if phi, ok := in.(*ssa.Phi); ok {
					if k, ok := stepOf(phi); ok && k == -1 {
						okLoop = true
					}
				}
			}
		}
		c.check(okLoop, "C04.codec-tables", f, "encoder walks the address bytes from the last to the first", nil, "the decoder stores group i into byte 15-i (resp. reverses the four octets)")
		// what is walked is the family-normalised form: To4() for IPv4 (also
		// for the 16-byte ::ffff:a.b.c.d form), To16() otherwise
		nidx := 0
		core.EachInstr(f, func(in ssa.Instruction) {
			ia, ok := in.(*ssa.IndexAddr)
			if !ok || !core.InLoop(ia) {
				return
			}
			if _, isSlice := ia.X.Type().Underlying().(*types.Slice); !isSlice {
				return
			}
			nidx++
			okSrc := false
			var edges []ssa.Value
			if phi, isPhi := ia.X.(*ssa.Phi); isPhi {
				edges = phi.Edges
			} else {
				edges = []ssa.Value{ia.X}
			}
			okSrc = len(edges) > 0
			fams := map[string]bool{}
			for _, e := range edges {
				call, isC := e.(*ssa.Call)
				if !isC || len(call.Call.Args) != 1 || call.Call.Args[0] != ssa.Value(f.Params[0]) {
					okSrc = false
					continue
				}
				switch core.CalleeName(&call.Call) {
				case "(net.IP).To4":
					fams["4"] = true
				case "(net.IP).To16":
					fams["16"] = true
				default:
					okSrc = false
				}
			}
			c.check(okSrc && fams["4"] && fams["16"], "C04.codec-tables", f, "encoder reads the bytes of ip.To4() / ip.To16(), not of the raw argument", ia,
				"a 16-byte IPv4-mapped net.IP (what net.ParseIP returns) must be encoded from its last four bytes")
		})
		if nidx == 0 {
			c.undecided("C04.codec-tables", f, "byte reads of the encoder loop", nil, "no indexed read of a byte slice inside the loop")
		}
		// suffix constants shared
		nsuf := 0
		core.EachInstr(f, func(in ssa.Instruction) {
			if sl, ok := in.(*ssa.Slice); ok {
				if _, ok := arpaSuffixConst(sl); ok {
					nsuf++
				}
			}
		})
		c.check(nsuf == 2, "C04.codec-tables", f, "encoder appends the same suffix constants the decoder tests", nil, sprintf("%d uses of arpaV4Suffix/arpaV6Suffix", nsuf))
	}
}

// arpaV6FullScan: the fixed-position decoder of a full 32-nibble name reads
// every one of the first npos bytes and can reject on each (C04: 63 — the
// dispatcher's suffix test covers the dot at 63; C05: 64 — its dispatcher
// tests the suffix without the dot and relies on position 63 being checked
// here).
func arpaV6FullScan(c *Ctx, prop string, npos int64) {
	// exact decision first (c04exact.go); the position-set and table rules
	// below are the fall-back for a decoder outside the evaluator's grammar
	exact := c04DecoderExact(c, prop, int(npos))
	if f := c.fn("netutil", "ipv6FromReversed"); f != nil {
		arpa := f.Params[0]
		n := int64(16)
		if exact {
			c.L.Floor(prop+".v6.every-byte-checked", 1)
			arpaV6Callers(c, prop, f, n)
			return
		}
		// enumerate, for every counted loop, the positions of the name that
		// are read and can lead to a rejection
		covered := map[int64]string{}
		var mainIV ssa.Value
		undec := ""
		for head := range core.LoopHeads(f) {
			phi, vals, ok := countedLoop(head)
			if !ok {
				undec = "a loop of the scan is not a counted loop with constant bounds"
				continue
			}
			body := core.LoopBody(head)
			core.EachInstr(f, func(in ssa.Instruction) {
				lk, lx, li, ok := strIndex(in)
				if !ok || lx != ssa.Value(arpa) || !body[in.Block()] {
					return
				}
				a, k, ok := affine(li, phi, 0)
				if !ok {
					undec = "a read of the name is not at an affine position of the loop counter"
					return
				}
				kind := rejectKind(lk)
				if kind == "" {
					return
				}
				for _, v := range vals {
					covered[a*v+k] = kind
				}
			})
			if iv, _, cnt, ok := ivOf(head); ok && cnt == 16 {
				mainIV = iv
			}
		}
		iv := mainIV
		ok := undec == "" && iv != nil
		if !ok {
			if undec == "" {
				undec = "no 16-iteration loop over the address bytes"
			}
			c.undecided(prop+".v6.every-byte-checked", f, "the 16-group scan", nil, undec+": positions cannot be enumerated")
		} else {
			var missing []int64
			for p := int64(0); p < npos; p++ {
				want := "hex"
				if p%2 == 1 {
					want = "dot"
				}
				if covered[p] != want {
					missing = append(missing, p)
				}
			}
			show := missing
			if len(show) > 16 {
				show = show[:16]
			}
			c.check(len(missing) == 0, prop+".v6.every-byte-checked", f, sprintf("every position 0..%d of the name is read and can reject (even: hex digit, odd: '.')", npos-1), nil,
				sprintf("%d of %d positions covered; unchecked positions: %v — a name with any other byte there is decoded as if it were canonical", npos-int64(len(missing)), npos, show))
			arpaV6Callers(c, prop, f, n)
			// R4 decoder side: ip[15-i] = hi<<4 | lo with lo from offset 0, hi from offset 2
			okDec := false
			core.EachInstr(f, func(in ssa.Instruction) {
				st, ok := in.(*ssa.Store)
				if !ok {
					return
				}
				ia, ok := st.Addr.(*ssa.IndexAddr)
				if !ok {
					return
				}
				a, k, ok := affine(ia.Index, iv, 0)
				if !ok || a != -1 || k != 15 {
					return
				}
				or, ok := st.Val.(*ssa.BinOp)
				if !ok || or.Op != token.OR {
					return
				}
				hi, lo := or.X, or.Y
				shl, ok := hi.(*ssa.BinOp)
				if !ok || shl.Op != token.SHL {
					hi, lo = or.Y, or.X
					shl, ok = hi.(*ssa.BinOp)
				}
				if !ok || shl.Op != token.SHL {
					return
				}
				if k4, isK := core.ConstInt(shl.Y); !isK || k4 != 4 {
					return
				}
				if nibbleOffset(shl.X, arpa, iv) == 2 && nibbleOffset(lo, arpa, iv) == 0 {
					okDec = true
				}
			})
			c.check(okDec, prop+".codec-tables", f, "decoder: byte[15-i] = hex(name[4i+2])<<4 | hex(name[4i+0])", nil, "offset 0 is the low nibble, offset 2 the high nibble, groups run from the last byte to the first")
		}
	}
}

// constStrOf resolves a constant string or a constant window of one.
func constStrOf(v ssa.Value) (string, bool) {
	if s, ok := core.ConstString(v); ok {
		return s, true
	}
	sl, ok := v.(*ssa.Slice)
	if !ok {
		return "", false
	}
	s, ok := constStrOf(sl.X)
	if !ok {
		return "", false
	}
	lo, hi := int64(0), int64(len(s))
	if sl.Low != nil {
		if lo, ok = core.ConstInt(sl.Low); !ok {
			return "", false
		}
	}
	if sl.High != nil {
		if hi, ok = core.ConstInt(sl.High); !ok {
			return "", false
		}
	}
	if lo < 0 || hi > int64(len(s)) || lo > hi {
		return "", false
	}
	return s[lo:hi], true
}

// suffixGuard finds the strings.HasSuffix(x, T) test that must hold at in.
func suffixGuard(in ssa.Instruction) (x ssa.Value, t string, at ssa.Instruction, ok bool) {
	for _, g := range core.GuardsOf(in) {
		cond, truth := core.StripNot(g.Cond, g.Truth)
		if ex, isEx := cond.(*ssa.Extract); isEx && truth && ex.Index == 1 {
			// before, ok := strings.CutSuffix(x, "const"): ok is HasSuffix
			if cs, isC := ex.Tuple.(*ssa.Call); isC && core.CalleeName(&cs.Call) == "strings.CutSuffix" {
				if s, isK := constStrOf(cs.Call.Args[1]); isK {
					return cs.Call.Args[0], s, cs, true
				}
			}
		}
		call, isCall := cond.(*ssa.Call)
		if !isCall || !truth || core.CalleeName(&call.Call) != "strings.HasSuffix" {
			continue
		}
		if s, isK := constStrOf(call.Call.Args[1]); isK {
			return call.Call.Args[0], s, call, true
		}
	}
	return nil, "", nil, false
}

// suffixCut: arg is x with its last K bytes removed — x[:len(x)-K],
// strings.TrimSuffix(x, "K bytes") (under a HasSuffix guard the trim always
// happens; the texts are compared by the caller through K and the guard), or
// the first result of the strings.CutSuffix call that is the guard.  K < 0
// when arg has none of these forms.
func suffixCut(arg, x ssa.Value, guard ssa.Instruction) int64 {
	switch a := arg.(type) {
	case *ssa.Slice:
		if a.X == x && a.Low == nil && a.High != nil {
			if b, ok := a.High.(*ssa.BinOp); ok && b.Op == token.SUB {
				if lc, ok := b.X.(*ssa.Call); ok && core.CalleeName(&lc.Call) == "builtin.len" && lc.Call.Args[0] == x {
					if k, ok := core.ConstInt(b.Y); ok {
						return k
					}
				}
			}
		}
	case *ssa.Call:
		if core.CalleeName(&a.Call) == "strings.TrimSuffix" && a.Call.Args[0] == x {
			if gc, ok := guard.(*ssa.Call); ok && len(gc.Call.Args) == 2 {
				// trimmed text must be the tested text, otherwise nothing (or
				// something else) is cut
				if s, isK := constStrOf(a.Call.Args[1]); isK {
					if t, isT := constStrOf(gc.Call.Args[1]); isT && s == t {
						return int64(len(s))
					}
					return -2
				}
			}
		}
	case *ssa.Extract:
		if a.Index == 0 && ssa.Value(a.Tuple) != nil {
			if gc, ok := guard.(*ssa.Call); ok && a.Tuple == ssa.Value(gc) && core.CalleeName(&gc.Call) == "strings.CutSuffix" {
				if s, isK := constStrOf(gc.Call.Args[1]); isK {
					return int64(len(s))
				}
			}
		}
	}
	return -1
}

// c04Dispatch: the suffix the decoder tests is the suffix the encoder appends,
// and exactly the tested bytes are cut off before the address part is parsed.
func c04Dispatch(c *Ctx, dec *ssa.Function) {
	c.L.Floor("C04.dispatch", 2)
	for _, sp := range []struct{ callee, suffix string }{{"ipv4FromReversed", ".in-addr.arpa"}, {"ipv6FromReversed", ".ip6.arpa"}} {
		n := 0
		for _, ci := range core.AllCalls(dec) {
			f := ci.Common().StaticCallee()
			if f == nil || f.Name() != sp.callee {
				continue
			}
			n++
			what := sprintf("%s(...) only under HasSuffix(name, %q), with exactly those bytes cut", sp.callee, sp.suffix)
			x, t, guard, ok := suffixGuard(ci)
			if !ok {
				c.undecided("C04.dispatch", dec, what, ci, "no strings.HasSuffix test with a constant suffix dominates the call")
				continue
			}
			if t != sp.suffix {
				c.check(false, "C04.dispatch", dec, what, ci, sprintf("the tested suffix is %q but the encoder appends %q: a name whose last label merely ends in the suffix text is decoded", t, sp.suffix))
				continue
			}
			// every length test on the way to the decoder must let all canonical
			// names through: 7..15 bytes of dotted quad plus the suffix for IPv4
			// (the IPv6 name has one fixed length, checked by C04.v6.*)
			if sp.callee == "ipv4FromReversed" {
				for _, g := range core.Facts(dec).At(ci.Block()) {
					cond, truth := core.StripNot(g.Cond, g.Truth)
					bo, isB := cond.(*ssa.BinOp)
					if !isB {
						continue
					}
					lc, isL := bo.X.(*ssa.Call)
					k, isK := core.ConstInt(bo.Y)
					if !isL || !isK || core.CalleeName(&lc.Call) != "builtin.len" {
						continue
					}
					lo, hi := int64(-1), int64(-1)
					switch a := lc.Call.Args[0].(type) {
					case *ssa.Slice:
						if a.X == x && a.Low == nil {
							lo, hi = 7, 15
						}
					default:
						if lc.Call.Args[0] == x {
							lo, hi = 7+int64(len(t)), 15+int64(len(t))
						}
					}
					if lo < 0 {
						continue
					}
					bad := int64(-1)
					for l := lo; l <= hi; l++ {
						if cmpInt(bo.Op, l, k) != truth {
							bad = l
							break
						}
					}
					c.check(bad < 0, "C04.dispatch", dec, "length test on the way to ipv4FromReversed: "+core.Describe(cond), g.Cond.(ssa.Instruction),
						sprintf("must hold for every canonical name length %d..%d; fails for %d, so an IPToReversedAddr output is refused", lo, hi, bad))
				}
			}
			arg := ci.Common().Args[0]
			if sp.callee == "ipv6FromReversed" {
				c.check(arg == x, "C04.dispatch", dec, what, ci, "the whole tested name is handed to the fixed-position scanner")
				continue
			}
			cut := suffixCut(arg, x, guard)
			if cut == -2 {
				c.check(false, "C04.dispatch", dec, what, ci, "the text trimmed off is not the text tested for")
				continue
			}
			if cut < 0 {
				c.undecided("C04.dispatch", dec, what, ci, "the argument is not name[:len(name)-K] of the tested name")
				continue
			}
			c.check(cut == int64(len(t)), "C04.dispatch", dec, what, ci, sprintf("HasSuffix tests %d bytes, %d bytes are cut: a byte is dropped unchecked or left in front of the parser", len(t), cut))
		}
		if n == 0 {
			c.undecided("C04.dispatch", dec, "call of "+sp.callee, nil, "the decoder no longer calls it")
		}
	}
}

// c04V4Exits: ipv4FromReversed may refuse a dotted quad only for the two
// reasons the codec allows (netip.ParseAddr fails, not IPv4); any further test
// on the way to the success exit must hold for every canonical length 7..15.
func c04V4Exits(c *Ctx, f *ssa.Function, pa *ssa.Call) {
	for _, ret := range core.Returns(f) {
		if len(ret.Results) != 2 || !core.IsNilConst(ret.Results[1]) {
			continue
		}
		for _, g := range core.GuardsOf(ret) {
			cond, truth := core.StripNot(g.Cond, g.Truth)
			what := "test on the way to the accepting exit: " + core.Describe(cond)
			switch x := cond.(type) {
			case *ssa.Call:
				if core.CalleeName(&x.Call) == "(net/netip.Addr).Is4" && truth {
					c.check(true, "C04.v4.exits", f, what, g.If, "accepts exactly the IPv4 results of ParseAddr")
					continue
				}
			case *ssa.BinOp:
				if ex, ok := x.X.(*ssa.Extract); ok && pa != nil && ex.Tuple == ssa.Value(pa) && ex.Index == 1 && core.IsNilConst(x.Y) {
					c.check((x.Op == token.EQL) == truth || (x.Op == token.NEQ) == !truth, "C04.v4.exits", f, what, g.If, "the error of netip.ParseAddr")
					continue
				}
				// a comparison of len(arpa) with a constant
				if lc, ok := x.X.(*ssa.Call); ok && core.CalleeName(&lc.Call) == "builtin.len" && lc.Call.Args[0] == ssa.Value(f.Params[0]) {
					if k, ok := core.ConstInt(x.Y); ok {
						bad := int64(-1)
						for l := int64(7); l <= 15; l++ {
							if cmpInt(x.Op, l, k) != truth {
								bad = l
								break
							}
						}
						c.check(bad < 0, "C04.v4.exits", f, what, g.If, sprintf("must hold for every canonical length 7..15 (\"0.0.0.0\" .. \"255.255.255.255\"); fails for length %d, so IPToReversedAddr output is refused", bad))
						continue
					}
				}
			}
			c.undecided("C04.v4.exits", f, what, g.If, "an additional condition on the accepting path that is neither the ParseAddr error, Is4, nor a length bound: canonical names may be refused")
		}
	}
}

func cmpInt(op token.Token, a, b int64) bool {
	switch op {
	case token.EQL:
		return a == b
	case token.NEQ:
		return a != b
	case token.LSS:
		return a < b
	case token.LEQ:
		return a <= b
	case token.GTR:
		return a > b
	case token.GEQ:
		return a >= b
	}
	return false
}

func keysInt(m map[int64]bool) []int64 {
	var out []int64
	for k := int64(-8); k < 80; k++ {
		if m[k] {
			out = append(out, k)
		}
	}
	return out
}

// nibbleOffset: v is fromHexByte(arpa[4*iv+k]); returns k or -1.
func nibbleOffset(v, arpa, iv ssa.Value) int64 {
	call, ok := v.(*ssa.Call)
	if !ok || call.Call.StaticCallee() == nil || call.Call.StaticCallee().Name() != "fromHexByte" {
		return -1
	}
	lki, isI := call.Call.Args[0].(ssa.Instruction)
	if !isI {
		return -1
	}
	_, lx, li, ok := strIndex(lki)
	if !ok || lx != arpa {
		return -1
	}
	a, k, ok := affine(li, iv, 0)
	if !ok || a != 4 {
		return -1
	}
	return k
}

// emittedInOrder: the variadic array passed to WriteToBuilder holds the two
// FormatUint results at positions 0 and 2 in call order, dots at 1 and 3.
func emittedInOrder(f *ssa.Function) bool {
	var calls []*ssa.Call
	core.EachInstr(f, func(in ssa.Instruction) {
		if call, ok := in.(*ssa.Call); ok && core.CalleeName(&call.Call) == "strconv.FormatUint" {
			calls = append(calls, call)
		}
	})
	if len(calls) != 2 {
		return false
	}
	pos := map[ssa.Value]int64{}
	dots := map[int64]bool{}
	core.EachInstr(f, func(in ssa.Instruction) {
		st, ok := in.(*ssa.Store)
		if !ok {
			return
		}
		ia, ok := st.Addr.(*ssa.IndexAddr)
		if !ok {
			return
		}
		k, _ := core.ConstInt(ia.Index)
		if s, isS := core.ConstString(st.Val); isS && s == "." {
			dots[k] = true
		} else {
			pos[st.Val] = k
		}
	})
	return pos[calls[0]] == 0 && pos[calls[1]] == 2 && dots[1] && dots[3]
}

// ---------------------------------------------------------------------------

func runC05(c *Ctx) {
	c.L.Trust("go/types + go/ssa", "abstract interpreter /verif/sa/lincon (byte facts)", "strconv.ParseUint, strings.Count, strings.LastIndexByte")
	validatorDiscipline(c, "C05")
	c.L.Floor("C05.ascii-fold", 2)
	c.L.Floor("C05.label-aligned", 2)
	c.L.Floor("C05.no-leading-zero", 1)
	c.L.Floor("C05.octet-width", 1)
	c.L.Floor("C05.skeleton", 6)
	c.L.Floor("C05.v4-label-count", 1)

	// exact decisions first (c05exact.go): where one succeeds, the structural
	// rules about the same decoder are only its fall-back
	// the octet test behind indexFirstV4Label (ExtractReversedAddr); no
	// structural rule stands behind it in this check, so a predicate outside
	// the evaluator's grammar is undecided here
	if !v4LabelExact(c, "C05") {
		if f := c.fn("netutil", "isIPv4Label"); f != nil {
			c.undecided("C05.v4.label-exact", f, "isIPv4Label(label) <=> label is a decimal 0..255 without leading zero", nil,
				"the predicate is outside the exact evaluator's grammar (see the notes of the evidence); the extractor's longest-suffix clause rests on it")
		}
	}
	wholePrefix := c05EntryExact(c, "PrefixFromReversedAddr", false)
	wholeExtract := c05EntryExact(c, "ExtractReversedAddr", true)
	idxExact := c05IndexExact(c)
	if len(idxExact) == 2 {
		c.L.Floor("C05.label-aligned", 1)
	}
	v4exact := c05PrefixV4Exact(c)
	v6exact := c05PrefixV6Exact(c)
	nSkel := 6
	if v6exact {
		nSkel -= 3
	}
	if v4exact {
		nSkel -= 3
		c.L.Floor("C05.no-leading-zero", 0)
		c.L.Floor("C05.octet-width", 0)
		c.L.Floor("C05.v4-label-count", 0)
	}
	c.L.Floor("C05.skeleton", nSkel)

	pfr := c.fn("netutil", "PrefixFromReversedAddr")
	ext := c.fn("netutil", "ExtractReversedAddr")
	c.L.Floor("C05.whole-name", 2)
	for _, f := range []*ssa.Function{pfr, ext} {
		if f != nil {
			wholeNameRule(c, "C05", f)
		}
	}
	// the dispatcher rules are fall-backs of the whole-function decisions
	nFold := 2
	for _, f := range []*ssa.Function{pfr, ext} {
		if (f == pfr && wholePrefix) || (f == ext && wholeExtract) {
			nFold--
			continue
		}
		if f != nil {
			asciiFoldRule(c, "C05", f)
		}
	}
	c.L.Floor("C05.ascii-fold", nFold)
	if wholeExtract {
		c.L.Floor("C05.label-aligned", 0)
	}
	v4 := c.fn("netutil", "ipv4NetFromReversed")
	v6 := c.fn("netutil", "ipv6NetFromReversed")

	// ---- E1 assertions ----
	if ext != nil && pfr != nil && !wholeExtract {
		lincon.Reset()
		a := lincon.New(c.P.SSA, core.InModule)
		// sites
		// the call that locates the first label of the embedded name:
		// domain[indexFirstLabel(domain):]
		var cutCalls []*ssa.Call
		core.EachInstr(ext, func(in ssa.Instruction) {
			if sl, ok := in.(*ssa.Slice); ok && sl.Low != nil && sl.High == nil {
				if call, ok := sl.Low.(*ssa.Call); ok && call.Call.StaticCallee() == nil && !call.Call.IsInvoke() && len(call.Call.Args) == 1 && call.Call.Args[0] == sl.X {
					cutCalls = append(cutCalls, call)
				}
			}
		})
		if len(cutCalls) == 0 {
			c.undecided("C05.label-aligned", ext, "domain[indexFirstLabel(domain):]", nil, "the cut of the embedded ARPA name is not recognisable")
		}
		var sufLen ssa.Value
		core.EachInstr(ext, func(in ssa.Instruction) {
			if phi, ok := in.(*ssa.Phi); ok && phi.Comment == "sufLen" {
				sufLen = phi
			}
		})
		// the suffix texts the extractor tests for (without the leading dot)
		var suffixTexts []string
		for _, ci := range core.CallsTo(ext, "strings.HasSuffix") {
			arg := ci.Common().Args[1]
			if t, ok := core.ConstString(arg); ok && len(t) >= 2 {
				suffixTexts = append(suffixTexts, t)
			}
			// a constant re-sliced from a constant offset: arpaV4Suffix[len("."):]
			if sl, isSl := arg.(*ssa.Slice); isSl && sl.High == nil {
				if t, ok := core.ConstString(sl.X); ok {
					k := int64(0)
					if sl.Low != nil {
						k, _ = core.ConstInt(sl.Low)
					}
					if k >= 0 && int(k) < len(t) && len(t)-int(k) >= 2 {
						suffixTexts = append(suffixTexts, t[k:])
					}
				}
			}
		}
		var octetStore *ssa.Store
		var labelVal ssa.Value
		if v4 != nil {
			core.EachInstr(v4, func(in ssa.Instruction) {
				if st, ok := in.(*ssa.Store); ok {
					if ia, ok := st.Addr.(*ssa.IndexAddr); ok {
						if _, isAl := ia.X.(*ssa.Alloc); isAl {
							octetStore = st
						}
					}
				}
				if call, ok := in.(*ssa.Call); ok && core.CalleeName(&call.Call) == "strconv.ParseUint" {
					labelVal = call.Call.Args[0]
				}
			})
		}
		if !v4exact {
			c.L.Floor("C05.prefix-aligned", 1)
		}
		a.Hook = func(h *lincon.Handle) {
			switch in := h.Instr.(type) {
			case *ssa.Call:
				// the octet labels handed to the IPv4 decoders end where the
				// ".in-addr.arpa" suffix begins: the byte after them is the dot
				// (or there are no labels at all: the bare root)
				if g := in.Call.StaticCallee(); g != nil && (g.Name() == "ipv4NetFromReversed" || g.Name() == "ipv4FromReversed") &&
					in.Parent().Name() == "subnetFromReversedV4" && len(in.Call.Args) == 1 {
					n, ok := h.Len(in.Call.Args[0])
					good := false
					if ok {
						if h.ProvesEQ(n) {
							good = true
						} else if b, ok := h.ByteAt(in.Call.Args[0], n); ok && b == '.' {
							good = true
						}
					}
					h.Assert("prefix-aligned", "the text given to the IPv4 decoder is followed by the '.' of \".in-addr.arpa\" (or is empty: the bare root)", good)
				}
				for _, cs := range cutCalls {
					if in != cs {
						continue
					}
					dom := in.Call.Args[0]
					l, ok1 := h.Len(dom)
					good := false
					if ok1 && sufLen != nil {
						if s, ok2 := h.Int(sufLen); ok2 {
							if h.ProvesLE(l.Sub(s).AddK(1)) { // len(domain) <= sufLen-1: the bare root
								good = true
							} else if b, ok := h.ByteAt(dom, l.Sub(s)); ok && b == '.' {
								good = true
							}
						}
					}
					if ok1 && !good {
						// without a variable holding the suffix length: for the suffix
						// text t the state knows the name to end in (its second byte
						// tells the two suffixes apart), the name is t itself or has a
						// '.' in front of it
						for _, t := range suffixTexts {
							n := int64(len(t))
							if b, ok := h.ByteAt(dom, l.AddK(-n+1)); !ok || b != t[1] {
								continue
							}
							if h.ProvesLE(l.AddK(-n)) {
								good = true
							} else if b, ok := h.ByteAt(dom, l.AddK(-n-1)); ok && b == '.' {
								good = true
							}
						}
					}
					h.Assert("label-aligned", "the ARPA suffix starts the name or follows a '.'", good)
				}
			case *ssa.Store:
				if in == octetStore && labelVal != nil {
					ln, ok := h.Len(labelVal)
					good := ok && (h.ProvesEQ(ln.AddK(-1)) || h.ByteNot(labelVal, lincon.K(0), '0'))
					h.Assert("no-leading-zero", "accepted octet label has length 1 or does not start with '0'", good)
				}
			}
		}
		a.Entry(ext, nil)
		a.Entry(pfr, nil)
		recordObligations(c, a, "C05", func(o *lincon.Oblig) bool {
			if v4exact && (o.Kind == "assert:prefix-aligned" || o.Kind == "assert:no-leading-zero") {
				return false
			}
			return strings.HasPrefix(o.Kind, "assert:")
		})
	}

	// ---- scanners test the byte before each candidate label ----
	if f := c.fn("netutil", "indexFirstV6Label"); f != nil && !idxExact["indexFirstV6Label"] {
		dom := f.Params[0]
		okB := false
		core.EachInstr(f, func(in ssa.Instruction) {
			lk, lx, li, ok := strIndex(in)
			if !ok || lx != ssa.Value(dom) {
				return
			}
			// index == curIdx - 1 where curIdx is the candidate that becomes idx
			b, ok := li.(*ssa.BinOp)
			if !ok || b.Op != token.SUB {
				return
			}
			if k, isK := core.ConstInt(b.Y); !isK || k != 1 {
				return
			}
			cur := b.X
			feeds := false
			for h := range core.LoopHeads(f) {
				for _, pi := range h.Instrs {
					if phi, ok := pi.(*ssa.Phi); ok {
						for _, e := range phi.Edges {
							if e == cur {
								feeds = true
							}
						}
					}
				}
			}
			cmpDot := false
			for _, r := range core.Refs(lk) {
				if bo, ok := r.(*ssa.BinOp); ok {
					if k, isK := core.ConstInt(bo.Y); isK && k == '.' {
						cmpDot = true
					}
				}
			}
			if feeds && cmpDot {
				okB = true
			}
		})
		c.check(okB, "C05.label-aligned", f, "a nibble label is accepted only if the byte before it is '.' (domain[curIdx-1])", nil,
			"otherwise the last character of a longer label is taken for a nibble and the extracted suffix is not label-aligned")
	}
	if f := c.fn("netutil", "indexFirstV4Label"); f != nil && !idxExact["indexFirstV4Label"] {
		okB := len(core.CallsTo(f, "strings.LastIndexByte")) == 1 && len(core.CallsTo(f, core.ModPath+"/netutil.isIPv4Label")) == 1
		c.check(okB, "C05.label-aligned", f, "IPv4 labels are delimited by LastIndexByte('.') and validated by isIPv4Label", nil, "whole labels only")
		// E1: every text handed to isIPv4Label starts at the beginning of the
		// name or right after a '.' — a candidate that starts inside a longer
		// label ("host123" read as "123") is not a label of the name
		lincon.Reset()
		a := lincon.New(c.P.SSA, core.InModule)
		a.IndexByteFacts = true
		a.Hook = func(h *lincon.Handle) {
			call, ok := h.Instr.(*ssa.Call)
			if !ok || call.Parent() != f || call.Call.StaticCallee() == nil || call.Call.StaticCallee().Name() != "isIPv4Label" || len(call.Call.Args) != 1 {
				return
			}
			_, off, _, okV := h.SliceView(call.Call.Args[0])
			_, off0, _, ok0 := h.SliceView(f.Params[0])
			good := false
			if okV && ok0 {
				rel := off.Sub(off0)
				if h.ProvesEQ(rel) {
					good = true
				} else if b, okB := h.ByteAt(f.Params[0], rel.AddK(-1)); okB && b == '.' {
					good = true
				}
			}
			h.Assert("label-aligned", "the candidate octet label starts the name or follows a '.'", good)
		}
		a.Entry(f, nil)
		recordObligations(c, a, "C05", func(o *lincon.Oblig) bool { return o.Kind == "assert:label-aligned" })
	}

	// ---- octet width ----
	if v4 != nil && !v4exact {
		for _, ci := range core.CallsTo(v4, "strconv.ParseUint") {
			base, _ := core.ConstInt(ci.Common().Args[1])
			bits, _ := core.ConstInt(ci.Common().Args[2])
			c.check(base == 10 && bits == 8, "C05.octet-width", v4, sprintf("ParseUint(label, %d, %d) matches the byte conversion", base, bits), ci,
				"a wider bit size accepts 256..., which byte() then truncates to another octet")
		}
		c05Skeleton(c, v4, 8, false)
	}
	if v6 != nil && !v6exact {
		c05Skeleton(c, v6, 4, true)
		c05NibbleStart(c, v6)
	}
	// k == 32: PrefixFromReversedAddr hands a full-length name to the address decoder
	c.L.Floor("C05.v6.every-byte-checked", 3)
	arpaV6FullScan(c, "C05", 64)
	c.L.Floor("C05.hex-table", 1)
	c04HexTable(c, "C05")
	// ---- caller-side bounds ----
	if f := c.fn("netutil", "subnetFromReversedV4"); f != nil && v4 != nil && !v4exact {
		for _, ci := range core.AllCalls(f) {
			if ci.Common().StaticCallee() != v4 {
				continue
			}
			// on every path to the call: either the string is empty (l == 0) or Count(arpa, ".") <= 3 was enforced and == 3 diverted
			okCnt := false
			for _, cc := range core.CallsTo(f, "strings.Count") {
				cnt := cc.(*ssa.Call)
				gt3, eq3 := false, false
				for _, r := range core.Refs(cnt) {
					if b, ok := r.(*ssa.BinOp); ok {
						k, _ := core.ConstInt(b.Y)
						if b.Op == token.GTR && k == 3 {
							gt3 = true
						}
						if b.Op == token.EQL && k == 3 {
							eq3 = true
						}
					}
				}
				okCnt = gt3 && eq3
			}
			c.check(okCnt, "C05.v4-label-count", f, "more than 3 dots rejected, exactly 3 dots sent to the full-address parser, before ipv4NetFromReversed", ci,
				"at most 3 labels reach the partial decoder (k <= 4 labels overall); also the bound behind C01's audited ip[l]")
		}
	}
	if f := c.fn("netutil", "subnetFromReversedV6"); f != nil && v6 != nil && !v6exact {
		maxLen, _ := intConst(c, "netutil", "arpaV6MaxLen")
		for _, ci := range core.AllCalls(f) {
			if ci.Common().StaticCallee() != v6 {
				continue
			}
			eq, gt := false, false
			core.EachInstr(f, func(in ssa.Instruction) {
				if b, ok := in.(*ssa.BinOp); ok {
					if k, isK := core.ConstInt(b.Y); isK && k == maxLen {
						if b.Op == token.EQL {
							eq = true
						}
						if b.Op == token.GTR {
							gt = true
						}
					}
				}
			})
			c.check(eq && gt, "C05.skeleton", f, "len == arpaV6MaxLen goes to the full decoder, len > arpaV6MaxLen is rejected, before ipv6NetFromReversed", ci, "k <= 32 nibble labels")
		}
	}
}

// c05Skeleton: prefix length = unit*l, l++ once per label, ip zeroed local
// written only at ip[l] (ip[l/2] with nibble placement for IPv6).
func c05Skeleton(c *Ctx, f *ssa.Function, unit int64, nibbles bool) {
	// the label counter: a loop-head phi that starts at 0 and steps by +1
	var l *ssa.Phi
	for h := range core.LoopHeads(f) {
		for _, in := range h.Instrs {
			phi, ok := in.(*ssa.Phi)
			if !ok {
				break
			}
			if !isIntegerType(phi.Type()) {
				continue
			}
			k, ok := stepOf(phi)
			start := int64(-1)
			for i, e := range phi.Edges {
				if !h.Dominates(h.Preds[i]) {
					start, _ = core.ConstInt(e)
				}
			}
			if ok && k == 1 && start == 0 {
				l = phi
			}
		}
	}
	c.check(l != nil, "C05.skeleton", f, "the label counter starts at 0 and is incremented exactly once per iteration", nil, "one label per iteration")
	if l == nil {
		return
	}
	okLen := false
	for _, ci := range core.CallsTo(f, "net/netip.PrefixFrom") {
		call := ci.(*ssa.Call)
		// unit * n, n * unit, or n << log2(unit)
		var factor ssa.Value
		if mul, ok := call.Call.Args[1].(*ssa.BinOp); ok {
			switch mul.Op {
			case token.MUL:
				if k, isK := core.ConstInt(mul.Y); isK && k == unit {
					factor = mul.X
				} else if k, isK := core.ConstInt(mul.X); isK && k == unit {
					factor = mul.Y
				}
			case token.SHL:
				if k, isK := core.ConstInt(mul.Y); isK && k >= 0 && k < 16 && int64(1)<<uint(k) == unit {
					factor = mul.X
				}
			}
		}
		if factor != nil {
			{
				okLen = true
				var vals []ssa.Value
				if ph, ok := factor.(*ssa.Phi); ok && ph != l {
					vals = ph.Edges
				} else {
					vals = []ssa.Value{factor}
				}
				for _, v := range vals {
					// the counter at loop exit: l itself, or l+1 when leaving after the increment
					if off, ok := constOffsetFrom(v, l, 0); !ok || off < 0 || off > 1 {
						okLen = false
					}
				}
			}
		}
	}
	c.check(okLen, "C05.skeleton", f, sprintf("prefix length is %d * (number of labels consumed)", unit), nil, "8 bits per octet label, 4 per nibble label")
	// ip: zeroed local array, written only at the counter's position
	var ip *ssa.Alloc
	for _, ci := range core.CallsTo(f, "net/netip.AddrFrom4", "net/netip.AddrFrom16") {
		if ld, ok := ci.Common().Args[0].(*ssa.UnOp); ok && ld.Op == token.MUL {
			ip, _ = ld.X.(*ssa.Alloc)
		}
	}
	okStores := ip != nil
	n := 0
	core.EachInstr(f, func(in ssa.Instruction) {
		st, ok := in.(*ssa.Store)
		if !ok || ip == nil {
			return
		}
		if st.Addr == ssa.Value(ip) {
			if cst, ok := st.Val.(*ssa.Const); !ok || cst.Value != nil {
				okStores = false // must be the zero value
			}
			return
		}
		a, ok := st.Addr.(*ssa.IndexAddr)
		if !ok || a.X != ssa.Value(ip) {
			return
		}
		n++
		idx := a.Index
		if nibbles {
			q, ok := idx.(*ssa.BinOp)
			if !ok || q.Op != token.QUO || q.X != ssa.Value(l) {
				okStores = false
				return
			}
			if two, isK := core.ConstInt(q.Y); !isK || two != 2 {
				okStores = false
				return
			}
			// even l: old | b<<4 ; odd l: old | b
			or, ok := st.Val.(*ssa.BinOp)
			if !ok || or.Op != token.OR {
				okStores = false
				return
			}
			shl, isShl := or.Y.(*ssa.BinOp)
			isShl = isShl && shl.Op == token.SHL
			even := guardedByParity(st, l, true)
			odd := guardedByParity(st, l, false)
			if !(isShl && even) && !(!isShl && odd) {
				okStores = false
			}
		} else if idx != ssa.Value(l) {
			okStores = false
		}
	})
	c.check(ip != nil && okStores && n > 0, "C05.skeleton", f, "the address is a zeroed local array written only at the label counter's position", nil,
		"labels fill the leading octets/nibbles in reverse textual order; all other (host) bits stay zero")
}

// c05NibbleStart: the nibble scan walks positions start, start-2, ... >= 0 and
// reads start+1 downwards as dots, so it covers the whole address part exactly
// when start is even.  The test in front of the loop is evaluated for the three
// values Go's % can produce (-1, 0, 1): only 0 may reach the loop.
func c05NibbleStart(c *Ctx, f *ssa.Function) {
	c.L.Floor("C05.v6.start-parity", 1)
	var iv *ssa.Phi
	var head *ssa.BasicBlock
	for h := range core.LoopHeads(f) {
		for _, in := range h.Instrs {
			phi, ok := in.(*ssa.Phi)
			if !ok {
				break
			}
			if k, ok := stepOf(phi); ok && k == -2 && isIntegerType(phi.Type()) {
				iv, head = phi, h
			}
		}
	}
	what := "the nibble scan starts at an even offset (rejects otherwise, also for a negative odd start)"
	if iv == nil {
		c.undecided("C05.v6.start-parity", f, what, nil, "no loop counter with step -2 found")
		return
	}
	var start ssa.Value
	var pre *ssa.BasicBlock
	for i, e := range iv.Edges {
		if !head.Dominates(head.Preds[i]) {
			start, pre = e, head.Preds[i]
		}
	}
	if start == nil {
		c.undecided("C05.v6.start-parity", f, what, nil, "no entry edge")
		return
	}
	allowed := map[int64]bool{-1: true, 0: true, 1: true}
	found := false
	gs := append(core.Guards(pre), core.Guards(head)...)
	for _, g := range gs {
		cond, truth := core.StripNot(g.Cond, g.Truth)
		b, ok := cond.(*ssa.BinOp)
		if !ok {
			continue
		}
		rem, ok := b.X.(*ssa.BinOp)
		if !ok || rem.Op != token.REM || rem.X != start {
			continue
		}
		m, okM := core.ConstInt(rem.Y)
		k, okK := core.ConstInt(b.Y)
		if !okM || !okK || (m != 2 && m != -2) {
			continue
		}
		found = true
		for r := range allowed {
			if cmpInt(b.Op, r, k) != truth {
				delete(allowed, r)
			}
		}
	}
	if !found {
		c.check(false, "C05.v6.start-parity", f, what, iv, "no parity test of the start offset dominates the loop: with an odd start the first byte of the name is never examined")
		return
	}
	var rs []int64
	for r := range allowed {
		rs = append(rs, r)
	}
	sort.Slice(rs, func(i, j int) bool { return rs[i] < rs[j] })
	c.check(len(rs) == 1 && rs[0] == 0, "C05.v6.start-parity", f, what, iv,
		sprintf("start %% 2 values that reach the loop: %v (Go's %% yields -1 for negative odd numbers; start is -1 for a one-byte address part such as \"zip6.arpa\", whose byte is then never examined and the name decodes to ::/0)", rs))
}

// guardedByParity: in runs only where (l % 2 == 0) == even.
func guardedByParity(in ssa.Instruction, l ssa.Value, even bool) bool {
	for _, g := range core.GuardsOf(in) {
		cond, truth := core.StripNot(g.Cond, g.Truth)
		b, ok := cond.(*ssa.BinOp)
		if !ok {
			continue
		}
		rem, ok := b.X.(*ssa.BinOp)
		if !ok || rem.Op != token.REM || rem.X != l {
			continue
		}
		k, _ := core.ConstInt(b.Y)
		isEven := (b.Op == token.EQL && k == 0 && truth) || (b.Op == token.NEQ && k == 0 && !truth) || (b.Op == token.EQL && k == 1 && !truth) || (b.Op == token.NEQ && k == 1 && truth)
		isOdd := (b.Op == token.EQL && k == 0 && !truth) || (b.Op == token.NEQ && k == 0 && truth) || (b.Op == token.EQL && k == 1 && truth) || (b.Op == token.NEQ && k == 1 && !truth)
		if even && isEven {
			return true
		}
		if !even && isOdd {
			return true
		}
	}
	return false
}

// strIndex: in is s[i] on a string (ssa.Index in current x/tools, ssa.Lookup
// in older ones); returns the value, the string and the index.
func strIndex(in ssa.Instruction) (ssa.Value, ssa.Value, ssa.Value, bool) {
	switch x := in.(type) {
	case *ssa.Index:
		if isStringType(x.X.Type()) {
			return x, x.X, x.Index, true
		}
	case *ssa.Lookup:
		if isStringType(x.X.Type()) {
			return x, x.X, x.Index, true
		}
	}
	return nil, nil, nil, false
}

// countedLoop: the loop head has an integer phi with constant start and
// constant positive step whose test `affine(phi) < N` (or <=) bounds it;
// returns the phi and the values it takes while the body executes.
func countedLoop(head *ssa.BasicBlock) (*ssa.Phi, []int64, bool) {
	iff, ok := head.Instrs[len(head.Instrs)-1].(*ssa.If)
	if !ok {
		return nil, nil, false
	}
	b, ok := iff.Cond.(*ssa.BinOp)
	if !ok || (b.Op != token.LSS && b.Op != token.LEQ) {
		return nil, nil, false
	}
	n, isK := core.ConstInt(b.Y)
	if !isK {
		return nil, nil, false
	}
	body := core.LoopBody(head)
	if !body[head.Succs[0]] {
		return nil, nil, false
	}
	for _, in := range head.Instrs {
		phi, ok := in.(*ssa.Phi)
		if !ok {
			break
		}
		step, ok := phiStep(phi, head, body)
		if !ok || step <= 0 {
			continue
		}
		start, okS := int64(0), false
		for i, e := range phi.Edges {
			if !body[head.Preds[i]] {
				start, okS = core.ConstInt(e)
			}
		}
		a, k, okA := affine(b.X, phi, 0)
		if !okS || !okA || a <= 0 {
			continue
		}
		var vals []int64
		for v := start; len(vals) < 4096; v += step {
			t := a*v + k
			if (b.Op == token.LSS && t < n) || (b.Op == token.LEQ && t <= n) {
				vals = append(vals, v)
			} else {
				break
			}
		}
		return phi, vals, true
	}
	return nil, nil, false
}

// rejectKind: how the byte read is validated: "hex" (through fromHexByte
// compared with 0xff), "dot" (compared with '.'), "" (not validated).
func rejectKind(v ssa.Value) string {
	for _, r := range core.Refs(v) {
		switch x := r.(type) {
		case *ssa.BinOp:
			k, isK := core.ConstInt(x.Y)
			if !isK {
				continue
			}
			rej := false
			for _, rr := range core.Refs(x) {
				if iff, ok := rr.(*ssa.If); ok {
					for _, s := range iff.Block().Succs {
						if blockRejects(s) {
							rej = true
						}
					}
				}
			}
			if rej && k == '.' {
				return "dot"
			}
			if rej && k == 0xff {
				return "hexcmp"
			}
		case *ssa.Call:
			if cal := x.Call.StaticCallee(); cal != nil && cal.Name() == "fromHexByte" {
				if rejectKind(x) == "hexcmp" {
					return "hex"
				}
			}
		case *ssa.Convert:
			if k := rejectKind(x); k != "" {
				return k
			}
		}
	}
	return ""
}

// c04HexTable: fromHexByte as a function of its 8 input bits, computed exactly
// (BDD per output bit), equals the hexadecimal digit table: '0'..'9' -> 0..9,
// 'a'..'f' and 'A'..'F' -> 10..15, every other byte -> 0xff.
func c04HexTable(c *Ctx, prop string) {
	f := c.fn("netutil", "fromHexByte")
	if f == nil {
		return
	}
	m := boolfn.New()
	ev := &boolfn.Eval{M: m, Entered: map[string]bool{}}
	ev.InScope = core.InModule
	in := ev.IntInput(0, 8, false)
	what := "fromHexByte == the hex digit table on all 256 bytes"
	rs, err := ev.Call(f, []boolfn.Val{in})
	if err != nil || len(rs) != 1 || len(rs[0].Bits) != 8 {
		c.undecided(prop+".hex-table", f, what, nil, sprintf("outside the loop-free grammar: %v", err))
		return
	}
	spec := func(b int) int {
		switch {
		case b >= '0' && b <= '9':
			return b - '0'
		case b >= 'a' && b <= 'f':
			return b - 'a' + 10
		case b >= 'A' && b <= 'F':
			return b - 'A' + 10
		}
		return 0xff
	}
	bad := ""
	for j := 0; j < 8 && bad == ""; j++ {
		want := 0
		for b := 0; b < 256; b++ {
			if spec(b)>>uint(j)&1 == 0 {
				continue
			}
			mt := 1
			for i := 0; i < 8; i++ {
				mt = m.And(mt, m.Lit(i, b>>uint(7-i)&1 == 1))
			}
			want = m.Or(want, mt)
		}
		if got := rs[0].Bits[j]; got != want {
			w := m.Witness(m.Xor(got, want))
			v := 0
			for i := 0; i < 8; i++ {
				if w[i] {
					v |= 1 << uint(7-i)
				}
			}
			bad = sprintf("differs at byte 0x%02x (%q): the table says 0x%02x", v, rune(v), spec(v))
		}
	}
	c.check(bad == "", prop+".hex-table", f, what, nil, "exact equality of the eight output bits as Boolean functions of the input byte. "+bad)
}

// arpaV6Callers: the length constant and the callers' exact-length guard of
// the fixed-position decoder.
func arpaV6Callers(c *Ctx, prop string, f *ssa.Function, n int64) {
	// any check hoisted out of the loop must still cover the positions: covered by the set above
	maxLen, okL := intConst(c, "netutil", "arpaV6MaxLen")
	c.check(okL && maxLen == 4*n-1+int64(len(".ip6.arpa")), prop+".v6.every-byte-checked", f, "arpaV6MaxLen == 4*16-1+len(\".ip6.arpa\")", nil, sprintf("constant is %d", maxLen))
	// callers guard the exact length
	ncall := 0
	for _, g := range c.P.Funcs("netutil") {
		for _, ci := range core.AllCalls(g) {
			if ci.Common().StaticCallee() != f {
				continue
			}
			ncall++
			okLen := false
			// `len(x) == K` holds on every path to the call: as a true `==`, a
			// false `!=`, with the constant on either side
			for _, gd := range core.Facts(g).At(ci.Block()) {
				cond, truth := core.StripNot(gd.Cond, gd.Truth)
				b, ok := cond.(*ssa.BinOp)
				if !ok || (b.Op != token.EQL && b.Op != token.NEQ) || (b.Op == token.EQL) != truth {
					continue
				}
				x, y := b.X, b.Y
				if _, isK := core.ConstInt(x); isK {
					x, y = y, x
				}
				if k, isK := core.ConstInt(y); isK && okL && k == maxLen {
					if lc, ok := x.(*ssa.Call); ok && core.CalleeName(&lc.Call) == "builtin.len" && lc.Call.Args[0] == ci.Common().Args[0] {
						okLen = true
					}
				}
			}
			c.check(okLen, prop+".v6.every-byte-checked", g, "ipv6FromReversed(x) only under len(x) == arpaV6MaxLen", ci, "a shorter name would be indexed out of range, a longer one would have unchecked bytes")
		}
	}
	if ncall == 0 {
		c.undecided(prop+".v6.every-byte-checked", f, "callers", nil, "no caller found")
	}
}
