package rules

import (
	"fmt"
	"go/token"
	"go/types"
	"sort"
	"strings"

	"golang.org/x/tools/go/ssa"

	"verif/sa/core"
)

// c09ConfigExact: the limits the cache works with are the configured ones.
//
// newCache touches the three unsigned limits of its Config only through
// copies and comparisons (with each other and with constants).  Such a
// function depends only on the *order type* of its inputs and constants, so
// it is decided for every Config by abstract evaluation over a grid that
// realises every order type: {0, 1, 2, 3, max-2, max-1, max} and c-3..c+3 around
// every other integer constant of the function, for each of the three limits.
// Any arithmetic on a limit, a call that receives the object or its
// configuration, or an instruction outside this small grammar makes the rule
// undecided.  The SSA of the current tree is walked; nothing is executed.
//
// Specification (cache.Config's documentation): a zero MaxSize / MaxCount
// means unlimited, otherwise the configured value is the limit as it is — not
// something smaller (entries would be refused or evicted although there is
// room) and not something larger (Stats would exceed the configured bound);
// MaxElementSize defaults to MaxSize and an element limit above MaxSize is
// MaxSize (no such element fits either way); the other members are kept.
func c09ConfigExact(c *Ctx) (decided bool) {
	const rule = "C09.config-exact"
	c.L.Floor(rule, 1)
	nc := c.fn("cache", "newCache")
	if nc == nil {
		return false
	}
	what := "effective MaxSize / MaxCount / MaxElementSize == the configured ones (0 = unlimited) for every Config"
	if len(nc.Params) != 1 {
		c.undecided(rule, nc, what, nil, "newCache does not take exactly one Config")
		return false
	}
	st, ok := nc.Params[0].Type().Underlying().(*types.Struct)
	if !ok {
		c.undecided(rule, nc, what, nil, "the parameter is not a struct")
		return false
	}
	idx := map[string]int{}
	for i := 0; i < st.NumFields(); i++ {
		idx[st.Field(i).Name()] = i
	}
	var lim [3]int
	for k, n := range []string{"MaxSize", "MaxCount", "MaxElementSize"} {
		i, ok := idx[n]
		if !ok || !isUnsignedWord(st.Field(i).Type()) {
			c.undecided(rule, nc, what, nil, "Config."+n+" is not an unsigned integer member")
			return false
		}
		lim[k] = i
	}
	const maxU = ^uint64(0)
	grid := map[uint64]bool{0: true, 1: true, 2: true, 3: true, maxU - 2: true, maxU - 1: true, maxU: true}
	for _, b := range nc.Blocks {
		for _, in := range b.Instrs {
			for _, op := range in.Operands(nil) {
				if op == nil || *op == nil {
					continue
				}
				if k, ok := (*op).(*ssa.Const); ok && k.Value != nil && isUnsignedWord(k.Type()) {
					if v, exact := constUint(k); exact {
						for d := uint64(0); d <= 3; d++ {
							grid[v+d] = true
							grid[v-d] = true
						}
					}
				}
			}
		}
	}
	var vals []uint64
	for v := range grid {
		vals = append(vals, v)
	}
	sort.Slice(vals, func(i, j int) bool { return vals[i] < vals[j] })
	n, bad := 0, ""
	for _, ms := range vals {
		for _, mc := range vals {
			for _, me := range vals {
				in := [3]uint64{ms, mc, me}
				out, kept, err := evalNewCache(nc, st, lim, in)
				if err != "" {
					c.undecided(rule, nc, what, nil, "outside the grammar of the order-type evaluation: "+err)
					return false
				}
				n++
				wantS, wantC := ms, mc
				if ms == 0 {
					wantS = maxU
				}
				if mc == 0 {
					wantC = maxU
				}
				wantE := me
				if me == 0 || me > wantS {
					wantE = wantS
				}
				if bad == "" && (out != [3]uint64{wantS, wantC, wantE} || !kept) {
					bad = sprintf("Config{MaxSize: %s, MaxCount: %s, MaxElementSize: %s} becomes {%s, %s, %s}, want {%s, %s, %s}", uname(ms), uname(mc), uname(me),
						uname(out[0]), uname(out[1]), uname(out[2]), uname(wantS), uname(wantC), uname(wantE))
					if !kept {
						bad += "; EnableLRU / OnDelete are not the configured ones"
					}
				}
			}
		}
	}
	c.check(bad == "", rule, nc, what, nil, sprintf("%d configurations (every order type of the three limits and the function's constants) evaluated; %s", n, bad))
	return true // decided, whatever the verdict: the relational fall-back has nothing to add
}

func isUnsignedWord(t types.Type) bool {
	b, ok := t.Underlying().(*types.Basic)
	return ok && (b.Kind() == types.Uint || b.Kind() == types.Uint64 || b.Kind() == types.Uintptr)
}

func constUint(k *ssa.Const) (uint64, bool) {
	if k.Value == nil {
		return 0, false
	}
	s := k.Value.ExactString()
	var v uint64
	for _, ch := range s {
		if ch < '0' || ch > '9' {
			return 0, false
		}
		d := uint64(ch - '0')
		if v > (^uint64(0)-d)/10 {
			return 0, false
		}
		v = v*10 + d
	}
	return v, s != ""
}

func uname(v uint64) string {
	if v > ^uint64(0)-8 {
		if v == ^uint64(0) {
			return "max"
		}
		return sprintf("max-%d", ^uint64(0)-v)
	}
	return sprintf("%d", v)
}

// ncVal is a value of the order-type evaluation.
type ncVal struct {
	kind  byte // 'i' integer, 'b' bool, 'p' pointer, 's' struct snapshot, 't' token (kept member), 'o' opaque
	i     uint64
	b     bool
	obj   ssa.Value
	path  string
	snap  map[string]ncVal // relative path -> value
	token string
}

// evalNewCache walks newCache on one concrete triple of limits and returns the
// limits of the configuration inside the returned object, and whether the other
// members of the configuration are still the caller's.
func evalNewCache(fn *ssa.Function, conf *types.Struct, lim [3]int, in [3]uint64) (out [3]uint64, kept bool, err string) {
	defer func() {
		if r := recover(); r != nil {
			if s, ok := r.(ncErr); ok {
				err = string(s)
				return
			}
			panic(r)
		}
	}()
	fail := func(f string, a ...any) { panic(ncErr(sprintf(f, a...))) }
	cells := map[ssa.Value]map[string]ncVal{}
	env := map[ssa.Value]ncVal{}
	param := ncVal{kind: 's', snap: map[string]ncVal{}}
	for i := 0; i < conf.NumFields(); i++ {
		p := sprintf(".%d", i)
		param.snap[p] = ncVal{kind: 't', token: "conf" + p}
	}
	for k, i := range lim {
		param.snap[sprintf(".%d", i)] = ncVal{kind: 'i', i: in[k]}
	}
	env[fn.Params[0]] = param
	val := func(v ssa.Value) ncVal {
		if k, ok := v.(*ssa.Const); ok {
			if k.Value == nil {
				return ncVal{kind: 'o'}
			}
			if b, isB := k.Type().Underlying().(*types.Basic); isB {
				switch {
				case b.Info()&types.IsBoolean != 0:
					return ncVal{kind: 'b', b: k.Value.ExactString() == "true"}
				case b.Info()&types.IsInteger != 0:
					if u, ok := constUint(k); ok {
						return ncVal{kind: 'i', i: u}
					}
				}
			}
			return ncVal{kind: 'o'}
		}
		if x, ok := env[v]; ok {
			return x
		}
		return ncVal{kind: 'o'}
	}
	store := func(p ncVal, x ncVal) {
		m := cells[p.obj]
		if m == nil {
			m = map[string]ncVal{}
			cells[p.obj] = m
		}
		for k := range m { // overwrite everything below the path
			if k == p.path || strings.HasPrefix(k, p.path+".") {
				delete(m, k)
			}
		}
		if x.kind == 's' {
			for rel, fv := range x.snap {
				m[p.path+rel] = fv
			}
			return
		}
		m[p.path] = x
	}
	load := func(p ncVal, t types.Type) ncVal {
		m := cells[p.obj]
		if _, isStruct := t.Underlying().(*types.Struct); isStruct {
			s := ncVal{kind: 's', snap: map[string]ncVal{}}
			for k, fv := range m {
				if strings.HasPrefix(k, p.path+".") {
					s.snap[k[len(p.path):]] = fv
				}
			}
			return s
		}
		if x, ok := m[p.path]; ok {
			return x
		}
		if b, isB := t.Underlying().(*types.Basic); isB && b.Info()&types.IsInteger != 0 {
			if _, isAlloc := p.obj.(*ssa.Alloc); isAlloc {
				return ncVal{kind: 'i', i: 0} // zero value of a fresh object
			}
		}
		return ncVal{kind: 'o'}
	}
	var obj ssa.Value
	blk, prev := fn.Blocks[0], (*ssa.BasicBlock)(nil)
	for steps := 0; ; steps++ {
		if steps > 400 {
			fail("more than 400 blocks on one path (a loop?)")
		}
		var next *ssa.BasicBlock
		for _, in := range blk.Instrs {
			switch v := in.(type) {
			case *ssa.Phi:
				for i, p := range blk.Preds {
					if p == prev {
						env[v] = val(v.Edges[i])
					}
				}
			case *ssa.Alloc:
				env[v] = ncVal{kind: 'p', obj: v}
			case *ssa.FieldAddr:
				b := val(v.X)
				if b.kind != 'p' {
					env[v] = ncVal{kind: 'o'}
					break
				}
				env[v] = ncVal{kind: 'p', obj: b.obj, path: b.path + sprintf(".%d", v.Field)}
			case *ssa.IndexAddr:
				b := val(v.X)
				k, isK := core.ConstInt(v.Index)
				if b.kind != 'p' || !isK {
					env[v] = ncVal{kind: 'o'}
					break
				}
				env[v] = ncVal{kind: 'p', obj: b.obj, path: b.path + sprintf("[%d]", k)}
			case *ssa.Slice:
				env[v] = ncVal{kind: 'o'}
			case *ssa.Field:
				b := val(v.X)
				if b.kind != 's' {
					env[v] = ncVal{kind: 'o'}
					break
				}
				p := sprintf(".%d", v.Field)
				if fv, ok := b.snap[p]; ok {
					env[v] = fv
				} else {
					s := ncVal{kind: 's', snap: map[string]ncVal{}}
					for k, fv := range b.snap {
						if strings.HasPrefix(k, p+".") {
							s.snap[k[len(p):]] = fv
						}
					}
					env[v] = s
				}
			case *ssa.Store:
				p := val(v.Addr)
				if p.kind != 'p' {
					fail("store through an untracked pointer (%s)", core.Describe(v.Addr))
				}
				store(p, val(v.Val))
			case *ssa.UnOp:
				x := val(v.X)
				switch v.Op {
				case token.MUL:
					if x.kind != 'p' {
						env[v] = ncVal{kind: 'o'}
						break
					}
					env[v] = load(x, v.Type())
				case token.NOT:
					if x.kind != 'b' {
						fail("negation of an untracked condition")
					}
					env[v] = ncVal{kind: 'b', b: !x.b}
				default:
					if x.kind == 'i' {
						fail("arithmetic on a limit (%s)", v.Op)
					}
					env[v] = ncVal{kind: 'o'}
				}
			case *ssa.BinOp:
				x, y := val(v.X), val(v.Y)
				if x.kind == 'b' && y.kind == 'b' {
					switch v.Op {
					case token.EQL:
						env[v] = ncVal{kind: 'b', b: x.b == y.b}
					case token.NEQ:
						env[v] = ncVal{kind: 'b', b: x.b != y.b}
					default:
						fail("operator %s on conditions", v.Op)
					}
					break
				}
				if x.kind != 'i' || y.kind != 'i' {
					env[v] = ncVal{kind: 'o'}
					break
				}
				var r bool
				switch v.Op {
				case token.EQL:
					r = x.i == y.i
				case token.NEQ:
					r = x.i != y.i
				case token.LSS:
					r = x.i < y.i
				case token.LEQ:
					r = x.i <= y.i
				case token.GTR:
					r = x.i > y.i
				case token.GEQ:
					r = x.i >= y.i
				default:
					fail("arithmetic on a limit (%s): the result is not a function of the order type", v.Op)
				}
				if !isUnsignedWord(v.X.Type()) {
					fail("comparison of limits in type %s", v.X.Type())
				}
				env[v] = ncVal{kind: 'b', b: r}
			case *ssa.Convert:
				x := val(v.X)
				if x.kind == 'i' && !isUnsignedWord(v.Type()) {
					fail("a limit converted to %s", v.Type())
				}
				env[v] = x
			case *ssa.ChangeType:
				env[v] = val(v.X)
			case *ssa.MakeMap, *ssa.MakeSlice, *ssa.MakeChan, *ssa.MakeInterface, *ssa.MakeClosure:
				env[v.(ssa.Value)] = ncVal{kind: 'o'}
			case *ssa.Call:
				name := core.CalleeName(&v.Call)
				if name == "builtin.min" || name == "builtin.max" {
					var acc ncVal
					for i, a := range v.Call.Args {
						x := val(a)
						if x.kind != 'i' {
							fail("%s of an untracked value", name)
						}
						if i == 0 || (name == "builtin.min" && x.i < acc.i) || (name == "builtin.max" && x.i > acc.i) {
							acc = x
						}
					}
					env[v] = acc
					break
				}
				if strings.HasPrefix(name, "cmp.Or") && len(v.Call.Args) == 1 {
					// cmp.Or(a, b, ...): the first operand that is not zero, else zero
					if sl, isSl := v.Call.Args[0].(*ssa.Slice); isSl {
						if al, isAl := sl.X.(*ssa.Alloc); isAl {
							vals := map[int64]ncVal{}
							okAll := true
							for k, cv := range cells[al] {
								var i int64
								if _, err := fmtSscan(k, &i); err != nil || cv.kind != 'i' {
									okAll = false
								}
								vals[i] = cv
							}
							if okAll && len(vals) > 0 {
								res := ncVal{kind: 'i'}
								for i := int64(0); i < int64(len(vals)); i++ {
									if cv, ok := vals[i]; ok && cv.i != 0 {
										res = cv
										break
									}
								}
								env[v] = res
								break
							}
						}
					}
					fail("cmp.Or with operands the evaluation does not follow")
				}
				for _, a := range v.Call.Args {
					x := val(a)
					if x.kind == 'p' && (x.path == "" || cellsBelowHoldLimits(cells[x.obj], x.path)) {
						fail("%s receives the object or its configuration", name)
					}
					if x.kind == 'i' || x.kind == 's' {
						fail("%s receives a limit or the configuration", name)
					}
				}
				env[v] = ncVal{kind: 'o'}
			case *ssa.If:
				x := val(v.Cond)
				if x.kind != 'b' {
					fail("branch on an untracked condition (%s)", core.Describe(v.Cond))
				}
				if x.b {
					next = blk.Succs[0]
				} else {
					next = blk.Succs[1]
				}
			case *ssa.Jump:
				next = blk.Succs[0]
			case *ssa.Return:
				if len(v.Results) != 1 {
					fail("newCache returns %d values", len(v.Results))
				}
				r := val(v.Results[0])
				if r.kind != 'p' || r.path != "" {
					fail("the returned object is not a local allocation")
				}
				obj = r.obj
				// find the configuration inside the object: the member of Config's type
				pt, _ := obj.Type().Underlying().(*types.Pointer)
				if pt == nil {
					fail("result type")
				}
				os, _ := pt.Elem().Underlying().(*types.Struct)
				ci := -1
				for i := 0; os != nil && i < os.NumFields(); i++ {
					if types.Identical(os.Field(i).Type().Underlying(), conf) {
						if ci >= 0 {
							fail("two members of Config's type")
						}
						ci = i
					}
				}
				if ci < 0 {
					fail("no member of Config's type in the returned object")
				}
				kept = true
				for i := 0; i < conf.NumFields(); i++ {
					fv, ok := cells[obj][sprintf(".%d.%d", ci, i)]
					isLim := -1
					for k, li := range lim {
						if li == i {
							isLim = k
						}
					}
					if isLim >= 0 {
						if !ok {
							fv = ncVal{kind: 'i'}
						}
						if fv.kind != 'i' {
							fail("limit %s holds an untracked value", conf.Field(i).Name())
						}
						out[isLim] = fv.i
					} else if !ok || fv.kind != 't' || fv.token != sprintf("conf.%d", i) {
						kept = false
					}
				}
				return out, kept, ""
			case *ssa.DebugRef:
			default:
				fail("instruction %T", in)
			}
		}
		if next == nil {
			fail("block without successor")
		}
		prev, blk = blk, next
	}
}

type ncErr string

// fmtSscan reads the element index out of a cell path of the form "[k]".
func fmtSscan(path string, i *int64) (int, error) { return fmt.Sscanf(path, "[%d]", i) }

func cellsBelowHoldLimits(m map[string]ncVal, path string) bool {
	for k, v := range m {
		if (k == path || strings.HasPrefix(k, path+".")) && (v.kind == 'i' || v.kind == 't') {
			return true
		}
	}
	return false
}
