package rules

import (
	"go/token"
	"go/types"
	"reflect"
	"strings"

	"golang.org/x/tools/go/ssa"

	"verif/sa/core"
)

func init() {
	register(&Property{
		ID:    "C19",
		Level: "other",
		Explanation: "Structural necessary conditions on JSONHybridHandler, decided on go/types and SSA: (R1) the value given to json.Encoder.Encode is a struct with exactly the members " +
			"\"severity\" (string) and \"message\" (string or TextMarshaler), no omitempty, no embedding; (R2) at most one Encode per Handle and every path without an Encode returns a non-nil " +
			"error; (R3) Encode runs only with the handler's mutex held, the mutex and the encoder are pointers that WithAttrs copies from the same receiver (one lock per writer for the whole " +
			"derivation tree), the writer is reachable only through the encoder; (R4) the derived handler's attributes are append(slices.Clip(h.textAttrs), ...) or a fresh slice, and no method " +
			"stores through the receiver; (R5) pool typestate: Get, deferred Put of the same object to the same pool, reset before use, the deferred Put registered before the Unlock so it runs " +
			"after the encode; (R6) severity is \"ERROR\" iff level >= slog.LevelError else \"NORMAL\"; Enabled is level >= h.level.Level(); (R7) the message is the pooled text handler's " +
			"output without its last byte, rendered after r.AddAttrs(h.textAttrs...). Not decided: JSON well-formedness for every byte (encoding/json) and the exact slog.TextHandler text.",
		Technique: "go/types struct-shape check, lockset dataflow, path event counting, pool typestate and provenance rules on SSA",
		Note:      "Trusted: go/ssa, encoding/json framing (one Encode = one newline-terminated object), slog.TextHandler lines end in '\\n'.",
		DesignRef: "DESIGN.md section 4, C19",
		Run:       runC19,
	})
}

func runC19(c *Ctx) {
	c.L.Trust("go/types + go/ssa", "json.Encoder.Encode writes exactly one newline-terminated JSON value", "slog.TextHandler output ends with a newline")
	c.L.Floor("C19.json-shape", 3)
	c.L.Floor("C19.one-encode", 3)
	c.L.Floor("C19.encode-locked", 1)
	c.L.Floor("C19.shared-lock", 3)
	c.L.Floor("C19.attrs-isolated", 1)
	c.L.Floor("C19.attrs-accumulate", 1)
	c.L.Floor("C19.immutable-handler", 1)
	c.L.Floor("C19.pool", 3)
	c.L.Floor("C19.severity", 2)
	c.L.Floor("C19.message", 2)

	h := c.fn("logutil/slogutil", "JSONHybridHandler.Handle")
	wa := c.fn("logutil/slogutil", "JSONHybridHandler.WithAttrs")
	ctor := c.fn("logutil/slogutil", "NewJSONHybridHandler")
	mk := c.fn("logutil/slogutil", "newJSONHybridMessage")
	en := c.fn("logutil/slogutil", "JSONHybridHandler.Enabled")
	if h == nil {
		return
	}
	recv := h.Params[0]
	var enc *ssa.Call
	encs := core.CallsTo(h, "(*encoding/json.Encoder).Encode")
	for _, ci := range encs {
		enc = ci.(*ssa.Call)
	}
	// ---- R1 ----
	if enc != nil {
		v := core.Unwrap(enc.Call.Args[1])
		t := v.Type()
		if p, ok := t.Underlying().(*types.Pointer); ok {
			t = p.Elem()
		}
		st, ok := t.Underlying().(*types.Struct)
		if !ok {
			c.check(false, "C19.json-shape", h, "encoded value is a struct", enc, "type "+t.String())
		} else {
			names := map[string]types.Type{}
			okTags := true
			for i := 0; i < st.NumFields(); i++ {
				f := st.Field(i)
				tag := reflect.StructTag(st.Tag(i)).Get("json")
				parts := strings.Split(tag, ",")
				name := parts[0]
				if name == "" {
					name = f.Name()
				}
				if f.Embedded() || !f.Exported() || name == "-" || len(parts) > 1 {
					okTags = false
				}
				names[name] = f.Type()
			}
			_, hasS := names["severity"]
			_, hasM := names["message"]
			c.check(okTags && len(names) == 2 && hasS && hasM, "C19.json-shape", h, "exactly the members \"severity\" and \"message\", always present", enc,
				sprintf("struct %s has JSON members %v", types.TypeString(t, nil), keysOf(names)))
			if hasS {
				c.check(isStringType(names["severity"]), "C19.json-shape", h, "\"severity\" is a JSON string", enc, "type "+names["severity"].String())
			}
			if hasM {
				mt := names["message"]
				okM := isStringType(mt) || hasMethod(mt, "MarshalText")
				c.check(okM, "C19.json-shape", h, "\"message\" is a JSON string (string or TextMarshaler)", enc, "type "+mt.String())
			}
		}
	}
	// ---- R2 ----
	isEnc := func(in ssa.Instruction) bool {
		call, ok := in.(*ssa.Call)
		return ok && core.CalleeName(&call.Call) == "(*encoding/json.Encoder).Encode"
	}
	for _, ret := range core.Returns(h) {
		if ret.Block() == h.Recover {
			continue
		}
		mn, mx, ok := core.CountOnPaths(h, nil, ret, isEnc)
		if !ok {
			continue
		}
		if mn == 0 {
			// this return must be an error return
			nonNil := false
			for _, v := range returnedErrValues(h, ret) {
				if _, isCall := v.(*ssa.Call); isCall && !core.IsNilConst(v) {
					nonNil = true
				}
				if _, isMI := v.(*ssa.MakeInterface); isMI {
					nonNil = true
				}
			}
			c.check(mx == 0 && nonNil, "C19.one-encode", h, "a path without Encode returns a non-nil error", ret, "a record is either written once or reported as an error")
			// ... and the only thing that may fail before the line is written
			// is the rendering itself: the return lies behind the text handler's
			// Handle, under its error.  (An early exit on a done context, a
			// level re-check, a rate limit drop records: slog discards the
			// error a handler returns.)
			var textCalls []*ssa.Call
			isText := func(in ssa.Instruction) bool {
				call, ok := in.(*ssa.Call)
				return ok && strings.HasSuffix(core.CalleeName(&call.Call), "log/slog.TextHandler).Handle")
			}
			core.EachInstr(h, func(in ssa.Instruction) {
				if isText(in) {
					textCalls = append(textCalls, in.(*ssa.Call))
				}
			})
			tmn, _, tok := core.CountOnPaths(h, nil, ret, isText)
			underErr := false
			for _, tc := range textCalls {
				if factNonNil(core.Facts(h).At(ret.Block()), tc) {
					underErr = true
				}
			}
			if !underErr {
				// the error may have travelled through a helper's result (a phi of
				// the text handler's error and nil) or a wrapper before it is tested
				for _, g := range core.Facts(h).At(ret.Block()) {
					cond, truth := core.StripNot(g.Cond, g.Truth)
					bo, isBo := cond.(*ssa.BinOp)
					if !isBo || (bo.Op != token.NEQ && bo.Op != token.EQL) || (bo.Op == token.NEQ) != truth {
						continue
					}
					x := bo.X
					if core.IsNilConst(x) {
						x = bo.Y
					} else if !core.IsNilConst(bo.Y) {
						continue
					}
					if onlyFromTextErr(x, textCalls, 0) {
						underErr = true
					}
				}
			}
			c.check(tok && tmn >= 1 && underErr, "C19.one-encode", h, "a record is given up only when its rendering failed", ret,
				"every handled record produces one line: the only return without an Encode is the one under the text handler's error")
		} else {
			c.check(mn == 1 && mx == 1, "C19.one-encode", h, "exactly one Encode on the success path", ret, sprintf("Encode calls: min %d max %d", mn, mx))
		}
	}
	if len(encs) == 0 {
		c.check(false, "C19.one-encode", h, "json.Encoder.Encode call", nil, "no line is written")
	}
	// ---- R3 ----
	li := core.Locksets(h)
	if enc != nil {
		held := false
		for l := range li.Must[enc] {
			if strings.HasSuffix(l, ".mu") {
				held = true
			}
		}
		c.check(held, "C19.encode-locked", h, "Encode runs with h.mu held", enc, "lines of concurrent records must not interleave; must-held: "+core.Held(li.Must[enc]))
		name, base, ok := core.IsLoadOfField(enc.Call.Args[0])
		c.check(ok && name == "encoder" && base == recv, "C19.encode-locked", h, "the encoder is h.encoder", enc, "the shared encoder of the derivation tree")
	}
	// field types: pointers (shared), copied in WithAttrs from the same receiver
	tp := c.P.TPkg("logutil/slogutil")
	if obj := tp.Types.Scope().Lookup("JSONHybridHandler"); obj != nil {
		if st, ok := obj.Type().Underlying().(*types.Struct); ok {
			for i := 0; i < st.NumFields(); i++ {
				f := st.Field(i)
				if f.Name() == "mu" || f.Name() == "encoder" {
					_, isPtr := f.Type().Underlying().(*types.Pointer)
					c.check(isPtr, "C19.shared-lock", nil, "field "+f.Name()+" is a pointer shared by derived handlers", nil,
						"a per-handler mutex value does not serialise handlers that write to the same encoder")
				}
			}
		}
	}
	if wa != nil {
		r := wa.Params[0]
		var lit *ssa.Alloc
		for _, ret := range core.Returns(wa) {
			lit, _ = core.Unwrap(ret.Results[0]).(*ssa.Alloc)
		}
		if lit == nil {
			c.undecided("C19.shared-lock", wa, "derived handler literal", nil, "WithAttrs does not return a fresh handler literal")
		} else {
			stored := map[string]ssa.Value{}
			for _, rr := range core.Refs(lit) {
				if fa, ok := rr.(*ssa.FieldAddr); ok {
					for _, r2 := range core.Refs(fa) {
						if st, ok := r2.(*ssa.Store); ok {
							stored[core.FieldName(fa)] = st.Val
						}
					}
				}
			}
			for _, fname := range []string{"mu", "encoder", "bufTextPool", "level"} {
				name, base, ok := core.IsLoadOfField(stored[fname])
				c.check(stored[fname] != nil && ok && name == fname && base == r, "C19.shared-lock", wa, "derived."+fname+" = h."+fname, nil,
					"the derived handler writes to the same encoder, so it must share the same mutex (and pool, level)")
			}
			// R4
			ta := stored["textAttrs"]
			why, good := "textAttrs not set", false
			// the backing array of the stored slice is not shared with the parent:
			// append onto a base that is itself unshared (recursively)
			var unshared func(v ssa.Value, depth int) (string, bool)
			unshared = func(v ssa.Value, depth int) (string, bool) {
				if depth > 6 {
					return "append chain too long", false
				}
				switch x := v.(type) {
				case *ssa.MakeSlice:
					return "fresh slice", true
				case *ssa.Const:
					return "nil slice", x.IsNil()
				case *ssa.Slice:
					if x.Max != nil {
						return "three-index slice (capacity clipped)", true
					}
					if w, ok := unshared(x.X, depth+1); ok {
						return "reslice of " + w, true
					}
					return "append onto a plain reslice of the parent's attributes", false
				case *ssa.Call:
					if b, isB := x.Call.Value.(*ssa.Builtin); isB && b.Name() == "append" {
						w, ok := unshared(x.Call.Args[0], depth+1)
						if ok {
							return "append onto " + w, true
						}
						return w, false
					}
					n := core.CalleeName(&x.Call)
					if n == "slices.Clip" || n == "slices.Clone" || strings.HasPrefix(n, "slices.Concat") {
						return n + " (no spare capacity shared)", true
					}
					return "append onto the result of " + n, false
				}
				if name, _, ok := core.IsLoadOfField(v); ok && name == "textAttrs" {
					return "append(h.textAttrs, ...) may write into spare capacity shared with the parent and with sibling handlers", false
				}
				return "unrecognised base " + core.Describe(v), false
			}
			if ta != nil {
				if call, ok := ta.(*ssa.Call); ok {
					if b, isB := call.Call.Value.(*ssa.Builtin); isB && b.Name() == "append" {
						why, good = unshared(call.Call.Args[0], 0)
					} else {
						why, good = unshared(ta, 0)
					}
				} else {
					why, good = unshared(ta, 0)
				}
			}
			c.check(good, "C19.attrs-isolated", wa, "derived.textAttrs does not share spare capacity with the parent", nil, why)
			// accumulation: the derived attributes are the parent's followed by the new ones
			var contents func(v ssa.Value, depth int) ([]string, bool)
			contents = func(v ssa.Value, depth int) ([]string, bool) {
				if depth > 6 {
					return nil, false
				}
				if name, base, ok := core.IsLoadOfField(v); ok && name == "textAttrs" && base == r {
					return []string{"parent"}, true
				}
				if len(wa.Params) > 1 && v == ssa.Value(wa.Params[1]) {
					return []string{"new"}, true
				}
				switch x := v.(type) {
				case *ssa.Const:
					if x.Value == nil {
						return nil, true
					}
				case *ssa.MakeSlice:
					if k, isK := core.ConstInt(x.Len); isK && k == 0 {
						return nil, true
					}
					return nil, false // zero-valued elements in front
				case *ssa.Slice:
					if x.Low == nil {
						if x.High == nil {
							return contents(x.X, depth+1)
						}
						if lc, ok := x.High.(*ssa.Call); ok && core.CalleeName(&lc.Call) == "builtin.len" {
							same := lc.Call.Args[0] == x.X
							// two reads of the same field of the (immutable) handler
							n1, b1, ok1 := core.IsLoadOfField(lc.Call.Args[0])
							n2, b2, ok2 := core.IsLoadOfField(x.X)
							if ok1 && ok2 && n1 == n2 && b1 == b2 {
								same = true
							}
							if same {
								return contents(x.X, depth+1)
							}
						}
					}
				case *ssa.Call:
					n := core.CalleeName(&x.Call)
					switch {
					case n == "builtin.append" && len(x.Call.Args) == 2:
						a, ok1 := contents(x.Call.Args[0], depth+1)
						b, ok2 := contents(x.Call.Args[1], depth+1)
						return append(append([]string{}, a...), b...), ok1 && ok2
					case strings.HasPrefix(n, "slices.Clip"), strings.HasPrefix(n, "slices.Clone"), strings.HasPrefix(n, "slices.Grow"):
						return contents(x.Call.Args[0], depth+1)
					case strings.HasPrefix(n, "slices.Concat") && len(x.Call.Args) == 1:
						// the variadic operands, in order
						sl, isSl := x.Call.Args[0].(*ssa.Slice)
						if !isSl {
							return nil, false
						}
						al, isAl := sl.X.(*ssa.Alloc)
						if !isAl {
							return nil, false
						}
						parts := map[int64]ssa.Value{}
						for _, r := range core.Refs(al) {
							ia, isIA := r.(*ssa.IndexAddr)
							if !isIA {
								continue
							}
							k, isK := core.ConstInt(ia.Index)
							for _, rr := range core.Refs(ia) {
								if st, isSt := rr.(*ssa.Store); isSt && isK {
									parts[k] = st.Val
								}
							}
						}
						var out []string
						for k := int64(0); k < int64(len(parts)); k++ {
							pv, okP := parts[k]
							if !okP {
								return nil, false
							}
							cs, okC := contents(pv, depth+1)
							if !okC {
								return nil, false
							}
							out = append(out, cs...)
						}
						return out, len(parts) > 0
					}
				}
				return nil, false
			}
			got, okC := contents(ta, 0)
			c.check(okC && reflect.DeepEqual(got, []string{"parent", "new"}), "C19.attrs-accumulate", wa, "derived.textAttrs == h.textAttrs followed by attrs", nil,
				sprintf("contents by construction: %v (recognised: %v) — attributes of every ancestor must reach the records of a handler derived through a chain of WithAttrs calls", got, okC))
		}
	}
	// no method stores through the receiver
	nst := 0
	for _, f := range c.P.Funcs("logutil/slogutil") {
		if f.Signature.Recv() == nil || core.NamedOf(f.Signature.Recv().Type()) != "JSONHybridHandler" {
			continue
		}
		c.L.Saw(core.FuncName(f))
		core.EachInstr(f, func(in ssa.Instruction) {
			if st, ok := in.(*ssa.Store); ok {
				if fa, ok := st.Addr.(*ssa.FieldAddr); ok && fa.X == ssa.Value(f.Params[0]) {
					nst++
					c.check(false, "C19.immutable-handler", f, "store to h."+core.FieldName(fa), st, "handlers are shared between goroutines and between derived handlers: methods must not modify the receiver")
				}
			}
		})
	}
	c.check(nst == 0, "C19.immutable-handler", nil, "no method of JSONHybridHandler stores through its receiver", nil, "all state is set by the constructor / WithAttrs on a fresh object")
	// writer only through the encoder
	if ctor != nil {
		okW := true
		for _, r := range core.Refs(ctor.Params[0]) {
			switch x := r.(type) {
			case *ssa.Call:
				if core.CalleeName(&x.Call) != "encoding/json.NewEncoder" {
					okW = false
				}
			case *ssa.DebugRef:
			default:
				okW = false
			}
		}
		c.check(okW, "C19.encode-locked", ctor, "the writer is handed only to json.NewEncoder", nil, "nothing else can write to it behind the mutex's back")
	}
	// ---- R5 pool ----
	var get *ssa.Call
	for _, ci := range core.AllCalls(h) {
		if call, ok := ci.(*ssa.Call); ok && strings.HasSuffix(core.CalleeName(&call.Call), "syncutil.Pool[T]).Get") {
			get = call
		}
	}
	if get == nil {
		c.undecided("C19.pool", h, "pool Get", nil, "not found")
	} else {
		var put *ssa.Defer
		core.EachInstr(h, func(in ssa.Instruction) {
			if d, ok := in.(*ssa.Defer); ok && strings.HasSuffix(core.CalleeName(&d.Call), "syncutil.Pool[T]).Put") {
				put = d
			}
		})
		okPut := put != nil && put.Call.Args[1] == ssa.Value(get) && sameValue(put.Call.Args[0], get.Call.Args[0])
		c.check(okPut, "C19.pool", h, "defer pool.Put(x) of the object obtained from the same pool", put, "the buffer goes back exactly once, at the end of Handle")
		// non-deferred Put anywhere is an early return of the buffer
		core.EachInstr(h, func(in ssa.Instruction) {
			if call, ok := in.(*ssa.Call); ok && strings.HasSuffix(core.CalleeName(&call.Call), "syncutil.Pool[T]).Put") {
				c.check(false, "C19.pool", h, "non-deferred Put", call, "the pooled buffer (which the message aliases) must stay owned until Encode has run")
			}
		})
		// registered before the Unlock defer => runs after it (LIFO), i.e. after Encode
		var unl *ssa.Defer
		core.EachInstr(h, func(in ssa.Instruction) {
			if d, ok := in.(*ssa.Defer); ok && core.CalleeName(&d.Call) == "(*sync.Mutex).Unlock" {
				unl = d
			}
		})
		if put != nil && enc != nil {
			c.check(core.Dominates(put, enc), "C19.pool", h, "the deferred Put is registered before Encode (runs after it)", put, "defers run last-in first-out at return")
		}
		_ = unl
		// reset before use
		var reset *ssa.Call
		for _, ci := range core.AllCalls(h) {
			if call, ok := ci.(*ssa.Call); ok && call.Call.StaticCallee() != nil && call.Call.StaticCallee().Name() == "reset" && len(call.Call.Args) > 0 && call.Call.Args[0] == ssa.Value(get) {
				reset = call
			}
		}
		okReset := reset != nil
		if reset != nil {
			for _, r := range core.Refs(get) {
				switch r.(type) {
				case *ssa.Defer, *ssa.DebugRef:
					continue
				}
				if r != ssa.Instruction(reset) && !core.Dominates(reset, r) {
					okReset = false
				}
			}
		}
		c.check(okReset, "C19.pool", h, "x.reset() before any other use of the pooled object", reset, "no bytes of a previous record leak into this one")
		// nothing derived from the pooled object is stored in longer-lived memory or passed to go
		core.EachInstr(h, func(in ssa.Instruction) {
			if g, ok := in.(*ssa.Go); ok {
				c.check(false, "C19.pool", h, "goroutine started in Handle", g, "pooled state must not outlive the call")
			}
		})
	}
	// the pooled pair (buffer, TextHandler writing into it) is wired once, in
	// the constructor; re-pointing either field afterwards detaches the text
	// handler from the buffer Handle reads the line from
	c.L.Floor("C19.pool.pair-fixed", 2)
	nctor := 0
	for _, fn := range c.P.Funcs("logutil/slogutil") {
		core.EachInstr(fn, func(in ssa.Instruction) {
			st, ok := in.(*ssa.Store)
			if !ok {
				return
			}
			fa, ok := st.Addr.(*ssa.FieldAddr)
			if !ok || core.NamedOf(fa.X.Type()) != "bufferedTextHandler" {
				return
			}
			name := core.FieldName(fa)
			if fn.Name() != "newBufferedTextHandler" {
				c.check(false, "C19.pool.pair-fixed", fn, "store to bufferedTextHandler."+name+" outside the constructor", st,
					"the text handler keeps writing to the buffer it was built over; a replaced buffer stays empty and Handle reads an empty line")
				return
			}
			nctor++
			switch name {
			case "handler":
				okH := false
				if call, ok := st.Val.(*ssa.Call); ok && core.CalleeName(&call.Call) == "log/slog.NewTextHandler" {
					w := core.Unwrap(call.Call.Args[0])
					// the same *bytes.Buffer that is stored in .buffer
					for _, r := range core.Refs(fa.X) {
						if fb, ok := r.(*ssa.FieldAddr); ok && core.FieldName(fb) == "buffer" {
							for _, rr := range core.Refs(fb) {
								if sb, ok := rr.(*ssa.Store); ok && sb.Val == w {
									okH = true
								}
							}
						}
					}
				}
				c.check(okH, "C19.pool.pair-fixed", fn, "handler = slog.NewTextHandler(<the value stored in .buffer>, opts)", st, "the line Handle reads is the line the text handler wrote")
			case "buffer":
				c.check(true, "C19.pool.pair-fixed", fn, "buffer set in the constructor", st, "wired once")
			}
		})
	}
	if nctor == 0 {
		c.undecided("C19.pool.pair-fixed", nil, "constructor of bufferedTextHandler", nil, "no field initialisation found in newBufferedTextHandler")
	}
	poolNewFresh(c, "C19", []string{"logutil/slogutil"}, 1)
	c19TextOptions(c)
	// ---- R6 ----
	if mk != nil {
		lvl := mk.Params[0]
		var sev ssa.Value
		core.EachInstr(mk, func(in ssa.Instruction) {
			if st, ok := in.(*ssa.Store); ok {
				if fa, ok := st.Addr.(*ssa.FieldAddr); ok && core.FieldName(fa) == "Severity" {
					sev = st.Val
				}
			}
		})
		// the constructor is run, abstractly, for levels around the threshold:
		// branch conditions are evaluated on the level, phis take the value of
		// the edge actually taken, and the string stored in Severity is compared
		// with the specification
		_ = sev
		okSev := true
		for _, k := range []int64{-8, -4, 0, 4, 7, 8, 9, 12} {
			got, ok := concreteStoredString(mk, map[ssa.Value]int64{lvl: k}, "Severity")
			want := "NORMAL"
			if k >= 8 {
				want = "ERROR"
			}
			if !ok || got != want {
				okSev = false
			}
		}
		c.check(okSev, "C19.severity", mk, "severity == \"ERROR\" iff level >= slog.LevelError (8), else \"NORMAL\"", nil, "decision evaluated at the levels around every threshold")
		okMsg := false
		core.EachInstr(mk, func(in ssa.Instruction) {
			if st, ok := in.(*ssa.Store); ok {
				if fa, ok := st.Addr.(*ssa.FieldAddr); ok && core.FieldName(fa) == "Message" && st.Val == ssa.Value(mk.Params[1]) {
					okMsg = true
				}
			}
		})
		c.check(okMsg, "C19.message", mk, "Message is the text passed in", nil, "no transformation of the message")
	}
	if en != nil {
		// the result as a function of (l, threshold), evaluated on a grid: the
		// threshold is whatever h.level.Level() returns
		okEn := false
		var lvCalls []ssa.Value
		core.EachInstr(en, func(in ssa.Instruction) {
			if call, ok := in.(*ssa.Call); ok && call.Call.IsInvoke() && call.Call.Method.Name() == "Level" {
				lvCalls = append(lvCalls, call)
			}
		})
		rets := core.Returns(en)
		if len(lvCalls) >= 1 && len(rets) == 1 {
			okEn = true
			for _, l := range []int64{-8, -4, 0, 3, 4, 8, 12} {
				for _, t := range []int64{-4, 0, 4, 8} {
					env := map[ssa.Value]int64{en.Params[2]: l}
					for _, lc := range lvCalls {
						env[lc] = t
					}
					v, ok := evalSmall(rets[0].Results[0], env, 0)
					if !ok || (v != 0) != (l >= t) {
						okEn = false
					}
				}
			}
		}
		c.check(okEn, "C19.severity", en, "Enabled(l) == (l >= h.level.Level())", nil, "threshold semantics")
	}
	// ---- R7 ----
	if enc != nil && mk != nil {
		var mkCall *ssa.Call
		for _, ci := range core.AllCalls(h) {
			if call, ok := ci.(*ssa.Call); ok && call.Call.StaticCallee() == mk {
				mkCall = call
			}
		}
		okData := mkCall != nil && core.Unwrap(enc.Call.Args[1]) == ssa.Value(mkCall)
		okLvl, okTxt := false, false
		if mkCall != nil {
			if name, _, ok := core.IsLoadOfField(mkCall.Call.Args[0]); ok && name == "Level" {
				okLvl = true
			}
			// every text that may arrive (phis of an inlined helper included) is the
			// pooled buffer's bytes minus the last one; a nil text arrives only
			// together with a non-nil error, under which the message is not built
			isCut := func(v ssa.Value) bool {
				v = core.Unwrap(v)
				sl, ok := v.(*ssa.Slice)
				if !ok || sl.Low != nil {
					return false
				}
				b, ok := sl.High.(*ssa.BinOp)
				if !ok || b.Op != token.SUB {
					return false
				}
				if k, isK := core.ConstInt(b.Y); !isK || k != 1 {
					return false
				}
				bc, ok := core.Unwrap(sl.X).(*ssa.Call)
				if !ok || core.CalleeName(&bc.Call) != "(*bytes.Buffer).Bytes" {
					return false
				}
				name, base, ok := core.IsLoadOfField(bc.Call.Args[0])
				return ok && name == "buffer" && get != nil && base == ssa.Value(get)
			}
			hf := core.Facts(h)
			nCut := 0
			okTxt = true
			for _, lf := range hf.Leaves(mkCall.Call.Args[1], mkCall) {
				switch {
				case isCut(lf.V):
					nCut++
				case core.IsNilConst(lf.V) && lf.From != nil && nilTextOnlyWithError(hf, mkCall, lf.From):
				default:
					okTxt = false
				}
			}
			okTxt = okTxt && nCut > 0
		}
		c.check(okData && okLvl && okTxt, "C19.message", h, "Encode(newJSONHybridMessage(r.Level, pooled text minus its last byte))", enc, "the message is the TextHandler line without the trailing newline")
		// AddAttrs(h.textAttrs...) before the text handler runs
		var add, th *ssa.Call
		for _, ci := range core.AllCalls(h) {
			call, ok := ci.(*ssa.Call)
			if !ok {
				continue
			}
			switch core.CalleeName(&call.Call) {
			case "(*log/slog.Record).AddAttrs":
				add = call
			case "(*log/slog.TextHandler).Handle":
				th = call
			}
		}
		okAdd := add != nil && th != nil && core.Dominates(add, th)
		if okAdd {
			name, base, ok := core.IsLoadOfField(add.Call.Args[1])
			okAdd = ok && name == "textAttrs" && base == recv
		}
		c.check(okAdd, "C19.message", h, "r.AddAttrs(h.textAttrs...) before the text is rendered", add, "accumulated attributes are appended to every record")
		// the record rendered is the record received: the cell AddAttrs works on
		// holds the parameter r and is what TextHandler.Handle gets (a rebuilt
		// record loses the source location, and anything added to slog.Record later)
		okRec := false
		if add != nil && th != nil && len(h.Params) >= 3 {
			cell, isAl := add.Call.Args[0].(*ssa.Alloc)
			if isAl {
				// the cell holds the parameter r, directly or through whole-value
				// copies (a by-value helper parameter)
				var holdsParam func(cell *ssa.Alloc, depth int) bool
				holdsParam = func(cell *ssa.Alloc, depth int) bool {
					inits := 0
					var val ssa.Value
					for _, r := range core.Refs(cell) {
						if st, isSt := r.(*ssa.Store); isSt && st.Addr == ssa.Value(cell) {
							inits++
							val = st.Val
						}
					}
					if inits != 1 || depth > 3 {
						return false
					}
					if val == ssa.Value(h.Params[2]) {
						return true
					}
					if ld, isLd := val.(*ssa.UnOp); isLd && ld.Op == token.MUL {
						if src, isA := ld.X.(*ssa.Alloc); isA {
							// the source must not have been changed before the copy
							for _, r := range core.Refs(src) {
								if call, isC := r.(*ssa.Call); isC && core.Dominates(call, ld) {
									return false
								}
							}
							return holdsParam(src, depth+1)
						}
					}
					return false
				}
				if ld, isLd := th.Call.Args[2].(*ssa.UnOp); isLd && ld.Op == token.MUL && ld.X == ssa.Value(cell) && holdsParam(cell, 0) {
					okRec = true
				}
			}
		}
		c.check(okRec, "C19.message", h, "the text handler renders the received record r itself (after AddAttrs)", th,
			"the message must be exactly the line slog.TextHandler prints for that record (time, level, source, message, attributes)")
	}
}

func keysOf(m map[string]types.Type) []string {
	var out []string
	for k := range m {
		out = append(out, k)
	}
	return out
}

func hasMethod(t types.Type, name string) bool {
	for _, tt := range []types.Type{t, types.NewPointer(t)} {
		ms := types.NewMethodSet(tt)
		for i := 0; i < ms.Len(); i++ {
			if ms.At(i).Obj().Name() == name {
				return true
			}
		}
	}
	return false
}

// returnedErrValues: the values the (named) error result may hold at ret.
func returnedErrValues(f *ssa.Function, ret *ssa.Return) []ssa.Value {
	var out []ssa.Value
	seen := map[ssa.Value]bool{}
	var resolve func(v ssa.Value, at ssa.Instruction, depth int)
	resolve = func(v ssa.Value, at ssa.Instruction, depth int) {
		if seen[v] || depth > 6 {
			return
		}
		seen[v] = true
		if ld, ok := v.(*ssa.UnOp); ok && ld.Op == token.MUL {
			// last store to the cell that dominates the use (a named result that
			// is stored, tested and stored back is followed to the value it got)
			var best *ssa.Store
			for _, r := range core.Refs(ld.X) {
				if st, ok := r.(*ssa.Store); ok && st.Addr == ld.X && core.Dominates(st, at) {
					if best == nil || core.Dominates(best, st) {
						best = st
					}
				}
			}
			if best != nil {
				for _, w := range flattenPhi(best.Val) {
					resolve(w, best, depth+1)
				}
			}
			return
		}
		out = append(out, v)
	}
	for _, w := range flattenPhi(ret.Results[len(ret.Results)-1]) {
		resolve(w, ret, 0)
	}
	return out
}

// edgeCondition: the branch condition and outcome under which control goes
// from pred to succ (looking through an empty forwarding block).
func edgeCondition(pred, succ *ssa.BasicBlock) (ssa.Value, bool, bool) {
	if iff, ok := pred.Instrs[len(pred.Instrs)-1].(*ssa.If); ok {
		return iff.Cond, pred.Succs[0] == succ, true
	}
	// pred is a forwarding block with a single predecessor ending in If
	if len(pred.Preds) == 1 {
		pp := pred.Preds[0]
		if iff, ok := pp.Instrs[len(pp.Instrs)-1].(*ssa.If); ok {
			return iff.Cond, pp.Succs[0] == pred, true
		}
	}
	return nil, false, false
}

// evalCmpAt evaluates a comparison of v with a constant at v = k.
func evalCmpAt(cond ssa.Value, v ssa.Value, k int64) (bool, bool) {
	cond, truth := core.StripNot(cond, true)
	b, ok := cond.(*ssa.BinOp)
	if !ok {
		return false, false
	}
	var x, y int64
	switch {
	case b.X == v:
		c, isK := core.ConstInt(b.Y)
		if !isK {
			return false, false
		}
		x, y = k, c
	case b.Y == v:
		c, isK := core.ConstInt(b.X)
		if !isK {
			return false, false
		}
		x, y = c, k
	default:
		return false, false
	}
	var r bool
	switch b.Op {
	case token.EQL:
		r = x == y
	case token.NEQ:
		r = x != y
	case token.LSS:
		r = x < y
	case token.LEQ:
		r = x <= y
	case token.GTR:
		r = x > y
	case token.GEQ:
		r = x >= y
	default:
		return false, false
	}
	return r == truth, true
}

// nilTextOnlyWithError: the nil text arrives from predecessor `from` of a join
// where an error phi takes a non-nil value on the same edge, and the message
// constructor runs only when that error is nil.
func nilTextOnlyWithError(fs *core.FactSet, mk ssa.Instruction, from *ssa.BasicBlock) bool {
	for _, sc := range from.Succs {
		for _, in := range sc.Instrs {
			ephi, ok := in.(*ssa.Phi)
			if !ok {
				break
			}
			if !types.Implements(ephi.Type(), errorIface()) && ephi.Type().String() != "error" {
				continue
			}
			for i, p := range sc.Preds {
				if p != from || core.IsNilConst(ephi.Edges[i]) {
					continue
				}
				// mk is reached only with ephi == nil
				for _, g := range fs.At(mk.Block()) {
					cond, truth := core.StripNot(g.Cond, g.Truth)
					bo, ok := cond.(*ssa.BinOp)
					if !ok || (bo.Op != token.EQL && bo.Op != token.NEQ) {
						continue
					}
					if (core.LoadSource(bo.X) == ssa.Value(ephi) && core.IsNilConst(bo.Y)) || (core.LoadSource(bo.Y) == ssa.Value(ephi) && core.IsNilConst(bo.X)) {
						if (bo.Op == token.EQL) == truth {
							return true
						}
					}
				}
			}
		}
	}
	return false
}

func errorIface() *types.Interface {
	return types.Universe.Lookup("error").Type().Underlying().(*types.Interface)
}

// concreteStoredString walks the function along the one path selected by the
// integer valuation env (every branch condition must be decided by it) and
// returns the string constant stored last into the named field.
func concreteStoredString(f *ssa.Function, env map[ssa.Value]int64, field string) (string, bool) {
	strs := map[ssa.Value]string{}
	str := func(v ssa.Value) (string, bool) {
		if s, ok := core.ConstString(v); ok {
			return s, true
		}
		s, ok := strs[v]
		return s, ok
	}
	blk := f.Blocks[0]
	var prev *ssa.BasicBlock
	result, have := "", false
	cells := map[ssa.Value]string{}
	for steps := 0; steps < 200; steps++ {
		next := (*ssa.BasicBlock)(nil)
		for _, in := range blk.Instrs {
			switch x := in.(type) {
			case *ssa.Phi:
				for i, p := range blk.Preds {
					if p != prev {
						continue
					}
					if s, ok := str(x.Edges[i]); ok {
						strs[x] = s
					}
					if k, ok := evalSmall(x.Edges[i], env, 0); ok {
						env[x] = k
					}
				}
			case *ssa.Store:
				if fa, ok := x.Addr.(*ssa.FieldAddr); ok && core.FieldName(fa) == field {
					if s, ok := str(x.Val); ok {
						result, have = s, true
					} else {
						have = false
					}
				} else if s, ok := str(x.Val); ok {
					cells[x.Addr] = s
				}
			case *ssa.UnOp:
				if x.Op == token.MUL {
					if s, ok := cells[x.X]; ok {
						strs[x] = s
					}
				}
			case *ssa.If:
				v, ok := evalSmall(x.Cond, env, 0)
				if !ok {
					return "", false
				}
				if v != 0 {
					next = blk.Succs[0]
				} else {
					next = blk.Succs[1]
				}
			case *ssa.Jump:
				next = blk.Succs[0]
			case *ssa.Return:
				return result, have
			case *ssa.Panic:
				return "", false
			}
		}
		if next == nil {
			return "", false
		}
		prev, blk = blk, next
	}
	return "", false
}

// c19TextOptions: the options that configure the pooled slog.TextHandler are
// the caller's options themselves (or a whole copy): the message must be the
// line slog.TextHandler prints for the record *with those options* — a copy
// that takes over some fields only (Level and ReplaceAttr but not AddSource)
// prints another line.
func c19TextOptions(c *Ctx) {
	c.L.Floor("C19.text-options", 2)
	ctor := c.P.Func("logutil/slogutil", "NewJSONHybridHandler")
	nb := c.P.Func("logutil/slogutil", "newBufferedTextHandler")
	if ctor == nil || len(ctor.Params) < 2 {
		c.undecided("C19.text-options", nil, "NewJSONHybridHandler(w, opts)", nil, "constructor not found")
		return
	}
	opts := ctor.Params[1]
	// roots of a value: through phis, conversions, local cells and the cells
	// captured by closures
	var roots func(v ssa.Value, depth int, seen map[ssa.Value]bool) []ssa.Value
	roots = func(v ssa.Value, depth int, seen map[ssa.Value]bool) []ssa.Value {
		if seen[v] || depth > 10 {
			return nil
		}
		seen[v] = true
		switch x := v.(type) {
		case *ssa.Phi:
			var out []ssa.Value
			for _, e := range x.Edges {
				out = append(out, roots(e, depth+1, seen)...)
			}
			return out
		case *ssa.ChangeType:
			return roots(x.X, depth+1, seen)
		case *ssa.UnOp:
			if x.Op != token.MUL {
				return []ssa.Value{v}
			}
			cell := x.X
			if fv, ok := cell.(*ssa.FreeVar); ok {
				fn := fv.Parent()
				idx := -1
				for i, f := range fn.FreeVars {
					if f == fv {
						idx = i
					}
				}
				var out []ssa.Value
				if p := fn.Parent(); p != nil && idx >= 0 {
					core.EachInstr(p, func(in ssa.Instruction) {
						if mc, ok := in.(*ssa.MakeClosure); ok && mc.Fn == ssa.Value(fn) && idx < len(mc.Bindings) {
							out = append(out, roots(&ssa.UnOp{Op: token.MUL, X: mc.Bindings[idx]}, depth+1, seen)...)
						}
					})
				}
				return out
			}
			if al, ok := cell.(*ssa.Alloc); ok {
				var out []ssa.Value
				for _, r := range core.Refs(al) {
					if st, ok := r.(*ssa.Store); ok && st.Addr == ssa.Value(al) {
						out = append(out, roots(st.Val, depth+1, seen)...)
					}
				}
				if len(out) > 0 {
					return out
				}
			}
			return []ssa.Value{v}
		}
		return []ssa.Value{v}
	}
	isWholeCopyOf := func(al *ssa.Alloc, src ssa.Value) bool {
		whole := 0
		for _, r := range core.Refs(al) {
			switch x := r.(type) {
			case *ssa.Store:
				if x.Addr != ssa.Value(al) {
					continue
				}
				ld, ok := x.Val.(*ssa.UnOp)
				if !ok || ld.Op != token.MUL {
					return false
				}
				okSrc := false
				for _, rt := range roots(ld.X, 0, map[ssa.Value]bool{}) {
					if rt == src {
						okSrc = true
					}
				}
				if !okSrc {
					return false
				}
				whole++
			case *ssa.FieldAddr:
				for _, rr := range core.Refs(x) {
					if _, isSt := rr.(*ssa.Store); isSt {
						return false // a field set separately: not the caller's options any more
					}
				}
			}
		}
		return whole == 1
	}
	check := func(f *ssa.Function, call *ssa.Call, arg ssa.Value, want ssa.Value, what string) {
		ok := true
		why := ""
		rs := roots(arg, 0, map[ssa.Value]bool{})
		if len(rs) == 0 {
			ok, why = false, "no origin found"
		}
		for _, rt := range rs {
			switch x := rt.(type) {
			case *ssa.Parameter:
				if rt != want {
					ok, why = false, "another parameter"
				}
			case *ssa.Alloc:
				if !isWholeCopyOf(x, want) {
					ok, why = false, "a HandlerOptions value that is not a whole copy of the caller's (some fields are taken over, others are not)"
				}
			default:
				ok, why = false, "built from "+core.Describe(rt)
			}
		}
		c.check(ok, "C19.text-options", f, what, call, "the text line is slog.TextHandler's for the caller's options (AddSource, ReplaceAttr, Level): "+why)
	}
	n := 0
	for _, f := range c.P.Funcs("logutil/slogutil") {
		for _, ci := range core.AllCalls(f) {
			call, ok := ci.(*ssa.Call)
			if !ok {
				continue
			}
			g := call.Call.StaticCallee()
			switch {
			case nb != nil && g == nb && len(call.Call.Args) == 2:
				// only the hybrid handler's constructor (and its closures) is in scope
				top := f
				for top.Parent() != nil {
					top = top.Parent()
				}
				if top != ctor {
					continue
				}
				n++
				check(f, call, call.Call.Args[1], opts, "newBufferedTextHandler(_, opts) with the constructor's own options")
			case core.CalleeName(&call.Call) == "log/slog.NewTextHandler" && f == nb && len(call.Call.Args) == 2:
				n++
				check(f, call, call.Call.Args[1], nb.Params[1], "slog.NewTextHandler(buf, handlerOpts) with the options received")
			}
		}
	}
	if n == 0 {
		c.undecided("C19.text-options", ctor, "construction of the pooled text handlers", nil, "no call of newBufferedTextHandler / slog.NewTextHandler found")
	}
}


// onlyFromTextErr: every non-nil value that may arrive at v is the error of
// one of the text handler calls, possibly wrapped by fmt.Errorf or the module's
// errors.Annotate.
func onlyFromTextErr(v ssa.Value, textCalls []*ssa.Call, depth int) bool {
	if depth > 8 {
		return false
	}
	v = core.LoadSource(core.Unwrap(v))
	if core.IsNilConst(v) {
		return true
	}
	for _, tc := range textCalls {
		if v == ssa.Value(tc) {
			return true
		}
	}
	switch x := v.(type) {
	case *ssa.Phi:
		for _, e := range x.Edges {
			if !onlyFromTextErr(e, textCalls, depth+1) {
				return false
			}
		}
		return true
	case *ssa.Call:
		n := core.CalleeName(&x.Call)
		if n == "fmt.Errorf" && len(x.Call.Args) == 2 {
			for _, tc := range textCalls {
				if variadicHas(x.Call.Args[1], tc) {
					return true
				}
			}
			// the wrapped value may itself be a phi / re-load
			if sl, ok := x.Call.Args[1].(*ssa.Slice); ok {
				if al, ok := sl.X.(*ssa.Alloc); ok {
					for _, r := range core.Refs(al) {
						if ia, ok := r.(*ssa.IndexAddr); ok {
							for _, rr := range core.Refs(ia) {
								if st, ok := rr.(*ssa.Store); ok {
									if _, isErr := core.Unwrap(st.Val).Type().Underlying().(*types.Interface); isErr && onlyFromTextErr(st.Val, textCalls, depth+1) {
										return true
									}
								}
							}
						}
					}
				}
			}
			return false
		}
		if strings.HasSuffix(n, "golibs/errors.Annotate") && len(x.Call.Args) > 0 {
			return onlyFromTextErr(x.Call.Args[0], textCalls, depth+1)
		}
	}
	return false
}
