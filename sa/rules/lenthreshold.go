package rules

import (
	"go/token"
	"go/types"

	"golang.org/x/tools/go/ssa"

	"verif/sa/core"
)

// lengthThresholds lists the places where f, or a function of the module it
// reaches, treats inputs beyond `bound` bytes differently from shorter ones: a
// comparison of a length (a value derived from len/cap by arithmetic) with a
// constant greater than bound, a fixed-size byte array or a make of more than
// bound elements, a slice expression with a constant bound beyond it.  An
// exact evaluation on inputs of up to `bound` bytes says nothing about the
// code behind such a threshold: its verdict extends to longer inputs only as
// far as the code is uniform in the length, and here it visibly is not.
// Functions named in opaque are not entered.
func lengthThresholds(f *ssa.Function, bound int64, opaque ...string) []string {
	isOpaque := map[string]bool{}
	for _, n := range opaque {
		isOpaque[n] = true
	}
	var out []string
	seen := map[*ssa.Function]bool{}
	var walk func(fn *ssa.Function, depth int)
	lenLike := func(v ssa.Value) bool {
		var rec func(v ssa.Value, d int) bool
		rec = func(v ssa.Value, d int) bool {
			if d > 6 {
				return false
			}
			switch x := v.(type) {
			case *ssa.Call:
				if b, ok := x.Call.Value.(*ssa.Builtin); ok && (b.Name() == "len" || b.Name() == "cap") {
					return true
				}
			case *ssa.BinOp:
				switch x.Op {
				case token.ADD, token.SUB, token.MUL, token.QUO, token.REM:
					return rec(x.X, d+1) || rec(x.Y, d+1)
				}
			case *ssa.Phi:
				for _, e := range x.Edges {
					if rec(e, d+1) {
						return true
					}
				}
			case *ssa.Convert:
				return rec(x.X, d+1)
			}
			return false
		}
		return rec(v, 0)
	}
	big := func(v ssa.Value) (int64, bool) {
		k, ok := core.ConstInt(v)
		return k, ok && k > bound && k <= 1<<20
	}
	walk = func(fn *ssa.Function, depth int) {
		// functions the rule leaves uninterpreted are not part of what it evaluates
		if fn == nil || seen[fn] || depth > 4 || len(fn.Blocks) == 0 || !core.InModule(fn) || isOpaque[fn.Name()] {
			return
		}
		seen[fn] = true
		at := func(in ssa.Instruction) string {
			return fn.Name() + " at " + fn.Prog.Fset.Position(in.Pos()).String()
		}
		core.EachInstr(fn, func(in ssa.Instruction) {
			switch x := in.(type) {
			case *ssa.BinOp:
				switch x.Op {
				case token.LSS, token.LEQ, token.GTR, token.GEQ, token.EQL, token.NEQ:
					if k, ok := big(x.Y); ok && lenLike(x.X) {
						out = append(out, sprintf("a length compared with %d in %s", k, at(x)))
					} else if k, ok := big(x.X); ok && lenLike(x.Y) {
						out = append(out, sprintf("a length compared with %d in %s", k, at(x)))
					}
				}
			case *ssa.Alloc:
				if pt, ok := x.Type().Underlying().(*types.Pointer); ok {
					if arr, ok := pt.Elem().Underlying().(*types.Array); ok && arr.Len() > bound {
						if b, isB := arr.Elem().Underlying().(*types.Basic); isB && b.Kind() == types.Uint8 {
							out = append(out, sprintf("a buffer of %d bytes in %s", arr.Len(), at(x)))
						}
					}
				}
			case *ssa.MakeSlice:
				if k, ok := big(x.Len); ok {
					out = append(out, sprintf("a slice of %d elements made in %s", k, at(x)))
				}
			case *ssa.Slice:
				for _, b := range []ssa.Value{x.Low, x.High} {
					if b == nil {
						continue
					}
					if k, ok := big(b); ok {
						out = append(out, sprintf("a slice bound %d in %s", k, at(x)))
					}
				}
			case ssa.CallInstruction:
				if cal := x.Common().StaticCallee(); cal != nil {
					walk(cal, depth+1)
				}
			}
		})
		for _, af := range fn.AnonFuncs {
			walk(af, depth+1)
		}
	}
	walk(f, 0)
	return out
}
