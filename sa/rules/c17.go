package rules

import (
	"go/token"
	"go/types"
	"strings"

	"golang.org/x/tools/go/ssa"

	"verif/sa/core"
)

func init() {
	register(&Property{
		ID:    "C17",
		Level: "other",
		Explanation: "Structural necessary conditions of the two synchronisation protocols, decided on SSA: OnceConstructor.Get (R1) runs the loader returned by LoadOrStore, never its own " +
			"candidate closure directly; (R2) inside the stored closure the constructor is called only on the ok branch of a receive from a channel that is made in this Get with capacity 1, " +
			"receives exactly one token before it is published, and is closed after the result is stored; the constructor field has no other call site; (R3) no lock is held while a loader or " +
			"the constructor runs, so one key's slow construction cannot block another key (a sync.Once/OnceValue per key is the second recognised form). ChanSemaphore (R4) Release is a " +
			"non-blocking receive; (R5) Acquire returns nil only from the send case of one blocking select whose other case is ctx.Done() returning ctx.Err(), and never receives from the " +
			"semaphore channel; (R6) the channel is made once with the constructor's capacity and never reassigned. Not decided: the schedule-level statements themselves.",
		Technique: "SSA typestate / protocol-shape rules (channel token protocol, select shapes, who-may-call, lockset at call sites)",
		Note:      "Trusted: go/ssa, sync.Map.LoadOrStore atomicity, Go channel semantics (a closed channel yields ok=false).",
		DesignRef: "DESIGN.md section 4, C17",
		Run:       runC17,
	})
}

func runC17(c *Ctx) {
	c.L.Trust("go/types + go/ssa", "sync.Map.LoadOrStore stores exactly one value per key", "channel semantics: capacity-1 token, close releases all waiters with ok=false")
	c.L.Floor("C17.once.runs-stored-loader", 1)
	c.L.Floor("C17.once.token-protocol", 4)
	c.L.Floor("C17.once.constructor-callers", 1)
	c.L.Floor("C17.once.no-lock-held", 2)
	c.L.Floor("C17.sema.release-nonblocking", 1)
	c.L.Floor("C17.sema.acquire-shape", 3)
	c.L.Floor("C17.sema.channel", 2)

	if get := c.fn("syncutil", "OnceConstructor.Get"); get != nil {
		c17Once(c, get)
	}
	c17Sema(c)
}

func c17Once(c *Ctx, get *ssa.Function) {
	// all calls through function values in Get
	var los *ssa.Call
	for _, ci := range core.CallsTo(get, "(*sync.Map).LoadOrStore") {
		los = ci.(*ssa.Call)
	}
	// second recognised form: sync.Once / OnceValue per key
	usesOnce := false
	for _, fn := range core.WithClosures(get) {
		for _, ci := range core.AllCalls(fn) {
			n := core.CalleeName(ci.Common())
			if strings.HasPrefix(n, "(*sync.Once).Do") || strings.HasPrefix(n, "sync.OnceValue") {
				usesOnce = true
			}
		}
	}
	if los == nil {
		c.undecided("C17.once.runs-stored-loader", get, "LoadOrStore of the per-key loader", nil, "the per-key publication point is not a sync.Map.LoadOrStore")
		return
	}
	// the published candidate
	var cand *ssa.MakeClosure
	if mi, ok := los.Call.Args[2].(*ssa.MakeInterface); ok {
		cand, _ = mi.X.(*ssa.MakeClosure)
	}
	// R1: dynamic calls in Get run a value loaded from the map
	ndyn := 0
	core.EachInstr(get, func(in ssa.Instruction) {
		call, ok := in.(*ssa.Call)
		if !ok || call.Call.IsInvoke() || call.Call.StaticCallee() != nil {
			return
		}
		if _, isB := call.Call.Value.(*ssa.Builtin); isB {
			return
		}
		ndyn++
		// every value that may arrive (through phis and type assertions) is the
		// first result of Load / LoadOrStore
		seenV := map[ssa.Value]bool{}
		var fromMapV func(v ssa.Value) bool
		fromMapV = func(v ssa.Value) bool {
			if seenV[v] {
				return true
			}
			seenV[v] = true
			switch x := v.(type) {
			case *ssa.TypeAssert:
				return fromMapV(x.X)
			case *ssa.ChangeInterface:
				return fromMapV(x.X)
			case *ssa.Phi:
				for _, e := range x.Edges {
					if !fromMapV(e) {
						return false
					}
				}
				return len(x.Edges) > 0
			case *ssa.Extract:
				if x.Index != 0 {
					return false
				}
				if mc, ok := x.Tuple.(*ssa.Call); ok {
					n := core.CalleeName(&mc.Call)
					return n == "(*sync.Map).LoadOrStore" || n == "(*sync.Map).Load"
				}
			}
			return false
		}
		fromMap := fromMapV(call.Call.Value)
		c.check(fromMap, "C17.once.runs-stored-loader", get, "Get runs the loader stored in the map (result of Load / LoadOrStore)", call,
			"two goroutines racing on a new key both build a candidate; only the one LoadOrStore kept may run, otherwise the constructor runs twice")
	})
	// what Get returns is what a stored loader returned
	for _, ret := range core.Returns(get) {
		if len(ret.Results) != 1 {
			continue
		}
		okRet := true
		for _, lf := range core.Facts(get).Leaves(ret.Results[0], ret) {
			call, isCall := lf.V.(*ssa.Call)
			if !isCall || call.Call.IsInvoke() || call.Call.StaticCallee() != nil {
				okRet = false
			}
		}
		c.check(okRet, "C17.once.runs-stored-loader", get, "Get returns the result of the stored loader", ret,
			"every caller receives the single constructed value through the per-key loader; a map entry used as the value itself is not that")
	}
	// the map is written by LoadOrStore only
	for _, f := range c.P.Funcs("syncutil") {
		for _, ci := range core.AllCalls(f) {
			n := core.CalleeName(ci.Common())
			if !strings.HasPrefix(n, "(*sync.Map).") || len(ci.Common().Args) == 0 {
				continue
			}
			_, base, isF := core.IsLoadOfField(ci.Common().Args[0])
			if !isF || core.NamedOf(base.Type()) != "OnceConstructor" {
				continue
			}
			switch strings.TrimPrefix(n, "(*sync.Map).") {
			case "Load", "LoadOrStore", "Range":
			default:
				c.check(false, "C17.once.runs-stored-loader", f, "call of "+n+" on the loaders map", ci, "entries are published by LoadOrStore only and never replaced: a replaced entry is a second value for the key")
			}
		}
	}
	if ndyn == 0 {
		c.check(false, "C17.once.runs-stored-loader", get, "loader invocation", nil, "Get never invokes a stored loader")
	}
	if cand == nil {
		if usesOnce {
			c.check(true, "C17.once.token-protocol", get, "per-key sync.Once / OnceValue", los, "second recognised form")
			return
		}
		c.undecided("C17.once.token-protocol", get, "candidate loader closure", los, "the stored value is not a closure literal")
		return
	}
	loader := cand.Fn.(*ssa.Function)
	c.L.Saw(core.FuncName(loader))
	// the constructor call inside the loader
	var ctorCalls []*ssa.Call
	core.EachInstr(loader, func(in ssa.Instruction) {
		if call, ok := in.(*ssa.Call); ok && !call.Call.IsInvoke() && call.Call.StaticCallee() == nil {
			if _, base, isF := core.IsLoadOfField(call.Call.Value); isF && isFuncField(call.Call.Value) && core.NamedOf(base.Type()) == "OnceConstructor" {
				ctorCalls = append(ctorCalls, call)
			}
		}
	})
	if len(ctorCalls) != 1 {
		c.check(usesOnce, "C17.once.token-protocol", loader, "exactly one constructor call in the loader", nil, sprintf("found %d", len(ctorCalls)))
		return
	}
	ctor := ctorCalls[0]
	// guarded by ok of a receive from the captured channel
	var recv *ssa.UnOp
	for _, g := range core.GuardsOf(ctor) {
		if ex, ok := g.Cond.(*ssa.Extract); ok && ex.Index == 1 && g.Truth {
			if u, ok := ex.Tuple.(*ssa.UnOp); ok && u.Op == token.ARROW && u.CommaOk {
				recv = u
			}
		}
	}
	c.check(recv != nil, "C17.once.token-protocol", loader, "constructor called only on the ok branch of a channel receive", ctor,
		"the receive hands the single token to exactly one caller; everyone else sees the closed channel (ok=false) and returns the cached value")
	if recv == nil {
		return
	}
	// the channel is the free variable bound to a chan cell made in this Get
	var chCell ssa.Value
	if ld, ok := recv.X.(*ssa.UnOp); ok && ld.Op == token.MUL {
		if fv, ok := ld.X.(*ssa.FreeVar); ok {
			for i, f := range loader.FreeVars {
				if f == fv {
					chCell = cand.Bindings[i]
				}
			}
		}
	}
	okMake, nSend := false, 0
	var sendInstr ssa.Instruction
	if al, ok := chCell.(*ssa.Alloc); ok {
		for _, r := range core.Refs(al) {
			if st, ok := r.(*ssa.Store); ok && st.Addr == ssa.Value(al) {
				if mk, ok := st.Val.(*ssa.MakeChan); ok {
					if k, isK := core.ConstInt(mk.Size); isK && k == 1 {
						okMake = true
					}
					// sends on the channel value itself, before it is stored
					for _, rr := range core.Refs(mk) {
						if sd, ok := rr.(*ssa.Send); ok && sd.Chan == ssa.Value(mk) {
							nSend++
							sendInstr = sd
						}
					}
				}
			}
			if ld, ok := r.(*ssa.UnOp); ok && ld.Op == token.MUL {
				for _, rr := range core.Refs(ld) {
					if sd, ok := rr.(*ssa.Send); ok && sd.Chan == ssa.Value(ld) {
						nSend++
						sendInstr = sd
					}
				}
			}
		}
	}
	c.check(okMake, "C17.once.token-protocol", get, "token channel is made in this Get with capacity 1", los, "per key and per candidate: a fresh channel, so keys cannot block one another")
	c.check(nSend == 1 && sendInstr != nil && core.Dominates(sendInstr, los) && !core.InLoop(sendInstr), "C17.once.token-protocol", get,
		"exactly one token is sent before the loader is published", sendInstr, sprintf("%d send(s) on the token channel in Get", nSend))
	// inside the loader: store of the result, then close, both after the constructor
	var storeRes, closeCh ssa.Instruction
	core.EachInstr(loader, func(in ssa.Instruction) {
		switch x := in.(type) {
		case *ssa.Store:
			if x.Val == ssa.Value(ctor) {
				storeRes = x
			}
		case *ssa.Call:
			if b, ok := x.Call.Value.(*ssa.Builtin); ok && b.Name() == "close" {
				closeCh = x
			}
		}
	})
	c.check(storeRes != nil && closeCh != nil && core.Dominates(storeRes, closeCh) && guardedByExtract(closeCh, recv, 1, true), "C17.once.token-protocol", loader,
		"result stored before the channel is closed (by the token holder only)", closeCh, "waiters are released only once the cached result is visible")
	// every return reads the cached cell that the constructor result is stored into
	for _, ret := range core.Returns(loader) {
		okR := false
		if ld, ok := ret.Results[0].(*ssa.UnOp); ok && ld.Op == token.MUL {
			if st, ok := storeRes.(*ssa.Store); ok && ld.X == st.Addr {
				okR = true
			}
		}
		c.check(okR, "C17.once.token-protocol", loader, "every caller returns the one cached result", ret, "all callers receive the single constructed value")
		// ... and only after receiving from the token channel: the receive (of
		// the token, or of the close) is what orders the read of the cached
		// cell after the constructor's write
		isRecv := func(in ssa.Instruction) bool { return recv != nil && in == ssa.Instruction(recv) }
		mn, _, okP := core.CountOnPaths(loader, nil, ret, isRecv)
		c.check(okP && mn >= 1, "C17.once.token-protocol", loader, "every path to a return passes the channel receive", ret,
			"a path that skips the receive can return the cell before (or while) the constructor writes it: a caller arriving during construction gets the zero value")
		// the read of the cached cell itself happens after the receive
		if ld, ok := ret.Results[0].(*ssa.UnOp); ok && recv != nil {
			c.check(core.Dominates(recv, ld), "C17.once.token-protocol", loader, "the cached cell is read after the receive", ld, "happens-before through the channel")
		}
	}
	// who may call the constructor field
	n := 0
	for _, f := range c.P.Funcs("syncutil") {
		core.EachInstr(f, func(in ssa.Instruction) {
			if call, ok := in.(*ssa.Call); ok && !call.Call.IsInvoke() && call.Call.StaticCallee() == nil {
				if _, base, isF := core.IsLoadOfField(call.Call.Value); isF && isFuncField(call.Call.Value) && core.NamedOf(base.Type()) == "OnceConstructor" {
					n++
					c.check(f == loader, "C17.once.constructor-callers", f, "call of c.new", call, "the constructor may be invoked only from the token-guarded loader")
				}
			}
		})
	}
	if n == 0 {
		c.undecided("C17.once.constructor-callers", get, "call of c.new", nil, "not found")
	}
	// R2b: what c.new is: the caller's constructor itself, or a wrapper that
	// waits for nothing shared between keys
	c.L.Floor("C17.once.constructor-stored", 1)
	for _, f := range c.P.Funcs("syncutil") {
		core.EachInstr(f, func(in ssa.Instruction) {
			st, ok := in.(*ssa.Store)
			if !ok {
				return
			}
			fa, ok := st.Addr.(*ssa.FieldAddr)
			if !ok || core.NamedOf(fa.X.Type()) != "OnceConstructor" {
				return
			}
			if _, isSig := st.Val.Type().Underlying().(*types.Signature); !isSig {
				return
			}
			what := "the stored constructor is the caller's function"
			switch v := st.Val.(type) {
			case *ssa.Parameter:
				c.check(true, "C17.once.constructor-stored", f, what, st, "stored as given")
			case *ssa.MakeClosure:
				blocking := ""
				for _, fn := range core.WithClosures(v.Fn.(*ssa.Function)) {
					core.EachInstr(fn, func(in ssa.Instruction) {
						switch x := in.(type) {
						case *ssa.Send, *ssa.Select:
							blocking = "a channel operation"
						case *ssa.UnOp:
							if x.Op == token.ARROW {
								blocking = "a channel receive"
							}
						case ssa.CallInstruction:
							n := core.CalleeName(x.Common())
							if strings.HasSuffix(n, ").Lock") || strings.HasSuffix(n, ").RLock") || strings.HasSuffix(n, ").Wait") || strings.HasSuffix(n, ".Acquire") {
								blocking = "a call of " + n
							}
						}
					})
				}
				c.check(blocking == "", "C17.once.constructor-stored", f, "the stored constructor is a wrapper that waits for nothing shared between keys", st,
					"the wrapper contains "+blocking+": constructions of different keys are serialised, so a slow construction of one key blocks Get of another")
			default:
				c.undecided("C17.once.constructor-stored", f, what, st, "the stored value is neither the parameter nor a closure: "+core.Describe(st.Val))
			}
		})
	}
	// R3: no lock held where loaders / the constructor run
	for _, fn := range []*ssa.Function{get, loader} {
		li := core.Locksets(fn)
		core.EachInstr(fn, func(in ssa.Instruction) {
			call, ok := in.(*ssa.Call)
			if !ok || call.Call.IsInvoke() || call.Call.StaticCallee() != nil {
				return
			}
			if _, isB := call.Call.Value.(*ssa.Builtin); isB {
				return
			}
			held := map[string]bool{}
			for l := range li.May[in] {
				held[l] = true
			}
			for l := range li.Deferred {
				// a deferred unlock means the lock taken before is held until return
				for _, op := range li.Ops {
					if op.Lock == l && op.Op == "Lock" && !op.Defer && core.MayFollow(op.Instr, in) {
						held[l] = true
					}
				}
			}
			c.check(len(held) == 0, "C17.once.no-lock-held", fn, "no lock held while a loader / the constructor runs", call,
				"a lock shared between keys and held across the construction makes Get(k2) wait for a slow constructor of k1; held: "+core.Held(held))
		})
	}
}

func c17Sema(c *Ctx) {
	rel := c.fn("syncutil", "ChanSemaphore.Release")
	acq := c.fn("syncutil", "ChanSemaphore.Acquire")
	isSemChan := func(v ssa.Value) bool {
		// the semaphore's channel: the field of channel type (whatever its name)
		_, base, ok := core.IsLoadOfField(v)
		_, isChan := v.Type().Underlying().(*types.Chan)
		return ok && isChan && core.NamedOf(base.Type()) == "ChanSemaphore"
	}
	if rel != nil {
		n := 0
		core.EachInstr(rel, func(in ssa.Instruction) {
			switch x := in.(type) {
			case *ssa.Select:
				n++
				ok := !x.Blocking && len(x.States) == 1 && x.States[0].Dir == 2 && isSemChan(x.States[0].Chan) // types.RecvOnly == 2
				c.check(ok, "C17.sema.release-nonblocking", rel, "Release is a non-blocking receive (select with default)", x, "Release never blocks, even without a matching Acquire")
			case *ssa.UnOp:
				if x.Op == token.ARROW {
					n++
					c.check(false, "C17.sema.release-nonblocking", rel, "blocking receive in Release", x, "Release must not block")
				}
			}
		})
		if n == 0 {
			c.check(false, "C17.sema.release-nonblocking", rel, "receive from the semaphore channel", nil, "Release does not free a slot")
		}
	}
	if acq != nil {
		var sel *ssa.Select
		core.EachInstr(acq, func(in ssa.Instruction) {
			if s, ok := in.(*ssa.Select); ok {
				sel = s
			}
		})
		okSel := sel != nil && sel.Blocking && len(sel.States) == 2
		sendIdx, doneIdx := -1, -1
		if okSel {
			for i, st := range sel.States {
				switch {
				case st.Dir == 1 && isSemChan(st.Chan): // SendOnly
					sendIdx = i
				case st.Dir == 2:
					if call, ok := st.Chan.(*ssa.Call); ok && call.Call.IsInvoke() && call.Call.Method.Name() == "Done" && call.Call.Value == ssa.Value(acq.Params[1]) {
						doneIdx = i
					}
				}
			}
		}
		c.check(okSel && sendIdx >= 0 && doneIdx >= 0, "C17.sema.acquire-shape", acq, "one blocking select: send on the semaphore channel / receive from ctx.Done()", sel,
			"a slot is taken by the send; cancellation is observed while waiting")
		if sel != nil {
			facts := core.Facts(acq)
			for _, ret := range core.Returns(acq) {
				// per value that may be returned, with the select branch of its path
				for _, lf := range facts.Leaves(ret.Results[0], ret) {
					idx, known := selectBranchFacts(lf.Facts, sel)
					switch {
					case core.IsNilConst(lf.V):
						c.check(known && idx == sendIdx, "C17.sema.acquire-shape", acq, "nil is returned only after the send succeeded", ret, "a successful Acquire holds exactly one slot")
					default:
						call, ok := lf.V.(*ssa.Call)
						okErr := ok && call.Call.IsInvoke() && call.Call.Method.Name() == "Err" && call.Call.Value == ssa.Value(acq.Params[1])
						c.check(okErr && known && idx == doneIdx, "C17.sema.acquire-shape", acq, "the ctx.Done() case returns ctx.Err()", ret, "the context's error is reported, and no slot is held")
					}
				}
			}
		}
		// Acquire never frees a slot
		okNoRecv := true
		var at ssa.Instruction
		core.EachInstr(acq, func(in ssa.Instruction) {
			switch x := in.(type) {
			case *ssa.Call:
				if cal := x.Call.StaticCallee(); cal != nil && cal == rel {
					okNoRecv, at = false, in
				}
			case *ssa.UnOp:
				if x.Op == token.ARROW && isSemChan(x.X) {
					okNoRecv, at = false, in
				}
			case *ssa.Select:
				if x != sel {
					okNoRecv, at = false, in
				}
			}
		})
		c.check(okNoRecv, "C17.sema.acquire-shape", acq, "Acquire never receives from the semaphore channel (no Release inside)", at,
			"a failed Acquire holds no slot, so freeing one takes it from another holder and lets more than n Acquires succeed")
	}
	// R6 channel made once
	for _, f := range c.P.Funcs("syncutil") {
		core.EachInstr(f, func(in ssa.Instruction) {
			st, ok := in.(*ssa.Store)
			if !ok {
				return
			}
			fa, ok := st.Addr.(*ssa.FieldAddr)
			if !ok || core.NamedOf(fa.X.Type()) != "ChanSemaphore" {
				return
			}
			if _, isChan := st.Val.Type().Underlying().(*types.Chan); !isChan {
				return
			}
			_, fresh := fa.X.(*ssa.Alloc)
			mk, isMk := st.Val.(*ssa.MakeChan)
			okCap := false
			if isMk {
				v := mk.Size
				if cv, ok := v.(*ssa.Convert); ok {
					v = cv.X
				}
				okCap = len(f.Params) == 1 && v == ssa.Value(f.Params[0])
			}
			c.check(fresh && okCap && f.Name() == "NewChanSemaphore", "C17.sema.channel", f, "c.c = make(chan unit, maxRes) in the constructor only", st,
				"the capacity is the bound on outstanding Acquires; the channel is never replaced")
		})
	}
	c.check(true, "C17.sema.channel", nil, "stores to ChanSemaphore.c enumerated over package syncutil", nil, "who-may-write")
}

// selectBranch finds which select case index guards the instruction.
func selectBranch(in ssa.Instruction, sel *ssa.Select) (int, bool) {
	var fs []core.Fact
	for _, g := range core.GuardsOf(in) {
		fs = append(fs, core.Fact{Cond: g.Cond, Truth: g.Truth})
	}
	return selectBranchFacts(fs, sel)
}

func selectBranchFacts(facts []core.Fact, sel *ssa.Select) (int, bool) {
	for _, g := range facts {
		b, ok := g.Cond.(*ssa.BinOp)
		if !ok || b.Op != token.EQL || !g.Truth {
			continue
		}
		ex, ok := b.X.(*ssa.Extract)
		if !ok || ex.Tuple != ssa.Value(sel) || ex.Index != 0 {
			continue
		}
		if k, ok := core.ConstInt(b.Y); ok {
			return int(k), true
		}
	}
	return 0, false
}

// isFuncField: the value is a load of a struct field of function type (the
// constructor stored in OnceConstructor, whatever the field is called).
func isFuncField(v ssa.Value) bool {
	_, ok := v.Type().Underlying().(*types.Signature)
	return ok
}
