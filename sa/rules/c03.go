package rules

import (
	"fmt"
	"go/token"
	"go/types"
	"os"
	"regexp"
	"sort"
	"strconv"
	"strings"

	"golang.org/x/tools/go/ssa"

	"verif/sa/boolfn"
	"verif/sa/core"
	"verif/sa/errshape"
	"verif/sa/lincon"
	"verif/sa/skel"
)

func init() {
	register(&Property{
		ID:    "C03",
		Level: "other",
		Explanation: "Decided exactly by abstract evaluation into BDDs (no execution): each of the six label validators accepts exactly the labels of its grammar, for labels of arbitrary bytes and bounded length (both sides of every window, and far beyond 63). Decided clauses of the name-level grammar (and the fall-back of the above): (R1) error shape: by the error-shape analysis the three name validators return only nil or *AddrError and the four " +
			"label validators only nil or *LabelError; the wrapper is a deferred makeAddrError/makeLabelError call registered first, whose text argument is the function's parameter itself (the " +
			"original input, not the reassigned ToASCII result); (R2) length windows: at every accepting exit the relational interpreter proves lo <= len <= hi and at every *LengthError rejection " +
			"len < lo or len > hi, with [lo,hi] = [1,63] (domain and host label), [2,16] (service label), [1,253] (ToASCII form of a name) taken from the property; (R3) rune classes: " +
			"IsValidHostOuterRune is exactly [0-9A-Za-z] and IsValidHostInnerRune that plus '-', as equality of BDDs over the 32 rune bits; the TLD test accepts iff some rune is outside [0-9] " +
			"(evaluated at every comparison threshold); (R4) layering: the decision skeletons contain the required atoms (domain-label checks inside the host label, outer/inner rune tests at first, " +
			"middle and last position, '_' + host label for service labels, ToASCII/empty/253 prelude, per-label loop over Cut(\".\"), strict TLD on the last label). " +
			"Not decided: that the composition accepts exactly the RFC language for IDN input (depends on idna.ToASCII).",
		Technique: "exact abstract evaluation of the six label validators into ROBDDs (all labels of bounded length, arbitrary bytes, compared with the grammar) + error-shape abstract interpretation, linear-constraint abstract interpretation with asserted windows, BDD equality of rune predicates, decision-skeleton atom requirements and label-iteration rules for the name validators",
		Note:      "Trusted: go/ssa, /verif/sa/{errshape,lincon,boolfn,skel}, idna.ToASCII as an opaque function.",
		DesignRef: "DESIGN.md section 4, C03",
		Run:       runC03,
	})
}

type c03Spec struct {
	name    string
	lo, hi  int64
	isName  bool   // subject is idna.ToASCII(name)#0 instead of the parameter
	wrapper string // expected wrapper type
	atoms   []string
}

var c03Specs = []c03Spec{
	{"ValidateDomainNameLabel", 1, 63, false, "*github.com/AdguardTeam/golibs/netutil.LabelError",
		[]string{`(len(p0) == 0)`, `(len(p0) > 63)`}},
	{"ValidateHostnameLabel", 1, 63, false, "*github.com/AdguardTeam/golibs/netutil.LabelError",
		[]string{`accepts(DomainLabel,p0)`, `IsValidHostOuterRune(p0[0])`, `IsValidHostInnerRune(`, `IsValidHostOuterRune(p0[(len(p0) - 1)])`}},
	{"ValidateTLDLabel", 1, 63, false, "*github.com/AdguardTeam/golibs/netutil.LabelError",
		[]string{`accepts(HostLabel,p0)`, `hasValidTLDChars(p0)`}},
	{"ValidateServiceNameLabel", 2, 16, false, "*github.com/AdguardTeam/golibs/netutil.LabelError",
		[]string{`(len(p0) == 0)`, `(p0 == "_")`, `(p0[0] == 95)`, `(len(p0) > 16)`, `accepts(HostLabel,p0[1:])`}},
	{"ValidateDomainName", 1, 253, true, "*github.com/AdguardTeam/golibs/netutil.AddrError",
		[]string{`isnil(idna.ToASCII(p0)#1)`, `(len(idna.ToASCII(p0)#0) == 0)`, `(len(idna.ToASCII(p0)#0) > 253)`, `strings.Cut(`, `accepts(DomainLabel,`, `accepts(TLD,`}},
	{"ValidateHostname", 1, 253, true, "*github.com/AdguardTeam/golibs/netutil.AddrError",
		[]string{`isnil(idna.ToASCII(p0)#1)`, `(len(idna.ToASCII(p0)#0) == 0)`, `(len(idna.ToASCII(p0)#0) > 253)`, `strings.Cut(`, `accepts(HostLabel,`, `accepts(TLD,`}},
	{"ValidateSRVDomainName", 1, 253, true, "*github.com/AdguardTeam/golibs/netutil.AddrError",
		[]string{`isnil(idna.ToASCII(p0)#1)`, `(len(idna.ToASCII(p0)#0) == 0)`, `(len(idna.ToASCII(p0)#0) > 253)`, `strings.Cut(`, `ValidateServiceNameLabel(`, `ValidateHostnameLabel(`, `accepts(TLD,`}},
}

var c03Family = map[string]string{
	"ValidateHostnameLabel": "HostLabel", "IsValidHostnameLabel": "HostLabel",
	"ValidateTLDLabel": "TLD", "isValidTLDLabel": "TLD",
	"ValidateDomainNameLabel":  "DomainLabel",
	"ValidateServiceNameLabel": "ServiceLabel",
}

func runC03(c *Ctx) {
	// the label validators decided exactly (c03exact.go): for those the
	// structural rules about the same function are only the fall-back
	exactLabels := c03LabelsExact(c, "C03")
	// ... and the name validators on short names: how a name is cut into labels
	// and which validator each label gets
	exactNames := c03NamesExact(c, "C03")
	c.L.Trust("go/types + go/ssa", "/verif/sa/errshape", "/verif/sa/lincon", "/verif/sa/boolfn", "/verif/sa/skel", "idna.ToASCII treated as opaque")
	c.L.Assumef("length windows [1,63], [2,16], [1,253] and the rune classes are read from the property statement")
	c.L.Floor("C03.error-shape", 7)
	c.L.Floor("C03.wrapper-keeps-input", 9)
	// the wrappers themselves: the text and kind stored in the error are the
	// arguments as given (no trimming, truncation, lowering or re-encoding)
	for _, wn := range []string{"makeAddrError", "makeLabelError"} {
		w := c.fn("netutil", wn)
		if w == nil {
			continue
		}
		ok, why, n := true, "", 0
		var at ssa.Instruction
		core.EachInstr(w, func(in ssa.Instruction) {
			st, isSt := in.(*ssa.Store)
			if !isSt {
				return
			}
			fa, isFA := st.Addr.(*ssa.FieldAddr)
			if !isFA {
				return
			}
			if b, isB := st.Val.Type().Underlying().(*types.Basic); !isB || b.Info()&types.IsString == 0 {
				return
			}
			n++
			if _, isParam := st.Val.(*ssa.Parameter); !isParam && ok {
				ok, at = false, st
				why = "the stored text is " + core.Describe(st.Val) + ", not the argument itself: the error no longer names the input as it was given"
			}
			_ = fa
		})
		if ok {
			why = sprintf("%d string fields of the error are stored from the parameters unchanged", n)
		}
		c.check(ok && n >= 2, "C03.wrapper-keeps-input", w, wn+" stores its text and kind arguments as given", at, why)
	}
	c.L.Floor("C03.accept-window", 7)
	c.L.Floor("C03.reject-window", 5)
	c.L.Floor("C03.rune-class", 3)
	c.L.Floor("C03.label-iteration", 3)
	c.L.Floor("C03.layering", 7)

	sp := c.P.Pkg("netutil")
	es := errshape.New(core.InModule)
	subject := map[*ssa.Function]ssa.Value{}
	specOf := map[*ssa.Function]c03Spec{}
	var fns []*ssa.Function
	for _, s := range c03Specs {
		f := c.fn("netutil", s.name)
		if f == nil {
			continue
		}
		fns = append(fns, f)
		specOf[f] = s
		// ---- R1 ----
		res := es.Eval(f, nil)
		shapes := res.Results[0]
		okShape := true
		for _, t := range shapes.Types() {
			if t != "nil" && t != s.wrapper {
				okShape = false
			}
		}
		c.check(okShape && len(shapes) > 0, "C03.error-shape", f, "returns only nil or "+shortCallee(strings.TrimPrefix(s.wrapper, "*")), nil,
			"every rejection must be the documented wrapper type; shapes: "+clip(strings.ReplaceAll(shapes.String(), core.ModPath+"/", ""), 300))
		// the deferred wrapper: first instruction-ish, text argument is the parameter
		var wrapDefer *ssa.Defer
		core.EachInstr(f, func(in ssa.Instruction) {
			if d, ok := in.(*ssa.Defer); ok && wrapDefer == nil {
				wrapDefer = d
			}
		})
		okWrap, why := false, "no deferred wrapper call"
		if wrapDefer != nil {
			cal := wrapDefer.Call.StaticCallee()
			switch {
			case cal == nil:
				why = "the deferred function is a closure: it reads its variables when it runs, i.e. after `name` was overwritten by idna.ToASCII"
			case cal.Name() != "makeAddrError" && cal.Name() != "makeLabelError":
				why = "deferred call of " + cal.Name()
			case len(wrapDefer.Call.Args) != 3 || wrapDefer.Call.Args[1] != ssa.Value(f.Params[0]):
				why = "the wrapped text is not the function's parameter as it was passed in"
			case wrapDefer.Block() != f.Blocks[0]:
				why = "the wrapper is not registered in the entry block"
			default:
				okWrap, why = true, "defer "+cal.Name()+"(&err, <parameter>, kind) in the entry block"
				// no return before it
				for _, in := range f.Blocks[0].Instrs {
					if in == ssa.Instruction(wrapDefer) {
						break
					}
					if _, isCall := in.(*ssa.Call); isCall {
						okWrap, why = false, "a call precedes the registration of the wrapper"
					}
				}
			}
		}
		c.check(okWrap, "C03.wrapper-keeps-input", f, "rejections carry the original input (deferred wrapper on the parameter)", wrapDefer, why)
		// subject of the length window
		subject[f] = f.Params[0]
		if s.isName {
			subject[f] = nil
			for _, ci := range core.CallsTo(f, "golang.org/x/net/idna.ToASCII") {
				if ci.Common().Args[0] == ssa.Value(f.Params[0]) {
					subject[f] = extractOf(ci.(*ssa.Call), 0)
				}
			}
			if subject[f] == nil {
				c.undecided("C03.accept-window", f, "idna.ToASCII(name)", nil, "the ASCII form whose length is bounded is not computed from the parameter")
			}
		}
		if s.isName && subject[f] != nil && !exactNames[s.name] {
			c03LabelIteration(c, f, subject[f])
		}
		// ---- R4 ----
		b := &skel.Builder{Pkg: sp, Family: c03Family}
		tree := safeSkeleton(b, f)
		if os.Getenv("C03_SK") != "" {
			fmt.Printf("SKEL %s: %s\n\n", f.Name(), tree)
		}
		var missing []string
		for _, a := range s.atoms {
			if !strings.Contains(tree, a) {
				missing = append(missing, a)
			}
		}
		if exactLabels[s.name] || exactNames[s.name] {
			continue
		}
		c.check(tree != "" && len(missing) == 0, "C03.layering", f, "decision skeleton contains the required checks of the grammar", nil,
			sprintf("missing: %v; skeleton: %s", missing, clip(tree, 500)))
	}

	// ---- R2 by E1 ----
	lincon.Reset()
	a := lincon.New(c.P.SSA, core.InModule)
	// errors.Unwrap of a wrapper whose inner error is never nil: the error-shape
	// analysis knows, the linear domain does not
	a.NonNilResult = func(call *ssa.Call) bool {
		sh, ok := es.CallShapes[call]
		if os.Getenv("C03DBG") != "" {
			fmt.Printf("DBG nonnil? %s in %s: %v %s\n", call, call.Parent().Name(), ok, sh.String())
		}
		return ok && len(sh) > 0 && !sh.HasNil() && !sh.HasUnknown()
	}
	a.Hook = func(h *lincon.Handle) {
		fn := h.Instr.Parent()
		s, ok := specOf[fn]
		if !ok || subject[fn] == nil || exactLabels[s.name] {
			return
		}
		switch in := h.Instr.(type) {
		case *ssa.Return:
			if h.Nilness(in.Results[0]) != 1 {
				return
			}
			ln, ok := h.Len(subject[fn])
			good := ok && h.ProvesLE(lincon.K(s.lo).Sub(ln)) && h.ProvesLE(ln.AddK(-s.hi))
			if !good && os.Getenv("C03DBG") != "" {
				fmt.Printf("DBG accept fail fn=%s block=%d results=%s state=%s\n", fn.Name(), in.Block().Index, in.Results[0].Name(), h.State())
			}
			h.Assert("accept-window", sprintf("accept => %d <= len <= %d", s.lo, s.hi), good)
		case *ssa.MakeInterface:
			if core.NamedOf(in.X.Type()) != "LengthError" {
				return
			}
			ln, ok := h.Len(subject[fn])
			good := ok && (h.ProvesLE(ln.AddK(-(s.lo - 1))) || h.ProvesLE(lincon.K(s.hi+1).Sub(ln)))
			h.Assert("reject-window", sprintf("*LengthError => len < %d or len > %d", s.lo, s.hi), good)
		}
	}
	for _, f := range fns {
		a.Entry(f, nil)
	}
	recordObligations(c, a, "C03", func(o *lincon.Oblig) bool { return strings.HasPrefix(o.Kind, "assert:") })

	// floors follow what was left to the structural rules
	nExact := 0
	for _, s := range c03Specs {
		if exactLabels[s.name] {
			nExact++
		}
	}
	nNames := 0
	for _, s := range c03Specs {
		if exactNames[s.name] {
			nNames++
		}
	}
	if nExact > 0 || nNames > 0 {
		c.L.Floor("C03.accept-window", 7-nExact)
		c.L.Floor("C03.reject-window", max(5-2*nExact, 0))
		c.L.Floor("C03.layering", 7-nExact-nNames)
		c.L.Floor("C03.label-iteration", max(3-nNames, 0))
	}
	// ---- R3 rune classes ----
	c03Runes(c, exactLabels["ValidateTLDLabel"] && exactLabels["isValidTLDLabel"])
	c03LabelTables(c, sp, exactLabels)
}

func c03Runes(c *Ctx, tldExact bool) {
	m := boolfn.New()
	ev := &boolfn.Eval{M: m, Entered: map[string]bool{}}
	ev.InScope = core.InModule
	r := ev.IntInput(0, 32, true)
	inRange := func(lo, hi int64) int {
		// lo <= r <= hi
		l := ev.Const(lo, 32, true)
		h := ev.Const(hi, 32, true)
		ge := m.Not(evLess(ev, r, l))
		le := m.Not(evLess(ev, h, r))
		return m.And(ge, le)
	}
	outer := m.Or(inRange('0', '9'), m.Or(inRange('A', 'Z'), inRange('a', 'z')))
	inner := m.Or(outer, inRange('-', '-'))
	for _, spec := range []struct {
		fn   string
		want int
		desc string
	}{{"IsValidHostOuterRune", outer, "[0-9A-Za-z]"}, {"IsValidHostInnerRune", inner, "[0-9A-Za-z-]"}} {
		f := c.fn("netutil", spec.fn)
		if f == nil {
			continue
		}
		rs, err := ev.Call(f, []boolfn.Val{r})
		if err != nil || len(rs) != 1 || len(rs[0].Bits) != 1 {
			c.undecided("C03.rune-class", f, spec.fn+" == "+spec.desc, nil, sprintf("outside the loop-free grammar: %v", err))
			continue
		}
		got := rs[0].Bits[0]
		reason := "exact set equality over all 2^32 rune values (BDD identity)"
		if got != spec.want {
			w := m.Witness(m.Xor(got, spec.want))
			var v int64
			for i := 0; i < 32; i++ {
				if w[i] {
					v |= 1 << uint(31-i)
				}
			}
			v = int64(int32(v))
			reason = sprintf("differs from %s, e.g. at rune %d (%q)", spec.desc, v, rune(v))
		}
		c.check(got == spec.want, "C03.rune-class", f, spec.fn+" == "+spec.desc, nil, reason)
	}
	// hasValidTLDChars: true iff some rune is outside [0-9]
	f := c.fn("netutil", "hasValidTLDChars")
	if f == nil || tldExact {
		if tldExact {
			c.L.Floor("C03.rune-class", 2)
		}
		return
	}
	var rv ssa.Value
	var rvs []ssa.Value
	core.EachInstr(f, func(in ssa.Instruction) {
		if ex, ok := in.(*ssa.Extract); ok && ex.Index == 2 {
			if _, isNext := ex.Tuple.(*ssa.Next); isNext {
				if rv == nil {
					rv = ex
				}
				rvs = append(rvs, ex)
			}
		}
	})
	heads := core.LoopHeads(f)
	if rv == nil || len(heads) != 1 {
		c.undecided("C03.rune-class", f, "TLD test: some rune outside [0-9]", nil, "not a single range loop over the label")
		return
	}
	// thresholds
	th := map[int64]bool{0: true, 0x10FFFF: true}
	core.EachInstr(f, func(in ssa.Instruction) {
		if b, ok := in.(*ssa.BinOp); ok && (isOneOf(b.X, rvs) || isOneOf(b.Y, rvs)) {
			for _, o := range []ssa.Value{b.X, b.Y} {
				if k, isK := core.ConstInt(o); isK {
					th[k-1], th[k], th[k+1] = true, true, true
				}
			}
		}
	})
	th['0'-1], th['0'], th['9'], th['9'+1] = true, true, true, true
	var ks []int64
	for k := range th {
		if k >= 0 {
			ks = append(ks, k)
		}
	}
	sort.Slice(ks, func(i, j int) bool { return ks[i] < ks[j] })
	bodyStart := rv.(*ssa.Extract).Block()
	bad := ""
	for _, k := range ks {
		// walk the body for this rune value
		blk := bodyStart
		res := "continue"
		for steps := 0; steps < 50; steps++ {
			last := blk.Instrs[len(blk.Instrs)-1]
			switch x := last.(type) {
			case *ssa.If:
				env := map[ssa.Value]int64{}
				for _, r := range rvs {
					env[r] = k
				}
				v, ok := evalSmall(x.Cond, env, 0)
				if !ok {
					res = "?"
					steps = 100
					break
				}
				if v == 1 {
					blk = blk.Succs[0]
				} else {
					blk = blk.Succs[1]
				}
				if core.LoopHeads(f)[blk] {
					res = "continue"
					break
				}
				continue
			case *ssa.Return:
				if b, _ := core.ConstBool(x.Results[0]); b {
					res = "true"
				} else {
					res = "false"
				}
			case *ssa.Jump:
				if core.LoopHeads(f)[blk.Succs[0]] {
					res = "continue"
				} else {
					blk = blk.Succs[0]
					continue
				}
			}
			break
		}
		want := "continue"
		if k < '0' || k > '9' {
			want = "true"
		}
		if res != want && bad == "" {
			bad = sprintf("for rune %d (%q) the loop body does %q, expected %q", k, rune(k), res, want)
		}
	}
	// after the loop: false
	okEnd := false
	for _, ret := range core.Returns(f) {
		if b, isK := core.ConstBool(ret.Results[0]); isK && !b && !core.InLoop(ret) {
			okEnd = true
		}
	}
	c.check(bad == "" && okEnd, "C03.rune-class", f, "TLD test: true iff some rune is outside [0-9]", nil,
		sprintf("loop body evaluated at every comparison threshold (%d values); all-digit labels return false. %s", len(ks), bad))
}

// evLess builds signed a < b on two bit vectors of the evaluator.
func evLess(ev *boolfn.Eval, a, b boolfn.Val) int {
	m := ev.M
	n := len(a.Bits)
	lt := 0
	for i := 0; i < n; i++ {
		ai, bi := a.Bits[i], b.Bits[i]
		if i == n-1 { // sign bit flipped for signed comparison
			ai, bi = m.Not(ai), m.Not(bi)
		}
		lt = m.Or(m.And(m.Not(ai), bi), m.And(m.Not(m.Xor(ai, bi)), lt))
	}
	return lt
}

var _ = token.ADD

func isOneOf(v ssa.Value, vs []ssa.Value) bool {
	for _, x := range vs {
		if x == v {
			return true
		}
	}
	return false
}

// c03LabelIteration: the name validators walk the labels with
//
//	label, tail, found := strings.Cut(name, ".")
//	for ; found; label, tail, found = strings.Cut(tail, ".") { check(label) }
//	return ValidateTLDLabel(label)
//
// The rule identifies the three loop-carried values by what they are (results
// 0, 1, 2 of a Cut on "." of the ASCII name / of the previous tail) and checks
// that the loop runs exactly while the last Cut found a dot, that every label
// before the last is validated, and that the last label (possibly empty: a
// trailing dot) goes to the TLD validator.
func c03LabelIteration(c *Ctx, f *ssa.Function, subject ssa.Value) {
	what := "labels are split at every '.', each non-final label is validated, the final one (empty after a trailing dot) is validated as TLD"
	var head *ssa.BasicBlock
	for h := range core.LoopHeads(f) {
		if head != nil {
			c.undecided("C03.label-iteration", f, what, nil, "more than one loop")
			return
		}
		head = h
	}
	if head == nil {
		c.undecided("C03.label-iteration", f, what, nil, "no loop")
		return
	}
	isCut := func(v ssa.Value, arg ssa.Value) (*ssa.Call, bool) {
		call, ok := v.(*ssa.Call)
		if !ok || core.CalleeName(&call.Call) != "strings.Cut" {
			return nil, false
		}
		sep, isK := core.ConstString(call.Call.Args[1])
		return call, isK && sep == "." && (arg == nil || call.Call.Args[0] == arg)
	}
	phis := map[int]*ssa.Phi{}
	var entryCut, backCut *ssa.Call
	for _, in := range head.Instrs {
		phi, ok := in.(*ssa.Phi)
		if !ok {
			break
		}
		idx := -1
		okPhi := true
		for i, e := range phi.Edges {
			ex, isEx := e.(*ssa.Extract)
			if !isEx {
				okPhi = false
				break
			}
			call, isC := isCut(ex.Tuple, nil)
			if !isC || (idx >= 0 && idx != ex.Index) {
				okPhi = false
				break
			}
			idx = ex.Index
			if head.Dominates(head.Preds[i]) {
				if backCut != nil && backCut != call {
					okPhi = false
				}
				backCut = call
			} else {
				if entryCut != nil && entryCut != call {
					okPhi = false
				}
				entryCut = call
			}
		}
		if okPhi && idx >= 0 {
			phis[idx] = phi
		}
	}
	label, tail, found := phis[0], phis[1], phis[2]
	if label == nil || tail == nil || entryCut == nil || backCut == nil {
		c.check(false, "C03.label-iteration", f, what, nil, "the loop does not carry (label, tail) as results 0 and 1 of strings.Cut(_, \".\")")
		return
	}
	okSrc := entryCut.Call.Args[0] == subject && backCut.Call.Args[0] == ssa.Value(tail)
	// the loop condition is `found` of the Cut that produced the current label
	hif, _ := head.Instrs[len(head.Instrs)-1].(*ssa.If)
	okCond := false
	condDesc := "-"
	if hif != nil {
		cond, truth := core.StripNot(hif.Cond, true)
		condDesc = core.Describe(cond)
		body := core.LoopBody(head)
		okCond = found != nil && cond == ssa.Value(found) && truth && body[hif.Block().Succs[0]] && !body[hif.Block().Succs[1]]
	}
	// every iteration validates the current label
	okBody := false
	for b := range core.LoopBody(head) {
		for _, in := range b.Instrs {
			if call, ok := in.(*ssa.Call); ok && call.Call.StaticCallee() != nil && strings.HasPrefix(call.Call.StaticCallee().Name(), "Validate") && len(call.Call.Args) == 1 && call.Call.Args[0] == ssa.Value(label) {
				okBody = true
			}
		}
	}
	// inside the loop: a bad label ends the walk with its error, a good one lets it
	// go on — the test `err != nil` on the validator's result dominates every
	// back edge, leaves the loop when true and stays in it when false
	okFlow, flowWhy := false, "no `err != nil` test of the label validator's result found in the loop body"
	lb := core.LoopBody(head)
	for b := range lb {
		iff, isIf := b.Instrs[len(b.Instrs)-1].(*ssa.If)
		if !isIf || b == head {
			continue
		}
		cond, truth := core.StripNot(iff.Cond, true)
		bo, isB := cond.(*ssa.BinOp)
		if !isB || (bo.Op != token.NEQ && bo.Op != token.EQL) || !core.IsNilConst(bo.Y) {
			continue
		}
		srcs := reachingErrValues(bo.X, iff)
		if len(srcs) == 0 {
			continue
		}
		allValidate := true
		for _, v := range srcs {
			call, isC := v.(*ssa.Call)
			if !isC || call.Call.StaticCallee() == nil || !strings.HasPrefix(call.Call.StaticCallee().Name(), "Validate") || len(call.Call.Args) != 1 || call.Call.Args[0] != ssa.Value(label) {
				allValidate = false
			}
		}
		if !allValidate {
			continue
		}
		nonNilSucc, nilSucc := b.Succs[0], b.Succs[1]
		if (bo.Op == token.NEQ) != truth {
			nonNilSucc, nilSucc = nilSucc, nonNilSucc
		}
		domLatches := true
		for _, p := range head.Preds {
			if head.Dominates(p) && !b.Dominates(p) {
				domLatches = false
			}
		}
		switch {
		case core.Reaches(nonNilSucc, head) || nonNilSucc == head:
			flowWhy = "after a label was found invalid the walk goes on"
		case !(core.Reaches(nilSucc, head) || nilSucc == head):
			flowWhy = "a valid label ends the walk: the labels after it are never validated"
		case !domLatches:
			flowWhy = "a path around the error test reaches the next iteration"
		default:
			okFlow = true
		}
	}
	// SRV names: the '_' prefix selects the service-label validator, and only it
	hasSvc := false
	for b := range lb {
		for _, in := range b.Instrs {
			if call, ok := in.(*ssa.Call); ok && call.Call.StaticCallee() != nil && call.Call.StaticCallee().Name() == "ValidateServiceNameLabel" {
				hasSvc = true
			}
		}
	}
	if hasSvc {
		for b := range lb {
			for _, in := range b.Instrs {
				call, ok := in.(*ssa.Call)
				if !ok || call.Call.StaticCallee() == nil || !strings.HasPrefix(call.Call.StaticCallee().Name(), "Validate") {
					continue
				}
				wantPrefix := call.Call.StaticCallee().Name() == "ValidateServiceNameLabel"
				okSel := false
				for _, g := range core.GuardsOf(call) {
					cond, truth := core.StripNot(g.Cond, g.Truth)
					if hp, isC := cond.(*ssa.Call); isC && core.CalleeName(&hp.Call) == "strings.HasPrefix" && hp.Call.Args[0] == ssa.Value(label) {
						if pre, isK := core.ConstString(hp.Call.Args[1]); isK && pre == "_" && truth == wantPrefix {
							okSel = true
						}
					}
				}
				c.check(okSel, "C03.label-iteration", f, call.Call.StaticCallee().Name()+" is applied exactly to the labels "+map[bool]string{true: "with", false: "without"}[wantPrefix]+" a leading '_'", call,
					"an SRV name is a sequence of '_'-service labels and hostname labels, each checked by its own validator")
			}
		}
	}
	// the exit validates the final label as TLD
	okTLD := false
	for _, ci := range core.CallsTo(f, core.ModPath+"/netutil.ValidateTLDLabel") {
		if ci.Common().Args[0] == ssa.Value(label) && !core.LoopBody(head)[ci.Block()] {
			okTLD = true
		}
	}
	c.check(okSrc && okCond && okBody && okTLD && okFlow, "C03.label-iteration", f, what, hif,
		sprintf("first Cut on the ASCII name and next on the previous tail: %v; loop runs while `found` of the last Cut (condition is %s): %v; body validates the current label: %v; an invalid label leaves the loop, a valid one continues: %v (%s); exit passes the last label to ValidateTLDLabel: %v",
			okSrc, condDesc, okCond, okBody, okFlow, flowWhy, okTLD))
}

// reachingErrValues: v is an error value tested at `at`; when it is a load of
// a local cell (named result under a deferred wrapper) the values of the
// nearest stores on every path to the load are returned, otherwise v itself
// (flattened through phis).
func reachingErrValues(v ssa.Value, at ssa.Instruction) []ssa.Value {
	ld, ok := v.(*ssa.UnOp)
	if !ok || ld.Op != token.MUL {
		return flattenPhi(v)
	}
	cell := ld.X
	var out []ssa.Value
	seen := map[*ssa.BasicBlock]bool{}
	lastStore := func(b *ssa.BasicBlock, before ssa.Instruction) ssa.Value {
		var last ssa.Value
		for _, in := range b.Instrs {
			if in == before {
				break
			}
			if st, ok := in.(*ssa.Store); ok && st.Addr == cell {
				last = st.Val
			}
		}
		return last
	}
	var walk func(b *ssa.BasicBlock, before ssa.Instruction)
	walk = func(b *ssa.BasicBlock, before ssa.Instruction) {
		if v := lastStore(b, before); v != nil {
			out = append(out, flattenPhi(v)...)
			return
		}
		if seen[b] {
			return
		}
		seen[b] = true
		for _, p := range b.Preds {
			walk(p, nil)
		}
	}
	walk(ld.Block(), ld)
	return out
}

// c03LabelTables: the loop-free label validators as decision tables.  The
// skeleton of each is evaluated over an abstraction of the label — its length
// class, whether it starts with '_', and the verdicts of the validators it
// delegates to (free Booleans, forced false where the delegated text is empty)
// — and must accept exactly what the grammar says.
func c03LabelTables(c *Ctx, sp *ssa.Package, exact map[string]bool) {
	c.L.Floor("C03.label-table", 3)
	type input struct {
		l      int64
		under  bool // first byte is '_'
		opaque map[string]bool
	}
	reLen := regexp.MustCompile(`^\(len\(p0\) (==|!=|<|<=|>|>=) (\d+)\)$`)
	reFirst := regexp.MustCompile(`^\(p0\[0\] (==|!=) 95\)$`)
	cmp := func(op string, a, b int64) bool {
		switch op {
		case "==":
			return a == b
		case "!=":
			return a != b
		case "<":
			return a < b
		case "<=":
			return a <= b
		case ">":
			return a > b
		}
		return a >= b
	}
	var atomsOf func(t *skel.Tree, into map[string]bool)
	atomsOf = func(t *skel.Tree, into map[string]bool) {
		if t == nil || t.Leaf != "" {
			return
		}
		if t.Atom != "" {
			into[t.Atom] = true
		}
		atomsOf(t.Yes, into)
		atomsOf(t.No, into)
	}
	isOpaque := func(a string) bool {
		return strings.HasPrefix(a, "accepts(") || strings.HasPrefix(a, "hasValidTLDChars(") || strings.HasPrefix(a, "IsValidHost")
	}
	evalAtom := func(a string, in input) (bool, bool) {
		switch {
		case a == `(p0 == "")`:
			return in.l == 0, true
		case a == `(p0 != "")`:
			return in.l != 0, true
		case a == `(p0 == "_")`:
			return in.l == 1 && in.under, true
		case a == `(p0 != "_")`:
			return !(in.l == 1 && in.under), true
		}
		if m := reFirst.FindStringSubmatch(a); m != nil {
			return (m[1] == "==") == in.under, in.l > 0
		}
		if m := reLen.FindStringSubmatch(a); m != nil {
			k, _ := strconv.ParseInt(m[2], 10, 64)
			return cmp(m[1], in.l, k), true
		}
		if isOpaque(a) {
			return in.opaque[a], true
		}
		return false, false
	}
	var evalTree func(t *skel.Tree, in input) (string, string)
	evalTree = func(t *skel.Tree, in input) (string, string) {
		if t == nil {
			return "", "empty skeleton"
		}
		if t.Leaf != "" {
			return t.Leaf, ""
		}
		if t.Loop != "" {
			return "", "a loop"
		}
		v, ok := evalAtom(t.Atom, in)
		if !ok {
			return "", "an atom outside the label abstraction: " + t.Atom
		}
		if v {
			return evalTree(t.Yes, in)
		}
		return evalTree(t.No, in)
	}
	specs := []struct {
		fn   string
		want func(in input) bool
		desc string
	}{
		{"ValidateDomainNameLabel", func(in input) bool { return in.l >= 1 && in.l <= 63 }, "1 <= len <= 63"},
		{"ValidateTLDLabel", func(in input) bool { return in.opaque["accepts(HostLabel,p0)"] && in.opaque["hasValidTLDChars(p0)"] }, "hostname label with a non-digit"},
		{"ValidateServiceNameLabel", func(in input) bool {
			return in.l >= 2 && in.l <= 16 && in.under && in.opaque["accepts(HostLabel,p0[1:])"]
		}, "'_' + hostname label, 2..16 bytes"},
	}
	nLeft := 0
	for _, spc := range specs {
		if !exact[spc.fn] {
			nLeft++
		}
	}
	c.L.Floor("C03.label-table", nLeft)
	for _, spc := range specs {
		f := c.fn("netutil", spc.fn)
		if f == nil || exact[spc.fn] {
			continue
		}
		b := &skel.Builder{Pkg: sp, Family: c03Family}
		var tree *skel.Tree
		func() {
			defer func() { recover() }()
			tree = b.Skeleton(f)
		}()
		what := spc.fn + " accepts exactly: " + spc.desc
		if tree == nil {
			c.undecided("C03.label-table", f, what, nil, "no skeleton")
			continue
		}
		atoms := map[string]bool{}
		atomsOf(tree, atoms)
		var ops []string
		for a := range atoms {
			if isOpaque(a) {
				ops = append(ops, a)
			}
		}
		sort.Strings(ops)
		bad, undec := "", ""
		n := 0
		for _, l := range []int64{0, 1, 2, 3, 15, 16, 17, 62, 63, 64, 65} {
			for _, under := range []bool{false, true} {
				if l == 0 && under {
					continue
				}
				for m := 0; m < 1<<uint(len(ops)); m++ {
					in := input{l: l, under: under, opaque: map[string]bool{}}
					skip := false
					for i, a := range ops {
						v := m&(1<<uint(i)) != 0
						// a delegated validator cannot accept an empty text
						if v && ((l == 0 && strings.HasSuffix(a, ",p0)")) || (l <= 1 && strings.HasSuffix(a, ",p0[1:])")) || (l == 0 && strings.HasSuffix(a, "(p0)"))) {
							skip = true
						}
						// nor one longer than a label
						if v && strings.HasPrefix(a, "accepts(") && strings.HasSuffix(a, ",p0)") && l > 63 {
							skip = true
						}
						in.opaque[a] = v
					}
					if skip {
						continue
					}
					got, why := evalTree(tree, in)
					if why != "" {
						undec = why
						break
					}
					n++
					if want := spc.want(in); (got == "ACC") != want && bad == "" {
						bad = sprintf("for len %d, leading '_' %v, delegates %v the validator says %s, the grammar %v", l, under, in.opaque, got, want)
					}
				}
			}
		}
		if undec != "" {
			c.undecided("C03.label-table", f, what, nil, undec)
			continue
		}
		c.check(bad == "", "C03.label-table", f, what, nil, sprintf("%d abstract inputs evaluated on the decision skeleton. %s", n, bad))
	}
}
