package rules

import (
	"golang.org/x/tools/go/ssa"

	"verif/sa/boolfn"
)

// A model of the part of net/netip the ARPA decoders use, for the exact
// evaluator.  An Addr is an array of 17 symbolic bytes: 16 address bytes (an
// IPv4 address in the first four) and a flag byte (bit 0: Is4, bit 1: Is6); a
// Prefix is an Addr followed by one byte of prefix length.  ParseAddr is
// modelled exactly for dotted quads (four decimal fields 0..255 without
// leading zeros); whether a text that is no dotted quad parses as IPv6 is a
// fresh Boolean unknown — the result then has Is4 == false, which is all the
// decoders ask, and a verdict that depended on the unknown would not compare
// equal to the codec.

type netipModel struct {
	ev    *boolfn.Eval
	fresh int // next variable index for unknowns
}

func (nm *netipModel) flag(is4, is6 int) []int {
	b := make([]int, 8)
	b[0], b[1] = is4, is6
	return b
}

func zeroBytes(n int) [][]int {
	out := make([][]int, n)
	for i := range out {
		out[i] = make([]int, 8)
	}
	return out
}

// octet: the bytes s[lo:hi] (1..3 of them) are a decimal 0..255 without a
// leading zero; value as 8 bits.
func (nm *netipModel) octet(s [][]int, lo, hi int) (ok int, val []int) {
	m := nm.ev.M
	val = make([]int, 8)
	n := hi - lo
	if n < 1 || n > 3 {
		return 0, val
	}
	eqByte := func(bits []int, v int) int {
		eq := 1
		for k := 0; k < 8; k++ {
			bit := bits[k]
			if (v>>uint(k))&1 == 0 {
				bit = m.Not(bit)
			}
			eq = m.And(eq, bit)
		}
		return eq
	}
	from, to := 0, 9
	if n == 2 {
		from, to = 10, 99
	} else if n == 3 {
		from, to = 100, 255
	}
	for v := from; v <= to; v++ {
		d := sprintf("%d", v)
		cube := 1
		for i := 0; i < n; i++ {
			cube = m.And(cube, eqByte(s[lo+i], int(d[i])))
		}
		ok = m.Or(ok, cube)
		for b := 0; b < 8; b++ {
			if (v>>uint(b))&1 == 1 {
				val[b] = m.Or(val[b], cube)
			}
		}
	}
	return ok, val
}

// labels enumerates the ways s[lo:hi] can be k dot-separated decimal octets:
// for each, the condition and the octet values in textual order.
func (nm *netipModel) labels(s [][]int, lo, hi, k int, f func(cond int, vals [][]int)) {
	m := nm.ev.M
	dot := func(i int) int {
		eq := 1
		for b := 0; b < 8; b++ {
			bit := s[i][b]
			if ('.'>>uint(b))&1 == 0 {
				bit = m.Not(bit)
			}
			eq = m.And(eq, bit)
		}
		return eq
	}
	var rec func(pos, left int, cond int, vals [][]int)
	rec = func(pos, left int, cond int, vals [][]int) {
		if cond == 0 {
			return
		}
		for n := 1; n <= 3; n++ {
			end := pos + n
			if end > hi {
				break
			}
			ok, v := nm.octet(s, pos, end)
			c := m.And(cond, ok)
			if c == 0 {
				continue
			}
			nv := append(append([][]int(nil), vals...), v)
			if left == 1 {
				if end == hi {
					f(c, nv)
				}
				continue
			}
			if end < hi {
				rec(end+1, left-1, m.And(c, dot(end)), nv)
			}
		}
	}
	rec(lo, k, 1, nil)
}

// parseV4: s is a dotted quad; the four bytes.
func (nm *netipModel) parseV4(s [][]int) (ok int, addr [][]int) {
	m := nm.ev.M
	addr = zeroBytes(4)
	nm.labels(s, 0, len(s), 4, func(cond int, vals [][]int) {
		ok = m.Or(ok, cond)
		for i := 0; i < 4; i++ {
			for b := 0; b < 8; b++ {
				addr[i][b] = m.Or(addr[i][b], m.And(cond, vals[i][b]))
			}
		}
	})
	return ok, addr
}

func strElems(v boolfn.Val) ([][]int, bool) {
	switch v.Kind {
	case boolfn.KSlice:
		if v.Elems == nil && v.Hi > v.Lo {
			return nil, false
		}
		return v.Elems[v.Lo:v.Hi], true
	}
	return nil, false
}

// OnCall is the boolfn.Eval.OnCall of the model.
func (nm *netipModel) OnCall(name string, call *ssa.CallCommon, args []boolfn.Val) (boolfn.Val, bool) {
	ev, m := nm.ev, nm.ev.M
	isAddr := func(v boolfn.Val) bool { return v.Kind == boolfn.KArray && len(v.Elems) == 17 }
	arr := func(el [][]int) boolfn.Val { return boolfn.Val{Kind: boolfn.KArray, Elems: el} }
	switch name {
	case "net/netip.ParseAddr":
		var s [][]int
		switch args[0].Kind {
		case boolfn.KStr:
			s = make([][]int, len(args[0].Str))
			for i := range s {
				s[i] = ev.Const(int64(args[0].Str[i]), 8, false).Bits
			}
		default:
			var ok bool
			if s, ok = strElems(args[0]); !ok {
				return boolfn.Val{}, false
			}
		}
		ok4, a4 := nm.parseV4(s)
		unknown := m.Var(nm.fresh) // "parses as IPv6"
		nm.fresh++
		is6 := m.And(m.Not(ok4), unknown)
		el := append(a4, zeroBytes(12)...)
		el = append(el, nm.flag(ok4, is6))
		errBit := m.And(m.Not(ok4), m.Not(unknown))
		return boolfn.Val{Kind: boolfn.KTuple, Tuple: []boolfn.Val{arr(el), boolfn.BoolVal(errBit)}}, true
	case "net/netip.AddrFrom4":
		if args[0].Kind != boolfn.KArray || len(args[0].Elems) != 4 {
			return boolfn.Val{}, false
		}
		el := append(append([][]int(nil), args[0].Elems...), zeroBytes(12)...)
		return arr(append(el, nm.flag(1, 0))), true
	case "net/netip.AddrFrom16":
		if args[0].Kind != boolfn.KArray || len(args[0].Elems) != 16 {
			return boolfn.Val{}, false
		}
		el := append([][]int(nil), args[0].Elems...)
		return arr(append(el, nm.flag(0, 1))), true
	case "(net/netip.Addr).Is4":
		if isAddr(args[0]) {
			return boolfn.BoolVal(args[0].Elems[16][0]), true
		}
	case "(net/netip.Addr).Is6":
		if isAddr(args[0]) {
			return boolfn.BoolVal(args[0].Elems[16][1]), true
		}
	case "(net/netip.Addr).IsValid":
		if isAddr(args[0]) {
			return boolfn.BoolVal(m.Or(args[0].Elems[16][0], args[0].Elems[16][1])), true
		}
	case "(net/netip.Addr).As4":
		// defined for IPv4 (and IPv4-mapped, which the model never builds)
		if isAddr(args[0]) {
			return arr(append([][]int(nil), args[0].Elems[:4]...)), true
		}
	case "(net/netip.Addr).As16":
		if isAddr(args[0]) {
			// an IPv4 address in its IPv4-mapped form, an IPv6 one as it is
			a := args[0]
			is4 := a.Elems[16][0]
			el := make([][]int, 16)
			for i := range el {
				el[i] = make([]int, 8)
				for b := 0; b < 8; b++ {
					v4 := 0
					switch {
					case i == 10 || i == 11:
						v4 = 1
					case i >= 12:
						v4 = a.Elems[i-12][b]
					}
					el[i][b] = m.Ite(is4, v4, a.Elems[i][b])
				}
			}
			return arr(el), true
		}
	case "(net/netip.Addr).BitLen":
		if isAddr(args[0]) {
			bits := make([]int, 64)
			bits[5] = args[0].Elems[16][0] // 32
			bits[7] = args[0].Elems[16][1] // 128
			return boolfn.Val{Kind: boolfn.KBits, Bits: bits, Signed: true}, true
		}
	case "net/netip.PrefixFrom":
		if len(args) == 2 && isAddr(args[0]) && args[1].Kind == boolfn.KBits {
			bits := args[1].Bits
			for i := 8; i < len(bits); i++ {
				if bits[i] != 0 {
					return boolfn.Val{}, false
				}
			}
			el := append([][]int(nil), args[0].Elems...)
			return arr(append(el, bits[:8])), true
		}
	}
	return boolfn.Val{}, false
}
