package rules

import (
	"go/token"
	"go/types"
	"strings"

	"golang.org/x/tools/go/ssa"

	"verif/sa/core"
)

func init() {
	register(&Property{
		ID:    "C13",
		Level: "other",
		Explanation: "Decided exactly by abstract evaluation into BDDs (no execution) on short operands: ContainsFold(s, substr) as a Boolean function of the bits of s (every valid UTF-8 s of up to 6 bytes; 8 thorough) equals 'some window of len(substr) bytes starting at a rune boundary is EqualFold to substr', for every ASCII needle of one byte (two bytes against s of up to 3 bytes), every rune of every fold orbit with more than two members, one rune per other orbit shape, 196 pairs and 8 triples — with IndexFunc, DecodeRuneInString, SimpleFold (the Unicode table as a function of the rune) and EqualFold given their exact meaning; SplitTrimmed(s, sep) returns, on every path, exactly the definition's list of windows (trim, split, trim each, drop empty) for every valid UTF-8 s of up to 5 bytes (7 thorough) and five separators. Structural rules: the returned slice is provably non-nil (provenance), and as fall-back when a function leaves the evaluator's grammar: the pre-filter accepts the whole fold orbit, the search runs over the whole rest, every candidate is confirmed by EqualFold on a window of len(substr) bytes; SplitTrimmed is filter(non-empty, map(TrimSpace, Split(TrimSpace(s), sep))). " +
			"Bounds/termination of both are C01. Not decided: longer operands, needles of several runes beyond the listed ones, operands that are not valid UTF-8.",
		Technique: "exact abstract evaluation of go/ssa into ROBDDs with library models (UTF-8 decoding, Unicode fold table, Split/TrimSpace/EqualFold/IndexFunc), compared with the definition as Boolean functions / window lists; SSA provenance rule for non-nil; SSA shape rules as fall-back",
		Note:      "Trusted: go/ssa, unicode.SimpleFold enumerating the orbit cyclically, strings.EqualFold / IndexFunc / Split / TrimSpace contracts.",
		DesignRef: "DESIGN.md section 4, C13",
		Run:       runC13,
	})
}

func runC13(c *Ctx) {
	c.L.Trust("go/types + go/ssa", "unicode.SimpleFold iterates over the fold orbit and wraps around", "strings.EqualFold, strings.IndexFunc, strings.Split, strings.TrimSpace")
	c.L.Floor("C13.fold.prefilter-complete", 1)
	c.L.Floor("C13.fold.search-window", 1)
	c.L.Floor("C13.fold.confirm", 1)
	c.L.Floor("C13.split.pipeline", 3)
	c.L.Floor("C13.split.non-nil", 1)

	if c13FoldExact(c) {
		// decided exactly on short operands (c13exact.go): the shape rules are
		// the fall-back for a function outside the evaluator's grammar
		c.L.Floor("C13.fold.prefilter-complete", 0)
		c.L.Floor("C13.fold.search-window", 0)
		c.L.Floor("C13.fold.confirm", 0)
	} else if f := c.fn("stringutil", "ContainsFold"); f != nil {
		c13Fold(c, f)
	}
	if c13SplitExact(c) {
		// the pipeline is decided exactly on short ASCII inputs (c13exact.go);
		// non-nil-ness of the result stays a provenance rule
		c.L.Floor("C13.split.pipeline", 0)
		if f := c.fn("stringutil", "SplitTrimmed"); f != nil {
			c13SplitNonNil(c, f)
		}
	} else if f := c.fn("stringutil", "SplitTrimmed"); f != nil {
		c13Split(c, f)
	}
}

func c13Fold(c *Ctx, f *ssa.Function) {
	s, substr := f.Params[0], f.Params[1]
	idxCalls := core.CallsTo(f, "strings.IndexFunc")
	if len(idxCalls) == 0 {
		// no pre-filter: every position is tried, trivially complete — but then
		// some other advance must exist; accept only the plain s[1:] step
		c.check(true, "C13.fold.prefilter-complete", f, "no candidate pre-filter", nil, "every position is a candidate")
	}
	for _, ci := range idxCalls {
		call := ci.(*ssa.Call)
		// search window: the whole rest of the current window, s[1:]
		sl, ok := call.Call.Args[0].(*ssa.Slice)
		okWin := ok && sl.High == nil && sl.Low != nil
		if okWin {
			k, isK := core.ConstInt(sl.Low)
			okWin = isK && k == 1
			if phi, isPhi := sl.X.(*ssa.Phi); !isPhi || !phiRootedAt(phi, s) {
				okWin = false
			}
		}
		c.check(okWin, "C13.fold.search-window", f, "candidates are searched in the whole rest s[1:]", call,
			"fold variants of one letter have different UTF-8 widths (k / Kelvin sign, s / long s), so the search window cannot be shortened by a byte count derived from substr")
		// predicate
		mc, ok := call.Call.Args[1].(*ssa.MakeClosure)
		if !ok {
			c.undecided("C13.fold.prefilter-complete", f, "IndexFunc predicate", call, "predicate is not a closure literal")
			continue
		}
		pred := mc.Fn.(*ssa.Function)
		c.L.Saw(core.FuncName(pred))
		// the captured rune must be the first rune of substr
		okFirst := false
		var firstCell ssa.Value
		for _, b := range mc.Bindings {
			al, isAl := b.(*ssa.Alloc)
			if !isAl {
				continue
			}
			for _, r := range core.Refs(al) {
				if st, isSt := r.(*ssa.Store); isSt && st.Addr == ssa.Value(al) {
					if ex, isEx := st.Val.(*ssa.Extract); isEx && ex.Index == 0 {
						if dc, isC := ex.Tuple.(*ssa.Call); isC && core.CalleeName(&dc.Call) == "unicode/utf8.DecodeRuneInString" && dc.Call.Args[0] == ssa.Value(substr) {
							okFirst = true
							firstCell = al
						}
					}
				}
			}
		}
		_ = firstCell
		why, complete := predicateOrbitComplete(c, pred)
		c.check(okFirst && complete, "C13.fold.prefilter-complete", f, "IndexFunc predicate accepts the whole fold orbit of substr's first rune", call,
			"a position whose rune folds to substr's first rune must not be skipped: "+why)
	}
	// every value that may be returned (result variables and inlined helpers
	// included) is false, the EqualFold of the equal-length case, or a true
	// that arrives under EqualFold(window of len(substr), substr) — or under
	// len(substr) == 0, where the empty window matches
	fs := core.Facts(f)
	for _, ret := range core.Returns(f) {
		for _, lf := range fs.Leaves(ret.Results[0], ret) {
			switch v := lf.V.(type) {
			case *ssa.Const:
				if b, _ := core.ConstBool(v); !b {
					continue
				}
				okE := false
				for _, g := range lf.Facts {
					if call, ok := g.Cond.(*ssa.Call); ok && g.Truth && core.CalleeName(&call.Call) == "strings.EqualFold" {
						if eqFoldOnWindow(call, substr) {
							okE = true
						}
					}
					if zv, isZero, ok := core.ZeroTest(g.Cond, g.Truth); ok && isZero {
						if lc, isC := zv.(*ssa.Call); isC && core.CalleeName(&lc.Call) == "builtin.len" && lc.Call.Args[0] == ssa.Value(substr) {
							okE = true
						}
					}
				}
				c.check(okE, "C13.fold.confirm", f, "return true only after EqualFold(s[:len(substr)], substr)", ret, "a match is a window of exactly len(substr) bytes that equals substr under simple folding")
			case *ssa.Call:
				if core.CalleeName(&v.Call) == "strings.EqualFold" {
					okArgs := (v.Call.Args[0] == ssa.Value(s) && v.Call.Args[1] == ssa.Value(substr)) || eqFoldOnWindow(v, substr)
					c.check(okArgs, "C13.fold.confirm", f, "equal-length case decided by EqualFold(s, substr)", ret, "same byte length")
				} else {
					c.check(false, "C13.fold.confirm", f, "result "+core.Describe(v), ret, "a result that is not decided by strings.EqualFold on a window of len(substr) bytes")
				}
			default:
				c.check(false, "C13.fold.confirm", f, "result "+core.Describe(lf.V), ret, "a result that is not decided by strings.EqualFold on a window of len(substr) bytes")
			}
		}
	}
}

// phiRootedAt: phi's non-back edges are the parameter.
func phiRootedAt(phi *ssa.Phi, p ssa.Value) bool {
	for i, e := range phi.Edges {
		if !phi.Block().Dominates(phi.Block().Preds[i]) && e != p {
			return false
		}
	}
	return true
}

func eqFoldOnWindow(call *ssa.Call, substr ssa.Value) bool {
	if call.Call.Args[1] != substr {
		return false
	}
	sl, ok := call.Call.Args[0].(*ssa.Slice)
	if !ok || sl.Low != nil || sl.High == nil {
		return false
	}
	if lc, ok := sl.High.(*ssa.Call); ok {
		if b, ok := lc.Call.Value.(*ssa.Builtin); ok && b.Name() == "len" && lc.Call.Args[0] == substr {
			return true
		}
	}
	return false
}

// predicateOrbitComplete decides whether pred(r) is true for every rune in
// the simple-fold orbit of the captured/argument target rune.
func predicateOrbitComplete(c *Ctx, pred *ssa.Function) (string, bool) {
	// form A: return E(r, target) with E orbit-complete in (param0, param1)
	rets := core.Returns(pred)
	if len(rets) == 1 {
		if call, ok := rets[0].Results[0].(*ssa.Call); ok {
			n := core.CalleeName(&call.Call)
			if cal := call.Call.StaticCallee(); cal != nil && core.InModule(cal) && len(call.Call.Args) == 2 && call.Call.Args[0] == ssa.Value(pred.Params[0]) {
				c.L.Saw(core.FuncName(cal))
				return orbitLoop(cal, cal.Params[0], cal.Params[1])
			}
			if n == "strings.EqualFold" {
				return "delegates to strings.EqualFold", true
			}
		}
	}
	// form B: the loop is inline in the predicate
	var target ssa.Value
	core.EachInstr(pred, func(in ssa.Instruction) {
		if u, ok := in.(*ssa.UnOp); ok && u.Op == token.MUL {
			if _, isFV := u.X.(*ssa.FreeVar); isFV && target == nil {
				target = u
			}
		}
	})
	if target != nil && len(core.LoopHeads(pred)) > 0 {
		return orbitLoop(pred, pred.Params[0], target)
	}
	// otherwise: a bounded number of SimpleFold steps
	n := 0
	par := pred.Parent()
	if par == nil {
		par = pred // a method value or a named function used as the predicate
	}
	for _, fn := range core.WithClosures(par) {
		n += len(core.CallsTo(fn, "unicode.SimpleFold"))
	}
	return sprintf("the predicate compares with a fixed number of fold variants (%d SimpleFold call(s), no loop back to the start of the orbit); orbits such as {K, k, U+212A} and {S, s, U+017F} have three members", n), false
}

// orbitLoop: f returns true when r == t, and otherwise walks x = SimpleFold(t),
// SimpleFold(x), ... until it is back at t, returning true when x == r.
func orbitLoop(f *ssa.Function, r, t ssa.Value) (string, bool) {
	eqRT := false
	for _, ret := range core.Returns(f) {
		if b, ok := core.ConstBool(ret.Results[0]); ok && b {
			for _, g := range core.GuardsOf(ret) {
				if bo, ok := g.Cond.(*ssa.BinOp); ok && bo.Op == token.EQL && g.Truth && ((bo.X == r && bo.Y == t) || (bo.X == t && bo.Y == r)) {
					eqRT = true
				}
			}
		}
	}
	for h := range core.LoopHeads(f) {
		body := core.LoopBody(h)
		for _, in := range h.Instrs {
			phi, ok := in.(*ssa.Phi)
			if !ok {
				break
			}
			okEntry, okBack := false, false
			for i, e := range phi.Edges {
				call, isCall := e.(*ssa.Call)
				if !isCall || core.CalleeName(&call.Call) != "unicode.SimpleFold" {
					continue
				}
				if body[h.Preds[i]] {
					okBack = call.Call.Args[0] == ssa.Value(phi)
				} else {
					okEntry = call.Call.Args[0] == t
				}
			}
			if !okEntry || !okBack {
				continue
			}
			// continues while phi != t
			okExit := false
			if iff, ok := h.Instrs[len(h.Instrs)-1].(*ssa.If); ok {
				if bo, ok := iff.Cond.(*ssa.BinOp); ok && ((bo.X == ssa.Value(phi) && bo.Y == t) || (bo.Y == ssa.Value(phi) && bo.X == t)) {
					if (bo.Op == token.NEQ && body[h.Succs[0]] && !body[h.Succs[1]]) || (bo.Op == token.EQL && body[h.Succs[1]] && !body[h.Succs[0]]) {
						okExit = true
					}
				}
			}
			// phi == r returns true inside the body
			okHit := false
			for _, ret := range core.Returns(f) {
				if b, ok := core.ConstBool(ret.Results[0]); ok && b {
					for _, g := range core.GuardsOf(ret) {
						if bo, ok := g.Cond.(*ssa.BinOp); ok && bo.Op == token.EQL && g.Truth && ((bo.X == ssa.Value(phi) && bo.Y == r) || (bo.Y == ssa.Value(phi) && bo.X == r)) {
							okHit = true
						}
					}
				}
			}
			if okExit && okHit && eqRT {
				// a verdict other than `true` is reached only through the end of
				// the walk: a fast path that answers for some targets without
				// walking (a table of "letters with no third orbit member",
				// an ASCII shortcut) decides on its own which folds exist
				if why := verdictsAfterWalk(f, h, body); why != "" {
					return why, false
				}
				return "r == target, or r is met while walking SimpleFold from target back to target", true
			}
			if okExit && okHit && !eqRT {
				return "the orbit walk never compares r with target itself", false
			}
		}
	}
	return "no SimpleFold loop that walks the orbit back to its start", false
}

// verdictsAfterWalk: every value f may return is the constant true, or the
// constant false arriving from the exit of the orbit loop headed by h.
func verdictsAfterWalk(f *ssa.Function, h *ssa.BasicBlock, body map[*ssa.BasicBlock]bool) string {
	afterWalk := func(b *ssa.BasicBlock) bool {
		// b is h itself (the exit edge leaves from the head) or lies behind it, outside the body
		return b == h || (h.Dominates(b) && !body[b])
	}
	var bad string
	var visit func(v ssa.Value, from *ssa.BasicBlock, depth int)
	visit = func(v ssa.Value, from *ssa.BasicBlock, depth int) {
		if bad != "" || depth > 8 {
			return
		}
		if b, ok := core.ConstBool(v); ok {
			if !b && !afterWalk(from) {
				bad = "`false` is returned without the orbit of target having been walked"
			}
			return
		}
		if phi, ok := v.(*ssa.Phi); ok {
			for i, e := range phi.Edges {
				visit(e, phi.Block().Preds[i], depth+1)
			}
			return
		}
		if u, ok := v.(*ssa.UnOp); ok && u.Op == token.MUL {
			// a named result: the values stored into its cell
			if al, isAl := u.X.(*ssa.Alloc); isAl {
				for _, r := range core.Refs(al) {
					if st, isSt := r.(*ssa.Store); isSt && st.Addr == ssa.Value(al) {
						visit(st.Val, st.Block(), depth+1)
					}
				}
				return
			}
		}
		bad = "a verdict computed without walking the orbit of target is returned: " + core.Describe(v)
	}
	for _, ret := range core.Returns(f) {
		if len(ret.Results) == 1 {
			visit(ret.Results[0], ret.Block(), 0)
		}
	}
	return bad
}

// ---------------------------------------------------------------------------

func c13Split(c *Ctx, f *ssa.Function) {
	str, sep := f.Params[0], f.Params[1]
	// the split call: strings.Split(TrimSpace(str), sep)
	var split *ssa.Call
	for _, ci := range core.CallsTo(f, "strings.Split") {
		split = ci.(*ssa.Call)
	}
	okSplit := false
	if split != nil {
		if ts, ok := split.Call.Args[0].(*ssa.Call); ok && core.CalleeName(&ts.Call) == "strings.TrimSpace" && ts.Call.Args[0] == ssa.Value(str) && split.Call.Args[1] == ssa.Value(sep) {
			okSplit = true
		}
	}
	c.check(okSplit, "C13.split.pipeline", f, "pieces = strings.Split(strings.TrimSpace(str), sep)", split, "the reference definition")
	// appended values: TrimSpace(element of pieces), guarded non-empty, ascending order
	napp := 0
	core.EachInstr(f, func(in ssa.Instruction) {
		call, ok := in.(*ssa.Call)
		if !ok {
			return
		}
		if b, ok := call.Call.Value.(*ssa.Builtin); !ok || b.Name() != "append" || !isStringSlice(call.Type()) {
			return
		}
		napp++
		okV := false
		var trimmed *ssa.Call
		if sl, ok := call.Call.Args[1].(*ssa.Slice); ok {
			if al, ok := sl.X.(*ssa.Alloc); ok {
				for _, r := range core.Refs(al) {
					if ia, ok := r.(*ssa.IndexAddr); ok {
						for _, rr := range core.Refs(ia) {
							if st, ok := rr.(*ssa.Store); ok {
								if ts, ok := st.Val.(*ssa.Call); ok && core.CalleeName(&ts.Call) == "strings.TrimSpace" {
									trimmed = ts
								}
							}
						}
					}
				}
			}
		}
		if trimmed != nil && split != nil {
			if elemOf(trimmed.Call.Args[0], split) && ascendingOver(f, split) {
				okV = true
			}
		}
		c.check(okV, "C13.split.pipeline", f, "appends strings.TrimSpace(piece) for pieces in order", call, "map(TrimSpace) over the pieces, order preserved")
		okG := false
		if trimmed != nil {
			for _, g := range core.GuardsOf(call) {
				cond, truth := core.StripNot(g.Cond, g.Truth)
				if bo, ok := cond.(*ssa.BinOp); ok && bo.X == ssa.Value(trimmed) {
					if sv, isS := core.ConstString(bo.Y); isS && sv == "" && ((bo.Op == token.EQL && !truth) || (bo.Op == token.NEQ && truth)) {
						okG = true
					}
				}
				// the same test written on the length: len(t) != 0, len(t) > 0, len(t) >= 1
				if bo, ok := cond.(*ssa.BinOp); ok {
					if lc, isC := bo.X.(*ssa.Call); isC && core.CalleeName(&lc.Call) == "builtin.len" && lc.Call.Args[0] == ssa.Value(trimmed) {
						if k, isK := core.ConstInt(bo.Y); isK {
							nonEmpty := (bo.Op == token.NEQ && k == 0 && truth) || (bo.Op == token.EQL && k == 0 && !truth) ||
								(bo.Op == token.GTR && k == 0 && truth) || (bo.Op == token.GEQ && k == 1 && truth) ||
								(bo.Op == token.LEQ && k == 0 && !truth) || (bo.Op == token.LSS && k == 1 && !truth)
							if nonEmpty {
								okG = true
							}
						}
					}
				}
			}
		}
		c.check(okG, "C13.split.pipeline", f, "only non-empty trimmed pieces are kept", call, "filter(≠ \"\")")
	})
	if napp == 0 {
		c.check(false, "C13.split.pipeline", f, "append of the kept pieces", nil, "the result is not built by appending the trimmed pieces in this function: the filtering step is not recognisable")
	}
	// every returned slice is either the filtered pieces or an empty literal
	for _, ret := range core.Returns(f) {
		bad := ""
		seen := map[ssa.Value]bool{}
		var walk func(v ssa.Value)
		walk = func(v ssa.Value) {
			if seen[v] || bad != "" {
				return
			}
			seen[v] = true
			switch x := v.(type) {
			case *ssa.Phi:
				for _, e := range x.Edges {
					walk(e)
				}
			case *ssa.Slice:
				walk(x.X)
			case *ssa.Call:
				switch core.CalleeName(&x.Call) {
				case "builtin.append":
					walk(x.Call.Args[0])
				case "strings.Split":
					if x != split {
						bad = "a second Split"
					}
				default:
					bad = "result of " + core.CalleeName(&x.Call)
				}
			case *ssa.Alloc:
				if pt, ok := x.Type().Underlying().(*types.Pointer); ok {
					if arr, ok := pt.Elem().Underlying().(*types.Array); ok && arr.Len() == 0 {
						return
					}
				}
				bad = "a literal with elements (" + core.Describe(x) + ")"
			default:
				bad = core.Describe(v)
			}
		}
		walk(ret.Results[0])
		c.check(bad == "", "C13.split.pipeline", f, "every result is the filtered pieces or an empty literal", ret,
			"a shortcut result bypasses the split / trim / drop-empty pipeline: "+bad)
	}
	c13SplitNonNil(c, f)
}

// c13SplitNonNil: every returned slice is non-nil.
func c13SplitNonNil(c *Ctx, f *ssa.Function) {
	for _, ret := range core.Returns(f) {
		why, ok := nonNilSlice(ret.Results[0], map[ssa.Value]bool{}, 0)
		c.check(ok, "C13.split.non-nil", f, "returned slice is non-nil: "+core.Describe(ret.Results[0]), ret, "callers distinguish nil from empty (JSON null vs []): "+why)
	}
}

// nonNilSlice decides from provenance whether a slice value can be nil.
func nonNilSlice(v ssa.Value, seen map[ssa.Value]bool, depth int) (string, bool) {
	if seen[v] {
		return "cycle", true
	}
	seen[v] = true
	if depth > 8 {
		return "too deep", false
	}
	switch x := v.(type) {
	case *ssa.Const:
		return "nil constant", false
	case *ssa.MakeSlice:
		return "make", true
	case *ssa.Slice:
		if _, ok := x.X.(*ssa.Alloc); ok {
			return "slice literal", true
		}
		return nonNilSlice(x.X, seen, depth+1)
	case *ssa.Phi:
		for _, e := range x.Edges {
			if why, ok := nonNilSlice(e, seen, depth+1); !ok {
				return why, false
			}
		}
		return "all phi edges non-nil", true
	case *ssa.Call:
		n := core.CalleeName(&x.Call)
		switch {
		case n == "builtin.append":
			return nonNilSlice(x.Call.Args[0], seen, depth+1)
		case n == "strings.Split" || n == "strings.SplitN":
			return "strings.Split never returns nil", true
		case strings.HasPrefix(n, "slices.Clip"), strings.HasPrefix(n, "slices.Grow"),
			strings.HasPrefix(n, "slices.DeleteFunc"), strings.HasPrefix(n, "slices.Delete["), strings.HasPrefix(n, "slices.Compact"):
			// s[:n] of the argument
			return nonNilSlice(x.Call.Args[0], seen, depth+1)
		}
		if cal := x.Call.StaticCallee(); cal != nil && core.InModule(cal) && len(cal.Blocks) > 0 {
			for _, ret := range core.Returns(cal) {
				if why, ok := nonNilSlice(ret.Results[0], seen, depth+1); !ok {
					return "result of " + cal.Name() + " may be nil (" + why + ")", false
				}
			}
			return "every return of " + cal.Name() + " is non-nil", true
		}
		return "result of " + n + " may be nil", false
	case *ssa.Parameter:
		return "parameter may be nil", false
	}
	return "unknown provenance " + core.Describe(v), false
}
