// Package rules holds one file per property.  A rule is a function over the
// type-checked program / SSA of the current tree that records obligations in
// the ledger; nothing here executes golibs code.
package rules

import (
	"fmt"
	"go/token"
	"os"
	"reflect"
	"sort"
	"strings"

	"golang.org/x/tools/go/ssa"

	"verif/sa/boolfn"
	"verif/sa/core"
)

// Ctx is what a rule sees.
type Ctx struct {
	P    *core.Prog
	L    *core.Ledger
	Tier string
	seen map[string]int
}

// nth makes a construct name unique within one run: the second and later
// occurrences of the same (rule, function, construct) get " #2", " #3", ... in
// order of appearance, so that sibling sites are separate obligations.
func (c *Ctx) nth(rule, fn, construct string) string {
	if c.seen == nil {
		c.seen = map[string]int{}
	}
	k := rule + "|" + fn + "|" + construct
	c.seen[k]++
	if n := c.seen[k]; n > 1 {
		return sprintf("%s #%d", construct, n)
	}
	return construct
}

// Property describes one check.
type Property struct {
	ID          string
	Level       string // "other" | "proof"
	Explanation string
	// PerConfig: the rule inspects build-tagged files, so the thorough tier
	// repeats it for every GOOS/GOARCH.
	PerConfig bool
	// Extra is merged into the evidence coverage (filled by Run).
	Extra map[string]any
	// Manifest texts.
	Technique string // the deciding method, a few words
	Note      string // assumptions / trusted base
	DesignRef string
	Run       func(c *Ctx)
}

var registry = map[string]*Property{}

func register(p *Property) { registry[p.ID] = p }

// Get returns the property with the id.
func Get(id string) *Property { return registry[id] }

// IDs lists the registered properties.
func IDs() []string {
	var out []string
	for id := range registry {
		out = append(out, id)
	}
	sort.Strings(out)
	return out
}

// ---- helpers shared by rules ----

// fn fetches an anchored function; a missing anchor is an undecided obligation
// (the rule can no longer say anything), never a silent pass.
func (c *Ctx) fn(pkg, name string) *ssa.Function {
	f := c.P.Func(pkg, name)
	if f == nil || len(f.Blocks) == 0 {
		c.L.Record(core.Undecided, "anchor", pkg+"."+name, "function exists", "-",
			"anchored function not found in the current tree; the rules tied to it cannot be evaluated")
		return nil
	}
	c.L.Saw(core.FuncName(f))
	return f
}

// pos renders the position of an instruction or value.
func (c *Ctx) pos(p token.Pos) string { return c.P.Pos(p) }

func (c *Ctx) ipos(in ssa.Instruction) string {
	if in == nil || (reflect.ValueOf(in).Kind() == reflect.Ptr && reflect.ValueOf(in).IsNil()) {
		return "-"
	}
	if in.Pos().IsValid() {
		return c.P.Pos(in.Pos())
	}
	// fall back to the nearest positioned instruction of the block
	for _, x := range in.Block().Instrs {
		if x.Pos().IsValid() {
			return c.P.Pos(x.Pos())
		}
	}
	return c.P.Pos(in.Parent().Pos())
}

// ok records a discharged/violated obligation.
func (c *Ctx) check(ok bool, rule string, f *ssa.Function, construct string, at ssa.Instruction, reason string) bool {
	pos := "-"
	if at != nil {
		pos = c.ipos(at)
	} else if f != nil {
		pos = c.P.Pos(f.Pos())
	}
	name := "-"
	if f != nil {
		name = core.FuncName(f)
	}
	return c.L.Check(ok, rule, name, c.nth(rule, name, construct), pos, reason)
}

// undecided records that the rule cannot establish the clause.
func (c *Ctx) undecided(rule string, f *ssa.Function, construct string, at ssa.Instruction, reason string) {
	pos := "-"
	if at != nil {
		pos = c.ipos(at)
	} else if f != nil {
		pos = c.P.Pos(f.Pos())
	}
	name := "-"
	if f != nil {
		name = core.FuncName(f)
	}
	c.L.Record(core.Undecided, rule, name, c.nth(rule, name, construct), pos, reason)
}

func sprintf(f string, a ...any) string { return fmt.Sprintf(f, a...) }

// Vocab prints the names of all golibs functions over every build
// configuration (input for core/vocab.txt).
func Vocab() int {
	seen := map[string]bool{}
	for _, bc := range [][2]string{{"", ""}, {"linux", "386"}, {"windows", "amd64"}, {"darwin", "arm64"}, {"freebsd", "amd64"}, {"openbsd", "amd64"}} {
		p, err := core.Load(core.LoadOpts{GOOS: bc[0], GOARCH: bc[1], NoInline: true})
		if err != nil {
			fmt.Fprintln(os.Stderr, "gsa:", err)
			return 3
		}
		for path := range p.SPkgs {
			if !strings.HasPrefix(path, core.ModPath) {
				continue
			}
			for _, f := range p.Funcs(path) {
				seen[core.FuncName(f)] = true
			}
		}
	}
	var names []string
	for n := range seen {
		names = append(names, n)
	}
	sort.Strings(names)
	for _, n := range names {
		fmt.Println(n)
	}
	return 0
}

// DumpSSA prints the normalised SSA of one function.
func DumpSSA(pkg, name string) int {
	p, err := core.Load(core.LoadOpts{})
	if err != nil {
		fmt.Fprintln(os.Stderr, "gsa:", err)
		return 3
	}
	for _, l := range p.CanonLog {
		fmt.Println("renamed back:", l)
	}
	for _, l := range p.InlineLog {
		fmt.Println("inlined:", l)
	}
	fn := p.Func(pkg, name)
	if fn == nil {
		fmt.Fprintln(os.Stderr, "gsa: no such function")
		return 3
	}
	fn.WriteTo(os.Stdout)
	for _, af := range fn.AnonFuncs {
		af.WriteTo(os.Stdout)
	}
	return 0
}

// Idents prints the identifier table of the tree (input for core/idents.txt):
// the default configuration in declaration order, then what only other
// configurations declare.
func Idents() int {
	seen := map[string]bool{}
	for _, bc := range [][2]string{{"", ""}, {"linux", "386"}, {"windows", "amd64"}, {"darwin", "arm64"}, {"freebsd", "amd64"}, {"openbsd", "amd64"}} {
		p, err := core.Load(core.LoadOpts{GOOS: bc[0], GOARCH: bc[1], NoInline: true})
		if err != nil {
			fmt.Fprintln(os.Stderr, "gsa:", err)
			return 3
		}
		for _, l := range core.IdentTable(p.Pkgs) {
			if !seen[l] {
				seen[l] = true
				fmt.Println(l)
			}
		}
	}
	return 0
}

// recoverUnsupported turns an evaluation that leaves the exact evaluator's
// grammar or node budget outside the guarded parts of an exact rule into "not
// decided exactly": the rule's structural fall-back runs instead.
func recoverUnsupported(c *Ctx, ok *bool, name string) {
	if r := recover(); r != nil {
		if u, isU := r.(*boolfn.Unsupported); isU {
			c.L.Notef("%s: outside the exact evaluator's grammar or node budget (%v); structural rules used instead", name, u)
			*ok = false
			return
		}
		panic(r)
	}
}
