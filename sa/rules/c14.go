package rules

import (
	"go/token"
	"go/types"
	"strings"

	"golang.org/x/tools/go/ssa"

	"verif/sa/core"
)

func init() {
	register(&Property{
		ID:    "C14",
		Level: "other",
		Explanation: "Structural necessary conditions for lossless codecs, decided on SSA: (R1) JSON taint: in every UnmarshalJSON of the module the raw JSON token reaches a text parser " +
			"(UnmarshalText / UnmarshalBinary / url.Parse) only through a JSON string decoder (json.Unmarshal into a string, strconv.Unquote) whose error is checked — slicing the quotes off " +
			"leaves escapes undecoded; (R2) writer/reader table agreement: HostPort (JoinHostPort's FormatUint base vs SplitHostPort's ParseUint base and bit size vs the uint16 conversion, " +
			"field mapping of ParseHostPort), URL (MarshalText/UnmarshalText delegate to the url.URL binary codec pair), Duration (MarshalText is []byte(d.String()), UnmarshalText stores " +
			"time.ParseDuration(string(b)); String's base text is time.Duration(d).String() and the only cuts are the constant suffix lengths of \"0s\" and \"0m0s\"), Prefix.UnmarshalText " +
			"('/' dispatch to netip.Prefix.UnmarshalText, else PrefixFrom(ip, ip.BitLen()) of the same ip); (R3) the guards that select Duration.String's cuts are evaluated exactly on the " +
			"congruence abstraction (sign, value mod 3600) of the whole-second count and compared with the specification 'drop 0s iff seconds part is 0, drop 0m0s iff minutes part is 0 too'. " +
			"Not decided: the behaviour of the standard-library parsers and formatters themselves.",
		Technique: "SSA taint/provenance, writer-reader constant-table agreement, exact evaluation of guards over a congruence abstract domain",
		Note:      "Trusted: go/ssa, encoding/json, net.JoinHostPort/SplitHostPort, strconv, time.Duration.String format (ends in ...XmYs for |d| >= 1m), net/url binary codec.",
		DesignRef: "DESIGN.md section 4, C14",
		Run:       runC14,
	})
}

func runC14(c *Ctx) {
	c.L.Trust("go/types + go/ssa", "encoding/json string decoding", "strconv.FormatUint/ParseUint", "net.JoinHostPort/SplitHostPort", "time.Duration.String, time.ParseDuration", "(*url.URL).MarshalBinary/UnmarshalBinary")
	c.L.Floor("C14.json.decoded-before-parse", 1)
	c.L.Floor("C14.hostport.tables", 4)
	c.L.Floor("C14.url.pair", 2)
	c.L.Floor("C14.duration.pair", 3)
	c.L.Floor("C14.duration.cuts", 2)
	c.L.Floor("C14.prefix.dispatch", 3)

	// ---- R1: every UnmarshalJSON in the module ----
	n := 0
	for path := range c.P.SPkgs {
		if !strings.HasPrefix(path, core.ModPath) {
			continue
		}
		rel := strings.TrimPrefix(strings.TrimPrefix(path, core.ModPath), "/")
		if strings.HasPrefix(rel, "testutil") || strings.Contains(rel, "internal") {
			continue
		}
		for _, f := range c.P.Funcs(rel) {
			if f.Name() != "UnmarshalJSON" || f.Signature.Recv() == nil || len(f.Params) != 2 {
				continue
			}
			n++
			c.L.Saw(core.FuncName(f))
			c14JSON(c, f)
		}
	}
	if n == 0 {
		c.L.Record(core.Undecided, "C14.json.decoded-before-parse", "-", "UnmarshalJSON methods", "-", "none found")
	}

	// ---- R2 HostPort ----
	join := c.fn("netutil", "JoinHostPort")
	split := c.fn("netutil", "SplitHostPort")
	if join != nil && split != nil {
		var fbase, pbase, pbits int64 = -1, -2, -1
		for _, ci := range core.CallsTo(join, "strconv.FormatUint") {
			fbase, _ = core.ConstInt(ci.Common().Args[1])
			// the formatted value is the port parameter
			v := ci.Common().Args[0]
			if cv, ok := v.(*ssa.Convert); ok {
				v = cv.X
			}
			c.check(v == ssa.Value(join.Params[1]), "C14.hostport.tables", join, "the formatted number is the port", ci, "port -> text")
		}
		// strconv.Itoa / FormatInt(_, 10) are decimal writers too
		for _, ci := range core.CallsTo(join, "strconv.Itoa", "strconv.FormatInt") {
			fbase = 10
			if core.CalleeName(ci.Common()) == "strconv.FormatInt" {
				fbase, _ = core.ConstInt(ci.Common().Args[1])
			}
			v := ci.Common().Args[0]
			for {
				cv, ok := v.(*ssa.Convert)
				if !ok {
					break
				}
				v = cv.X
			}
			c.check(v == ssa.Value(join.Params[1]), "C14.hostport.tables", join, "the formatted number is the port", ci, "port -> text")
		}
		var pu *ssa.Call
		for _, ci := range core.CallsTo(split, "strconv.ParseUint") {
			pu = ci.(*ssa.Call)
			pbase, _ = core.ConstInt(pu.Call.Args[1])
			pbits, _ = core.ConstInt(pu.Call.Args[2])
		}
		c.check(fbase == pbase && fbase > 0, "C14.hostport.tables", split, sprintf("port base agrees: FormatUint(_, %d) / ParseUint(_, %d, _)", fbase, pbase), pu, "writer and reader use the same radix")
		// bit size equals the width of the result type
		width := int64(0)
		if b, ok := split.Signature.Results().At(1).Type().Underlying().(*types.Basic); ok {
			switch b.Kind() {
			case types.Uint16:
				width = 16
			case types.Uint32:
				width = 32
			case types.Uint8:
				width = 8
			}
		}
		c.check(pbits == width && width > 0, "C14.hostport.tables", split, sprintf("ParseUint bit size %d == width of the port type %d", pbits, width), pu,
			"a wider bit size would accept 65536..., which the conversion then truncates to a different port")
		// host/port come from net.SplitHostPort / the parsed number, not swapped
		for _, ret := range core.Returns(split) {
			if !core.IsNilConst(ret.Results[2]) {
				continue
			}
			okH, okP := false, false
			if ex, ok := ret.Results[0].(*ssa.Extract); ok && ex.Index == 0 {
				if cl, ok := ex.Tuple.(*ssa.Call); ok && core.CalleeName(&cl.Call) == "net.SplitHostPort" && cl.Call.Args[0] == ssa.Value(split.Params[0]) {
					okH = true
				}
			}
			// per value that may arrive: the converted ParseUint result; a zero
			// placeholder arrives only together with a non-nil error, under which
			// this success return is not reached
			fs := core.Facts(split)
			nConv := 0
			okP = true
			for _, lf := range fs.Leaves(ret.Results[1], ret) {
				isConv := false
				if cv, ok := lf.V.(*ssa.Convert); ok {
					if ex, ok := cv.X.(*ssa.Extract); ok && ex.Index == 0 && pu != nil && ex.Tuple == ssa.Value(pu) {
						// ParseUint's input is SplitHostPort's port text
						if pe, ok := pu.Call.Args[0].(*ssa.Extract); ok && pe.Index == 1 {
							isConv = true
						}
					}
				}
				switch {
				case isConv:
					nConv++
				case lf.From != nil && nilTextOnlyWithError(fs, ret, lf.From):
				default:
					okP = false
				}
			}
			okP = okP && nConv > 0
			c.check(okH && okP, "C14.hostport.tables", split, "success returns (SplitHostPort host, uint16(parsed port))", ret, "fields are not swapped or re-derived")
		}
		// JoinHostPort: net.JoinHostPort(Trim(host,"[]"), FormatUint(...))
		if len(core.CallsTo(join, "net.JoinHostPort")) == 0 {
			c.check(false, "C14.hostport.tables", join, "JoinHostPort writes through net.JoinHostPort", nil,
				"a hand-written join decides differently from net.SplitHostPort which hosts need brackets (any host containing ':' or '%' does), so String() output no longer parses back")
		}
		for _, ret := range core.Returns(join) {
			call, isC := ret.Results[0].(*ssa.Call)
			c.check(isC && core.CalleeName(&call.Call) == "net.JoinHostPort", "C14.hostport.tables", join, "every result of JoinHostPort is net.JoinHostPort(...)", ret, "one writer")
		}
		for _, ci := range core.CallsTo(join, "net.JoinHostPort") {
			okJ := false
			a0 := ci.Common().Args[0]
			if tr, ok := a0.(*ssa.Call); ok && core.CalleeName(&tr.Call) == "strings.Trim" && tr.Call.Args[0] == ssa.Value(join.Params[0]) {
				// only brackets may be trimmed: any other byte taken off the host
				// (a root dot, spaces) changes the name that is written
				if cs, isK := core.ConstString(tr.Call.Args[1]); isK && strings.Trim(cs, "[]") == "" && cs != "" {
					okJ = true
				}
			} else if a0 == ssa.Value(join.Params[0]) {
				okJ = true
			}
			_, isFmt := ci.Common().Args[1].(*ssa.Call)
			c.check(okJ && isFmt, "C14.hostport.tables", join, "net.JoinHostPort(host without brackets, decimal port)", ci, "the standard writer is the inverse of the standard reader for bracket-free hosts")
		}
	}
	if php := c.fn("netutil", "ParseHostPort"); php != nil {
		// every HostPort built here takes both fields from SplitHostPort(addr):
		// a second producer (an IP fast path, a canonicalising parser) returns
		// a different spelling of the host than the one String() wrote
		nhp := 0
		core.EachInstr(php, func(in ssa.Instruction) {
			al, ok := in.(*ssa.Alloc)
			if !ok || core.NamedOf(al.Type()) != "HostPort" {
				return
			}
			if _, isStruct := al.Type().Underlying().(*types.Pointer).Elem().Underlying().(*types.Struct); !isStruct {
				return
			}
			nhp++
			okMap := true
			nst := 0
			for _, r := range core.Refs(al) {
				fa, ok := r.(*ssa.FieldAddr)
				if !ok {
					continue
				}
				for _, rr := range core.Refs(fa) {
					st, ok := rr.(*ssa.Store)
					if !ok {
						continue
					}
					nst++
					want := map[string]int{"Host": 0, "Port": 1}[core.FieldName(fa)]
					src := st.Val
					if u, ok := src.(*ssa.UnOp); ok { // load of local var
						for _, s2 := range core.Refs(u.X) {
							if st2, ok := s2.(*ssa.Store); ok && st2.Addr == u.X {
								src = st2.Val
							}
						}
					}
					ex, ok := src.(*ssa.Extract)
					if !ok || ex.Index != want {
						okMap = false
					} else if cl, ok := ex.Tuple.(*ssa.Call); !ok || core.CalleeName(&cl.Call) != core.ModPath+"/netutil.SplitHostPort" || cl.Call.Args[0] != ssa.Value(php.Params[0]) {
						okMap = false
					}
				}
			}
			c.check(okMap && nst == 2, "C14.hostport.tables", php, "&HostPort{Host: host, Port: port} from SplitHostPort(addr)", al, "the host text is returned as written, never re-rendered")
		})
		if nhp == 0 {
			c.undecided("C14.hostport.tables", php, "construction of the result", nil, "no HostPort composite literal found")
		}
	}
	if hs := c.fn("netutil", "HostPort.String"); hs != nil {
		okS := false
		for _, ci := range core.CallsTo(hs, core.ModPath+"/netutil.JoinHostPort") {
			n0, _, ok0 := core.IsLoadOfField(ci.Common().Args[0])
			n1, _, ok1 := core.IsLoadOfField(ci.Common().Args[1])
			okS = ok0 && ok1 && n0 == "Host" && n1 == "Port"
		}
		c.check(okS, "C14.hostport.tables", hs, "String() == JoinHostPort(hp.Host, hp.Port)", nil, "writer")
	}

	// ---- URL pair ----
	if m := c.fn("netutil/urlutil", "URL.MarshalText"); m != nil {
		calls := core.CallsTo(m, "(*net/url.URL).MarshalBinary")
		ok := len(calls) == 1
		if ok {
			// ... of the receiver's own URL, not of a modified copy
			fa, isFA := calls[0].Common().Args[0].(*ssa.FieldAddr)
			ok = isFA && fa.X == ssa.Value(m.Params[0]) && core.FieldName(fa) == "URL"
		}
		nst := 0
		core.EachInstr(m, func(in ssa.Instruction) {
			if _, isSt := in.(*ssa.Store); isSt {
				nst++
			}
		})
		c.check(ok && nst == 0, "C14.url.pair", m, "MarshalText is (&u.URL).MarshalBinary() and writes nothing", nil,
			"url.URL.String keeps RawPath/RawFragment/ForceQuery...; marshalling an edited copy changes the text that UnmarshalText reads back")
	}
	if u := c.fn("netutil/urlutil", "URL.UnmarshalText"); u != nil {
		calls := core.CallsTo(u, "(*net/url.URL).UnmarshalBinary")
		ok := len(calls) == 1 && calls[0].Common().Args[1] == ssa.Value(u.Params[1])
		c.check(ok, "C14.url.pair", u, "UnmarshalText delegates to url.URL.UnmarshalBinary on the same bytes", nil, "reader is the inverse of the writer")
	}

	// ---- writers of JSON: a MarshalJSON of a codec type must leave the quoting
	// to encoding/json (hand-made quoting — strconv.Quote, "\"" + s + "\"" —
	// is not JSON for every text: \U escapes, invalid UTF-8, <, >, &)
	for _, t := range []struct{ pkg, typ string }{{"timeutil", "Duration"}, {"netutil", "HostPort"}, {"netutil", "Prefix"}, {"netutil/urlutil", "URL"}} {
		m := c.P.Func(t.pkg, t.typ+".MarshalJSON")
		if m == nil || len(m.Blocks) == 0 {
			continue
		}
		for _, ret := range core.Returns(m) {
			ok := false
			for _, lf := range core.Facts(m).Leaves(ret.Results[0], ret) {
				v := lf.V
				if ex, isEx := v.(*ssa.Extract); isEx {
					v = ex.Tuple
				}
				if call, isC := v.(*ssa.Call); isC && core.CalleeName(&call.Call) == "encoding/json.Marshal" {
					ok = true
				} else if !core.IsNilConst(lf.V) {
					ok = false
					break
				}
			}
			c.check(ok, "C14.json.decoded-before-parse", m, t.typ+".MarshalJSON returns what encoding/json.Marshal produced", ret,
				"the JSON writer must be the inverse of the JSON reader for every text; only encoding/json's own string encoder is")
		}
	}

	// ---- Duration ----
	c14Duration(c)

	// ---- Prefix ----
	if f := c.fn("netutil", "Prefix.UnmarshalText"); f != nil {
		b := f.Params[1]
		var contains *ssa.Call
		for _, ci := range core.CallsTo(f, "bytes.Contains", "bytes.ContainsRune", "bytes.IndexByte", "bytes.IndexRune") {
			contains = ci.(*ssa.Call)
		}
		for _, ci := range core.AllCalls(f) {
			// the generic forms: slices.Contains(b, '/'), slices.Index(b, '/')
			if call, ok := ci.(*ssa.Call); ok {
				if n := core.CalleeName(&call.Call); strings.HasPrefix(n, "slices.Contains[") || strings.HasPrefix(n, "slices.Index[") {
					contains = call
				}
			}
		}
		okC := false
		if contains != nil && contains.Call.Args[0] == ssa.Value(b) {
			switch x := contains.Call.Args[1].(type) {
			case *ssa.Convert:
				if s, ok := core.ConstString(x.X); ok && s == "/" {
					okC = true
				}
			case *ssa.Const:
				if k, ok := core.ConstInt(x); ok && k == '/' {
					okC = true
				}
			}
		}
		c.check(okC, "C14.prefix.dispatch", f, "dispatch on the presence of '/' in the text", contains, "text with '/' is a prefix, text without is a bare address")
		for _, ci := range core.CallsTo(f, "(*net/netip.Prefix).UnmarshalText") {
			c.check(contains != nil && slashPresent(core.Facts(f).At(ci.Block()), contains) && ci.Common().Args[1] == ssa.Value(b), "C14.prefix.dispatch", f, "with '/': netip.Prefix.UnmarshalText(b)", ci, "agrees with netip.ParsePrefix")
		}
		// the bare-address parse is tried only when there is no '/': a zone may
		// contain one ("fe80::1%a/64" is the prefix fe80::1%a / 64 to ParsePrefix)
		for _, ci := range core.CallsTo(f, "(*net/netip.Addr).UnmarshalText") {
			p, known := false, false
			if contains != nil {
				p, known = slashKnown(core.Facts(f).At(ci.Block()), contains)
			}
			c.check(known && !p, "C14.prefix.dispatch", f, "without '/': the text is parsed as a bare address", ci, "text containing '/' must go to netip.Prefix.UnmarshalText only")
		}
		for _, ci := range core.CallsTo(f, "net/netip.PrefixFrom") {
			a0, a1 := ci.Common().Args[0], ci.Common().Args[1]
			okP := false
			if bl, ok := a1.(*ssa.Call); ok && core.CalleeName(&bl.Call) == "(net/netip.Addr).BitLen" && (sameValue(bl.Call.Args[0], a0) || sameLoad(bl.Call.Args[0], a0)) {
				// a0 is the address parsed from b
				if u, ok := a0.(*ssa.UnOp); ok {
					for _, r := range core.Refs(u.X) {
						if cl, ok := r.(*ssa.Call); ok && core.CalleeName(&cl.Call) == "(*net/netip.Addr).UnmarshalText" && cl.Call.Args[1] == ssa.Value(b) {
							okP = true
						}
					}
				}
			}
			c.check(okP, "C14.prefix.dispatch", f, "bare address: PrefixFrom(ip, ip.BitLen()) of the address parsed from b", ci, "full-length single-address prefix")
		}
	}
}

// c14JSON: provenance of every text-parser argument in an UnmarshalJSON.
func c14JSON(c *Ctx, f *ssa.Function) {
	raw := f.Params[1]
	parsers := map[string]int{} // callee suffix -> index of the text argument
	for _, ci := range core.AllCalls(f) {
		call, ok := ci.(*ssa.Call)
		if !ok {
			continue
		}
		n := core.CalleeName(&call.Call)
		arg := -1
		switch {
		case strings.HasSuffix(n, ").UnmarshalText"), strings.HasSuffix(n, ").UnmarshalBinary"):
			arg = 1
		case n == "net/url.Parse", n == "net/url.ParseRequestURI", n == "time.ParseDuration", n == "net/netip.ParseAddr", n == "net/netip.ParsePrefix":
			arg = 0
		case strings.HasSuffix(n, "/urlutil.Parse"):
			arg = 0
		}
		if arg < 0 {
			continue
		}
		parsers[n] = arg
		why, ok := decodedJSONString(call.Call.Args[arg], raw, call, map[ssa.Value]bool{})
		c.check(ok, "C14.json.decoded-before-parse", f, "argument of "+shortCallee(n)+" is the decoded JSON string", call,
			"encoding/json escapes &, <, >, quotes, backslashes and control characters when marshaling; the text parser must see the decoded string: "+why)
	}
	if len(parsers) == 0 {
		c.undecided("C14.json.decoded-before-parse", f, "text parser call", nil, "no recognised text parser is called: cannot tell what the raw token flows into")
	}
}

// decodedJSONString: v derives from a string (or []byte) filled by a JSON
// string decoder applied to raw, whose error was checked before use.
func decodedJSONString(v ssa.Value, raw ssa.Value, use ssa.Instruction, seen map[ssa.Value]bool) (string, bool) {
	if seen[v] {
		return "", true
	}
	seen[v] = true
	switch x := v.(type) {
	case *ssa.Convert:
		return decodedJSONString(x.X, raw, use, seen)
	case *ssa.Phi:
		for _, e := range x.Edges {
			if why, ok := decodedJSONString(e, raw, use, seen); !ok {
				return why, false
			}
		}
		return "", true
	case *ssa.UnOp:
		if x.Op != token.MUL {
			break
		}
		al, ok := x.X.(*ssa.Alloc)
		if !ok {
			break
		}
		// the variable must be the target of json.Unmarshal(raw, &v) whose error is nil here
		for _, r := range core.Refs(al) {
			var call *ssa.Call
			switch y := r.(type) {
			case *ssa.MakeInterface:
				for _, rr := range core.Refs(y) {
					if cl, ok := rr.(*ssa.Call); ok {
						call = cl
					}
				}
			case *ssa.Call:
				call = y
			}
			if call == nil {
				continue
			}
			n := core.CalleeName(&call.Call)
			if n == "encoding/json.Unmarshal" && call.Call.Args[0] == raw {
				if !core.Dominates(call, use) {
					continue
				}
				if !guardedNilErr(use, call) {
					return "the json.Unmarshal error is not checked before the value is used", false
				}
				return "", true
			}
		}
		return "local variable not filled by json.Unmarshal(raw, &v)", false
	case *ssa.Extract:
		if call, ok := x.Tuple.(*ssa.Call); ok && core.CalleeName(&call.Call) == "strconv.Unquote" && x.Index == 0 {
			return "", true
		}
	case *ssa.Slice:
		if derivesFromRaw(x.X, raw) {
			return "a sub-slice of the raw JSON token (" + core.Describe(v) + ") is parsed directly: escape sequences such as \\u0026, \\\" and \\\\ stay undecoded", false
		}
	case *ssa.Parameter:
		if v == raw {
			return "the raw JSON token is parsed directly", false
		}
	}
	return "unrecognised provenance " + core.Describe(v), false
}

func derivesFromRaw(v, raw ssa.Value) bool {
	for i := 0; i < 6; i++ {
		if v == raw {
			return true
		}
		switch x := v.(type) {
		case *ssa.Slice:
			v = x.X
		case *ssa.Convert:
			v = x.X
		case *ssa.Phi:
			for _, e := range x.Edges {
				if derivesFromRaw(e, raw) {
					return true
				}
			}
			return false
		default:
			return false
		}
	}
	return false
}

// sameLoad: two loads of the same local variable.
func sameLoad(a, b ssa.Value) bool {
	ua, ok1 := a.(*ssa.UnOp)
	ub, ok2 := b.(*ssa.UnOp)
	return ok1 && ok2 && ua.Op == token.MUL && ub.Op == token.MUL && ua.X == ub.X
}

// slashPresent: the facts say that the presence test found the byte — the
// Contains call is true, or the index it returned is not -1.
func slashPresent(facts []core.Fact, test *ssa.Call) bool {
	p, known := slashKnown(facts, test)
	return known && p
}

func slashKnown(facts []core.Fact, test *ssa.Call) (present, known bool) {
	for _, g := range facts {
		cond, truth := core.StripNot(g.Cond, g.Truth)
		if cond == ssa.Value(test) {
			return truth, true
		}
		bo, ok := cond.(*ssa.BinOp)
		if !ok || bo.X != ssa.Value(test) {
			continue
		}
		k, isK := core.ConstInt(bo.Y)
		if !isK {
			continue
		}
		switch {
		case bo.Op == token.EQL && k == -1:
			return !truth, true
		case bo.Op == token.NEQ && k == -1:
			return truth, true
		case bo.Op == token.GEQ && k == 0, bo.Op == token.GTR && k == -1:
			return truth, true
		case bo.Op == token.LSS && k == 0, bo.Op == token.LEQ && k == -1:
			return !truth, true
		}
	}
	return false, false
}
