package rules

import (
	"fmt"
	"os"
	"strings"
	"time"

	"golang.org/x/tools/go/ssa"

	"verif/sa/boolfn"
	"verif/sa/core"
)

// c02IPExact decides IsValidIPString against its reference *as the reference
// is written*: the SSA of net/netip.ParseAddr itself (the standard library is
// loaded with bodies) is evaluated by the same engine on the same L symbolic
// bytes, and the two verdicts — IsValidIPString(s) and "ParseAddr(s) returns a
// nil error" — must be one Boolean function.  Only the construction of the
// Addr value (128-bit arithmetic, the interned zone) is cut out of the
// reference: it cannot fail.
func c02IPExact(c *Ctx) (okExact bool) {
	defer recoverUnsupported(c, &okExact, "c02IPExact")
	return c02AgainstNetip(c, "C02.ip-exact", "IsValidIPString", "ParseAddr", "1:.%", false)
}

// c02IPPortExact: the same for IsValidIPPortString against
// netip.ParseAddrPort (the splitter, the bracket rules, the port number).
func c02IPPortExact(c *Ctx) (okExact bool) {
	defer recoverUnsupported(c, &okExact, "c02IPPortExact")
	return c02AgainstNetip(c, "C02.ipport-exact", "IsValidIPPortString", "ParseAddrPort", "1:[]", true)
}

func c02AgainstNetip(c *Ctx, rule, fname, refName, alpha4 string, port bool) (okExact bool) {
	defer recoverUnsupported(c, &okExact, "c02AgainstNetip")
	f := c.fn("netutil", fname)
	var ref *ssa.Function
	if p := c.P.SSA.ImportedPackage("net/netip"); p != nil {
		ref = p.Func(refName)
	}
	if f == nil || ref == nil || len(ref.Blocks) == 0 {
		return false
	}
	if th := lengthThresholds(f, 24); len(th) > 0 {
		c.L.Notef("%s treats long inputs differently (%s): the lengths evaluated do not cover that; structural rules used instead", fname, th[0])
		return false
	}
	// scenarios: a constant prefix followed by n free bytes, each free byte
	// either arbitrary (alphabet "") or one of 2, 4 or 8 letters.  Arbitrary
	// bytes decide the byte classification, digit counts, octet and port values
	// and every short shape; the letters reach the long shapes — the counting
	// of groups, the place of the ellipsis and of the IPv4 tail, the zone, the
	// brackets — where the number of shapes, not the size of the functions,
	// bounds what can be evaluated; the prefixes (k groups "1:") move the
	// window of free bytes to the end of a long address.
	type scen struct {
		prefix string
		n      int
		alpha  string
	}
	var scens []scen
	thorough := c.Tier == "thorough"
	add := func(prefix string, lo, hi int, alpha string) {
		for n := lo; n <= hi; n++ {
			scens = append(scens, scen{prefix, n, alpha})
		}
	}
	if !port {
		add("", 0, pick(thorough, 8, 6), "")
		add("", pick(thorough, 9, 7), pick(thorough, 15, 12), "1:.%")
		add("", pick(thorough, 16, 13), pick(thorough, 21, 19), "1:")
		add("1:1:1:1:", 8, pick(thorough, 13, 11), "1:.%")
		add("1:1:1:1:1:", 8, pick(thorough, 12, 11), "1:.")
		add("::1:1:1:", 7, pick(thorough, 12, 10), "1:.")
	} else {
		add("", 0, pick(thorough, 7, 6), "")
		add("", pick(thorough, 8, 7), pick(thorough, 13, 11), "1:.[]%06")
		add("[::1]:", 0, 7, "0169")
		add("1.1.1.1:", 0, 7, "0169")
		add("[1:1:1:1:1:1:", 4, pick(thorough, 9, 8), "1:.]")
	}
	bads := make([]string, len(scens))
	errs := make([]error, len(scens))
	text := func(sc scen, w map[int]bool) string {
		bs := []byte(sc.prefix)
		for i := 0; i < sc.n; i++ {
			var v byte
			if sc.alpha == "" {
				for k := 0; k < 8; k++ {
					if w[8*i+k] {
						v |= 1 << uint(7-k)
					}
				}
			} else {
				ch := 0
				for k := 0; k < 3; k++ {
					if w[3*i+k] {
						ch |= 1 << uint(k)
					}
				}
				v = sc.alpha[ch%len(sc.alpha)]
			}
			bs = append(bs, v)
		}
		return sprintf("%q", string(bs))
	}
	parallelDo(len(scens), func(k int) {
		sc := scens[k]
		if os.Getenv("GSA_DBG") != "" {
			t0 := time.Now()
			defer func() { fmt.Fprintln(os.Stderr, "exact "+fname, sc, time.Since(t0)) }()
		}
		m := boolfn.New()
		mk := func(scope func(*ssa.Function) bool) *boolfn.Eval {
			ev := &boolfn.Eval{M: m, Entered: map[string]bool{}, ErrorsAsBits: true, ForcePath: true, Steps: 8000000}
			ev.InScope = scope
			return ev
		}
		ev := mk(core.InModule)
		el := append([][]int(nil), ev.ConstBytes(sc.prefix)...)
		if sc.alpha == "" {
			el = append(el, ev.StringInput(0, sc.n).Elems...)
		} else {
			// letter number ch of the alphabet is selected by up to three bits
			// per byte; with fewer than eight letters the numbers wrap around
			nb := 1
			for 1<<uint(nb) < len(sc.alpha) {
				nb++
			}
			for i := 0; i < sc.n; i++ {
				bits := make([]int, 8)
				for ch := 0; ch < 1<<uint(nb); ch++ {
					sel := 1
					for q := 0; q < nb; q++ {
						sel = m.And(sel, m.Lit(3*i+q, ch&(1<<uint(q)) != 0))
					}
					for b := 0; b < 8; b++ {
						if (sc.alpha[ch%len(sc.alpha)]>>uint(b))&1 == 1 {
							bits[b] = m.Or(bits[b], sel)
						}
					}
				}
				el = append(el, bits)
			}
		}
		L := len(el)
		in := boolfn.Val{Kind: boolfn.KSlice, Elems: el, Lo: 0, Hi: L}
		rs, err := ev.Call(f, []boolfn.Val{in})
		if err != nil || len(rs) != 1 || rs[0].Kind != boolfn.KBits || len(rs[0].Bits) != 1 {
			if err == nil {
				err = fmt.Errorf("unexpected result shape")
			}
			errs[k] = fmt.Errorf("scanner: %v", err)
			return
		}
		got := rs[0].Bits[0]
		if os.Getenv("GSA_DBG") != "" {
			fmt.Fprintln(os.Stderr, "  scanner done L =", L, time.Now().Format("15:04:05.000"), "nodes", m.Size())
		}
		rv := mk(func(fn *ssa.Function) bool {
			return fn.Pkg != nil && fn.Pkg.Pkg.Path() == "net/netip"
		})
		rv.NoMerge = os.Getenv("GSA_REFNOMERGE") != ""
		model := &netipModel{ev: rv, fresh: 1 << 22}
		rv.Override = func(name string, call *ssa.CallCommon, args []boolfn.Val) (boolfn.Val, bool) {
			switch {
			case name == "net/netip.AddrFrom16" || name == "net/netip.AddrFrom4" || name == "(net/netip.Addr).Is4" || name == "(net/netip.Addr).Is6":
				// the address as 16 bytes and its family (netipmodel.go): the
				// 128-bit arithmetic and the interned zone are cut out
				return model.OnCall(name, call, args)
			case strings.HasSuffix(name, ".WithZone") && len(args) >= 1:
				return args[0], true
			case name == "net/netip.IPv6Unspecified":
				z := boolfn.Val{Kind: boolfn.KArray, Elems: zeroBytes(16)}
				return model.OnCall("net/netip.AddrFrom16", call, []boolfn.Val{z})
			case name == "net/netip.AddrPortFrom":
				return boolfn.Opaque("addrport"), true
			}
			if name == "strconv.Quote" {
				return boolfn.Str("q"), true // only ever part of an error text
			}
			if name == "errors.New" || name == "fmt.Errorf" {
				return boolfn.BoolVal(1), true // a non-nil error
			}
			return boolfn.Val{}, false
		}
		in2 := boolfn.Val{Kind: boolfn.KSlice, Elems: in.Elems, Lo: 0, Hi: L}
		rr, err := rv.Call(ref, []boolfn.Val{in2})
		if err != nil || len(rr) != 2 || rr[1].Kind != boolfn.KBits || len(rr[1].Bits) != 1 {
			if err == nil {
				err = fmt.Errorf("unexpected result shape")
			}
			errs[k] = fmt.Errorf("reference: %v", err)
			return
		}
		want := m.Not(rr[1].Bits[0])
		if got != want {
			d := m.Xor(got, want)
			kind := "accepted by " + fname + " and refused by netip." + refName
			if x := m.And(want, m.Not(got)); x != 0 {
				d, kind = x, "refused by "+fname+" and accepted by netip."+refName
			}
			bads[k] = sprintf("%s is %s", text(sc, m.Witness(d)), kind)
		}
	})
	what := fname + "(s) <=> netip." + refName + "(s) succeeds"
	for _, b := range bads {
		if b != "" {
			c.L.Floor(rule, 1)
			c.check(false, rule, f, what, nil, b)
			return true
		}
	}
	for k, e := range errs {
		if e != nil {
			if os.Getenv("GSA_DBG") != "" {
				fmt.Fprintln(os.Stderr, "exact "+fname+":", scens[k], e)
			}
			c.L.Notef(fname+" against netip."+refName+" is outside the exact evaluator's grammar in the scenario %v (%v)", scens[k], e)
			return false
		}
	}
	c.L.Floor(rule, 1)
	c.check(true, rule, f, what, nil, sprintf("both functions evaluated on the same symbolic bytes and equal as Boolean functions in each of %d scenarios (every text of up to %d arbitrary bytes; longer texts over small alphabets, some behind a constant prefix)", len(scens), scens[0].n+pick(thorough, 8, 6)))
	return true
}

func pick(thorough bool, a, b int) int {
	if thorough {
		return a
	}
	return b
}

// c02IdnaDiscipline: where the Punycode conversion sits in a name validator.
// The exact comparison of the twins (name-exact) treats idna.ToASCII as the
// identity it is on the names it evaluates; what it cannot see is decided
// here, structurally: the raw parameter is used for nothing but the
// conversion (and, in the error-returning twin, the deferred error wrapper) —
// so every length and every label is measured on the converted name —, the
// conversion is one call that lies on every path to a return, and both twins
// call the same conversion function.
func c02IdnaDiscipline(c *Ctx, fa, fb *ssa.Function) bool {
	const rule = "C02.idna-discipline"
	callee := map[*ssa.Function]string{}
	okAll := true
	for _, f := range []*ssa.Function{fa, fb} {
		if f == nil || len(f.Params) != 1 {
			return false
		}
		n, ok := idnaDisciplineOne(c, rule, f)
		callee[f] = n
		if !ok {
			okAll = false
		}
	}
	same := callee[fa] != "" && callee[fa] == callee[fb]
	c.check(same, rule, fb, "both twins convert with the same function", nil, sprintf("%s calls %s, %s calls %s", fa.Name(), callee[fa], fb.Name(), callee[fb]))
	return okAll && same
}

// validatorDiscipline: the properties that speak of "a valid domain name"
// (ARPA decoding, hosts records) leave ValidateDomainName uninterpreted in
// their exact rules; what they rely on is checked here under their own name:
// the validator measures and cuts the Punycode form of its argument, never the
// raw text (a length test on the raw name, or an ASCII fast path around the
// conversion, changes which names are valid without touching the decoders).
func validatorDiscipline(c *Ctx, prop string) {
	rule := prop + ".validator-discipline"
	c.L.Floor(rule, 1)
	f := c.fn("netutil", "ValidateDomainName")
	if f == nil || len(f.Params) != 1 {
		c.undecided(rule, f, "ValidateDomainName(name string)", nil, "not found with one parameter")
		return
	}
	idnaDisciplineOne(c, rule, f)
}

func idnaDisciplineOne(c *Ctx, rule string, f *ssa.Function) (string, bool) {
	p := f.Params[0]
	var conv *ssa.Call
	bad := ""
	var at ssa.Instruction
	for _, r := range *p.Referrers() {
		switch x := r.(type) {
		case *ssa.DebugRef:
		case *ssa.Defer:
			// the error wrapper keeps the text as it was given
		case *ssa.Call:
			n := core.CalleeName(&x.Call)
			if strings.Contains(n, "idna") && strings.HasSuffix(n, "ToASCII") {
				if conv != nil {
					bad, at = "the name is converted twice", x
				}
				conv = x
				continue
			}
			bad, at = "the raw name is handed to "+n+" (the converted name is what is validated)", x
		default:
			bad, at = "the raw name is used by "+core.Describe(x.(ssa.Value))+" — lengths and labels are those of the converted name", r
		}
	}
	if bad == "" && conv == nil {
		bad = "no idna conversion of the parameter"
	}
	if bad == "" {
		for _, ret := range core.Returns(f) {
			if f.Recover != nil && ret.Block() == f.Recover {
				continue // the way out after a recovered panic
			}
			if !core.Dominates(conv, ret) {
				bad, at = "a return is reached without the conversion", ret
			}
		}
	}
	name := ""
	if conv != nil {
		name = core.CalleeName(&conv.Call)
	}
	c.check(bad == "", rule, f, "the parameter is used only by the Punycode conversion, which lies on every path", at, bad)
	return name, bad == ""
}
