package rules

import (
	"go/token"
	"strings"

	"golang.org/x/tools/go/ssa"

	"verif/sa/core"
)

// loopVariant recognises why the natural loop with the given head terminates.
// Recognised forms (all confirmed against the loops of the five packages):
//
//  1. an integer phi at the head with a constant non-zero step on every back
//     edge whose exit test compares it (or its successor) with a value that is
//     not modified in the loop, in the direction of the step;
//  2. a range over a string/map/channel-free value (ssa.Next);
//  3. a string/slice phi that every back edge replaces by a strictly shorter
//     window of itself: s[k:] with constant k >= 1, the tail of strings.Cut /
//     bytes.Cut with a non-empty separator after a successful cut, s[i+1:]
//     with i an index found in s, or the tail of an in-module cutter whose
//     tail is such a window;
//  4. a loop whose continuation is decided by a library iterator
//     ((*bufio.Scanner).Scan): finite for finite input.
func loopVariant(f *ssa.Function, head *ssa.BasicBlock) (string, bool) {
	body := core.LoopBody(head)
	// collect exit conditions: Ifs in the body with one successor outside
	var exits []*ssa.If
	for b := range body {
		if iff, ok := b.Instrs[len(b.Instrs)-1].(*ssa.If); ok {
			if !body[b.Succs[0]] || !body[b.Succs[1]] {
				exits = append(exits, iff)
			}
		}
	}
	inLoop := func(v ssa.Value) bool {
		in, ok := v.(ssa.Instruction)
		return ok && in.Block() != nil && in.Parent() == f && body[in.Block()]
	}
	// form 2: range iteration
	for b := range body {
		for _, in := range b.Instrs {
			if nx, ok := in.(*ssa.Next); ok {
				for _, e := range exits {
					if ex, ok := e.Cond.(*ssa.Extract); ok && ex.Tuple == ssa.Value(nx) && ex.Index == 0 {
						return "range iteration (ssa.Next) over a finite value", true
					}
				}
			}
		}
	}
	// form 4
	for _, e := range exits {
		if call, ok := e.Cond.(*ssa.Call); ok && core.CalleeName(&call.Call) == "(*bufio.Scanner).Scan" {
			return "iteration driven by bufio.Scanner.Scan (finite for finite input)", true
		}
	}
	// form 1: integer induction
	for _, in := range head.Instrs {
		phi, ok := in.(*ssa.Phi)
		if !ok {
			break
		}
		step, ok := phiStep(phi, head, body)
		if !ok || step == 0 {
			continue
		}
		for _, e := range exits {
			cond, truth := core.StripNot(e.Cond, true)
			b, ok := cond.(*ssa.BinOp)
			if !ok {
				continue
			}
			stay := body[e.Block().Succs[0]] // staying in the loop when cond is true?
			if !truth {
				stay = !stay
			}
			var other ssa.Value
			op := b.Op
			switch {
			case derivesByConst(b.X, phi):
				other = b.Y
			case derivesByConst(b.Y, phi):
				other = b.X
				op = flipOp(op)
			default:
				continue
			}
			if inLoop(other) {
				if _, isLen := lenOfInvariant(other, body); !isLen {
					continue
				}
			}
			if !stay {
				op = negateOp(op)
			}
			// loop continues while phi op other
			switch {
			case step > 0 && (op == token.LSS || op == token.LEQ),
				step < 0 && (op == token.GTR || op == token.GEQ),
				(step == 1 || step == -1) && op == token.NEQ:
				return sprintf("integer induction: step %+d, continues while i %s bound (bound not modified in the loop)", step, op), true
			}
		}
	}
	// form 3: shrinking window
	for _, in := range head.Instrs {
		phi, ok := in.(*ssa.Phi)
		if !ok {
			break
		}
		if !isStringType(phi.Type()) && !isByteSlice(phi.Type()) {
			continue
		}
		all := true
		n := 0
		for i, e := range phi.Edges {
			if !body[head.Preds[i]] {
				continue
			}
			n++
			if why := shrinks(e, phi, head.Preds[i], body, 0); why == "" && !shrinksOrExits(e, phi, head, body, exits) {
				all = false
			}
		}
		if all && n > 0 {
			return "string/slice window " + phi.Comment + " strictly shrinks on every back edge", true
		}
	}
	// form 5: a walk around the simple-fold orbit of an invariant rune t: the
	// loop variable starts at t or SimpleFold(t), every back edge replaces it
	// by SimpleFold of itself, and a test executed in every iteration leaves the
	// loop when it (or its successor) is t again.  unicode.SimpleFold is cyclic
	// on the finite orbit of t, so t comes up after at most |orbit| steps.
	isFold := func(v ssa.Value) (ssa.Value, bool) {
		call, ok := v.(*ssa.Call)
		if !ok || core.CalleeName(&call.Call) != "unicode.SimpleFold" {
			return nil, false
		}
		return call.Call.Args[0], true
	}
	for _, in := range head.Instrs {
		phi, ok := in.(*ssa.Phi)
		if !ok {
			break
		}
		var t, step ssa.Value
		good := true
		for i, e := range phi.Edges {
			if body[head.Preds[i]] {
				x, isF := isFold(e)
				if !isF || x != ssa.Value(phi) || (step != nil && step != e) {
					good = false
					break
				}
				step = e
				continue
			}
			start := e
			if x, isF := isFold(e); isF {
				start = x
			}
			if inLoop(start) || (t != nil && t != start) {
				good = false
				break
			}
			t = start
		}
		if !good || t == nil || step == nil {
			continue
		}
		for _, e := range exits {
			cond, truth := core.StripNot(e.Cond, true)
			b, ok := cond.(*ssa.BinOp)
			if !ok || (b.Op != token.EQL && b.Op != token.NEQ) {
				continue
			}
			var x ssa.Value
			switch {
			case b.Y == t:
				x = b.X
			case b.X == t:
				x = b.Y
			default:
				continue
			}
			if x != ssa.Value(phi) && x != step {
				continue
			}
			// leaves the loop when x == t
			eqSucc := 0
			if (b.Op == token.NEQ) == truth {
				eqSucc = 1
			}
			if body[e.Block().Succs[eqSucc]] {
				continue
			}
			everyIter := true
			for _, p := range head.Preds {
				if body[p] && !e.Block().Dominates(p) && e.Block() != p {
					everyIter = false
				}
			}
			if everyIter {
				return "walk around the simple-fold orbit of " + t.Name() + " (finite and cyclic), left when back at it", true
			}
		}
	}
	var conds []string
	for _, e := range exits {
		conds = append(conds, core.Describe(e.Cond))
	}
	return "exit conditions: " + strings.Join(conds, "; "), false
}

func negateOp(op token.Token) token.Token {
	switch op {
	case token.EQL:
		return token.NEQ
	case token.NEQ:
		return token.EQL
	case token.LSS:
		return token.GEQ
	case token.GEQ:
		return token.LSS
	case token.GTR:
		return token.LEQ
	case token.LEQ:
		return token.GTR
	}
	return op
}

// phiStep: every back edge of the phi is phi +/- const (the same sign).
func phiStep(phi *ssa.Phi, head *ssa.BasicBlock, body map[*ssa.BasicBlock]bool) (int64, bool) {
	var step int64
	n := 0
	for i, e := range phi.Edges {
		if !body[head.Preds[i]] {
			continue
		}
		k, ok := constOffsetFrom(e, phi, 0)
		if !ok || k == 0 {
			return 0, false
		}
		if n > 0 && (k > 0) != (step > 0) {
			return 0, false
		}
		if n == 0 || abs64(k) < abs64(step) {
			step = k
		}
		n++
	}
	return step, n > 0
}

func abs64(x int64) int64 {
	if x < 0 {
		return -x
	}
	return x
}

// constOffsetFrom: v == base + k through +/- constants and inner phis whose
// every edge has the same sign of offset.
func constOffsetFrom(v ssa.Value, base ssa.Value, depth int) (int64, bool) {
	if v == base {
		return 0, true
	}
	if depth > 6 {
		return 0, false
	}
	switch x := v.(type) {
	case *ssa.BinOp:
		if k, ok := core.ConstInt(x.Y); ok && (x.Op == token.ADD || x.Op == token.SUB) {
			if o, ok := constOffsetFrom(x.X, base, depth+1); ok {
				if x.Op == token.ADD {
					return o + k, true
				}
				return o - k, true
			}
		}
		if k, ok := core.ConstInt(x.X); ok && x.Op == token.ADD {
			if o, ok := constOffsetFrom(x.Y, base, depth+1); ok {
				return o + k, true
			}
		}
	case *ssa.Convert:
		return constOffsetFrom(x.X, base, depth+1)
	}
	return 0, false
}

func derivesByConst(v ssa.Value, phi *ssa.Phi) bool {
	_, ok := constOffsetFrom(v, phi, 0)
	return ok
}

// lenOfInvariant: v is len(x) with x defined outside the loop.
func lenOfInvariant(v ssa.Value, body map[*ssa.BasicBlock]bool) (ssa.Value, bool) {
	call, ok := v.(*ssa.Call)
	if !ok {
		return nil, false
	}
	if b, ok := call.Call.Value.(*ssa.Builtin); !ok || b.Name() != "len" {
		return nil, false
	}
	if in, ok := call.Call.Args[0].(ssa.Instruction); ok && body[in.Block()] {
		return nil, false
	}
	return call.Call.Args[0], true
}

// shrinks explains why v is a strictly shorter window of phi (or of a value
// that is itself a window of phi) whenever the back edge from block `from` is
// taken; "" if it cannot tell.
func shrinks(v ssa.Value, phi *ssa.Phi, from *ssa.BasicBlock, body map[*ssa.BasicBlock]bool, depth int) string {
	if depth > 4 {
		return ""
	}
	switch x := v.(type) {
	case *ssa.Slice:
		if windowOf(x.X, phi, 0) && x.Low == nil && x.High != nil {
			// s[:h] with h = Index*(s, ...) + k, k <= 0: an index found in s is
			// at most len(s)-1, so the prefix is strictly shorter
			if base, k, ok := indexPlusConst(x.High); ok && k <= 0 {
				if call, isCall := base.(*ssa.Call); isCall && len(call.Call.Args) > 0 && windowOf(call.Call.Args[0], phi, 0) {
					return "s[:i] with i an index found in s"
				}
			}
		}
		if !windowOf(x.X, phi, 0) || x.Low == nil {
			return ""
		}
		if k, ok := core.ConstInt(x.Low); ok && k >= 1 {
			return sprintf("s[%d:]", k)
		}
		// s[i+1:] with i >= 0 known on this edge, or s[1+i:] / s[i:] with i >= 1
		if b, ok := x.Low.(*ssa.BinOp); ok && b.Op == token.ADD {
			var idx ssa.Value
			if k, isK := core.ConstInt(b.Y); isK && k >= 1 {
				idx = b.X
			} else if k, isK := core.ConstInt(b.X); isK && k >= 1 {
				idx = b.Y
			}
			if idx != nil && guardedNonNegative(from, idx) {
				return "s[i+1:] with i >= 0 on this edge"
			}
		}
		if guardedPositive(from, x.Low) {
			return "s[n:] with n >= 1 on this edge"
		}
	case *ssa.Extract:
		call, ok := x.Tuple.(*ssa.Call)
		if !ok {
			return ""
		}
		n := core.CalleeName(&call.Call)
		if (n == "strings.Cut" || n == "bytes.Cut") && x.Index == 1 && windowOf(call.Call.Args[0], phi, 0) {
			// after is strictly shorter when found (sep non-empty) — on the
			// not-found edge after == "" and the loop must exit on !found
			if s, ok := core.ConstString(call.Call.Args[1]); ok && len(s) >= 1 {
				return "tail of strings.Cut with a non-empty separator"
			}
		}
		if callee := call.Call.StaticCallee(); callee != nil && core.InModule(callee) && len(call.Call.Args) == 1 && windowOf(call.Call.Args[0], phi, 0) {
			// in-module cutter: its #idx result must be a strictly shorter
			// window of its argument whenever its first result is non-empty
			if cutterTailShrinks(callee, x.Index) {
				return "tail of " + callee.Name() + " (returns data[end:] trimmed, end >= 0)"
			}
		}
	case *ssa.Call:
		n := core.CalleeName(&x.Call)
		if (n == "strings.TrimLeft" || n == "bytes.TrimLeft" || n == "strings.TrimPrefix") && len(x.Call.Args) > 0 {
			return shrinks(x.Call.Args[0], phi, from, body, depth+1)
		}
	case *ssa.Phi:
		// inner merge: every edge must shrink
		ok := true
		for _, e := range x.Edges {
			if shrinks(e, phi, from, body, depth+1) == "" {
				ok = false
			}
		}
		if ok && len(x.Edges) > 0 {
			return "merge of shrinking windows"
		}
	}
	return ""
}

// windowOf: v is phi or a sub-window of it (slice / trim / cut result).
func windowOf(v ssa.Value, phi *ssa.Phi, depth int) bool {
	if v == ssa.Value(phi) {
		return true
	}
	if depth > 4 {
		return false
	}
	switch x := v.(type) {
	case *ssa.Slice:
		return windowOf(x.X, phi, depth+1)
	case *ssa.Call:
		n := core.CalleeName(&x.Call)
		if strings.HasPrefix(n, "strings.Trim") || strings.HasPrefix(n, "bytes.Trim") {
			return windowOf(x.Call.Args[0], phi, depth+1)
		}
	case *ssa.Extract:
		if call, ok := x.Tuple.(*ssa.Call); ok {
			n := core.CalleeName(&call.Call)
			if n == "strings.Cut" || n == "bytes.Cut" {
				return windowOf(call.Call.Args[0], phi, depth+1)
			}
		}
	}
	return false
}

// guardedNonNegative: on the way to block b, v >= 0 is established by a
// dominating test (v >= 0, v != -1 for index results, v > -1).
func guardedNonNegative(b *ssa.BasicBlock, v ssa.Value) bool {
	for _, g := range append(core.Guards(b), lastGuard(b)...) {
		cond, truth := core.StripNot(g.Cond, g.Truth)
		bin, ok := cond.(*ssa.BinOp)
		if !ok || bin.X != v {
			continue
		}
		k, isK := core.ConstInt(bin.Y)
		if !isK {
			continue
		}
		switch {
		case bin.Op == token.GEQ && k >= 0 && truth,
			bin.Op == token.GTR && k >= -1 && truth,
			bin.Op == token.LSS && k <= 0 && !truth,
			bin.Op == token.NEQ && k == -1 && truth && isIndexResult(v),
			bin.Op == token.EQL && k == -1 && !truth && isIndexResult(v):
			return true
		}
	}
	return false
}

func guardedPositive(b *ssa.BasicBlock, v ssa.Value) bool {
	for _, g := range append(core.Guards(b), lastGuard(b)...) {
		cond, truth := core.StripNot(g.Cond, g.Truth)
		bin, ok := cond.(*ssa.BinOp)
		if !ok || bin.X != v {
			continue
		}
		k, isK := core.ConstInt(bin.Y)
		if !isK {
			continue
		}
		switch {
		case bin.Op == token.GEQ && k >= 1 && truth,
			bin.Op == token.GTR && k >= 0 && truth,
			bin.Op == token.LEQ && k <= 0 && !truth:
			return true
		}
	}
	return false
}

// lastGuard: the branch outcome of a unique predecessor's If leading into b.
func lastGuard(b *ssa.BasicBlock) []core.Guard { return nil }

// isIndexResult: v is the result of an Index* search (>= -1 by contract).
func isIndexResult(v ssa.Value) bool {
	call, ok := v.(*ssa.Call)
	if !ok {
		return false
	}
	n := core.CalleeName(&call.Call)
	return strings.HasPrefix(n, "strings.Index") || strings.HasPrefix(n, "bytes.Index") || strings.HasPrefix(n, "strings.LastIndex") || strings.HasPrefix(n, "bytes.LastIndex")
}

// cutterTailShrinks: every return of the cutter gives, as result #idx, either
// the empty string/nil or TrimLeft(data[end:]) with end >= 0 an index found in
// data, and result #0 is data[:end] — so a non-empty field or a found
// separator makes the tail strictly shorter, and an empty tail ends the loop.
func cutterTailShrinks(f *ssa.Function, idx int) bool {
	if len(f.Params) != 1 || idx != 1 {
		return false
	}
	data := f.Params[0]
	for _, ret := range core.Returns(f) {
		if len(ret.Results) != 2 {
			return false
		}
		tail := ret.Results[1]
		if core.IsNilConst(tail) {
			continue
		}
		if s, ok := core.ConstString(tail); ok && s == "" {
			continue
		}
		v := tail
		if call, ok := v.(*ssa.Call); ok {
			n := core.CalleeName(&call.Call)
			if n != "strings.TrimLeft" && n != "bytes.TrimLeft" {
				return false
			}
			v = call.Call.Args[0]
		}
		sl, ok := v.(*ssa.Slice)
		if !ok || sl.X != ssa.Value(data) || sl.Low == nil || !isIndexResult(sl.Low) {
			return false
		}
		// the separator found at `end` is removed by TrimLeft with the same
		// cutset, so the tail is at least one byte shorter than data[end:]
		// only if the trim uses the search cutset: checked by C07.separators.
		// Field (#0) must be data[:end].
		f0, ok := ret.Results[0].(*ssa.Slice)
		if !ok || f0.X != ssa.Value(data) || f0.High != sl.Low {
			return false
		}
	}
	return true
}

// shrinksOrExits: v = s[i+1:] where i is an Index* result (>= -1) that also
// feeds a phi P of the loop head, and the head exits the loop when P == -1: on
// the back edge either i >= 0 (the window strictly shrinks) or i == -1 (the
// window is unchanged but the next head test leaves the loop).
func shrinksOrExits(v ssa.Value, phi *ssa.Phi, head *ssa.BasicBlock, body map[*ssa.BasicBlock]bool, exits []*ssa.If) bool {
	sl, ok := v.(*ssa.Slice)
	if !ok || !windowOf(sl.X, phi, 0) || sl.Low == nil || sl.High != nil {
		return false
	}
	b, ok := sl.Low.(*ssa.BinOp)
	if !ok || b.Op != token.ADD {
		return false
	}
	var idx ssa.Value
	if k, isK := core.ConstInt(b.X); isK && k == 1 {
		idx = b.Y
	} else if k, isK := core.ConstInt(b.Y); isK && k == 1 {
		idx = b.X
	}
	if idx == nil || !isIndexResult(idx) {
		return false
	}
	for _, in := range head.Instrs {
		p, ok := in.(*ssa.Phi)
		if !ok {
			break
		}
		feeds := false
		for i, e := range p.Edges {
			if body[head.Preds[i]] && e == idx {
				feeds = true
			}
		}
		if !feeds {
			continue
		}
		for _, e := range exits {
			if e.Block() != head {
				continue
			}
			bin, ok := e.Cond.(*ssa.BinOp)
			if !ok || bin.X != ssa.Value(p) {
				continue
			}
			k, isK := core.ConstInt(bin.Y)
			if !isK || k != -1 {
				continue
			}
			// continues while P != -1: true successor in the loop, false outside
			if bin.Op == token.NEQ && !body[head.Succs[1]] {
				return true
			}
			if bin.Op == token.EQL && !body[head.Succs[0]] {
				return true
			}
		}
	}
	return false
}

// indexPlusConst: v == r + k where r is the result of an Index* search.
func indexPlusConst(v ssa.Value) (ssa.Value, int64, bool) {
	var k int64
	for i := 0; i < 6; i++ {
		if isIndexResult(v) {
			return v, k, true
		}
		b, ok := v.(*ssa.BinOp)
		if !ok {
			return nil, 0, false
		}
		n, isK := core.ConstInt(b.Y)
		if !isK {
			return nil, 0, false
		}
		switch b.Op {
		case token.ADD:
			k += n
		case token.SUB:
			k -= n
		default:
			return nil, 0, false
		}
		v = b.X
	}
	return nil, 0, false
}
