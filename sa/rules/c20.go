package rules

import (
	"go/token"
	"go/types"
	"sort"
	"strings"

	"golang.org/x/tools/go/ssa"

	"verif/sa/core"
)

func init() {
	register(&Property{
		ID:    "C20",
		Level: "other",
		Explanation: "Structural necessary conditions on httputil.Wrap and LogMiddleware, decided on SSA: (R1) Wrap is a descending loop wrapped = middlewares[i].Wrap(wrapped) starting from h, " +
			"returning the accumulator, and only reads the caller's slice; (R2) each of the three pooled objects is obtained by Get (possibly through a helper that returns the pooled pointer), " +
			"handed back by a deferred Put to the same pool, and completely re-initialised before the wrapped handler runs (all logMwAttrNum slots, whole-struct request copy, Reset covering " +
			"every field of the recorder); (R3) defer order: the deferred finished-log that reads the recorder is registered after the recorder's deferred Put, so it runs before the recorder is " +
			"released; SetImplicitSuccess runs after ServeHTTP; WriteHeader records the code it forwards; Write/Header forward; (R4) the closure captures only the middleware and the next handler; " +
			"ServeHTTP gets this invocation's pooled recorder and request; the four logger attributes map host/method/raddr/request_uri to r.Host/Method/RemoteAddr/RequestURI. " +
			"Every WithAttrs method of the module (the per-request logger is derived with it from one shared handler) appends only to storage it does not share with the receiver and does not keep the caller's slice. Not decided: behaviour under actual interleavings; R2-R4 are the conditions under which a pooled object cannot be live in two requests at once.",
		Technique: "pool typestate (Get / deferred Put / reset-before-use), defer-order dominance, reset completeness, capture analysis on go/ssa",
		Note:      "Trusted: go/ssa, sync.Pool never handing one object to two Gets without an intervening Put, defer LIFO order.",
		DesignRef: "DESIGN.md section 4, C20",
		Run:       runC20,
	})
}

func runC20(c *Ctx) {
	c.L.Trust("go/types + go/ssa", "sync.Pool hands an object to one Get at a time", "deferred calls run last-in first-out")
	c.L.Floor("C20.wrap.order", 3)
	c.L.Floor("C20.pool.paired", 3)
	c.L.Floor("C20.pool.reinit", 3)
	c.L.Floor("C20.defer-order", 2)
	c.L.Floor("C20.recorder", 4)
	c.L.Floor("C20.isolation", 5)
	c.L.Floor("C20.attrs", 4)
	c20HandlerAttrs(c)

	if w := c.fn("netutil/httputil", "Wrap"); w != nil {
		c20Wrap(c, w)
	}
	poolNewFresh(c, "C20", []string{"syncutil", "netutil/httputil"}, 2)
	c.L.Floor("C20.ctx-logger", 2)
	c20ContextLogger(c)
	mwWrap := c.fn("netutil/httputil", "LogMiddleware.Wrap")
	if mwWrap == nil {
		return
	}
	if len(mwWrap.AnonFuncs) != 1 {
		c.undecided("C20.isolation", mwWrap, "the per-request closure", nil, sprintf("expected one closure, found %d", len(mwWrap.AnonFuncs)))
		return
	}
	cl := mwWrap.AnonFuncs[0]
	c.L.Saw(core.FuncName(cl))
	// R4 captures
	for _, fv := range cl.FreeVars {
		t := fv.Type()
		if p, ok := t.Underlying().(*types.Pointer); ok {
			t = p.Elem()
		}
		okT := core.NamedOf(t) == "LogMiddleware" || namedIn(t, "net/http", "Handler")
		c.check(okT, "C20.isolation", cl, "captured variable "+fv.Name(), nil, "the per-request closure may share only the middleware and the next handler between requests; type "+fv.Type().String())
	}
	var serve *ssa.Call
	var serves []*ssa.Call
	for _, ci := range core.AllCalls(cl) {
		if call, ok := ci.(*ssa.Call); ok && call.Call.IsInvoke() && call.Call.Method.Name() == "ServeHTTP" {
			serve = call
			serves = append(serves, call)
		}
	}
	// one way into the wrapped handler: a second ServeHTTP call (a fast path
	// for cancelled requests, for a disabled logger, ...) hands it the raw
	// request and writer — no context logger, no recorded status
	c.check(len(serves) <= 1, "C20.isolation", cl, "the wrapped handler is entered at one place", serve,
		sprintf("%d ServeHTTP calls in the per-request closure: every invocation must get the recorder, the request copy and the context logger", len(serves)))
	if serve == nil {
		c.undecided("C20.isolation", cl, "ServeHTTP call", nil, "not found")
		return
	}
	{
		okOnce := true
		for _, ret := range core.Returns(cl) {
			if cl.Recover != nil && ret.Block() == cl.Recover {
				continue
			}
			mn, mx, reach := core.CountOnPaths(cl, nil, ret, func(in ssa.Instruction) bool { return in == ssa.Instruction(serve) })
			if reach && (mn != 1 || mx != 1) {
				okOnce = false
			}
		}
		c.check(okOnce, "C20.isolation", cl, "every request reaches the wrapped handler exactly once", serve, "no path through the middleware skips or repeats the handler")
	}
	// pools
	type pooled struct {
		get   ssa.Value // the pooled pointer
		pool  string
		put   *ssa.Defer
		where ssa.Instruction
	}
	var objs []pooled
	poolOfGet := func(v ssa.Value) (string, bool) {
		call, ok := v.(*ssa.Call)
		if !ok {
			return "", false
		}
		if strings.HasSuffix(core.CalleeName(&call.Call), "syncutil.Pool[T]).Get") {
			name, _, ok := core.IsLoadOfField(call.Call.Args[0])
			return name, ok
		}
		// helper returning a pooled pointer
		if cal := call.Call.StaticCallee(); cal != nil && core.InModule(cal) && len(cal.Blocks) > 0 {
			for _, ret := range core.Returns(cal) {
				if len(ret.Results) == 1 {
					if gc, ok := ret.Results[0].(*ssa.Call); ok && strings.HasSuffix(core.CalleeName(&gc.Call), "syncutil.Pool[T]).Get") {
						name, _, ok := core.IsLoadOfField(gc.Call.Args[0])
						return name, ok
					}
				}
			}
		}
		return "", false
	}
	core.EachInstr(cl, func(in ssa.Instruction) {
		if v, ok := in.(ssa.Value); ok {
			if pool, ok := poolOfGet(v); ok {
				objs = append(objs, pooled{get: v, pool: pool, where: in})
			}
		}
	})
	var defers []*ssa.Defer
	core.EachInstr(cl, func(in ssa.Instruction) {
		if d, ok := in.(*ssa.Defer); ok {
			defers = append(defers, d)
		}
	})
	for i := range objs {
		o := &objs[i]
		for _, d := range defers {
			if strings.HasSuffix(core.CalleeName(&d.Call), "syncutil.Pool[T]).Put") && d.Call.Args[1] == o.get {
				o.put = d
			}
		}
		okPut := false
		if o.put != nil {
			name, _, ok := core.IsLoadOfField(o.put.Call.Args[0])
			okPut = ok && name == o.pool && core.Dominates(o.where, o.put)
		}
		c.check(okPut, "C20.pool.paired", cl, "object from mw."+o.pool+" is returned by a deferred Put to the same pool", o.where,
			"an object must go back exactly once, when the request is over")
	}
	c.check(len(objs) == 3, "C20.pool.paired", cl, "three pooled objects per request (attributes, request copy, response recorder)", nil, sprintf("found %d", len(objs)))
	// non-deferred Puts
	core.EachInstr(cl, func(in ssa.Instruction) {
		if call, ok := in.(*ssa.Call); ok && strings.HasSuffix(core.CalleeName(&call.Call), "syncutil.Pool[T]).Put") {
			c.check(false, "C20.pool.paired", cl, "non-deferred Put", call, "the object would be handed to another request while this one still uses it")
		}
	})
	// ServeHTTP arguments are the pooled recorder and request of this invocation
	var rwObj, reqObj, attrObj *pooled
	for i := range objs {
		switch objs[i].pool {
		case "rwPool":
			rwObj = &objs[i]
		case "reqPool":
			reqObj = &objs[i]
		case "attrPool":
			attrObj = &objs[i]
		}
	}
	okArgs := rwObj != nil && reqObj != nil && core.Unwrap(serve.Call.Args[0]) == rwObj.get && serve.Call.Args[1] == reqObj.get
	c.check(okArgs, "C20.isolation", cl, "ServeHTTP(pooled recorder, pooled request copy) of this invocation", serve, "the wrapped handler sees only this request's objects")
	// R2 reinit
	if reqObj != nil {
		okCopy := false
		for _, ci := range core.CallsTo(cl, core.ModPath+"/netutil/httputil.CopyRequestTo") {
			call := ci.(*ssa.Call)
			if call.Call.Args[1] == reqObj.get && call.Call.Args[2] == ssa.Value(cl.Params[1]) && core.Dominates(call, serve) {
				okCopy = true
				// context argument carries the logger built from this request's attributes
				ctxOK := false
				if cc, ok := call.Call.Args[0].(*ssa.Call); ok && strings.HasSuffix(core.CalleeName(&cc.Call), "slogutil.ContextWithLogger") {
					if rc, ok := cc.Call.Args[0].(*ssa.Call); ok && core.CalleeName(&rc.Call) == "(*net/http.Request).Context" && rc.Call.Args[0] == ssa.Value(cl.Params[1]) {
						ctxOK = true
					}
				}
				c.check(ctxOK, "C20.isolation", cl, "the copy's context is r.Context() plus this request's logger", call, "context values of the original request are kept")
			}
		}
		c.check(okCopy, "C20.pool.reinit", cl, "CopyRequestTo(ctx, pooledReq, r) before ServeHTTP", serve, "the pooled request is overwritten as a whole with this request")
		if cp := c.P.Func("netutil/httputil", "CopyRequestTo"); cp != nil {
			okWhole := false
			core.EachInstr(cp, func(in ssa.Instruction) {
				if st, ok := in.(*ssa.Store); ok && st.Addr == ssa.Value(cp.Params[1]) {
					if ld, ok := st.Val.(*ssa.UnOp); ok && ld.Op == token.MUL {
						if wc, ok := ld.X.(*ssa.Call); ok && core.CalleeName(&wc.Call) == "(*net/http.Request).WithContext" && wc.Call.Args[0] == ssa.Value(cp.Params[2]) && wc.Call.Args[1] == ssa.Value(cp.Params[0]) {
							okWhole = true
						}
					}
				}
			})
			c.check(okWhole, "C20.pool.reinit", cp, "*dst = *src.WithContext(ctx)", nil, "every field of the pooled request is overwritten")
		}
	}
	if rwObj != nil {
		var reset *ssa.Call
		for _, ci := range core.AllCalls(cl) {
			if call, ok := ci.(*ssa.Call); ok && call.Call.StaticCallee() != nil && call.Call.StaticCallee().Name() == "Reset" && call.Call.Args[0] == rwObj.get {
				reset = call
			}
		}
		c.check(reset != nil && reset.Call.Args[1] == ssa.Value(cl.Params[0]) && core.Dominates(reset, serve), "C20.pool.reinit", cl, "rw.Reset(w) before ServeHTTP", reset,
			"the recorder forwards to this request's ResponseWriter and starts with no code")
		// reset completeness
		if rf := c.P.Func("netutil/httputil", "CodeRecorderResponseWriter.Reset"); rf != nil {
			tp := c.P.TPkg("netutil/httputil")
			st := tp.Types.Scope().Lookup("CodeRecorderResponseWriter").Type().Underlying().(*types.Struct)
			written := map[string]ssa.Value{}
			core.EachInstr(rf, func(in ssa.Instruction) {
				if s, ok := in.(*ssa.Store); ok {
					if fa, ok := s.Addr.(*ssa.FieldAddr); ok && fa.X == ssa.Value(rf.Params[0]) {
						written[core.FieldName(fa)] = s.Val
					}
				}
			})
			for i := 0; i < st.NumFields(); i++ {
				n := st.Field(i).Name()
				okF := written[n] != nil
				if n == "code" && okF {
					k, isK := core.ConstInt(written[n])
					okF = isK && k == 0
				}
				if n == "rw" && okF {
					okF = written[n] == ssa.Value(rf.Params[1])
				}
				c.check(okF, "C20.recorder", rf, "Reset re-initialises field "+n, nil, "a recorder taken from the pool must not remember the previous request (reset completeness over the struct's fields)")
			}
		}
		// R3 defer order
		var logDefer *ssa.Defer
		for _, d := range defers {
			for _, a := range d.Call.Args {
				if a == rwObj.get && !strings.HasSuffix(core.CalleeName(&d.Call), ").Put") {
					logDefer = d
				}
			}
		}
		if logDefer == nil {
			c.check(false, "C20.defer-order", cl, "deferred finished-log reading the recorder", nil, "the finished record is not produced from the recorder")
		} else {
			c.check(rwObj.put != nil && core.Dominates(rwObj.put, logDefer), "C20.defer-order", cl, "defer Put(rw) is registered before the deferred finished-log", logDefer,
				"defers run last-in first-out: the log must read the recorder's code before the recorder is handed back to the pool and reset by another request")
			c.check(core.Dominates(logDefer, serve), "C20.defer-order", cl, "the finished-log is deferred before ServeHTTP", logDefer, "it also runs when the handler panics")
			// every pooled object the deferred log reads must be released after it
			for _, o := range objs {
				for _, a := range logDefer.Call.Args {
					if a == o.get && o.put != nil {
						c.check(core.Dominates(o.put, logDefer), "C20.defer-order", cl, "object of mw."+o.pool+" outlives the deferred log", logDefer, "LIFO order")
					}
				}
			}
		}
		// SetImplicitSuccess after ServeHTTP
		okImp := false
		for _, ci := range core.AllCalls(cl) {
			if call, ok := ci.(*ssa.Call); ok && call.Call.StaticCallee() != nil && call.Call.StaticCallee().Name() == "SetImplicitSuccess" && call.Call.Args[0] == rwObj.get && core.Dominates(serve, call) {
				okImp = true
			}
		}
		c.check(okImp, "C20.recorder", cl, "SetImplicitSuccess() after ServeHTTP", serve, "200 is reported when the handler set no code")
	}
	// the finished record: logged with the recorder's code, under no condition
	// other than the logger being enabled for that level
	if lf := c.P.Func("netutil/httputil", "LogMiddleware.logFinished"); lf != nil {
		n := 0
		for _, ci := range core.AllCalls(lf) {
			call, ok := ci.(*ssa.Call)
			if !ok || core.CalleeName(&call.Call) != "(*log/slog.Logger).Log" {
				continue
			}
			n++
			okMsg := false
			if msg, isK := core.ConstString(call.Call.Args[3]); isK && msg == "finished" {
				okMsg = true
			}
			okCode := false
			if len(call.Call.Args) > 4 {
				if sl, isSl := call.Call.Args[4].(*ssa.Slice); isSl {
					if al, isAl := sl.X.(*ssa.Alloc); isAl {
						var vals []ssa.Value
						for _, r := range core.Refs(al) {
							if ia, ok := r.(*ssa.IndexAddr); ok {
								for _, rr := range core.Refs(ia) {
									if st, ok := rr.(*ssa.Store); ok {
										vals = append(vals, core.Unwrap(st.Val))
									}
								}
							}
						}
						for i, v := range vals {
							if k, isK := core.ConstString(v); isK && k == "code" {
								for j, w := range vals {
									if j != i {
										if name, base, isF := core.IsLoadOfField(w); isF && name == "code" && len(lf.Params) > 3 && base == ssa.Value(lf.Params[3]) {
											okCode = true
										}
										// or through the accessor that returns that field
										if acc, isC := w.(*ssa.Call); isC && len(lf.Params) > 3 && len(acc.Call.Args) == 1 && acc.Call.Args[0] == ssa.Value(lf.Params[3]) {
											if g := acc.Call.StaticCallee(); g != nil && len(g.Blocks) == 1 && len(g.Params) == 1 {
												for _, ret := range core.Returns(g) {
													if name, base, isF := core.IsLoadOfField(ret.Results[0]); isF && name == "code" && base == ssa.Value(g.Params[0]) {
														okCode = true
													}
												}
											}
										}
									}
								}
							}
						}
					}
				}
			}
			okGuard := true
			for _, g := range core.GuardsOf(call) {
				cond, truth := core.StripNot(g.Cond, g.Truth)
				gc, isC := cond.(*ssa.Call)
				if !isC || core.CalleeName(&gc.Call) != "(*log/slog.Logger).Enabled" || !truth {
					okGuard = false
				}
			}
			c.check(okMsg && okCode && okGuard, "C20.recorder", lf, `l.Log(ctx, lvl, "finished", "code", rw.code, ...) whenever the level is enabled`, call,
				"the finished record reports the code of this invocation's recorder")
		}
		if n == 0 {
			c.check(false, "C20.recorder", lf, "the finished record is logged", nil, "logFinished does not log")
		}
	}
	// recorder methods
	if wh := c.P.Func("netutil/httputil", "CodeRecorderResponseWriter.WriteHeader"); wh != nil {
		okRec, okFwd := false, false
		core.EachInstr(wh, func(in ssa.Instruction) {
			switch x := in.(type) {
			case *ssa.Store:
				if fa, ok := x.Addr.(*ssa.FieldAddr); ok && core.FieldName(fa) == "code" && x.Val == ssa.Value(wh.Params[1]) {
					okRec = true
				}
			case *ssa.Call:
				if x.Call.IsInvoke() && x.Call.Method.Name() == "WriteHeader" && x.Call.Args[0] == ssa.Value(wh.Params[1]) {
					if name, _, ok := core.IsLoadOfField(x.Call.Value); ok && name == "rw" {
						okFwd = true
					}
				}
			}
		})
		c.check(okRec && okFwd, "C20.recorder", wh, "WriteHeader records the code and forwards the same code", nil, "the finished record reports what the client received")
		// ... unconditionally: every call is recorded and forwarded exactly once
		isRec := func(in ssa.Instruction) bool {
			x, ok := in.(*ssa.Store)
			if !ok {
				return false
			}
			fa, ok := x.Addr.(*ssa.FieldAddr)
			return ok && core.FieldName(fa) == "code" && x.Val == ssa.Value(wh.Params[1])
		}
		isFwd := func(in ssa.Instruction) bool {
			x, ok := in.(*ssa.Call)
			return ok && x.Call.IsInvoke() && x.Call.Method.Name() == "WriteHeader"
		}
		for _, ret := range core.Returns(wh) {
			rmin, _, ok1 := core.CountOnPaths(wh, nil, ret, isRec)
			fmin, fmax, ok2 := core.CountOnPaths(wh, nil, ret, isFwd)
			c.check(ok1 && ok2 && rmin >= 1 && fmin == 1 && fmax == 1, "C20.recorder", wh, "every path records the code and forwards it exactly once", ret,
				sprintf("records on a path: min %d; forwards on a path: min %d max %d — a handler may send 1xx informational headers before the final status, and the last code is the one the client receives", rmin, fmin, fmax))
		}
	}
	if sis := c.P.Func("netutil/httputil", "CodeRecorderResponseWriter.SetImplicitSuccess"); sis != nil {
		okS := false
		core.EachInstr(sis, func(in ssa.Instruction) {
			if st, ok := in.(*ssa.Store); ok {
				if fa, ok := st.Addr.(*ssa.FieldAddr); ok && core.FieldName(fa) == "code" {
					// cmp.Or(w.code, 200) or an if code == 0 { code = 200 }
					if call, ok := st.Val.(*ssa.Call); ok && strings.HasPrefix(core.CalleeName(&call.Call), "cmp.Or") {
						okS = true
					}
					// explicit form: per arriving value, 200 exactly when the recorded
					// code is 0 and the recorded code otherwise
					codeIsZero := func(facts []core.Fact) (zero, known bool) {
						for _, g := range facts {
							cond, truth := core.StripNot(g.Cond, g.Truth)
							bo, ok := cond.(*ssa.BinOp)
							if !ok || (bo.Op != token.EQL && bo.Op != token.NEQ) {
								continue
							}
							x, y := bo.X, bo.Y
							if k, isK := core.ConstInt(x); isK && k == 0 {
								x, y = y, x
							}
							k, isK := core.ConstInt(y)
							n, _, isF := core.IsLoadOfField(x)
							if !isK || k != 0 || !isF || n != "code" {
								continue
							}
							return (bo.Op == token.EQL) == truth, true
						}
						return false, false
					}
					leaves := core.Facts(sis).Leaves(st.Val, st)
					good := len(leaves) > 0
					for _, lf := range leaves {
						zero, known := codeIsZero(lf.Facts)
						if k, isK := core.ConstInt(lf.V); isK {
							good = good && k == 200 && known && zero
							continue
						}
						n, _, isF := core.IsLoadOfField(lf.V)
						good = good && isF && n == "code" && known && !zero
					}
					if good {
						okS = true
					}
				}
			}
		})
		c.check(okS, "C20.recorder", sis, "SetImplicitSuccess keeps an explicit code and defaults to 200", nil, "implicit success")
	}
	for _, name := range []string{"Write", "Header"} {
		if f := c.P.Func("netutil/httputil", "CodeRecorderResponseWriter."+name); f != nil {
			okF := false
			for _, ret := range core.Returns(f) {
				v := ret.Results[0]
				if ex, ok := v.(*ssa.Extract); ok {
					v = ex.Tuple
				}
				if call, ok := v.(*ssa.Call); ok && call.Call.IsInvoke() && call.Call.Method.Name() == name {
					if fn, _, ok := core.IsLoadOfField(call.Call.Value); ok && fn == "rw" {
						okF = true
					}
				}
			}
			c.check(okF, "C20.recorder", f, name+" forwards to the wrapped ResponseWriter", nil, "the client receives exactly what the handler wrote")
			isFwd := func(in ssa.Instruction) bool {
				x, ok := in.(*ssa.Call)
				return ok && x.Call.IsInvoke() && x.Call.Method.Name() == name
			}
			for _, ret := range core.Returns(f) {
				mn, mx, ok := core.CountOnPaths(f, nil, ret, isFwd)
				c.check(ok && mn == 1 && mx == 1, "C20.recorder", f, name+" forwards exactly once on every path", ret, sprintf("min %d max %d", mn, mx))
			}
		}
	}
	// attributes
	if attrObj != nil {
		helper := c.P.Func("netutil/httputil", "LogMiddleware.attrsSlicePtr")
		if helper == nil || c.P.Absorbed[helper] {
			// no separate helper (or one merged into the closure by the
			// normalisation): the attributes are filled in the closure itself
			helper = cl
		}
		if helper != nil {
			want := map[string]string{"host": "Host", "method": "Method", "raddr": "RemoteAddr", "request_uri": "RequestURI"}
			slots := map[int64]bool{}
			core.EachInstr(helper, func(in ssa.Instruction) {
				st, ok := in.(*ssa.Store)
				if !ok {
					return
				}
				ia, ok := st.Addr.(*ssa.IndexAddr)
				if !ok {
					return
				}
				k, _ := core.ConstInt(ia.Index)
				call, ok := st.Val.(*ssa.Call)
				if !ok || core.CalleeName(&call.Call) != "log/slog.String" {
					return
				}
				key, _ := core.ConstString(call.Call.Args[0])
				field, base, isF := core.IsLoadOfField(call.Call.Args[1])
				okA := isF && want[key] == field && base == ssa.Value(helper.Params[1])
				c.check(okA, "C20.attrs", helper, "attribute "+key+" = r."+want[key], st, "the context logger carries this request's own values")
				if okA {
					slots[k] = true
					delete(want, key)
				}
			})
			c.check(len(want) == 0, "C20.attrs", helper, "all four attributes host, method, raddr, request_uri are set", nil, sprintf("missing: %v", want))
			// every slot of the pooled slice is overwritten: pool length == number of slots written
			if ctor := c.P.Func("netutil/httputil", "NewLogMiddleware"); ctor != nil {
				var n int64 = -1
				for _, ci := range core.AllCalls(ctor) {
					if call, ok := ci.(*ssa.Call); ok && strings.HasPrefix(core.CalleeName(&call.Call), core.ModPath+"/syncutil.NewSlicePool") {
						n, _ = core.ConstInt(call.Call.Args[0])
					}
				}
				c.check(n == int64(len(slots)) && n > 0, "C20.pool.reinit", helper, sprintf("all %d slots of the pooled attribute slice are overwritten", n), nil,
					sprintf("the pool hands out slices of length %d; %d distinct slots are stored", n, len(slots)))
			}
			// the helper is called with this request
			for _, ci := range core.AllCalls(cl) {
				if call, ok := ci.(*ssa.Call); ok && helper != cl && call.Call.StaticCallee() == helper {
					c.check(call.Call.Args[1] == ssa.Value(cl.Params[1]), "C20.attrs", cl, "attributes are taken from this invocation's request", call, "r of the closure")
				}
			}
		}
		// the logger is built from those attributes
		okLog := false
		for _, ci := range core.AllCalls(cl) {
			if call, ok := ci.(*ssa.Call); ok && call.Call.IsInvoke() && call.Call.Method.Name() == "WithAttrs" {
				if ld, ok := call.Call.Args[0].(*ssa.UnOp); ok && ld.Op == token.MUL && ld.X == attrObj.get {
					okLog = true
				}
			}
		}
		c.check(okLog, "C20.attrs", cl, "the context logger is derived with WithAttrs(*attrsPtr)", nil, "logger carrying the request's attributes")
	}
}

func c20Wrap(c *Ctx, f *ssa.Function) {
	h, mws := f.Params[0], f.Params[1]
	// the slice is only read
	okRead := true
	var bad ssa.Instruction
	for _, r := range core.Refs(mws) {
		switch x := r.(type) {
		case *ssa.IndexAddr:
			for _, rr := range core.Refs(x) {
				if st, ok := rr.(*ssa.Store); ok && st.Addr == ssa.Value(x) {
					okRead, bad = false, st
				}
			}
		case *ssa.Call:
			if b, ok := x.Call.Value.(*ssa.Builtin); !ok || (b.Name() != "len" && b.Name() != "cap") {
				okRead, bad = false, x
			}
		case *ssa.DebugRef, *ssa.Range:
		default:
			okRead, bad = false, r
		}
	}
	c.check(okRead, "C20.wrap.order", f, "the middlewares slice is only read", bad, "callers reuse their slice: reordering it in place reverses the chain of every second Wrap call")
	heads := core.LoopHeads(f)
	if len(heads) != 1 {
		c.undecided("C20.wrap.order", f, "the wrapping loop", nil, sprintf("expected one loop, found %d", len(heads)))
		return
	}
	var head *ssa.BasicBlock
	for b := range heads {
		head = b
	}
	body := core.LoopBody(head)
	var acc, idx *ssa.Phi
	for _, in := range head.Instrs {
		phi, ok := in.(*ssa.Phi)
		if !ok {
			break
		}
		if isIntegerType(phi.Type()) {
			idx = phi
		} else {
			acc = phi
		}
	}
	// the index sequence of the loop, evaluated for slices of 0..5 elements:
	// it must be n-1, n-2, ..., 0 (the counter, the bound and the index are
	// affine in the counter and len(middlewares), so agreement on these six
	// lengths is agreement for all)
	okIdx, whyIdx := idx != nil, "no integer loop counter"
	if idx != nil {
		var lens []ssa.Value
		core.EachInstr(f, func(in ssa.Instruction) {
			if call, ok := in.(*ssa.Call); ok {
				if b, isB := call.Call.Value.(*ssa.Builtin); isB && (b.Name() == "len" || b.Name() == "cap") && len(call.Call.Args) == 1 && call.Call.Args[0] == ssa.Value(mws) {
					lens = append(lens, call)
				}
			}
		})
		// the element whose Wrap is called in the loop: mws[indexExpr]
		var indexExpr ssa.Value
		rotated := false
		for b := range body {
			for _, in := range b.Instrs {
				if ia, ok := in.(*ssa.IndexAddr); ok && ia.X == ssa.Value(mws) {
					indexExpr = ia.Index
					rotated = b == head // the element is read before the test at the end of the head block
				}
			}
		}
		hif, _ := head.Instrs[len(head.Instrs)-1].(*ssa.If)
		var entryV, backV ssa.Value
		for i, e := range idx.Edges {
			if body[head.Preds[i]] {
				backV = e
			} else {
				entryV = e
			}
		}
		if indexExpr == nil || hif == nil || entryV == nil || backV == nil {
			okIdx, whyIdx = false, "the loop is not `counter; test at the head; mws[index(counter)]`"
		}
		for n := int64(0); okIdx && n <= 5; n++ {
			env := map[ssa.Value]int64{}
			for _, l := range lens {
				env[l] = n
			}
			p, ok := evalSmall(entryV, env, 0)
			var seq []int64
			if rotated {
				// `for i := range n` as go/ssa builds it: a guard in front of
				// the loop, the body first, the test of the *next* value at
				// the bottom of the same block
				entered := true
				for _, pb := range head.Preds {
					if body[pb] {
						continue
					}
					if gif, isIf := pb.Instrs[len(pb.Instrs)-1].(*ssa.If); isIf {
						gv, okG := evalSmall(gif.Cond, env, 0)
						if !okG {
							ok = false
						}
						entered = (gv != 0) == (pb.Succs[0] == head)
					}
				}
				for steps := int64(0); ok && entered && steps <= n+1; steps++ {
					env[idx] = p
					iv, okI := evalSmall(indexExpr, env, 0)
					if !okI {
						ok = false
						break
					}
					seq = append(seq, iv)
					cv, okC := evalSmall(hif.Cond, env, 0)
					if !okC {
						ok = false
						break
					}
					cont := cv != 0
					if !body[hif.Block().Succs[0]] {
						cont = !cont
					}
					if !cont {
						break
					}
					p, ok = evalSmall(backV, env, 0)
				}
			}
			for steps := int64(0); !rotated && ok && steps <= n+1; steps++ {
				env[idx] = p
				cv, okC := evalSmall(hif.Cond, env, 0)
				if !okC {
					ok = false
					break
				}
				cont := cv != 0
				if !body[hif.Block().Succs[0]] {
					cont = !cont
				}
				if !cont {
					break
				}
				iv, okI := evalSmall(indexExpr, env, 0)
				if !okI {
					ok = false
					break
				}
				seq = append(seq, iv)
				p, ok = evalSmall(backV, env, 0)
			}
			if !ok {
				okIdx, whyIdx = false, "the counter, its bound or the index is not an affine expression of the counter and len(middlewares)"
				break
			}
			good := int64(len(seq)) == n
			for k := range seq {
				good = good && seq[k] == n-1-int64(k)
			}
			if !good {
				okIdx, whyIdx = false, sprintf("for %d middlewares the loop wraps in the index order %v, not %d..0", n, seq, n-1)
			}
		}
	}
	if okIdx {
		whyIdx = "index sequence evaluated for 0..5 middlewares"
	}
	c.check(okIdx, "C20.wrap.order", f, "the loop wraps with middlewares[n-1], ..., middlewares[0] in that order", nil, "the last middleware wraps first, so the first one is outermost and receives the request first. "+whyIdx)
	okAcc := acc != nil
	if acc != nil {
		for i, e := range acc.Edges {
			if !body[head.Preds[i]] {
				okAcc = okAcc && e == ssa.Value(h)
				continue
			}
			call, ok := e.(*ssa.Call)
			if !ok || !call.Call.IsInvoke() || call.Call.Method.Name() != "Wrap" || call.Call.Args[0] != ssa.Value(acc) || !elemOf(call.Call.Value, mws) {
				okAcc = false
			}
		}
		var backAcc ssa.Value
		for i, e := range acc.Edges {
			if body[head.Preds[i]] {
				backAcc = e
			}
		}
		for _, ret := range core.Returns(f) {
			r := ret.Results[0]
			if r == ssa.Value(acc) {
				continue
			}
			// a rotated loop leaves through a phi of "never entered" (h) and
			// the chain built by the last iteration
			phi, isPhi := r.(*ssa.Phi)
			if !isPhi {
				okAcc = false
				continue
			}
			for _, e := range phi.Edges {
				if e != ssa.Value(h) && e != backAcc && e != ssa.Value(acc) {
					okAcc = false
				}
			}
		}
	}
	c.check(okAcc, "C20.wrap.order", f, "wrapped = middlewares[i].Wrap(wrapped), starting from h, returned at the end", nil, "each middleware wraps the chain built so far")
}

func isIntegerType(t types.Type) bool {
	b, ok := t.Underlying().(*types.Basic)
	return ok && b.Info()&types.IsInteger != 0
}

// poolNewFresh: every constructor function handed to syncutil.NewPool returns
// an object allocated by that very call — never a captured or package-level
// one (all Gets on an empty pool would then receive the same object and two
// concurrent users would share it).
func poolNewFresh(c *Ctx, prop string, pkgs []string, floor int) {
	c.L.Floor(prop+".pool.fresh-new", floor)
	n := 0
	for _, pkg := range pkgs {
		for _, f := range c.P.Funcs(pkg) {
			for _, ci := range core.AllCalls(f) {
				cal := ci.Common().StaticCallee()
				if cal != nil && cal.Origin() != nil {
					cal = cal.Origin()
				}
				if cal == nil || cal.Name() != "NewPool" || cal.Pkg == nil || !strings.HasSuffix(cal.Pkg.Pkg.Path(), "/syncutil") || len(ci.Common().Args) != 1 {
					continue
				}
				var nf *ssa.Function
				switch x := ci.Common().Args[0].(type) {
				case *ssa.MakeClosure:
					nf, _ = x.Fn.(*ssa.Function)
				case *ssa.Function:
					nf = x
				}
				if nf == nil {
					if f.Name() == "NewPool" {
						continue
					}
					c.undecided(prop+".pool.fresh-new", f, "constructor passed to NewPool", ci, "not a function literal or named function")
					continue
				}
				n++
				bad := ""
				var fresh func(fn *ssa.Function, depth int)
				fresh = func(fn *ssa.Function, depth int) {
					for _, ret := range core.Returns(fn) {
						v := core.Unwrap(ret.Results[0])
						if al, isAl := v.(*ssa.Alloc); isAl && al.Parent() == fn {
							continue
						}
						// a constructor of this module that itself returns a fresh object
						if call, isC := v.(*ssa.Call); isC && depth < 3 {
							if g := call.Call.StaticCallee(); g != nil && len(g.Blocks) > 0 && core.InModule(g) {
								fresh(g, depth+1)
								continue
							}
						}
						bad = core.Describe(v)
					}
				}
				fresh(nf, 0)
				c.check(bad == "", prop+".pool.fresh-new", nf, "the pool's New function returns an object it allocates itself", ci,
					"returns "+bad+", which is shared by every call: two requests that both find the pool empty get the same object")
			}
		}
	}
	if n == 0 {
		c.undecided(prop+".pool.fresh-new", nil, "NewPool call sites", nil, "none found")
	}
}

// c20ContextLogger: the context helper the middleware relies on gives every
// request a context of its own.  ContextWithLogger returns, on every path,
// context.WithValue(parent, key, l) — a fresh child whose value is the logger
// itself, never the parent or a shared holder that a later call overwrites —
// and LoggerFromContext returns the value stored under the same key.
func c20ContextLogger(c *Ctx) {
	const rule = "C20.ctx-logger"
	with := c.fn("logutil/slogutil", "ContextWithLogger")
	from := c.fn("logutil/slogutil", "LoggerFromContext")
	if with == nil || from == nil || len(with.Params) != 2 || len(from.Params) != 1 {
		c.undecided(rule, nil, "slogutil.ContextWithLogger / LoggerFromContext", nil, "not found")
		return
	}
	c.L.Saw(core.FuncName(with))
	c.L.Saw(core.FuncName(from))
	var key ssa.Value
	for _, ret := range core.Returns(with) {
		okR, why := false, "the result is not context.WithValue(parent, key, l)"
		var walk func(v ssa.Value, depth int) bool
		walk = func(v ssa.Value, depth int) bool {
			if depth > 4 {
				return false
			}
			switch x := v.(type) {
			case *ssa.Phi:
				for _, e := range x.Edges {
					if !walk(e, depth+1) {
						return false
					}
				}
				return true
			case *ssa.Call:
				if core.CalleeName(&x.Call) != "context.WithValue" || len(x.Call.Args) != 3 {
					return false
				}
				if x.Call.Args[0] != ssa.Value(with.Params[0]) {
					why = "the child is not derived from the parent given"
					return false
				}
				mi, isMI := x.Call.Args[2].(*ssa.MakeInterface)
				if !isMI || mi.X != ssa.Value(with.Params[1]) {
					why = "the value stored in the context is not the logger itself (a holder that is written later is shared by every context that carries it)"
					return false
				}
				key = x.Call.Args[1]
				return true
			}
			if v == ssa.Value(with.Params[0]) {
				why = "the parent context itself is returned: the logger must have been put somewhere all its users share"
			}
			return false
		}
		okR = walk(ret.Results[0], 0)
		c.check(okR, rule, with, "ContextWithLogger returns context.WithValue(parent, key, l)", ret, "a context of its own per request: "+why)
	}
	// no effects besides deriving the context
	core.EachInstr(with, func(in ssa.Instruction) {
		if st, ok := in.(*ssa.Store); ok {
			if _, local := core.Unwrap(st.Addr).(*ssa.Alloc); !local {
				c.check(false, rule, with, "ContextWithLogger writes nothing but its result", st, "a store to memory other contexts can reach")
			}
		}
	})
	// the reader looks under the same key and returns that value
	okKey, okVal := false, false
	var valCall *ssa.Call
	core.EachInstr(from, func(in ssa.Instruction) {
		call, ok := in.(*ssa.Call)
		if !ok || !call.Call.IsInvoke() || call.Call.Method.Name() != "Value" || call.Call.Value != ssa.Value(from.Params[0]) {
			return
		}
		valCall = call
		if key != nil && sameConstOrGlobal(call.Call.Args[0], key) {
			okKey = true
		}
	})
	for _, ret := range core.Returns(from) {
		if ta, ok := ret.Results[0].(*ssa.TypeAssert); ok && valCall != nil && ta.X == ssa.Value(valCall) {
			okVal = true
		}
		if ex, ok := ret.Results[0].(*ssa.Extract); ok {
			if ta, ok := ex.Tuple.(*ssa.TypeAssert); ok && valCall != nil && ta.X == ssa.Value(valCall) && ex.Index == 0 {
				okVal = true
			}
		}
	}
	c.check(okKey && okVal, rule, from, "LoggerFromContext returns ctx.Value(the same key) asserted to *slog.Logger", valCall, "the logger read is the one stored for this context")
}

// sameConstOrGlobal: two key expressions denote the same constant or the same
// package-level variable.
func sameConstOrGlobal(a, b ssa.Value) bool {
	strip := func(v ssa.Value) ssa.Value {
		for {
			switch x := v.(type) {
			case *ssa.MakeInterface:
				v = x.X
			case *ssa.ChangeType:
				v = x.X
			case *ssa.UnOp:
				if x.Op != token.MUL {
					return v
				}
				if g, ok := x.X.(*ssa.Global); ok {
					return g
				}
				return v
			default:
				return v
			}
		}
	}
	a, b = strip(a), strip(b)
	if a == b {
		return true
	}
	ka, okA := a.(*ssa.Const)
	kb, okB := b.(*ssa.Const)
	return okA && okB && types.Identical(ka.Type(), kb.Type()) && ka.Value != nil && kb.Value != nil && ka.Value.ExactString() == kb.Value.ExactString()
}

// c20HandlerAttrs: the per-request logger is `logger.Handler().WithAttrs(attrs)`
// with a pooled attribute slice, once per request, from one shared base
// handler.  Requests overlap, so the handlers derived from one parent are
// siblings that live at the same time: a WithAttrs of the module that appends
// into spare capacity of the parent's attribute slice makes them write into
// one backing array (the later request's host / method / raddr / request_uri
// show up in the earlier request's records), and one that keeps the caller's
// slice keeps a slice the middleware puts back into its pool.  For every
// WithAttrs method of the module: what it appends to is not storage shared with
// the receiver, and the parameter is not stored as it is.
func c20HandlerAttrs(c *Ctx) {
	const rule = "C20.handler-attrs"
	c.L.Floor(rule, 2)
	var fns []*ssa.Function
	for path := range c.P.SPkgs {
		if !strings.HasPrefix(path, core.ModPath) {
			continue
		}
		for _, f := range c.P.Funcs(path) {
			if f.Name() != "WithAttrs" || f.Signature.Recv() == nil || len(f.Params) != 2 || len(f.Blocks) == 0 {
				continue
			}
			if sl, ok := f.Params[1].Type().Underlying().(*types.Slice); !ok || !strings.HasSuffix(sl.Elem().String(), "log/slog.Attr") {
				continue
			}
			fns = append(fns, f)
		}
	}
	sort.Slice(fns, func(i, j int) bool { return core.FuncName(fns[i]) < core.FuncName(fns[j]) })
	for _, f := range fns {
		c.L.Saw(core.FuncName(f))
		attrs := ssa.Value(f.Params[1])
		bad, n := "", 0
		var at ssa.Instruction
		core.EachInstr(f, func(in ssa.Instruction) {
			switch x := in.(type) {
			case *ssa.Call:
				if b, isB := x.Call.Value.(*ssa.Builtin); isB && b.Name() == "append" {
					n++
					if why, ok := sliceUnshared(x.Call.Args[0], 0); !ok && bad == "" {
						bad, at = why, x
					}
				}
			case *ssa.Store:
				if x.Val == attrs && bad == "" {
					if _, isField := x.Addr.(*ssa.FieldAddr); isField {
						bad, at = "the caller's slice is stored as it is: the middleware returns it to its pool while the derived handler lives on", x
					}
				}
			}
		})
		c.check(bad == "", rule, f, "derived handlers share no attribute storage with their parent, their siblings or the caller", at,
			sprintf("%d append(s) examined; %s", n, bad))
	}
}

// sliceUnshared: appending to v cannot write into storage that another
// handler sees — v is fresh, clipped, or an append onto such a slice.
func sliceUnshared(v ssa.Value, depth int) (string, bool) {
	if depth > 6 {
		return "append chain too long", false
	}
	switch x := v.(type) {
	case *ssa.MakeSlice:
		return "fresh slice", true
	case *ssa.Const:
		return "nil slice", x.IsNil()
	case *ssa.Slice:
		if x.Max != nil {
			return "three-index slice (capacity clipped)", true
		}
		if _, isAlloc := x.X.(*ssa.Alloc); isAlloc {
			return "fresh array", true // variadic or literal storage
		}
		if w, ok := sliceUnshared(x.X, depth+1); ok {
			return "reslice of " + w, true
		}
		return "append onto a plain reslice of shared attributes", false
	case *ssa.Call:
		if b, isB := x.Call.Value.(*ssa.Builtin); isB && b.Name() == "append" {
			w, ok := sliceUnshared(x.Call.Args[0], depth+1)
			if ok {
				return "append onto " + w, true
			}
			return w, false
		}
		n := core.CalleeName(&x.Call)
		if n == "slices.Clip" || n == "slices.Clone" || strings.HasPrefix(n, "slices.Concat") {
			return n + " (no spare capacity shared)", true
		}
		return "append onto the result of " + n, false
	case *ssa.Phi:
		for _, e := range x.Edges {
			if w, ok := sliceUnshared(e, depth+1); !ok {
				return w, false
			}
		}
		return "every arriving slice unshared", true
	}
	if name, _, ok := core.IsLoadOfField(v); ok {
		return "append(h." + name + ", ...) may write into spare capacity shared with the parent handler and with sibling handlers (the loggers of overlapping requests)", false
	}
	if _, isParam := v.(*ssa.Parameter); isParam {
		return "append onto the caller's slice", false
	}
	return "unrecognised base " + core.Describe(v), false
}
