package rules

import (
	"fmt"
	"go/ast"
	"go/types"
	"os"
	"runtime/pprof"
	"sort"
	"strings"
	"time"

	"golang.org/x/tools/go/ssa"

	"verif/sa/core"
	"verif/sa/errshape"
	"verif/sa/lincon"
)

func init() {
	register(&Property{
		ID:    "C01",
		Level: "other",
		Explanation: "Relational abstract interpretation (linear constraints over integer SSA values, string/slice lengths and byte facts; Fourier-Motzkin entailment; callees inlined in the " +
			"caller's abstract context) of every exported text-consuming entry point of netutil, hostsfile, urlutil, stringutil and timeutil with unconstrained arguments: every index, slice, " +
			"make-length, slice-to-array conversion, integer division, dereference of a tracked nil pointer (e.g. the result of a failed call used before its error is tested), unchecked " +
			"type-assertion and explicit panic site reachable from them is a proof obligation that must be discharged for all argument values; integer conversions and unsigned subtraction keep " +
			"their value only when that is proved; every loop must have a variant; every library function called is in a reviewed list of total functions or has its precondition established " +
			"(netip.Addr.As4 under Is4, Builder.Grow with n >= 0, Scanner.Buffer before Scan). Decides panic-freedom of the golibs code itself for all inputs under the stated assumptions.",
		Technique: "abstract interpretation over go/ssa with a relational linear-constraint domain; per-site proof obligations; loop variants",
		Note:      "Trusted: go/ssa, the abstract interpreter and its library summaries (/verif/sa/lincon), mathematical-integer model (lengths < 2^62). Assumes documented preconditions (non-nil pointer receivers / *url.URL arguments, valid AddrFamily).",
		DesignRef: "DESIGN.md section 4, C01",
		Run:       runC01,
	})
}

var c01Packages = []string{"netutil", "hostsfile", "netutil/urlutil", "stringutil", "timeutil"}

// textLike: parameter types that carry caller-supplied text, bytes or addresses.
func textLike(t types.Type) bool {
	switch u := t.Underlying().(type) {
	case *types.Basic:
		return u.Info()&types.IsString != 0
	case *types.Slice:
		return textLike(u.Elem()) || isByte(u.Elem())
	case *types.Pointer:
		return namedIn(u.Elem(), "net", "IPNet") || namedIn(u.Elem(), "net/url", "URL")
	case *types.Interface:
		return namedIn(t, "net", "Addr")
	case *types.Struct:
		return namedIn(t, "net/netip", "Addr") || namedIn(t, "net/netip", "Prefix") || namedIn(t, "net/netip", "AddrPort")
	}
	return false
}

func isByte(t types.Type) bool {
	b, ok := t.Underlying().(*types.Basic)
	return ok && b.Kind() == types.Uint8
}

func namedIn(t types.Type, pkg, name string) bool {
	n, ok := types.Unalias(t).(*types.Named)
	return ok && n.Obj().Name() == name && n.Obj().Pkg() != nil && n.Obj().Pkg().Path() == pkg
}

// c01Entries lists the exported functions and methods (of exported types)
// with a text-like parameter or receiver.
func c01Entries(c *Ctx) []*ssa.Function {
	var out []*ssa.Function
	for _, pkg := range c01Packages {
		for _, f := range c.P.Funcs(pkg) {
			if f.Parent() != nil || f.Object() == nil || !f.Object().Exported() {
				continue
			}
			if recv := f.Signature.Recv(); recv != nil {
				if n := core.NamedOf(recv.Type()); n == "" || !ast.IsExported(n) {
					continue
				}
			}
			ok := false
			for _, p := range f.Params {
				if textLike(p.Type()) {
					ok = true
				}
			}
			if ok {
				out = append(out, f)
			}
		}
	}
	// callbacks: a function of these packages whose value is handed to code
	// outside the module (bufio.Scanner.Split, strings.FieldsFunc, sort and
	// slices helpers, ...) is called by the library with arguments this
	// analysis does not see: it is an entry of its own, with unconstrained
	// arguments and captured variables
	have := map[*ssa.Function]bool{}
	for _, f := range out {
		have[f] = true
	}
	for _, cb := range c01Callbacks(c) {
		if !have[cb] {
			have[cb] = true
			out = append(out, cb)
		}
	}
	sort.Slice(out, func(i, j int) bool { return out[i].String() < out[j].String() })
	return out
}

// c01Callbacks lists the functions of the C01 packages that escape, as
// values, into calls of functions outside the module.
func c01Callbacks(c *Ctx) []*ssa.Function {
	var out []*ssa.Function
	seen := map[*ssa.Function]bool{}
	fnOf := func(v ssa.Value) *ssa.Function {
		for {
			switch x := v.(type) {
			case *ssa.Function:
				return x
			case *ssa.MakeClosure:
				f, _ := x.Fn.(*ssa.Function)
				return f
			case *ssa.ChangeType:
				v = x.X
			case *ssa.MakeInterface:
				v = x.X
			default:
				return nil
			}
		}
	}
	for _, pkg := range c01Packages {
		for _, f := range c.P.Funcs(pkg) {
			core.EachInstr(f, func(in ssa.Instruction) {
				ci, ok := in.(ssa.CallInstruction)
				if !ok {
					return
				}
				cc := ci.Common()
				if callee := cc.StaticCallee(); callee != nil && core.InModule(callee) {
					return
				}
				for _, a := range cc.Args {
					cb := fnOf(a)
					if cb == nil || seen[cb] || len(cb.Blocks) == 0 || !core.InModule(cb) || len(cb.Params) == 0 {
						continue
					}
					seen[cb] = true
					out = append(out, cb)
				}
			})
		}
	}
	return out
}

func runC01(c *Ctx) {
	c.L.Trust("go/types + go/ssa", "abstract interpreter /verif/sa/lincon (Fourier-Motzkin entailment, summaries of strings/bytes/strconv/utf8/min/max/len/append)", "library calls are total")
	c.L.Assumef("lengths and integer values are mathematical integers below 2^62")
	c.L.Assumef("pointer receivers and *url.URL / *net.IPNet arguments are non-nil where the doc says so; no typed-nil pointers inside interfaces")
	c.L.Assumef("fam arguments are AddrFamilyIPv4 or AddrFamilyIPv6 where documented (ZeroPrefix, IPToAddr panic otherwise by contract)")
	c.L.Floor("C01.entry", 55)
	c.L.Floor("C01.bounds", 80)
	c.L.Floor("C01.loop-variant", 20)

	entries := c01Entries(c)
	for _, f := range entries {
		c.L.Record(core.Discharged, "C01.entry", core.FuncName(f), "analysed with unconstrained arguments", c.P.Pos(f.Pos()), "exported, consumes text/bytes/addresses")
	}
	// E1 runs in worker processes (the abstract interpreter keeps its term
	// tables in package variables); each worker analyses a share of the entries.
	obs, reached, err := runLinWorkers(c, "C01", len(entries))
	if err != nil {
		c.L.Record(core.Undecided, "C01.bounds", "-", "abstract interpretation of the entry points", "-", "analysis did not complete: "+err.Error())
		return
	}
	byName := map[string]*ssa.Function{}
	for _, pk := range c.P.Pkgs {
		_ = pk
	}
	for path := range c.P.SPkgs {
		rel := strings.TrimPrefix(strings.TrimPrefix(path, core.ModPath), "/")
		if !strings.HasPrefix(path, core.ModPath) {
			continue
		}
		for _, f := range c.P.Funcs(rel) {
			byName[core.FuncName(f)] = f
		}
	}
	var reachedFns []*ssa.Function
	for _, n := range reached {
		c.L.Saw(n)
		if f := byName[n]; f != nil {
			reachedFns = append(reachedFns, f)
		}
	}
	// E5: shapes of error values decide explicit panics behind type switches
	// and unchecked type assertions.
	es := errshape.New(core.InModule)
	for _, f := range entries {
		es.Eval(f, nil)
	}
	examined := map[string]bool{}
	e1Pre := map[string]bool{}
	for _, o := range obs {
		examined[o.Func+"|"+o.Pos+"|"+o.Kind] = true
		if o.Kind == "libpre" && core.Status(o.Status) == core.Discharged {
			e1Pre[o.Func+"|"+o.Pos] = true
		}
		if o.Kind == "panic" {
			if f := byName[o.Func]; f != nil {
				done := false
				core.EachInstr(f, func(in ssa.Instruction) {
					if p, ok := in.(*ssa.Panic); ok && c.ipos(p) == o.Pos && es.PanicsSeen[p] && len(es.PanicsReached[p]) == 0 {
						done = true
					}
				})
				if done {
					c.L.Record(core.Discharged, "C01.panic", o.Func, o.Construct, o.Pos,
						"unreachable for the error shapes that flow here (error-shape analysis: every argument at every call site has a dynamic type handled by the type switch)")
					continue
				}
			}
		}
		c.L.Record(core.Status(o.Status), o.Rule, o.Func, o.Construct, o.Pos, o.Reason)
	}
	// coverage: every index / slice site of every function the analysis entered
	// must have been examined in at least one abstract state — a site that was
	// never reached (dead abstract states) proves nothing.
	nsites := 0
	for _, f := range reachedFns {
		core.EachInstr(f, func(in ssa.Instruction) {
			kind := ""
			switch x := in.(type) {
			case *ssa.IndexAddr:
				if isIntIndexable(x.X.Type()) {
					kind = "index"
				}
			case *ssa.Index:
				kind = "index"
			case *ssa.Lookup:
				if isStringType(x.X.Type()) {
					kind = "index"
				}
			case *ssa.Slice:
				if isIntIndexable(x.X.Type()) {
					kind = "slice"
				}
			case *ssa.SliceToArrayPointer:
				kind = "convert"
			}
			if kind == "" || !in.Pos().IsValid() {
				return
			}
			nsites++
			if !examined[core.FuncName(f)+"|"+c.ipos(in)+"|"+kind] {
				c.undecided("C01.coverage", f, kind+" site never examined: "+core.Describe(in.(ssa.Value)), in,
					"the abstract interpreter never reached this site in a live state, so nothing is proved about it")
			}
		})
	}
	c.L.Record(core.Discharged, "C01.coverage", "-", sprintf("%d index/slice sites of %d analysed functions were examined", nsites, len(reachedFns)), "-", "every syntactic site in the entered functions has at least one obligation instance")
	var tas []*ssa.TypeAssert
	for ta := range es.SeenAsserts {
		tas = append(tas, ta)
	}
	sort.Slice(tas, func(i, j int) bool { return tas[i].Pos() < tas[j].Pos() })
	for _, ta := range tas {
		construct := "type assertion " + c.P.ExprAt(ta.Pos(), func(n ast.Node) bool { _, ok := n.(*ast.TypeAssertExpr); return ok })
		if ex, ok := ta.X.(*ssa.Extract); ok && types.Identical(ta.X.Type(), ta.AssertedType) && ex.Index == 0 && guardedByExtract(ta, ex.Tuple, 1, true) {
			c.check(true, "C01.type-assert", ta.Parent(), "method value on "+core.Describe(ta.X), ta, "interface-to-same-interface assertion (nil check of a bound method value) on a value that a comma-ok assertion just proved non-nil")
			continue
		}
		if why, bad := es.BadAsserts[ta]; bad {
			c.undecided("C01.type-assert", ta.Parent(), construct, ta, "unchecked assertion may panic: "+why)
		} else {
			c.check(true, "C01.type-assert", ta.Parent(), construct, ta, "every error shape reaching the assertion has the asserted dynamic type")
		}
	}
	if os.Getenv("C01_EXT") != "" {
		ext := map[string]int{}
		for _, f := range reachedFns {
			for _, ci := range core.AllCalls(f) {
				n := core.CalleeName(ci.Common())
				if !strings.HasPrefix(n, core.ModPath) && !strings.HasPrefix(n, "(*"+core.ModPath) && !strings.HasPrefix(n, "("+core.ModPath) {
					ext[n]++
				}
			}
		}
		var ks []string
		for k := range ext {
			ks = append(ks, k)
		}
		sort.Strings(ks)
		for _, k := range ks {
			println("EXT", k, ext[k])
		}
	}
	c01LibTotal(c, reachedFns, e1Pre)
	c01Loops(c, reachedFns)
}

// siteText renders the source construct of an obligation for its ledger key.
func siteText(c *Ctx, o *lincon.Oblig) string {
	want := func(n ast.Node) bool {
		switch n.(type) {
		case *ast.IndexExpr, *ast.SliceExpr, *ast.CallExpr, *ast.TypeAssertExpr, *ast.BinaryExpr, *ast.RangeStmt, *ast.ReturnStmt, *ast.AssignStmt:
			return true
		}
		return false
	}
	pos := o.Instr.Pos()
	if pos.IsValid() {
		if t := c.P.ExprAt(pos, want); t != "" {
			if len(t) > 80 {
				t = t[:80] + "..."
			}
			if strings.HasPrefix(o.Kind, "assert:") {
				return o.Expr + " [" + t + "]"
			}
			return o.Kind + " " + t
		}
	}
	if strings.HasPrefix(o.Kind, "assert:") {
		return o.Expr
	}
	return o.Kind + " " + o.Expr
}

// recordObligations turns the analyser's obligations into ledger entries.
func recordObligations(c *Ctx, a *lincon.Analyzer, prop string, keep func(o *lincon.Oblig) bool) {
	for _, o := range a.Obligations() {
		if !keep(o) {
			continue
		}
		rule := prop + ".bounds"
		switch {
		case o.Kind == "panic":
			rule = prop + ".panic"
		case strings.HasPrefix(o.Kind, "assert:"):
			rule = prop + "." + strings.TrimPrefix(o.Kind, "assert:")
		}
		fn := core.FuncName(o.Fn)
		construct := siteText(c, o)
		pos := c.P.Pos(o.Pos())
		var ents []string
		for e := range o.Entries {
			ents = append(ents, strings.ReplaceAll(e, core.ModPath+"/", ""))
		}
		sort.Strings(ents)
		if len(ents) > 3 {
			ents = append(ents[:3], "...")
		}
		if o.Failed == 0 {
			c.L.Record(core.Discharged, rule, fn, construct, pos, sprintf("discharged in %d abstract state(s); entries: %s", o.Checked, strings.Join(ents, ", ")))
		} else {
			c.L.Record(core.Undecided, rule, fn, construct, pos,
				sprintf("not discharged in %d of %d abstract states (a counter-state exists in the abstract domain); %s", o.Failed, o.Checked, o.Example))
		}
	}
}

// c01Loops: every loop reachable from the entries has a recognisable variant.
func c01Loops(c *Ctx, fns []*ssa.Function) {
	sort.Slice(fns, func(i, j int) bool { return fns[i].String() < fns[j].String() })
	for _, f := range fns {
		for h := range core.LoopHeads(f) {
			why, ok := loopVariant(f, h)
			at := h.Instrs[0]
			if ok {
				c.check(true, "C01.loop-variant", f, sprintf("loop at block %s", h.Comment), at, why)
			} else {
				c.undecided("C01.loop-variant", f, sprintf("loop at block %s", h.Comment), at, "no variant recognised: "+why)
			}
		}
	}
}

// DebugLincon prints the obligations E1 generates for one entry function.
func DebugLincon(pkg, name string) int {
	p, err := core.Load(core.LoadOpts{})
	if err != nil {
		println(err.Error())
		return 3
	}
	f := p.Func(pkg, name)
	if f == nil {
		println("no such function")
		return 3
	}
	lincon.Reset()
	a := lincon.New(p.SSA, core.InModule)
	a.SetTrace(os.Getenv("T") != "")
	if os.Getenv("E5") != "" {
		es := errshape.New(core.InModule)
		es.Eval(f, nil)
		a.NonNilResult = func(call *ssa.Call) bool {
			sh, ok := es.CallShapes[call]
			return ok && len(sh) > 0 && !sh.HasNil() && !sh.HasUnknown()
		}
	}
	a.Stats = map[string]int{}
	done := make(chan bool)
	if pf := os.Getenv("LIN_PROF"); pf != "" {
		f, _ := os.Create(pf)
		_ = pprof.StartCPUProfile(f)
		defer pprof.StopCPUProfile()
	}
	go func() {
		select {
		case <-done:
		case <-time.After(time.Duration(linTimeout()) * time.Second):
			pprof.StopCPUProfile()
			for k, v := range a.Stats {
				fmt.Println("STAT", k, v)
			}
			os.Exit(8)
		}
	}()
	a.Entry(f, nil)
	close(done)
	for k, v := range a.Stats {
		fmt.Println("STAT", k, v)
	}
	for _, o := range a.Obligations() {
		st := "OK  "
		if o.Failed > 0 {
			st = "FAIL"
		}
		fmt.Printf("%s %-28s %-8s %-24s %-40s (%d/%d) %s\n", st, p.Pos(o.Pos()), o.Kind, o.Expr, core.FuncName(o.Fn), o.Checked-o.Failed, o.Checked, o.Example)
	}
	return 0
}

// DebugEntries lists C01's entry points as "pkg name".
func DebugEntries() int {
	p, err := core.Load(core.LoadOpts{})
	if err != nil {
		return 3
	}
	c := &Ctx{P: p, L: core.NewLedger("C01")}
	for _, f := range c01Entries(c) {
		name := f.Name()
		if recv := f.Signature.Recv(); recv != nil {
			name = core.NamedOf(recv.Type()) + "." + name
		}
		fmt.Println(core.PkgOf(f), name)
	}
	return 0
}

func linTimeout() int {
	if v := os.Getenv("LIN_TIMEOUT"); v != "" {
		var n int
		fmt.Sscan(v, &n)
		return n
	}
	return 30
}

func isIntIndexable(t types.Type) bool {
	switch u := t.Underlying().(type) {
	case *types.Slice:
		return true
	case *types.Basic:
		return u.Info()&types.IsString != 0
	case *types.Pointer:
		_, ok := u.Elem().Underlying().(*types.Array)
		return ok
	}
	return false
}

// ---- library calls ----

// libTotalPrefixes: packages whose functions return normally for every
// argument, except the ones listed in libPre.
var libTotalPrefixes = []string{
	"strings.", "bytes.", "unicode.", "unicode/utf8.", "unicode/utf16.", "strconv.", "net/netip.", "(net/netip.", "(*net/netip.",
	"net.", "(net.", "(*net.", "net/url.", "(*net/url.", "(net/url.", "fmt.", "errors.", "math.", "math/bits.", "sort.", "slices.", "maps.", "cmp.",
	"encoding/json.", "encoding/hex.", "encoding/binary.", "time.", "(time.", "(*time.", "sync.", "(*sync.", "sync/atomic.", "(*sync/atomic.",
	"golang.org/x/net/idna.", "(*golang.org/x/net/idna.", "bufio.", "(*bufio.", "(*strings.Builder).", "(*strings.Reader).", "(*bytes.Buffer).", "(*bytes.Reader).",
	"log.", "log/slog.", "(*log/slog.", "os.Getpid", "reflect.TypeOf", "runtime.Stack", "io.", "context.", "(*unicode.",
}

// libPre: library functions that panic on some arguments, with the check that
// establishes the precondition at a call site ("" = always undecided).
var libPre = map[string]string{
	"(net/netip.Addr).As4":         "is4",
	"(*strings.Builder).Grow":      "e1",
	"(*bytes.Buffer).Grow":         "e1",
	"(*bufio.Scanner).Buffer":      "before-scan",
	"strings.Repeat":               "",
	"bytes.Repeat":                 "",
	"slices.Insert":                "",
	"slices.Delete":                "",
	"slices.Replace":               "",
	"slices.Grow":                  "",
	"slices.Repeat":                "",
	"slices.Chunk":                 "",
	"(*bytes.Buffer).Truncate":     "",
	"(*bytes.Buffer).Next":         "",
	"time.NewTicker":               "",
	"time.Tick":                    "",
	"(*sync.WaitGroup).Add":        "",
	"(*sync.Mutex).Unlock":         "",
	"(*sync.RWMutex).Unlock":       "",
	"(*sync.RWMutex).RUnlock":      "",
	"(net/netip.Addr).Prefix":      "total",
	"(*bufio.Scanner).Split":       "before-scan",
	"(*time.Timer).Reset":          "",
	"(*time.Ticker).Reset":         "",
	"encoding/binary.BigEndian":    "total",
	"encoding/binary.LittleEndian": "total",
}

func c01LibTotal(c *Ctx, fns []*ssa.Function, e1Checked map[string]bool) {
	seen := map[string]int{}
	for _, f := range fns {
		for _, ci := range core.AllCalls(f) {
			cc := ci.Common()
			if cc.IsInvoke() || cc.StaticCallee() == nil {
				continue // interface methods and function values: total by their contract (assumption)
			}
			name := core.CalleeName(cc)
			if strings.HasPrefix(name, "builtin.") || strings.Contains(name, core.ModPath) {
				continue
			}
			base := name[strings.LastIndexAny(name, "./)")+1:]
			how, listed := libPre[name]
			if strings.HasPrefix(base, "Must") {
				how, listed = "", true
			}
			if !listed {
				total := false
				for _, p := range libTotalPrefixes {
					if strings.HasPrefix(name, p) {
						total = true
					}
				}
				if total {
					seen[name]++
					continue
				}
				c.undecided("C01.lib-total", f, "call of "+name, ci, "a library function outside the reviewed set: whether it returns normally for every argument is not known to this checker")
				continue
			}
			what := "precondition of " + name
			switch how {
			case "total":
				seen[name]++
			case "is4":
				ok := false
				recv := cc.Args[0]
				for _, g := range core.GuardsOf(ci) {
					cond, truth := core.StripNot(g.Cond, g.Truth)
					if gc, isCall := cond.(*ssa.Call); isCall && truth {
						gn := core.CalleeName(&gc.Call)
						if (gn == "(net/netip.Addr).Is4" || gn == "(net/netip.Addr).Is4In6") && (gc.Call.Args[0] == recv || sameLoad(gc.Call.Args[0], recv)) {
							ok = true
						}
					}
				}
				c.check(ok, "C01.lib-total", f, what+": the address is IPv4 (dominating Is4()/Is4In6() test on the same value)", ci,
					"netip.Addr.As4 panics for the zero Addr and for IPv6 addresses")
			case "e1":
				c.check(e1Checked[core.FuncName(f)+"|"+c.ipos(ci)], "C01.lib-total", f, what+": argument >= 0 (proved by E1, see C01.bounds libpre)", ci, "Grow panics on a negative count")
			case "before-scan":
				ok := !core.InLoop(ci)
				for _, sc := range core.CallsTo(f, "(*bufio.Scanner).Scan") {
					if !core.Dominates(ci, sc) {
						ok = false
					}
				}
				c.check(ok, "C01.lib-total", f, what+": configured before the first Scan", ci, "bufio.Scanner.Buffer/Split panic once scanning has started")
			default:
				c.undecided("C01.lib-total", f, what, ci, "this library function panics on some arguments and no rule establishes its precondition here")
			}
		}
	}
	n := 0
	for _, k := range seen {
		n += k
	}
	c.L.Record(core.Discharged, "C01.lib-total", "-", sprintf("%d calls of %d reviewed total library functions", n, len(seen)), "-", "strings/bytes/strconv/netip/net/url/fmt/errors/... return normally for every argument (trusted)")
}
