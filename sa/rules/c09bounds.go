package rules

import (
	"fmt"
	"go/token"
	"go/types"

	"golang.org/x/tools/go/ssa"

	"verif/sa/core"
	"verif/sa/lincon"
)

// C09.bounds — the count and size bounds as an inductive invariant of the
// critical sections, decided by the relational interpreter (E1):
//
//	I:  c.size <= c.conf.MaxSize  and  len(c.items) <= c.conf.MaxCount
//
// is assumed whenever the mutex is acquired (with c.size and len(c.items)
// otherwise arbitrary: other calls, including re-entrant ones from OnDelete,
// ran in between) and must be entailed whenever the mutex is released.  Since
// Stats reads both under the same mutex (C10.lockset), every snapshot sees I.
// The configuration is immutable after construction (C10.conf-immutable), so
// its cells survive the unlock windows.
//
// Assumed from the accounting rules (C09.accounting.*): what is subtracted
// from c.size is the size of an entry that is being removed, hence never more
// than c.size (no unsigned wrap).  The fields are found by role: the map, the
// only unsigned counter, the Config, the mutex.
func c09Bounds(c *Ctx) { c09BoundsMode(c, false) }

// c09BoundsMode: with lenient set (the rule run as part of another property's
// check) a function whose critical sections the rule cannot delimit — the lock
// operations sit in a helper or are deferred — is left to C09's own check
// with a note instead of being reported as undecided.
func c09BoundsMode(c *Ctx, lenient bool) {
	if lenient {
		c.L.Floor("C09.bounds", 0)
	} else {
		c.L.Floor("C09.bounds", 4)
	}
	for _, name := range []string{"cache.Set", "cache.Del", "cache.Clear"} {
		f := c.fn("cache", name)
		if f == nil || len(f.Params) == 0 {
			continue
		}
		recv := f.Params[0]
		pt, ok := recv.Type().Underlying().(*types.Pointer)
		if !ok {
			continue
		}
		st, ok := pt.Elem().Underlying().(*types.Struct)
		if !ok {
			continue
		}
		items, size, conf, lock := -1, -1, -1, -1
		for i := 0; i < st.NumFields(); i++ {
			ft := st.Field(i).Type()
			switch u := ft.Underlying().(type) {
			case *types.Map:
				items = i
			case *types.Basic:
				if u.Kind() == types.Uint || u.Kind() == types.Uint64 || u.Kind() == types.Uintptr {
					size = i
				}
			case *types.Struct:
				switch core.NamedOf(ft) {
				case "Config":
					conf = i
				case "Mutex", "RWMutex":
					lock = i
				}
			}
		}
		maxSize, maxCount := -1, -1
		if conf >= 0 {
			cs := st.Field(conf).Type().Underlying().(*types.Struct)
			for i := 0; i < cs.NumFields(); i++ {
				switch cs.Field(i).Name() {
				case "MaxSize":
					maxSize = i
				case "MaxCount":
					maxCount = i
				}
			}
		}
		if items < 0 || size < 0 || conf < 0 || lock < 0 || maxSize < 0 || maxCount < 0 {
			c.undecided("C09.bounds", f, "fields of the cache", nil, "expected a map, an unsigned size counter, a Config with MaxSize/MaxCount and a mutex")
			continue
		}
		sizePath, lenPath := fmt.Sprintf(".%d", size), fmt.Sprintf(".%d#len", items)
		msPath, mcPath := fmt.Sprintf(".%d.%d", conf, maxSize), fmt.Sprintf(".%d.%d", conf, maxCount)
		isLockOp := func(call *ssa.Call, names ...string) bool {
			g := call.Call.StaticCallee()
			if g == nil || len(call.Call.Args) != 1 {
				return false
			}
			fa, ok := call.Call.Args[0].(*ssa.FieldAddr)
			if !ok || fa.X != ssa.Value(recv) || fa.Field != lock {
				return false
			}
			for _, n := range names {
				if g.Name() == n {
					return true
				}
			}
			return false
		}
		lincon.Reset()
		a := lincon.New(c.P.SSA, core.InModule)
		a.PreserveFields = func(ssa.CallInstruction) bool { return true } // see the havoc at Lock
		nLock, nUnlock := 0, 0
		sawDefer := false
		a.Hook = func(h *lincon.Handle) {
			if h.Instr.Parent() != f {
				return
			}
			switch in := h.Instr.(type) {
			case *ssa.Call:
				switch {
				case isLockOp(in, "Lock"):
					nLock++
					sz := h.HavocInt(recv, sizePath, "size")
					n := h.HavocInt(recv, lenPath, "count")
					h.AssumeLE(sz.Sub(h.FieldPath(recv, msPath, ".conf.MaxSize", true)))
					h.AssumeLE(n.Sub(h.FieldPath(recv, mcPath, ".conf.MaxCount", true)))
				case isLockOp(in, "Unlock"):
					nUnlock++
					sz, ok1 := h.IntCell(recv, sizePath)
					n, ok2 := h.IntCell(recv, lenPath)
					ms := h.FieldPath(recv, msPath, ".conf.MaxSize", true)
					mc := h.FieldPath(recv, mcPath, ".conf.MaxCount", true)
					h.Assert("bounds", "size <= MaxSize when the lock is released", ok1 && h.ProvesLE(sz.Sub(ms)))
					h.Assert("bounds", "len(items) <= MaxCount when the lock is released", ok2 && h.ProvesLE(n.Sub(mc)))
				}
			case *ssa.Defer:
				sawDefer = true
				if !lenient {
					h.Assert("bounds", "lock operations are not deferred (the release points must be explicit for this rule)", false)
				}
			case *ssa.BinOp:
				// c.size - x: x is the size of an entry being removed (C09.accounting.*)
				if in.Op == token.SUB {
					if ld, ok := in.X.(*ssa.UnOp); ok && ld.Op == token.MUL {
						if fa, ok := ld.X.(*ssa.FieldAddr); ok && fa.X == ssa.Value(recv) && fa.Field == size {
							x, ok1 := h.Int(in.X)
							y, ok2 := h.Int(in.Y)
							if ok1 && ok2 {
								h.AssumeLE(y.Sub(x))
							}
						}
					}
				}
			}
		}
		a.Entry(f, nil)
		if lenient && (nLock == 0 || nUnlock == 0 || sawDefer) {
			c.L.Notef("C09.bounds: the critical sections of %s are not delimited by explicit Lock/Unlock calls in the function itself; the bounds proof for it is left to the check of C09", name)
			continue
		}
		recordObligations(c, a, "C09", func(o *lincon.Oblig) bool { return o.Kind == "assert:bounds" })
		if nLock == 0 || nUnlock == 0 {
			c.undecided("C09.bounds", f, "critical section", nil, "no Lock/Unlock of the cache mutex found in "+name)
		}
	}
}
