package rules

import (
	"fmt"
	"go/constant"
	"go/types"
	"os"


	"verif/sa/boolfn"
	"verif/sa/core"
)

// c05PrefixV6Exact decides the IPv6 side of PrefixFromReversedAddr exactly for
// every name length: subnetFromReversedV6 (with the decoders it dispatches to)
// is evaluated on a name of L bytes whose last bytes are the suffix text the
// dispatcher has tested ("ip6.arpa", without the dot) and whose other 8(L-8)
// bits are free, for every L from the bare root to beyond the full length.
// The results are compared, as Boolean functions, with the codec:
//
//	err == nil  <=>  L-8 == 2k, k <= 32, and for i < k: name[2i] is a hex digit
//	                 and name[2i+1] == '.'   (the last of them being the dot in
//	                 front of ip6.arpa: label alignment)
//	and then    prefix length == 4k, nibble j of the address (from the top) ==
//	            hexval(name[2(k-1-j)]) for j < k and zero for j >= k
//
// whatever loops, parity tests and helper functions the decoder is made of.
// false: outside the evaluator's grammar (the structural rules decide).
func c05PrefixV6Exact(c *Ctx) (okExact bool) {
	defer recoverUnsupported(c, &okExact, "c05PrefixV6Exact")
	const rule = "C05.v6.prefix-exact"
	f := c.fn("netutil", "subnetFromReversedV6")
	if f == nil || len(f.Params) != 1 {
		return false
	}
	suffix := ".ip6.arpa"
	if s, ok := strConstOf(c, "netutil", "arpaV6Suffix"); ok && len(s) > 1 {
		suffix = s
	}
	tail := suffix[1:]
	nt := len(tail)
	maxL := nt + 64 + 6
	type res struct {
		ok  bool
		why string
	}
	var bad *res
	nAccept, nReject := 0, 0
	entered := 0
	for L := nt; L <= maxL; L++ {
		m := boolfn.New()
		ev := &boolfn.Eval{M: m, Entered: map[string]bool{}, ErrorsAsBits: true}
		ev.InScope = core.InModule
		in := ev.StringInput(0, L)
		for i := 0; i < nt; i++ {
			in.Elems[L-nt+i] = ev.Const(int64(tail[i]), 8, false).Bits
		}
		nm := &netipModel{ev: ev, fresh: 1 << 20}
		ev.OnCall = nm.OnCall
		rs, err := ev.Call(f, []boolfn.Val{in})
		if err != nil || len(rs) != 2 || rs[1].Kind != boolfn.KBits || len(rs[1].Bits) != 1 {
			if os.Getenv("GSA_DBG") != "" {
				fmt.Fprintln(os.Stderr, "exact v6 prefix decoder: L =", L, err)
			}
			c.L.Notef("subnetFromReversedV6 is outside the exact evaluator's grammar at length %d (%v); structural rules used instead", L, err)
			return false
		}
		entered = len(ev.Entered)
		byteFn := func(bits []int, pred func(b int) bool) int {
			r := 0
			for v := 0; v < 256; v++ {
				if !pred(v) {
					continue
				}
				eq := 1
				for k := 0; k < 8; k++ {
					bit := bits[k]
					if (v>>uint(k))&1 == 0 {
						bit = m.Not(bit)
					}
					eq = m.And(eq, bit)
				}
				r = m.Or(r, eq)
			}
			return r
		}
		k := (L - nt) / 2
		accept := 0
		if (L-nt)%2 == 0 && k <= 32 {
			accept = 1
			for i := 0; i < k; i++ {
				accept = m.And(accept, byteFn(in.Elems[2*i], func(b int) bool { return hexValue(b) >= 0 }))
				accept = m.And(accept, byteFn(in.Elems[2*i+1], func(b int) bool { return b == '.' }))
			}
		}
		// the dispatcher lowers the name first: names with upper-case letters
		// never arrive here, so a decoder may treat them either way
		lowered := 1
		for i := 0; i < L-nt; i++ {
			lowered = m.And(lowered, m.Not(byteFn(in.Elems[i], func(b int) bool { return b >= 'A' && b <= 'Z' })))
		}
		accept = m.And(accept, lowered)
		got := m.And(m.Not(rs[1].Bits[0]), lowered)
		if got != accept {
			w := m.Witness(m.Xor(got, accept))
			kind := "refused though it is k hex labels followed by " + tail
			if m.And(got, m.Not(accept)) != 0 {
				w = m.Witness(m.And(got, m.Not(accept)))
				kind = "accepted though it is not a sequence of single-hex-digit labels followed by the label(s) " + tail
			}
			bad = &res{false, sprintf("length %d: the name %s is %s", L, witnessName(w, L-nt, L-nt)+"+"+tail, kind)}
			break
		}
		if accept == 0 {
			nReject++
			continue
		}
		nAccept++
		// decoded value
		if rs[0].Kind != boolfn.KArray || len(rs[0].Elems) != 18 {
			bad = &res{false, sprintf("length %d: the result is not PrefixFrom(address, bits)", L)}
			break
		}
		if m.And(accept, m.Not(rs[0].Elems[16][1])) != 0 {
			bad = &res{false, sprintf("length %d: the address of the prefix is not an IPv6 address", L)}
			break
		}
		wantBits := ev.Const(int64(4*k), 8, false).Bits
		for b := 0; b < 8 && bad == nil; b++ {
			if m.And(accept, m.Xor(rs[0].Elems[17][b], wantBits[b])) != 0 {
				bad = &res{false, sprintf("length %d (%d labels): the prefix length is not %d", L, k, 4*k)}
			}
		}
		for j := 0; j < 32 && bad == nil; j++ {
			byteIdx, hiNibble := j/2, j%2 == 0
			for b := 0; b < 4; b++ {
				gotBit := rs[0].Elems[byteIdx][b]
				if hiNibble {
					gotBit = rs[0].Elems[byteIdx][b+4]
				}
				want := 0
				if j < k {
					src := in.Elems[2*(k-1-j)]
					bb := b
					want = byteFn(src, func(v int) bool { h := hexValue(v); return h >= 0 && (h>>uint(bb))&1 == 1 })
				}
				if m.And(accept, m.Xor(gotBit, want)) != 0 {
					bad = &res{false, sprintf("length %d (%d labels): nibble %d of the address is not the digit of label %d from the right", L, k, j, j)}
					break
				}
			}
		}
		if bad != nil {
			break
		}
	}
	c.L.Floor(rule, 1)
	if bad != nil {
		c.check(false, rule, f, "accepts exactly k <= 32 single-hex-digit labels followed by "+tail+" and decodes them", nil, bad.why)
		return true
	}
	c.check(true, rule, f, "accepts exactly k <= 32 single-hex-digit labels followed by "+tail+" and decodes them", nil,
		sprintf("every name length %d..%d evaluated with all other bits free: %d lengths with accepted names (language and decoded prefix equal to the codec's), %d lengths rejected outright; %d functions evaluated", nt, maxL, nAccept, nReject, entered))
	return true
}

func hexValue(v int) int {
	switch {
	case v >= '0' && v <= '9':
		return v - '0'
	case v >= 'a' && v <= 'f':
		return v - 'a' + 10
	case v >= 'A' && v <= 'F':
		return v - 'A' + 10
	}
	return -1
}

func strConstOf(c *Ctx, pkg, name string) (string, bool) {
	tp := c.P.TPkg(pkg)
	if tp == nil {
		return "", false
	}
	k, ok := tp.Types.Scope().Lookup(name).(*types.Const)
	if !ok || k.Val().Kind() != constant.String {
		return "", false
	}
	return constant.StringVal(k.Val()), true
}

// v4LabelExact decides isIPv4Label exactly for labels of every length 0..6:
// the predicate is evaluated on l symbolic bytes (a `range` over the string
// decodes UTF-8 as the language does) and compared with "decimal 0..255
// without a leading zero" as a Boolean function — digit tests, accumulation
// (in whatever integer type) and the final range test included.
func v4LabelExact(c *Ctx, prop string) (okExact bool) {
	defer recoverUnsupported(c, &okExact, "v4LabelExact")
	rule := prop + ".v4.label-exact"
	f := c.fn("netutil", "isIPv4Label")
	if f == nil || len(f.Params) != 1 {
		return false
	}
	type bad struct{ why string }
	var fail *bad
	// every label of up to 6 bytes, and a few long ones (no label of more than
	// three bytes is an octet, however its digits add up in a machine word)
	for _, l := range []int{0, 1, 2, 3, 4, 5, 6, 7, 10, 19, 20, 21, 25, 40} {
		if fail != nil {
			break
		}
		m := boolfn.New()
		ev := &boolfn.Eval{M: m, Entered: map[string]bool{}, ErrorsAsBits: true, ForcePath: true, Steps: 1000000}
		ev.InScope = core.InModule
		in := ev.StringInput(0, l)
		rs, err := ev.Call(f, []boolfn.Val{in})
		if err != nil || len(rs) != 1 || rs[0].Kind != boolfn.KBits || len(rs[0].Bits) != 1 {
			if os.Getenv("GSA_DBG") != "" {
				fmt.Fprintln(os.Stderr, "exact isIPv4Label: l =", l, err)
			}
			c.L.Notef("isIPv4Label is outside the exact evaluator's grammar at length %d (%v)", l, err)
			return false
		}
		eqByte := func(bits []int, v int) int {
			eq := 1
			for k := 0; k < 8; k++ {
				bit := bits[k]
				if (v>>uint(k))&1 == 0 {
					bit = m.Not(bit)
				}
				eq = m.And(eq, bit)
			}
			return eq
		}
		want := 0
		if l >= 1 && l <= 3 {
			lo, hi := 0, 9
			if l == 2 {
				lo, hi = 10, 99
			} else if l == 3 {
				lo, hi = 100, 255
			}
			for v := lo; v <= hi; v++ {
				s := fmt.Sprint(v)
				cube := 1
				for i := 0; i < l; i++ {
					cube = m.And(cube, eqByte(in.Elems[i], int(s[i])))
				}
				want = m.Or(want, cube)
			}
		}
		if rs[0].Bits[0] != want {
			d := m.Xor(rs[0].Bits[0], want)
			kind := "rejected though it is a decimal octet"
			if x := m.And(rs[0].Bits[0], m.Not(want)); x != 0 {
				d, kind = x, "accepted though it is not a decimal number 0..255 without leading zero"
			}
			fail = &bad{sprintf("the label %s is %s", witnessName(m.Witness(d), l, l), kind)}
		}
	}
	c.L.Floor(rule, 1)
	what := "isIPv4Label(label) <=> label is a decimal 0..255 without leading zero"
	if fail != nil {
		c.check(false, rule, f, what, nil, fail.why)
		return true
	}
	c.check(true, rule, f, what, nil, "equal as Boolean functions for every label of 0..6 bytes (all 2^8l labels per length) and of 7, 10, 19, 20, 21, 25 and 40 bytes")
	return true
}

// c05PrefixV4Exact decides the IPv4 side of PrefixFromReversedAddr exactly for
// every name length: subnetFromReversedV4 (with ipv4NetFromReversed and
// ipv4FromReversed behind it) is evaluated path by path on a name of L bytes
// whose last 12 are "in-addr.arpa" (what the dispatcher has tested) and whose
// other bytes are free, under the decoder's documented precondition — the
// name is a valid domain name: it does not start with a dot and has no empty
// label.  The library scanners (Count, HasSuffix, LastIndexByte, ParseUint,
// netip.ParseAddr) have their exact meaning on symbolic bytes (boolfn/scan.go,
// netipmodel.go).  The verdict must be
//
//	err == nil  <=>  the free part is empty, or is k <= 4 decimal octets 0..255
//	                 without leading zeros, dot-separated, followed by a dot
//	and then    prefix length 8k, octet j of the address == label k-1-j (from
//	            the left), zero beyond k
func c05PrefixV4Exact(c *Ctx) (okExact bool) {
	defer recoverUnsupported(c, &okExact, "c05PrefixV4Exact")
	const rule = "C05.v4.prefix-exact"
	f := c.fn("netutil", "subnetFromReversedV4")
	if f == nil || len(f.Params) != 1 {
		return false
	}
	suffix := ".in-addr.arpa"
	if s, ok := strConstOf(c, "netutil", "arpaV4Suffix"); ok && len(s) > 1 {
		suffix = s
	}
	tail := suffix[1:]
	nt := len(tail)
	maxL := nt + 16 + 3
	var bad string
	nAccept, nReject, entered := 0, 0, 0
	for L := nt; L <= maxL && bad == ""; L++ {
		m := boolfn.New()
		ev := &boolfn.Eval{M: m, Entered: map[string]bool{}, ErrorsAsBits: true, ForcePath: true, Steps: 4000000}
		ev.InScope = core.InModule
		in := ev.StringInput(0, L)
		for i := 0; i < nt; i++ {
			in.Elems[L-nt+i] = ev.Const(int64(tail[i]), 8, false).Bits
		}
		nm := &netipModel{ev: ev, fresh: 1 << 20}
		ev.OnCall = nm.OnCall
		{
			// precondition: a valid domain name (no leading dot, no empty label)
			isDot := func(bits []int) int {
				eq := 1
				for k := 0; k < 8; k++ {
					bit := bits[k]
					if ('.'>>uint(k))&1 == 0 {
						bit = m.Not(bit)
					}
					eq = m.And(eq, bit)
				}
				return eq
			}
			pre := 1
			for i := 0; i < L-nt; i++ {
				if i == 0 {
					pre = m.And(pre, m.Not(isDot(in.Elems[0])))
				} else {
					pre = m.And(pre, m.Not(m.And(isDot(in.Elems[i-1]), isDot(in.Elems[i]))))
				}
			}
			ev.Assume = pre
		}
		rs, err := ev.Call(f, []boolfn.Val{in})
		if err != nil || len(rs) != 2 || rs[1].Kind != boolfn.KBits || len(rs[1].Bits) != 1 {
			if os.Getenv("GSA_DBG") != "" {
				fmt.Fprintln(os.Stderr, "exact v4 prefix decoder: L =", L, err)
			}
			c.L.Notef("subnetFromReversedV4 is outside the exact evaluator's grammar at length %d (%v); structural rules used instead", L, err)
			return false
		}
		entered = len(ev.Entered)
		n := L - nt // free bytes
		isByte := func(bits []int, v int) int {
			eq := 1
			for k := 0; k < 8; k++ {
				bit := bits[k]
				if (v>>uint(k))&1 == 0 {
					bit = m.Not(bit)
				}
				eq = m.And(eq, bit)
			}
			return eq
		}
		// precondition: a valid domain name in lower case
		pre := 1
		for i := 0; i < n; i++ {
			if i == 0 {
				pre = m.And(pre, m.Not(isByte(in.Elems[0], '.')))
			} else {
				pre = m.And(pre, m.Not(m.And(isByte(in.Elems[i-1], '.'), isByte(in.Elems[i], '.'))))
			}
		}
		accept := 0
		wantAddr := zeroBytes(4)
		wantBits := make([]int, 8)
		if n == 0 {
			accept = 1
		} else {
			lastDot := isByte(in.Elems[n-1], '.')
			for k := 1; k <= 4; k++ {
				nm.labels(in.Elems, 0, n-1, k, func(cond int, vals [][]int) {
					cnd := m.And(cond, lastDot)
					if cnd == 0 {
						return
					}
					accept = m.Or(accept, cnd)
					for j := 0; j < k; j++ {
						for b := 0; b < 8; b++ {
							wantAddr[j][b] = m.Or(wantAddr[j][b], m.And(cnd, vals[k-1-j][b]))
						}
					}
					pl := ev.Const(int64(8*k), 8, false).Bits
					for b := 0; b < 8; b++ {
						wantBits[b] = m.Or(wantBits[b], m.And(cnd, pl[b]))
					}
				})
			}
		}
		accept = m.And(accept, pre)
		got := m.And(m.Not(rs[1].Bits[0]), pre)
		if got != accept {
			w := m.Witness(m.Xor(got, accept))
			kind := "refused though it is k <= 4 decimal octets followed by " + tail
			if x := m.And(got, m.Not(accept)); x != 0 {
				w, kind = m.Witness(x), "accepted though it is not a sequence of at most four decimal octets 0..255 without leading zeros followed by the label(s) "+tail
			}
			bad = sprintf("length %d: the name %s is %s", L, witnessName(w, n, n)+"+"+tail, kind)
			break
		}
		if accept == 0 {
			nReject++
			continue
		}
		nAccept++
		if rs[0].Kind != boolfn.KArray || len(rs[0].Elems) != 18 {
			bad = sprintf("length %d: the result is not PrefixFrom(address, bits)", L)
			break
		}
		if m.And(accept, m.Not(rs[0].Elems[16][0])) != 0 {
			bad = sprintf("length %d: the address of the prefix is not an IPv4 address", L)
			break
		}
		for b := 0; b < 8 && bad == ""; b++ {
			if d := m.And(accept, m.Xor(rs[0].Elems[17][b], wantBits[b])); d != 0 {
				bad = sprintf("length %d: for the name %s the prefix length is not 8 per label", L, witnessName(m.Witness(d), n, n)+"+"+tail)
			}
		}
		for j := 0; j < 4 && bad == ""; j++ {
			for b := 0; b < 8; b++ {
				if d := m.And(accept, m.Xor(rs[0].Elems[j][b], wantAddr[j][b])); d != 0 {
					bad = sprintf("length %d: for the name %s octet %d of the address is not the label it belongs to", L, witnessName(m.Witness(d), n, n)+"+"+tail, j)
					break
				}
			}
		}
	}
	c.L.Floor(rule, 1)
	what := "accepts exactly k <= 4 decimal octet labels followed by " + tail + " and decodes them"
	if bad != "" {
		c.check(false, rule, f, what, nil, bad)
		return true
	}
	c.check(true, rule, f, what, nil,
		sprintf("every name length %d..%d evaluated with all other bits free (names without empty labels): %d lengths with accepted names (language and decoded prefix equal to the codec's), %d lengths rejected outright; %d functions evaluated", nt, maxL, nAccept, nReject, entered))
	return true
}

// v4ScannerExact decides isValidIPv4String exactly: for every length 0..18
// the scanner is evaluated path by path on symbolic bytes (strings.Cut,
// IndexByte & co. with their exact meaning) and its verdict compared, as a
// Boolean function, with the dotted-quad grammar of netip.ParseAddr.
func v4ScannerExact(c *Ctx) (okExact bool) {
	defer recoverUnsupported(c, &okExact, "v4ScannerExact")
	const rule = "C02.v4.scanner-exact"
	f := c.fn("netutil", "isValidIPv4String")
	if f == nil || len(f.Params) != 1 {
		return false
	}
	bad := ""
	for L := 0; L <= 18 && bad == ""; L++ {
		m := boolfn.New()
		ev := &boolfn.Eval{M: m, Entered: map[string]bool{}, ErrorsAsBits: true, ForcePath: true, Steps: 4000000}
		ev.InScope = core.InModule
		in := ev.StringInput(0, L)
		nm := &netipModel{ev: ev, fresh: 1 << 20}
		ev.OnCall = nm.OnCall
		rs, err := ev.Call(f, []boolfn.Val{in})
		if err != nil || len(rs) != 1 || rs[0].Kind != boolfn.KBits || len(rs[0].Bits) != 1 {
			if os.Getenv("GSA_DBG") != "" {
				fmt.Fprintln(os.Stderr, "exact isValidIPv4String: L =", L, err)
			}
			c.L.Notef("isValidIPv4String is outside the exact evaluator's grammar at length %d (%v)", L, err)
			return false
		}
		want, _ := nm.parseV4(in.Elems)
		if rs[0].Bits[0] != want {
			d := m.Xor(rs[0].Bits[0], want)
			kind := "rejected though netip.ParseAddr accepts it"
			if x := m.And(rs[0].Bits[0], m.Not(want)); x != 0 {
				d, kind = x, "accepted though it is not four decimal fields 0..255 without leading zeros"
			}
			bad = sprintf("the text %s is %s", witnessName(m.Witness(d), L, L), kind)
		}
	}
	c.L.Floor(rule, 1)
	what := "isValidIPv4String(s) <=> s is a dotted quad as netip.ParseAddr reads it"
	if bad != "" {
		c.check(false, rule, f, what, nil, bad)
		return true
	}
	c.check(true, rule, f, what, nil, "equal as Boolean functions for every text of 0..18 bytes (all 2^8L texts per length)")
	return true
}

// c04V4DecodeExact decides ipv4FromReversed exactly: for every length 0..18
// of the address part, accepted <=> dotted quad (as netip.ParseAddr reads it),
// and the decoded address is the four octets in reverse order.
func c04V4DecodeExact(c *Ctx) (okExact bool) {
	defer recoverUnsupported(c, &okExact, "c04V4DecodeExact")
	const rule = "C04.v4.decode-exact"
	f := c.fn("netutil", "ipv4FromReversed")
	if f == nil || len(f.Params) != 1 {
		return false
	}
	bad := ""
	for L := 0; L <= 18 && bad == ""; L++ {
		m := boolfn.New()
		ev := &boolfn.Eval{M: m, Entered: map[string]bool{}, ErrorsAsBits: true, ForcePath: true, Steps: 1000000}
		ev.InScope = core.InModule
		in := ev.StringInput(0, L)
		nm := &netipModel{ev: ev, fresh: 1 << 20}
		ev.OnCall = nm.OnCall
		rs, err := ev.Call(f, []boolfn.Val{in})
		if err != nil || len(rs) != 2 || rs[1].Kind != boolfn.KBits || len(rs[1].Bits) != 1 {
			if os.Getenv("GSA_DBG") != "" {
				fmt.Fprintln(os.Stderr, "exact ipv4FromReversed: L =", L, err)
			}
			c.L.Notef("ipv4FromReversed is outside the exact evaluator's grammar at length %d (%v)", L, err)
			return false
		}
		want, octets := nm.parseV4(in.Elems)
		got := m.Not(rs[1].Bits[0])
		if got != want {
			d := m.Xor(got, want)
			kind := "refused though it is a dotted quad"
			if x := m.And(got, m.Not(want)); x != 0 {
				d, kind = x, "decoded though it is not four decimal fields 0..255 without leading zeros"
			}
			bad = sprintf("the address part %s is %s", witnessName(m.Witness(d), L, L), kind)
			break
		}
		if want == 0 {
			continue
		}
		if rs[0].Kind != boolfn.KArray || len(rs[0].Elems) != 17 {
			bad = "the result is not an address"
			break
		}
		if m.And(want, m.Not(rs[0].Elems[16][0])) != 0 {
			bad = "the decoded address is not an IPv4 address"
			break
		}
		for j := 0; j < 4 && bad == ""; j++ {
			for b := 0; b < 8; b++ {
				if d := m.And(want, m.Xor(rs[0].Elems[j][b], octets[3-j][b])); d != 0 {
					bad = sprintf("for %s octet %d of the address is not field %d of the name", witnessName(m.Witness(d), L, L), j, 3-j)
					break
				}
			}
		}
	}
	c.L.Floor(rule, 1)
	what := "ipv4FromReversed decodes exactly the dotted quads, octets reversed"
	if bad != "" {
		c.check(false, rule, f, what, nil, bad)
		return true
	}
	c.check(true, rule, f, what, nil, "accepted set and decoded bytes equal the codec's for every text of 0..18 bytes")
	return true
}

// c02PortNumberExact decides isUint16 exactly on non-empty texts of 1..7
// bytes: true <=> every byte is a digit and the decimal value is at most 65535
// (leading zeros allowed, as strconv.ParseUint(s, 10, 16) has it).  Emptiness
// is the splitter's business; longer texts (where an accumulator could wrap)
// are the business of the one-iteration rule C02.port.number.
func c02PortNumberExact(c *Ctx) (okExact bool) {
	defer recoverUnsupported(c, &okExact, "c02PortNumberExact")
	const rule = "C02.port.number-exact"
	f := c.fn("netutil", "isUint16")
	if f == nil || len(f.Params) != 1 {
		return false
	}
	lengths := []int{1, 2, 3, 4, 5, 6, 7}
	bads := make([]string, len(lengths))
	errs := make([]error, len(lengths))
	parallelDo(len(lengths), func(k int) {
		L := lengths[k]
		m := boolfn.New()
		ev := &boolfn.Eval{M: m, Entered: map[string]bool{}, ErrorsAsBits: true, ForcePath: true, Steps: 1000000}
		ev.InScope = core.InModule
		in := ev.StringInput(0, L)
		rs, err := ev.Call(f, []boolfn.Val{in})
		if err != nil || len(rs) != 1 || rs[0].Kind != boolfn.KBits || len(rs[0].Bits) != 1 {
			if err == nil {
				err = fmt.Errorf("unexpected result shape")
			}
			errs[k] = err
			return
		}
		eqByte := func(bits []int, v int) int {
			eq := 1
			for k := 0; k < 8; k++ {
				bit := bits[k]
				if (v>>uint(k))&1 == 0 {
					bit = m.Not(bit)
				}
				eq = m.And(eq, bit)
			}
			return eq
		}
		digit := func(bits []int) int {
			r := 0
			for v := '0'; v <= '9'; v++ {
				r = m.Or(r, eqByte(bits, int(v)))
			}
			return r
		}
		want := 1
		for i := 0; i < L; i++ {
			want = m.And(want, digit(in.Elems[i]))
		}
		// all but the last five digits are zeros, the last five at most 65535
		first := 0
		if L > 5 {
			first = L - 5
			for i := 0; i < first; i++ {
				want = m.And(want, eqByte(in.Elems[i], '0'))
			}
		}
		// lexicographic comparison of the (at most five) last digits with 65535
		n := L - first
		if n == 5 {
			limit := "65535"
			le := 1 // all equal so far => <=
			for i := n - 1; i >= 0; i-- {
				lt, eq := 0, eqByte(in.Elems[first+i], int(limit[i]))
				for v := '0'; v < rune(limit[i]); v++ {
					lt = m.Or(lt, eqByte(in.Elems[first+i], int(v)))
				}
				le = m.Or(lt, m.And(eq, le))
			}
			want = m.And(want, le)
		}
		if rs[0].Bits[0] != want {
			d := m.Xor(rs[0].Bits[0], want)
			kind := "rejected though it is a port number"
			if x := m.And(rs[0].Bits[0], m.Not(want)); x != 0 {
				d, kind = x, "accepted though strconv.ParseUint(s, 10, 16) rejects it"
			}
			bads[k] = sprintf("the text %s is %s", witnessName(m.Witness(d), L, L), kind)
		}
	})
	for k, e := range errs {
		if e != nil {
			if os.Getenv("GSA_DBG") != "" {
				fmt.Fprintln(os.Stderr, "exact isUint16: L =", lengths[k], e)
			}
			c.L.Notef("isUint16 is outside the exact evaluator's grammar at length %d (%v)", lengths[k], e)
			return false
		}
	}
	c.L.Floor(rule, 1)
	what := "isUint16(s) <=> s is decimal digits with value <= 65535"
	for _, b := range bads {
		if b != "" {
			c.check(false, rule, f, what, nil, b)
			return true
		}
	}
	c.check(true, rule, f, what, nil, sprintf("equal as Boolean functions for every text of %v bytes", lengths))
	return true
}

// c05IndexExact decides the two scanners behind ExtractReversedAddr exactly:
// indexFirstV6Label / indexFirstV4Label return where the longest label-aligned
// run of address labels in front of the ARPA suffix starts.  Each is evaluated
// on a valid, lowered domain name of L bytes ending in the suffix (the rest
// free; no leading dot, no empty label — what ValidateDomainName has
// established) and the returned index is compared, as a 64-bit function of
// the bytes, with the definition: going left from the suffix, a label counts
// while it is a single hex digit (a decimal octet) that starts the name or
// follows a dot, at most 32 (4) of them.
func c05IndexExact(c *Ctx) map[string]bool {
	const rule = "C05.index-exact"
	decided := map[string]bool{}
	type spec struct {
		fn, tail string
		maxFree  int
		v6       bool
	}
	maxV6 := 22
	if c.Tier == "thorough" {
		maxV6 = 70
	}
	specs := []spec{{"indexFirstV6Label", "ip6.arpa", maxV6, true}, {"indexFirstV4Label", "in-addr.arpa", 20, false}}
	nOK := 0
	for _, sp := range specs {
		f := c.fn("netutil", sp.fn)
		if f == nil || len(f.Params) != 1 {
			continue
		}
		nt := len(sp.tail)
		var lengths []int
		for n := 0; n <= sp.maxFree; n++ {
			if n == 1 {
				continue // a single free byte would have to be the dot: an empty label
			}
			lengths = append(lengths, nt+n)
		}
		if sp.v6 && c.Tier != "thorough" {
			// and the lengths at which a full address (32 labels) sits in
			// front of the suffix, with one to three bytes before it
			for _, n := range []int{63, 64, 65, 66, 67} {
				lengths = append(lengths, nt+n)
			}
		}
		bads := make([]string, len(lengths))
		errs := make([]error, len(lengths))
		parallelDo(len(lengths), func(k int) {
			L := lengths[k]
			n := L - nt
			m := boolfn.New()
			ev := &boolfn.Eval{M: m, Entered: map[string]bool{}, ErrorsAsBits: true, ForcePath: true, Steps: 3000000}
			ev.InScope = core.InModule
			in := ev.StringInput(0, L)
			for i := 0; i < nt; i++ {
				in.Elems[n+i] = ev.Const(int64(sp.tail[i]), 8, false).Bits
			}
			if n > 0 {
				in.Elems[n-1] = ev.Const('.', 8, false).Bits
			}
			model := &netipModel{ev: ev, fresh: 1 << 20}
			isByte := func(i int, v byte) int {
				eq := 1
				for b := 0; b < 8; b++ {
					bit := in.Elems[i][b]
					if (v>>uint(b))&1 == 0 {
						bit = m.Not(bit)
					}
					eq = m.And(eq, bit)
				}
				return eq
			}
			pre := 1
			for i := 0; i < n; i++ {
				if i == 0 {
					pre = m.And(pre, m.Not(isByte(0, '.')))
				} else {
					pre = m.And(pre, m.Not(m.And(isByte(i-1, '.'), isByte(i, '.'))))
				}
			}
			ev.Assume = pre
			rs, err := ev.Call(f, []boolfn.Val{in})
			if err != nil || len(rs) != 1 || rs[0].Kind != boolfn.KBits {
				if err == nil {
					err = fmt.Errorf("unexpected result shape")
				}
				errs[k] = err
				return
			}
			// the definition
			type alt struct{ cond, idx int }
			var alts []alt
			if gerr := boolfn.Guard(func() {
				if sp.v6 {
					hexAt := func(i int) int {
						r := 0
						for v := 0; v < 256; v++ {
							if hexValue(v) >= 0 {
								r = m.Or(r, isByte(i, byte(v)))
							}
						}
						return r
					}
					cond, idx := pre, n
					for j := 1; j <= 32; j++ {
						p := n - 2*j
						if p < 0 {
							break
						}
						valid := hexAt(p)
						if p > 0 {
							valid = m.And(valid, isByte(p-1, '.'))
						}
						if stop := m.And(cond, m.Not(valid)); stop != 0 {
							alts = append(alts, alt{stop, idx})
						}
						cond = m.And(cond, valid)
						idx = p
						if cond == 0 {
							break
						}
					}
					if cond != 0 {
						alts = append(alts, alt{cond, idx})
					}
				} else {
					var rec func(idx, count, cond int)
					rec = func(idx, count, cond int) {
						if cond == 0 {
							return
						}
						if count == 4 || idx == 0 {
							alts = append(alts, alt{cond, idx})
							return
						}
						e := idx - 1
						taken := 0
						for ln := 1; ln <= 3; ln++ {
							s := e - ln
							if s < 0 {
								break
							}
							ok, _ := model.octet(in.Elems, s, e)
							if s > 0 {
								ok = m.And(ok, isByte(s-1, '.'))
							}
							cn := m.And(cond, ok)
							taken = m.Or(taken, cn)
							rec(s, count+1, cn)
						}
						if none := m.And(cond, m.Not(taken)); none != 0 {
							alts = append(alts, alt{none, idx})
						}
					}
					rec(n, 0, pre)
				}
			}); gerr != nil {
				errs[k] = gerr
				return
			}
			for _, a := range alts {
				want := ev.Const(int64(a.idx), len(rs[0].Bits), true).Bits
				for b := range want {
					if d := m.And(a.cond, m.Xor(rs[0].Bits[b], want[b])); d != 0 {
						bads[k] = sprintf("for the %d-byte name %s the address labels start at %d, not where the function says", L, witnessName(m.Witness(d), n, n)+"+"+sp.tail, a.idx)
						return
					}
				}
			}
		})
		unsup := false
		for k, e := range errs {
			if e != nil {
				if os.Getenv("GSA_DBG") != "" {
					fmt.Fprintln(os.Stderr, "exact", sp.fn, ": L =", lengths[k], e)
				}
				c.L.Notef("%s is outside the exact evaluator's grammar at length %d (%v)", sp.fn, lengths[k], e)
				unsup = true
				break
			}
		}
		if unsup {
			continue
		}
		decided[sp.fn] = true
		nOK++
		what := sp.fn + " returns the start of the longest label-aligned run of address labels"
		bad := ""
		for _, b := range bads {
			if b != "" && bad == "" {
				bad = b
			}
		}
		if bad != "" {
			c.check(false, rule, f, what, nil, bad)
		} else {
			c.check(true, rule, f, what, nil, sprintf("equal as functions of the bytes for every valid name of %d..%d bytes ending in %s", lengths[0], lengths[len(lengths)-1], sp.tail))
		}
	}
	if nOK > 0 {
		c.L.Floor(rule, nOK)
	}
	return decided
}

// c02SplitExact decides splitAddrPort exactly for every text of 0..9 bytes: the
// function is evaluated path by path; every path returns windows of the input,
// and for every path, under its condition, the three results must be what
// netip's splitter gives: the text is cut at the last ':'; host and port are
// non-empty; a host containing ':' must be bracketed and loses the brackets, any
// other host is returned as it is.
func c02SplitExact(c *Ctx) (okExact bool) {
	defer recoverUnsupported(c, &okExact, "c02SplitExact")
	const rule = "C02.port.split-exact"
	f := c.fn("netutil", "splitAddrPort")
	if f == nil || len(f.Params) != 1 {
		return false
	}
	lengths := []int{0, 1, 2, 3, 4, 5, 6, 7, 8, 9}
	bads := make([]string, len(lengths))
	errs := make([]error, len(lengths))
	parallelDo(len(lengths), func(k int) {
		L := lengths[k]
		m := boolfn.New()
		ev := &boolfn.Eval{M: m, Entered: map[string]bool{}, ErrorsAsBits: true, ForcePath: true, Steps: 1000000}
		ev.InScope = core.InModule
		in := ev.StringInput(0, L)
		rs, err := ev.Call(f, []boolfn.Val{in})
		if err != nil {
			errs[k] = err
			return
		}
		var alts []boolfn.ChoiceAlt
		switch {
		case len(rs) == 1 && rs[0].Kind == boolfn.KChoice:
			alts = rs[0].Alts
		case len(rs) == 3:
			alts = []boolfn.ChoiceAlt{{Cond: 1, Val: boolfn.Val{Kind: boolfn.KTuple, Tuple: rs}}}
		default:
			errs[k] = fmt.Errorf("unexpected result shape")
			return
		}
		is := func(i int, v byte) int {
			eq := 1
			for b := 0; b < 8; b++ {
				bit := in.Elems[i][b]
				if (v>>uint(b))&1 == 0 {
					bit = m.Not(bit)
				}
				eq = m.And(eq, bit)
			}
			return eq
		}
		last := make([]int, L) // the last ':' is at i
		cc := make([]int, L)   // a ':' in front of i
		after := 1
		for i := L - 1; i >= 0; i-- {
			last[i] = m.And(is(i, ':'), after)
			after = m.And(after, m.Not(is(i, ':')))
		}
		before := 0
		for i := 0; i < L; i++ {
			cc[i] = before
			before = m.Or(before, is(i, ':'))
		}
		specOK := 0
		for i := 1; i < L-1; i++ {
			br := 0
			if i >= 2 {
				br = m.And(is(0, '['), is(i-1, ']'))
			}
			specOK = m.Or(specOK, m.And(last[i], m.Or(m.Not(cc[i]), br)))
		}
		win := func(v boolfn.Val) (lo, hi int, ok bool) {
			switch v.Kind {
			case boolfn.KStr:
				if v.Str == "" {
					return 0, 0, true
				}
			case boolfn.KSlice:
				if len(v.Elems) == L || v.Hi == v.Lo {
					return v.Lo, v.Hi, true
				}
			}
			return 0, 0, false
		}
		cover := 0
		for _, a := range alts {
			cover = m.Or(cover, a.Cond)
			t := a.Val
			if t.Kind != boolfn.KTuple || len(t.Tuple) != 3 || t.Tuple[2].Kind != boolfn.KBits {
				errs[k] = fmt.Errorf("unexpected result shape")
				return
			}
			okBit := t.Tuple[2].Bits[0]
			if d := m.And(a.Cond, m.Xor(okBit, specOK)); d != 0 {
				kind := "split although netip's splitter refuses it"
				if m.And(d, specOK) != 0 {
					d, kind = m.And(d, specOK), "refused although it is host:port (or [host]:port)"
				}
				bads[k] = sprintf("the text %s is %s", witnessName(m.Witness(d), L, L), kind)
				return
			}
			good := m.And(a.Cond, okBit)
			if good == 0 {
				continue
			}
			ilo, ihi, ok1 := win(t.Tuple[0])
			plo, phi, ok2 := win(t.Tuple[1])
			if !ok1 || !ok2 {
				errs[k] = fmt.Errorf("a result is not a window of the input")
				return
			}
			for i := 1; i < L-1; i++ {
				ci := m.And(good, last[i])
				if ci == 0 {
					continue
				}
				if phi-plo != L-i-1 || plo != i+1 {
					bads[k] = sprintf("for the text %s the port is not what follows the last ':'", witnessName(m.Witness(ci), L, L))
					return
				}
				if plain := m.And(ci, m.Not(cc[i])); plain != 0 && (ilo != 0 || ihi != i) {
					bads[k] = sprintf("for the text %s the host is not the text in front of the last ':' as it is", witnessName(m.Witness(plain), L, L))
					return
				}
				if br := m.And(ci, cc[i]); br != 0 && !(ihi-ilo == i-2 && (ihi == ilo || ilo == 1)) {
					bads[k] = sprintf("for the text %s the host is not the bracketed text without its brackets", witnessName(m.Witness(br), L, L))
					return
				}
			}
		}
		if cover != 1 {
			bads[k] = "the paths of the function do not cover every input"
		}
	})
	for k, e := range errs {
		if e != nil {
			if os.Getenv("GSA_DBG") != "" {
				fmt.Fprintln(os.Stderr, "exact splitAddrPort: L =", lengths[k], e)
			}
			c.L.Notef("splitAddrPort is outside the exact evaluator's grammar at length %d (%v)", lengths[k], e)
			return false
		}
	}
	c.L.Floor(rule, 1)
	what := "splitAddrPort == netip's splitter plus the bracket rule"
	for _, b := range bads {
		if b != "" {
			c.check(false, rule, f, what, nil, b)
			return true
		}
	}
	c.check(true, rule, f, what, nil, sprintf("ok and both windows equal the definition on every path, for every text of %v bytes", lengths))
	return true
}
