package rules

import (
	"fmt"
	"go/constant"
	"go/types"
	"os"

	"golang.org/x/tools/go/ssa"

	"verif/sa/boolfn"
	"verif/sa/core"
)

// c05PrefixV6Exact decides the IPv6 side of PrefixFromReversedAddr exactly for
// every name length: subnetFromReversedV6 (with the decoders it dispatches to)
// is evaluated on a name of L bytes whose last bytes are the suffix text the
// dispatcher has tested ("ip6.arpa", without the dot) and whose other 8(L-8)
// bits are free, for every L from the bare root to beyond the full length.
// The results are compared, as Boolean functions, with the codec:
//
//	err == nil  <=>  L-8 == 2k, k <= 32, and for i < k: name[2i] is a hex digit
//	                 and name[2i+1] == '.'   (the last of them being the dot in
//	                 front of ip6.arpa: label alignment)
//	and then    prefix length == 4k, nibble j of the address (from the top) ==
//	            hexval(name[2(k-1-j)]) for j < k and zero for j >= k
//
// whatever loops, parity tests and helper functions the decoder is made of.
// false: outside the evaluator's grammar (the structural rules decide).
func c05PrefixV6Exact(c *Ctx) bool {
	const rule = "C05.v6.prefix-exact"
	f := c.fn("netutil", "subnetFromReversedV6")
	if f == nil || len(f.Params) != 1 {
		return false
	}
	suffix := ".ip6.arpa"
	if s, ok := strConstOf(c, "netutil", "arpaV6Suffix"); ok && len(s) > 1 {
		suffix = s
	}
	tail := suffix[1:]
	nt := len(tail)
	maxL := nt + 64 + 6
	type res struct {
		ok  bool
		why string
	}
	var bad *res
	nAccept, nReject := 0, 0
	entered := 0
	for L := nt; L <= maxL; L++ {
		m := boolfn.New()
		ev := &boolfn.Eval{M: m, Entered: map[string]bool{}, ErrorsAsBits: true}
		ev.InScope = core.InModule
		in := ev.StringInput(0, L)
		for i := 0; i < nt; i++ {
			in.Elems[L-nt+i] = ev.Const(int64(tail[i]), 8, false).Bits
		}
		ev.OnCall = func(name string, call *ssa.CallCommon, args []boolfn.Val) (boolfn.Val, bool) {
			switch name {
			case "net/netip.AddrFrom16":
				if len(args) == 1 && args[0].Kind == boolfn.KArray {
					return args[0], true
				}
			case "(net/netip.Addr).BitLen":
				if len(args) == 1 && args[0].Kind == boolfn.KArray && len(args[0].Elems) == 16 {
					return ev.Const(128, 64, true), true
				}
			case "net/netip.PrefixFrom":
				if len(args) == 2 && args[0].Kind == boolfn.KArray && len(args[0].Elems) == 16 && args[1].Kind == boolfn.KBits {
					el := append([][]int(nil), args[0].Elems...)
					bits := args[1].Bits
					for i := 8; i < len(bits); i++ {
						if bits[i] != 0 {
							return boolfn.Val{}, false
						}
					}
					el = append(el, bits[:8])
					return boolfn.Val{Kind: boolfn.KArray, Elems: el}, true
				}
			}
			return boolfn.Val{}, false
		}
		rs, err := ev.Call(f, []boolfn.Val{in})
		if err != nil || len(rs) != 2 || rs[1].Kind != boolfn.KBits || len(rs[1].Bits) != 1 {
			if os.Getenv("GSA_DBG") != "" {
				fmt.Fprintln(os.Stderr, "exact v6 prefix decoder: L =", L, err)
			}
			c.L.Notef("subnetFromReversedV6 is outside the exact evaluator's grammar at length %d (%v); structural rules used instead", L, err)
			return false
		}
		entered = len(ev.Entered)
		byteFn := func(bits []int, pred func(b int) bool) int {
			r := 0
			for v := 0; v < 256; v++ {
				if !pred(v) {
					continue
				}
				eq := 1
				for k := 0; k < 8; k++ {
					bit := bits[k]
					if (v>>uint(k))&1 == 0 {
						bit = m.Not(bit)
					}
					eq = m.And(eq, bit)
				}
				r = m.Or(r, eq)
			}
			return r
		}
		k := (L - nt) / 2
		accept := 0
		if (L-nt)%2 == 0 && k <= 32 {
			accept = 1
			for i := 0; i < k; i++ {
				accept = m.And(accept, byteFn(in.Elems[2*i], func(b int) bool { return hexValue(b) >= 0 }))
				accept = m.And(accept, byteFn(in.Elems[2*i+1], func(b int) bool { return b == '.' }))
			}
		}
		// the dispatcher lowers the name first: names with upper-case letters
		// never arrive here, so a decoder may treat them either way
		lowered := 1
		for i := 0; i < L-nt; i++ {
			lowered = m.And(lowered, m.Not(byteFn(in.Elems[i], func(b int) bool { return b >= 'A' && b <= 'Z' })))
		}
		accept = m.And(accept, lowered)
		got := m.And(m.Not(rs[1].Bits[0]), lowered)
		if got != accept {
			w := m.Witness(m.Xor(got, accept))
			kind := "refused though it is k hex labels followed by " + tail
			if m.And(got, m.Not(accept)) != 0 {
				w = m.Witness(m.And(got, m.Not(accept)))
				kind = "accepted though it is not a sequence of single-hex-digit labels followed by the label(s) " + tail
			}
			bad = &res{false, sprintf("length %d: the name %s is %s", L, witnessName(w, L-nt, L-nt)+"+"+tail, kind)}
			break
		}
		if accept == 0 {
			nReject++
			continue
		}
		nAccept++
		// decoded value
		if rs[0].Kind != boolfn.KArray || len(rs[0].Elems) != 17 {
			bad = &res{false, sprintf("length %d: the result is not PrefixFrom(16-byte address, bits)", L)}
			break
		}
		wantBits := ev.Const(int64(4*k), 8, false).Bits
		for b := 0; b < 8 && bad == nil; b++ {
			if m.And(accept, m.Xor(rs[0].Elems[16][b], wantBits[b])) != 0 {
				bad = &res{false, sprintf("length %d (%d labels): the prefix length is not %d", L, k, 4*k)}
			}
		}
		for j := 0; j < 32 && bad == nil; j++ {
			byteIdx, hiNibble := j/2, j%2 == 0
			for b := 0; b < 4; b++ {
				gotBit := rs[0].Elems[byteIdx][b]
				if hiNibble {
					gotBit = rs[0].Elems[byteIdx][b+4]
				}
				want := 0
				if j < k {
					src := in.Elems[2*(k-1-j)]
					bb := b
					want = byteFn(src, func(v int) bool { h := hexValue(v); return h >= 0 && (h>>uint(bb))&1 == 1 })
				}
				if m.And(accept, m.Xor(gotBit, want)) != 0 {
					bad = &res{false, sprintf("length %d (%d labels): nibble %d of the address is not the digit of label %d from the right", L, k, j, j)}
					break
				}
			}
		}
		if bad != nil {
			break
		}
	}
	c.L.Floor(rule, 1)
	if bad != nil {
		c.check(false, rule, f, "accepts exactly k <= 32 single-hex-digit labels followed by "+tail+" and decodes them", nil, bad.why)
		return true
	}
	c.check(true, rule, f, "accepts exactly k <= 32 single-hex-digit labels followed by "+tail+" and decodes them", nil,
		sprintf("every name length %d..%d evaluated with all other bits free: %d lengths with accepted names (language and decoded prefix equal to the codec's), %d lengths rejected outright; %d functions evaluated", nt, maxL, nAccept, nReject, entered))
	return true
}

func hexValue(v int) int {
	switch {
	case v >= '0' && v <= '9':
		return v - '0'
	case v >= 'a' && v <= 'f':
		return v - 'a' + 10
	case v >= 'A' && v <= 'F':
		return v - 'A' + 10
	}
	return -1
}

func strConstOf(c *Ctx, pkg, name string) (string, bool) {
	tp := c.P.TPkg(pkg)
	if tp == nil {
		return "", false
	}
	k, ok := tp.Types.Scope().Lookup(name).(*types.Const)
	if !ok || k.Val().Kind() != constant.String {
		return "", false
	}
	return constant.StringVal(k.Val()), true
}

// v4LabelExact decides isIPv4Label exactly for ASCII labels of every length
// 0..6: the predicate is evaluated on l symbolic bytes (top bit clear) and
// compared with "decimal 0..255 without a leading zero" as a Boolean function
// — digit tests, accumulation (in whatever integer type) and the final range
// test included.  Bytes >= 0x80 are left to the structural rule: they are no
// digits under any decoding.
func v4LabelExact(c *Ctx, prop string) bool {
	rule := prop + ".v4.label-exact"
	f := c.fn("netutil", "isIPv4Label")
	if f == nil || len(f.Params) != 1 {
		return false
	}
	type bad struct{ why string }
	var fail *bad
	for l := 0; l <= 6 && fail == nil; l++ {
		m := boolfn.New()
		ev := &boolfn.Eval{M: m, Entered: map[string]bool{}, ErrorsAsBits: true}
		ev.InScope = core.InModule
		in := ev.StringInput(0, l)
		for i := range in.Elems {
			in.Elems[i][7] = 0
		}
		rs, err := ev.Call(f, []boolfn.Val{in})
		if err != nil || len(rs) != 1 || rs[0].Kind != boolfn.KBits || len(rs[0].Bits) != 1 {
			if os.Getenv("GSA_DBG") != "" {
				fmt.Fprintln(os.Stderr, "exact isIPv4Label: l =", l, err)
			}
			c.L.Notef("isIPv4Label is outside the exact evaluator's grammar at length %d (%v)", l, err)
			return false
		}
		eqByte := func(bits []int, v int) int {
			eq := 1
			for k := 0; k < 8; k++ {
				bit := bits[k]
				if (v>>uint(k))&1 == 0 {
					bit = m.Not(bit)
				}
				eq = m.And(eq, bit)
			}
			return eq
		}
		want := 0
		if l >= 1 && l <= 3 {
			lo, hi := 0, 9
			if l == 2 {
				lo, hi = 10, 99
			} else if l == 3 {
				lo, hi = 100, 255
			}
			for v := lo; v <= hi; v++ {
				s := fmt.Sprint(v)
				cube := 1
				for i := 0; i < l; i++ {
					cube = m.And(cube, eqByte(in.Elems[i], int(s[i])))
				}
				want = m.Or(want, cube)
			}
		}
		if rs[0].Bits[0] != want {
			d := m.Xor(rs[0].Bits[0], want)
			kind := "rejected though it is a decimal octet"
			if x := m.And(rs[0].Bits[0], m.Not(want)); x != 0 {
				d, kind = x, "accepted though it is not a decimal number 0..255 without leading zero"
			}
			fail = &bad{sprintf("the label %s is %s", witnessName(m.Witness(d), l, l), kind)}
		}
	}
	c.L.Floor(rule, 1)
	what := "isIPv4Label(label) <=> label is a decimal 0..255 without leading zero"
	if fail != nil {
		c.check(false, rule, f, what, nil, fail.why)
		return true
	}
	c.check(true, rule, f, what, nil, "equal as Boolean functions for every ASCII label of 0..6 bytes (2^7l inputs per length)")
	return true
}
