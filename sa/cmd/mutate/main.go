// Command mutate writes single-edit mutants of a Go source file, one per
// output file, for the self-test of the checks (tools/mutants.sh).  It is not
// part of any check.
//
//	mutate <file.go> <outdir>
//
// For each mutant i it writes <outdir>/<i>.go (the whole mutated file) and a
// line "<i>\t<line>\t<operator>\t<detail>" on stdout.
package main

import (
	"bytes"
	"fmt"
	"go/ast"
	"go/format"
	"go/parser"
	"go/token"
	"os"
	"path/filepath"
	"strconv"
)

type mutation struct {
	line   int
	op     string
	detail string
	apply  func()
	undo   func()
}

func main() {
	if len(os.Args) != 3 {
		fmt.Fprintln(os.Stderr, "usage: mutate <file.go> <outdir>")
		os.Exit(2)
	}
	src, err := os.ReadFile(os.Args[1])
	if err != nil {
		panic(err)
	}
	fset := token.NewFileSet()
	f, err := parser.ParseFile(fset, os.Args[1], src, parser.ParseComments)
	if err != nil {
		panic(err)
	}
	var ms []mutation
	add := func(pos token.Pos, op, detail string, apply, undo func()) {
		ms = append(ms, mutation{fset.Position(pos).Line, op, detail, apply, undo})
	}
	swapTok := map[token.Token][]token.Token{
		token.LSS: {token.LEQ}, token.LEQ: {token.LSS}, token.GTR: {token.GEQ}, token.GEQ: {token.GTR},
		token.EQL: {token.NEQ}, token.NEQ: {token.EQL}, token.LAND: {token.LOR}, token.LOR: {token.LAND},
		token.ADD: {token.SUB}, token.SUB: {token.ADD}, token.SHL: {token.SHR}, token.SHR: {token.SHL},
		token.AND: {token.OR}, token.OR: {token.AND},
	}
	// statement lists for deletions
	var visitList func(list *[]ast.Stmt)
	visitList = func(list *[]ast.Stmt) {
		for i := range *list {
			i := i
			st := (*list)[i]
			deletable := false
			switch x := st.(type) {
			case *ast.ExprStmt, *ast.IncDecStmt:
				deletable = true
			case *ast.AssignStmt:
				deletable = x.Tok != token.DEFINE
			case *ast.DeferStmt:
				deletable = true
				add(st.Pos(), "undefer", "defer f() -> f()", func() { (*list)[i] = &ast.ExprStmt{X: x.Call} }, func() { (*list)[i] = st })
			case *ast.BranchStmt:
				if x.Label == nil && (x.Tok == token.BREAK || x.Tok == token.CONTINUE) {
					old := x.Tok
					nw := token.BREAK
					if old == token.BREAK {
						nw = token.CONTINUE
					}
					add(st.Pos(), "branch", old.String()+" -> "+nw.String(), func() { x.Tok = nw }, func() { x.Tok = old })
				}
			case *ast.IfStmt:
				if x.Else == nil && x.Init == nil {
					// drop the guard: run the body unconditionally / never
					add(st.Pos(), "if-never", "if cond {..} removed", func() { (*list)[i] = &ast.EmptyStmt{Semicolon: st.Pos()} }, func() { (*list)[i] = st })
				}
			}
			if deletable {
				add(st.Pos(), "delete", "statement removed", func() { (*list)[i] = &ast.EmptyStmt{Semicolon: st.Pos()} }, func() { (*list)[i] = st })
			}
		}
	}
	ast.Inspect(f, func(n ast.Node) bool {
		switch x := n.(type) {
		case *ast.BlockStmt:
			visitList(&x.List)
		case *ast.CaseClause:
			visitList(&x.Body)
		case *ast.CommClause:
			visitList(&x.Body)
		case *ast.BinaryExpr:
			old := x.Op
			for _, nw := range swapTok[old] {
				nw := nw
				if old == token.ADD {
					// skip string concatenation
					if bl, ok := x.X.(*ast.BasicLit); ok && bl.Kind == token.STRING {
						continue
					}
					if bl, ok := x.Y.(*ast.BasicLit); ok && bl.Kind == token.STRING {
						continue
					}
				}
				add(x.OpPos, "binop", old.String()+" -> "+nw.String(), func() { x.Op = nw }, func() { x.Op = old })
			}
		case *ast.UnaryExpr:
			if x.Op == token.NOT {
				// !e -> e : replace via parent is awkward; emulate with double negation removal
				inner := x.X
				add(x.OpPos, "unnot", "!e -> e", func() { x.Op = token.ADD; x.X = &ast.ParenExpr{X: inner} }, func() { x.Op = token.NOT; x.X = inner })
			}
		case *ast.IfStmt:
			cond := x.Cond
			add(x.If, "negate", "if c -> if !(c)", func() { x.Cond = &ast.UnaryExpr{Op: token.NOT, X: &ast.ParenExpr{X: cond}} }, func() { x.Cond = cond })
		case *ast.ForStmt:
			if x.Cond != nil {
				cond := x.Cond
				_ = cond
			}
		case *ast.BasicLit:
			if x.Kind == token.INT {
				v, err := strconv.ParseInt(x.Value, 0, 64)
				if err == nil {
					old := x.Value
					for _, d := range []int64{1, -1} {
						nv := v + d
						if nv < 0 {
							continue
						}
						s := strconv.FormatInt(nv, 10)
						add(x.ValuePos, "int", old+" -> "+s, func() { x.Value = s }, func() { x.Value = old })
					}
				}
			}
			if x.Kind == token.CHAR {
				old := x.Value
				if r, _, _, err := strconv.UnquoteChar(old[1:len(old)-1], '\'') ; err == nil && r > 0 && r < 0x7f {
					s := strconv.QuoteRune(r + 1)
					add(x.ValuePos, "char", old+" -> "+s, func() { x.Value = s }, func() { x.Value = old })
				}
			}
		case *ast.ReturnStmt:
			// return true <-> false
			for _, r := range x.Results {
				if id, ok := r.(*ast.Ident); ok && (id.Name == "true" || id.Name == "false") {
					old := id.Name
					nw := "true"
					if old == "true" {
						nw = "false"
					}
					add(id.NamePos, "bool", old+" -> "+nw, func() { id.Name = nw }, func() { id.Name = old })
				}
			}
		}
		return true
	})
	os.MkdirAll(os.Args[2], 0o755)
	n := 0
	for _, m := range ms {
		m.apply()
		var buf bytes.Buffer
		err := format.Node(&buf, fset, f)
		m.undo()
		if err != nil {
			continue
		}
		if bytes.Equal(buf.Bytes(), src) {
			continue
		}
		os.WriteFile(filepath.Join(os.Args[2], fmt.Sprintf("%d.go", n)), buf.Bytes(), 0o644)
		fmt.Printf("%d\t%d\t%s\t%s\n", n, m.line, m.op, m.detail)
		n++
	}
}
