// Command gsa decides the golibs properties by static analysis of the current
// working tree of the repository.  See /verif/DESIGN.md.
//
//	gsa check C06 --tier quick|thorough
//	gsa explain /verif/out/violations/C06-1.json
//	gsa list
package main

import (
	"encoding/json"
	"fmt"
	"os"
	"runtime/debug"
	"runtime/pprof"
	"strconv"
	"strings"
	"time"

	"verif/sa/core"
	"verif/sa/rules"
)

func main() {
	if len(os.Args) < 2 {
		usage()
	}
	// the loaded program is ~1 GB of live heap: collect less often
	debug.SetGCPercent(400)
	// the exact evaluators allocate fast; keep the collector ahead of them
	debug.SetMemoryLimit(10 << 30)
	debug.SetGCPercent(50)
	if pf := os.Getenv("GSA_PROF"); pf != "" {
		f, err := os.Create(pf)
		if err == nil {
			_ = pprof.StartCPUProfile(f)
			go func() {
				time.Sleep(25 * time.Second)
				pprof.StopCPUProfile()
				f.Close()
				os.Exit(9)
			}()
		}
	}
	switch os.Args[1] {
	case "list":
		for _, id := range rules.IDs() {
			fmt.Println(id)
		}
	case "lincon":
		// debug: gsa lincon <pkg> <func> — print E1's obligations for one entry
		os.Exit(rules.DebugLincon(os.Args[2], os.Args[3]))
	case "linworker":
		i, _ := strconv.Atoi(os.Args[3])
		n, _ := strconv.Atoi(os.Args[4])
		os.Exit(rules.LinWorker(os.Args[2], i, n))
	case "entries":
		os.Exit(rules.DebugEntries())
	case "manifest":
		os.Exit(manifest())
	case "vocab":
		os.Exit(rules.Vocab())
	case "idents":
		os.Exit(rules.Idents())
	case "ssa":
		// debug: gsa ssa <pkg> <func> — print the normalised SSA of one function
		os.Exit(rules.DumpSSA(os.Args[2], os.Args[3]))
	case "check":
		if len(os.Args) < 3 {
			usage()
		}
		tier := os.Getenv("VERIF_TIER")
		for i := 3; i < len(os.Args); i++ {
			if os.Args[i] == "--tier" && i+1 < len(os.Args) {
				tier = os.Args[i+1]
			}
		}
		if tier == "" {
			tier = "quick"
		}
		os.Exit(check(os.Args[2], tier))
	case "explain":
		if len(os.Args) < 3 {
			usage()
		}
		os.Exit(explain(os.Args[2]))
	default:
		usage()
	}
}

func usage() {
	fmt.Fprintln(os.Stderr, "usage: gsa check <Cxx> [--tier quick|thorough] | gsa explain <violation.json> | gsa list")
	os.Exit(3)
}

type buildCfg struct{ goos, goarch string }

func check(id, tier string) (code int) {
	start := time.Now()
	prop := rules.Get(id)
	if prop == nil {
		fmt.Fprintf(os.Stderr, "gsa: no check for %s\n", id)
		return 3
	}
	seed, _ := strconv.Atoi(os.Getenv("VERIF_SEED"))
	defer func() {
		if r := recover(); r != nil {
			// a crash of the analyser is "cannot analyse", never a pass
			fmt.Fprintf(os.Stderr, "gsa: internal error while checking %s: %v\n%s\n", id, r, debug.Stack())
			code = 3
		}
	}()
	cfgs := []buildCfg{{"", ""}}
	tests := false
	if tier == "thorough" {
		tests = true
		if prop.PerConfig {
			cfgs = []buildCfg{{"linux", "amd64"}, {"linux", "386"}, {"windows", "amd64"}, {"darwin", "arm64"}, {"freebsd", "amd64"}, {"openbsd", "amd64"}}
		}
	}
	l := core.NewLedger(id)
	var names []string
	pkgs := 0
	for _, bc := range cfgs {
		p, err := core.Load(core.LoadOpts{GOOS: bc.goos, GOARCH: bc.goarch, Tests: tests})
		if err != nil {
			fmt.Fprintf(os.Stderr, "gsa: cannot analyse %s (%s/%s): %v\n", core.RepoRoot(), bc.goos, bc.goarch, err)
			return 3
		}
		l.Config = p.Config()
		names = append(names, p.Config())
		pkgs = p.NumPackages()
		func() {
			// a rule that cannot cope with the shape of the code is "undecided", not a pass
			defer func() {
				if r := recover(); r != nil {
					fmt.Fprintf(os.Stderr, "gsa: a rule of %s panicked: %v\n%s\n", id, r, debug.Stack())
					l.Record(core.Undecided, id+".internal", "-", "rule evaluation", "-", fmt.Sprintf("the analyser could not evaluate a rule on this tree (%v); nothing is concluded from it", r))
				}
			}()
			prop.Run(&rules.Ctx{P: p, L: l, Tier: tier})
		}()
		p = nil
		debug.FreeOSMemory()
	}
	write := os.Getenv("GSA_REPO") == "" || os.Getenv("GSA_WRITE_EVIDENCE") == "1"
	return l.Finish(core.FinishOpts{
		Start: start, Tier: tier, Seed: seed, Level: prop.Level, Explanation: prop.Explanation,
		Cmd:      "cd /verif && ./check " + id + " " + tier,
		Packages: pkgs, Configs: names, Exhaustive: prop.Level == "proof", WriteEvidence: write,
		Extra: prop.Extra,
	})
}

// explain re-evaluates the property of a recorded violation on the current
// tree and reports whether that obligation still fails.
func explain(path string) int {
	b, err := os.ReadFile(path)
	if err != nil {
		fmt.Fprintln(os.Stderr, "gsa:", err)
		return 3
	}
	var e core.Entry
	if err := json.Unmarshal(b, &e); err != nil {
		fmt.Fprintln(os.Stderr, "gsa:", err)
		return 3
	}
	fmt.Printf("property  %s\nrule      %s\nfunction  %s\nconstruct %s\nrecorded  %s at %s (%s)\nreason    %s\n", e.Property, e.Rule, e.Func, e.Construct, e.Status, e.Pos, e.Config, e.Reason)
	prop := rules.Get(e.Property)
	if prop == nil {
		return 3
	}
	goos, goarch, tests := "", "", false
	cfg := strings.TrimSuffix(e.Config, "+tests")
	tests = cfg != e.Config
	if parts := strings.Split(cfg, "/"); len(parts) == 2 && parts[0] != "default" {
		goos, goarch = parts[0], parts[1]
	}
	p, err := core.Load(core.LoadOpts{GOOS: goos, GOARCH: goarch, Tests: tests})
	if err != nil {
		fmt.Fprintln(os.Stderr, "gsa: cannot analyse:", err)
		return 3
	}
	l := core.NewLedger(e.Property)
	l.Config = p.Config()
	prop.Run(&rules.Ctx{P: p, L: l, Tier: "quick"})
	for _, x := range l.Entries {
		if x.Key() == e.Key() {
			fmt.Printf("current   %s at %s: %s\n", x.Status, x.Pos, x.Reason)
			if x.Status == core.Violated || x.Status == core.Undecided {
				return 1
			}
			return 0
		}
	}
	fmt.Println("current   the obligation no longer exists on this tree")
	return 0
}

// manifest regenerates /verif/MANIFEST.json from the registry and
// /verif/not_applicable.json, so the two cannot drift apart.
func manifest() int {
	type obj = map[string]any
	var checks []obj
	claimed := map[string]bool{}
	for _, id := range rules.IDs() {
		p := rules.Get(id)
		claimed[id] = true
		checks = append(checks, obj{
			"property_id":         id,
			"quick_cmd":           "./check " + id + " quick",
			"thorough_cmd":        "./check " + id + " thorough",
			"evidence_file":       "/verif/evidence/" + id + ".json",
			"replay_cmd_template": "./bin/gsa explain {path}",
			"engine":              "gsa",
			"technique":           p.Technique,
			"level_claimed":       obj{"category": p.Level, "text": p.Explanation, "design_ref": p.DesignRef},
			"level_note":          p.Note,
		})
	}
	var na []obj
	if b, err := os.ReadFile("/verif/not_applicable.json"); err == nil {
		var all []obj
		if err := json.Unmarshal(b, &all); err != nil {
			fmt.Fprintln(os.Stderr, "gsa: not_applicable.json:", err)
			return 3
		}
		for _, x := range all {
			if !claimed[x["property_id"].(string)] {
				na = append(na, x)
			}
		}
	}
	if na == nil {
		na = []obj{}
	}
	m := obj{
		"version":   1,
		"setup_cmd": "cd /verif/sa && env -u GOTOOLCHAIN -u GOSUMDB GOFLAGS=-mod=mod GOPROXY=off GOWORK=off go build -o ../bin/gsa ./cmd/gsa",
		"hooks": obj{
			"guard":            "verif",
			"enable":           "none: static analysis reads /repo's sources; no instrumentation is compiled in",
			"baseline_off_cmd": "cd /repo && go test -mod=mod -json -vet=off -count=1 -timeout 25m ./...",
			"source_commits":   []string{},
			"add_only":         true,
		},
		"engines": []obj{{
			"name": "gsa", "path": "/verif/sa", "serves_properties": rules.IDs(),
			"kind_free_text": "custom static analyser over go/types + go/ssa (x/tools v0.29.0): dataflow, lockset, typestate, dominance/path rules, linear-constraint abstract interpretation, exact Boolean-function evaluation; never runs golibs code",
		}},
		"checks":         checks,
		"not_applicable": na,
		"notes":          "See /verif/DESIGN.md. Known findings: /verif/KNOWN_FINDINGS.txt. Audited (engine-undecided, read and accepted) sites: /verif/audited.json.",
	}
	b, _ := json.MarshalIndent(m, "", " ")
	if err := os.WriteFile("/verif/MANIFEST.json", append(b, '\n'), 0o644); err != nil {
		fmt.Fprintln(os.Stderr, "gsa:", err)
		return 3
	}
	fmt.Printf("MANIFEST.json: %d checks, %d not applicable\n", len(checks), len(na))
	return 0
}
