package lincon

import (
	"fmt"
	"sort"
	"strconv"
	"strings"
)

// Term is an atomic integer-valued unknown.
type Term int

// Lin is Σ c[t]·t + k.
type Lin struct {
	c map[Term]int64
	k int64
}

func konst(k int64) Lin { return Lin{k: k} }
func tvar(t Term) Lin   { return Lin{c: map[Term]int64{t: 1}} }

func (a Lin) clone() Lin {
	m := make(map[Term]int64, len(a.c))
	for t, c := range a.c {
		m[t] = c
	}
	return Lin{c: m, k: a.k}
}

func (a Lin) add(b Lin) Lin    { return a.addScaled(b, 1) }
func (a Lin) sub(b Lin) Lin    { return a.addScaled(b, -1) }
func (a Lin) addK(k int64) Lin { r := a.clone(); r.k += k; return r }
func (a Lin) scale(s int64) Lin {
	r := Lin{c: map[Term]int64{}, k: a.k * s}
	if s == 0 {
		return r
	}
	for t, c := range a.c {
		r.c[t] = c * s
	}
	return r
}
func (a Lin) addScaled(b Lin, s int64) Lin {
	r := a.clone()
	r.k += b.k * s
	for t, c := range b.c {
		v := r.c[t] + c*s
		if v == 0 {
			delete(r.c, t)
		} else {
			r.c[t] = v
		}
	}
	return r
}
func (a Lin) isConst() bool { return len(a.c) == 0 }
func (a Lin) equal(b Lin) bool {
	d := a.sub(b)
	return d.isConst() && d.k == 0
}
func (a Lin) terms() []Term {
	ts := make([]Term, 0, len(a.c))
	for t := range a.c {
		ts = append(ts, t)
	}
	sort.Slice(ts, func(i, j int) bool { return ts[i] < ts[j] })
	return ts
}

// String is a canonical, cheap rendering used as a map key.
func (a Lin) String() string {
	buf := make([]byte, 0, 16+12*len(a.c))
	for _, t := range a.terms() {
		buf = strconv.AppendInt(buf, a.c[t], 10)
		buf = append(buf, 'x')
		buf = strconv.AppendInt(buf, int64(t), 10)
		buf = append(buf, ' ')
	}
	buf = strconv.AppendInt(buf, a.k, 10)
	return string(buf)
}
func (a Lin) str(names func(Term) string) string {
	var sb strings.Builder
	for i, t := range a.terms() {
		c := a.c[t]
		if i > 0 && c > 0 {
			sb.WriteString("+")
		}
		n := fmt.Sprintf("x%d", t)
		if names != nil {
			n = names(t)
		}
		switch c {
		case 1:
			sb.WriteString(n)
		case -1:
			sb.WriteString("-" + n)
		default:
			fmt.Fprintf(&sb, "%d*%s", c, n)
		}
	}
	if a.k != 0 || len(a.c) == 0 {
		if a.k >= 0 && len(a.c) > 0 {
			sb.WriteString("+")
		}
		fmt.Fprintf(&sb, "%d", a.k)
	}
	return sb.String()
}

// Con is l <= 0, or l == 0 when eq.
type Con struct {
	l  Lin
	eq bool
}

func gcd(a, b int64) int64 {
	if a < 0 {
		a = -a
	}
	if b < 0 {
		b = -b
	}
	for b != 0 {
		a, b = b, a%b
	}
	return a
}

func floorDiv(a, b int64) int64 { // b > 0
	q := a / b
	if (a%b != 0) && (a < 0) {
		q--
	}
	return q
}
func ceilDiv(a, b int64) int64 { return -floorDiv(-a, b) }

// norm normalises an inequality by the gcd of its coefficients with integer
// tightening.  Returns (con, trivially true, trivially false).
func (c Con) norm() (Con, bool, bool) {
	if len(c.l.c) == 0 {
		if c.eq {
			return c, c.l.k == 0, c.l.k != 0
		}
		return c, c.l.k <= 0, c.l.k > 0
	}
	var g int64
	for _, v := range c.l.c {
		g = gcd(g, v)
	}
	if g > 1 {
		r := Lin{c: map[Term]int64{}}
		for t, v := range c.l.c {
			r.c[t] = v / g
		}
		if c.eq {
			if c.l.k%g != 0 {
				return c, false, true
			}
			r.k = c.l.k / g
		} else {
			r.k = ceilDiv(c.l.k, g)
		}
		return Con{l: r, eq: c.eq}, false, false
	}
	return c, false, false
}

func (c Con) key() string {
	p := "<="
	if c.eq {
		p = "=="
	}
	return c.l.String() + p
}

const fmCap = 4000

// feasible reports whether the conjunction may have a (rational, after integer
// tightening) solution.  It is conservative: "true" when unsure.
func feasible(cons []Con) bool {
	if len(cons) <= 3 {
		return feasibleComp(cons)
	}
	// split into connected components (by shared terms): Fourier-Motzkin is
	// superlinear, independent parts are checked separately
	parent := make([]int, len(cons))
	for i := range parent {
		parent[i] = i
	}
	var find func(i int) int
	find = func(i int) int {
		for parent[i] != i {
			parent[i] = parent[parent[i]]
			i = parent[i]
		}
		return i
	}
	owner := map[Term]int{}
	for i, c := range cons {
		for t := range c.l.c {
			if j, ok := owner[t]; ok {
				parent[find(i)] = find(j)
			} else {
				owner[t] = i
			}
		}
	}
	groups := map[int][]Con{}
	for i, c := range cons {
		if len(c.l.c) == 0 {
			if _, _, bad := c.norm(); bad {
				return false
			}
			continue
		}
		r := find(i)
		groups[r] = append(groups[r], c)
	}
	for _, g := range groups {
		if !feasibleComp(g) {
			return false
		}
	}
	return true
}

func (a Lin) hash() uint64 {
	h := uint64(1469598103934665603)
	mix := func(x uint64) {
		h ^= x
		h *= 1099511628211
	}
	for _, t := range a.terms() {
		mix(uint64(t))
		mix(uint64(a.c[t]))
	}
	mix(uint64(a.k))
	return h
}

func feasibleComp(cons []Con) bool {
	// work on a copy, expand equalities by substitution first
	work := make([]Con, 0, len(cons))
	for _, c := range cons {
		n, triv, bad := c.norm()
		if bad {
			return false
		}
		if !triv {
			work = append(work, n)
		}
	}
	// substitution of equalities with a unit coefficient
	for {
		idx := -1
		var vt Term
		for i, c := range work {
			if !c.eq {
				continue
			}
			for t, v := range c.l.c {
				if v == 1 || v == -1 {
					idx, vt = i, t
					break
				}
			}
			if idx >= 0 {
				break
			}
		}
		if idx < 0 {
			break
		}
		e := work[idx]
		coef := e.l.c[vt]
		// vt = -(rest)/coef  ; with coef = ±1: vt = -coef*rest
		rest := e.l.clone()
		delete(rest.c, vt)
		sub := rest.scale(-coef) // vt == sub
		nw := make([]Con, 0, len(work))
		for i, c := range work {
			if i == idx {
				continue
			}
			if v, ok := c.l.c[vt]; ok {
				l := c.l.clone()
				delete(l.c, vt)
				l = l.addScaled(sub, v)
				c = Con{l: l, eq: c.eq}
			}
			n, triv, bad := c.norm()
			if bad {
				return false
			}
			if !triv {
				nw = append(nw, n)
			}
		}
		work = nw
	}
	// remaining equalities -> two inequalities
	var ineq []Lin
	for _, c := range work {
		if c.eq {
			ineq = append(ineq, c.l, c.l.scale(-1))
		} else {
			ineq = append(ineq, c.l)
		}
	}
	for {
		// dedupe
		seen := map[string]bool{}
		out := ineq[:0]
		for _, l := range ineq {
			n, triv, bad := Con{l: l}.norm()
			if bad {
				return false
			}
			if triv {
				continue
			}
			k := n.l.String()
			if seen[k] {
				continue
			}
			seen[k] = true
			out = append(out, n.l)
		}
		ineq = out
		// choose variable
		pos := map[Term]int{}
		neg := map[Term]int{}
		for _, l := range ineq {
			for t, v := range l.c {
				if v > 0 {
					pos[t]++
				} else {
					neg[t]++
				}
			}
		}
		if len(pos) == 0 && len(neg) == 0 {
			return true
		}
		best := Term(-1)
		bestCost := int(^uint(0) >> 1)
		for t := range union(pos, neg) {
			cost := pos[t]*neg[t] - pos[t] - neg[t]
			if cost < bestCost || (cost == bestCost && t < best) {
				best, bestCost = t, cost
			}
		}
		var ps, ns, rest []Lin
		for _, l := range ineq {
			v := l.c[best]
			switch {
			case v > 0:
				ps = append(ps, l)
			case v < 0:
				ns = append(ns, l)
			default:
				rest = append(rest, l)
			}
		}
		if len(ps)*len(ns)+len(rest) > fmCap {
			return true // give up: unknown
		}
		for _, p := range ps {
			for _, n := range ns {
				a, b := p.c[best], -n.c[best]
				g := gcd(a, b)
				comb := p.scale(b/g).addScaled(n, a/g)
				delete(comb.c, best)
				rest = append(rest, comb)
			}
		}
		ineq = rest
	}
}

func union(a, b map[Term]int) map[Term]bool {
	m := map[Term]bool{}
	for t := range a {
		m[t] = true
	}
	for t := range b {
		m[t] = true
	}
	return m
}

// relevant returns the constraints connected (transitively, by shared terms)
// to the goal.
func relevant(cons []Con, goal Lin) []Con {
	seen := map[Term]bool{}
	for t := range goal.c {
		seen[t] = true
	}
	used := make([]bool, len(cons))
	for changed := true; changed; {
		changed = false
		for i, c := range cons {
			if used[i] {
				continue
			}
			hit := false
			for t := range c.l.c {
				if seen[t] {
					hit = true
					break
				}
			}
			if hit {
				used[i] = true
				changed = true
				for t := range c.l.c {
					seen[t] = true
				}
			}
		}
	}
	var out []Con
	for i, c := range cons {
		if used[i] || len(c.l.c) == 0 {
			out = append(out, c)
		}
	}
	return out
}

// entailsLE reports whether cons ⊨ g <= 0 (over the integers).
func entailsLE(cons []Con, g Lin) bool {
	if g.isConst() {
		return g.k <= 0
	}
	neg := g.scale(-1).addK(1) // g >= 1  <=>  -g+1 <= 0
	rel := relevant(cons, g)
	sys := append(append([]Con{}, rel...), Con{l: neg})
	// lengths are non-negative by construction, whatever the joins kept
	seen := map[Term]bool{}
	for _, c := range sys {
		for t := range c.l.c {
			if nonneg[t] && !seen[t] {
				seen[t] = true
				sys = append(sys, Con{l: tvar(t).scale(-1)})
			}
		}
	}
	return !feasible(sys)
}

// nonneg marks the terms that denote lengths (always >= 0).
var nonneg = map[Term]bool{}

func entailsEQ(cons []Con, g Lin) bool {
	return entailsLE(cons, g) && entailsLE(cons, g.scale(-1))
}
